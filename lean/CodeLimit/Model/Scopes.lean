import CodeLimit.Model.Lex
/-!
# Model of `scope_utils.py`, `token_utils.py`, `TokenRange.py`, `Scope.py`, `Header.py`,
`languages/*.py` and `Scanner.scan_file`

Objects are replaced by values: a `Header` is (name token, start, end), a `TokenRange` is
(start, end), the scope tree built by `fold_scopes` is represented by the parent index of
every scope (the tree is only ever read through `scope.children` and flattened again in
insertion order by `unfold_scopes`).
-/
namespace CL

structure Range where
  s : Nat
  e : Nat
  deriving Repr, DecidableEq, Inhabited

def Range.lt (a b : Range) : Bool := a.s < b.s
def Range.gt (a b : Range) : Bool := b.lt a
def Range.contains (a b : Range) : Bool := a.s < b.s && a.e > b.e
/-- `TokenRange.overlaps` -/
def Range.overlaps (a b : Range) : Bool :=
  (a.s ≤ b.s && b.s ≤ a.e) || (a.s ≤ b.e && b.e ≤ a.e)

structure Header where
  name : Tok
  rng  : Range
  deriving Repr, DecidableEq, Inhabited

structure Scope where
  hdr : Header
  blk : Range
  deriving Repr, DecidableEq, Inhabited

/-- `Scope.contains` -/
def Scope.contains (a b : Scope) : Bool := a.hdr.rng.s < b.hdr.rng.s && a.blk.e ≥ b.blk.e

/-- sort key `(line, column)` of the token at index `i` -/
def posKey (toks : List Tok) (i : Nat) : Except Err (Nat × Nat) :=
  match toks[i]? with
  | some t => .ok (t.line, t.col)
  | none => .error .index

def keyLe (a b : Nat × Nat) : Bool := a.1 < b.1 || (a.1 == b.1 && a.2 ≤ b.2)

/-- attach the sort key to every element (raising `IndexError` like the key function) -/
def withKeys {γ : Type} (toks : List Tok) (start : γ → Nat) : List γ → Except Err (List ((Nat × Nat) × γ))
  | [] => .ok []
  | x :: xs => match posKey toks (start x), withKeys toks start xs with
    | .ok k, .ok r => .ok ((k, x) :: r)
    | .error e, _ => .error e
    | _, .error e => .error e

/-- `sorted(xs, key=...)` (stable, ascending) -/
def sortAsc {γ : Type} (toks : List Tok) (start : γ → Nat) (xs : List γ) : Except Err (List γ) :=
  match withKeys toks start xs with
  | .error e => .error e
  | .ok ks => .ok ((ks.mergeSort (fun a b => keyLe a.1 b.1)).map (·.2))

/-- `sorted(xs, key=..., reverse=True)` (descending, equal keys keep their original order) -/
def sortDesc {γ : Type} (toks : List Tok) (start : γ → Nat) (xs : List γ) : Except Err (List γ) :=
  match withKeys toks start xs with
  | .error e => .error e
  | .ok ks => .ok ((ks.mergeSort (fun a b => keyLe b.1 a.1)).map (·.2))

/-! ## headers -/

structure HeaderPat where
  expr   : Rx Pred
  follow : Option (Rx Pred)
  deriving Repr, Inhabited

structure Language where
  pats    : List HeaderPat
  python  : Bool            -- indentation blocks (Python) instead of brace blocks
  nested  : Bool            -- `allow_nested_functions`
  prevKw  : Option Pred     -- Java `filter_headers`: drop a header preceded by such a token
  deriving Repr, Inhabited

def compileTok (r : Rx Pred) : Except Err (Dfa Pred) :=
  match nfaToDfa (compile r 1) id with
  | some D => .ok D
  | none => .error .fuel

def firstName : List Tok → Except Err Tok
  | [] => .error .stopIteration
  | t :: ts => if t.isName then .ok t else firstName ts

def namesOf : List (Match Tok) → Except Err (List Header)
  | [] => .ok []
  | m :: ms => match firstName m.toks, namesOf ms with
    | .ok n, .ok r => .ok (⟨n, ⟨m.s, m.e⟩⟩ :: r)
    | .error e, _ => .error e
    | _, .error e => .error e

def filterFollow (F : Machine Tok (DState × Depths)) (toks : List Tok) :
    List (Match Tok) → Except Err (List (Match Tok))
  | [] => .ok []
  | m :: ms => match startsWithM F F.init (toks.drop m.e) 0, filterFollow F toks ms with
    | .ok (some _), .ok r => .ok (m :: r)
    | .ok none, .ok r => .ok r
    | .error e, _ => .error e
    | _, .error e => .error e

/-- `get_headers(tokens, expression, followed_by)` -/
def getHeaders (hp : HeaderPat) (toks : List Tok) : Except Err (List Header) := do
  let D ← compileTok hp.expr
  let ms ← findAll (dfaMachine D tokAcceptor) toks
  let ms' ← match hp.follow with
    | none => pure ms
    | some f => do
      let F ← compileTok f
      filterFollow (dfaMachine F tokAcceptor) toks ms
  namesOf ms'

def concatHeaders (toks : List Tok) : List HeaderPat → Except Err (List Header)
  | [] => .ok []
  | hp :: hps => match getHeaders hp toks, concatHeaders toks hps with
    | .ok a, .ok b => .ok (a ++ b)
    | .error e, _ => .error e
    | _, .error e => .error e

/-- `Language.extract_headers` -/
def extractHeaders (L : Language) (toks : List Tok) : Except Err (List Header) :=
  match concatHeaders toks L.pats with
  | .error e => .error e
  | .ok hs =>
    match L.prevKw with
    | none => .ok hs
    | some kw => .ok (hs.filter (fun h =>
        !(h.rng.s > 0 && (match toks[h.rng.s - 1]? with | some t => kw.eval t | none => false))))

/-! ## blocks -/

/-- `get_balanced_symbol_token_indices(tokens, open, close, extract_nested=True)` -/
def balancedPairs (op cl : Str) : List Tok → Nat → List Nat → List (Nat × Nat)
  | [], _, _ => []
  | t :: ts, i, stack =>
    if t.isSymbol op then balancedPairs op cl ts (i + 1) (i :: stack)
    else if t.isSymbol cl then
      match stack with
      | [] => balancedPairs op cl ts (i + 1) []
      | s :: st => (s, i) :: balancedPairs op cl ts (i + 1) st
    else balancedPairs op cl ts (i + 1) stack

/-- `get_blocks(tokens, "{", "}")` -/
def getBlocks (toks : List Tok) : Except Err (List Range) :=
  sortAsc toks Range.s ((balancedPairs [123] [125] toks 0 []).map (fun p => ⟨p.1, p.2 + 1⟩))

/-! ### Python blocks (`languages/Python.py`) - lines are lists of token indices -/

def endsWithContinuation (v : Str) : Bool := [92, 10].isSuffixOf v

structure LineSt where
  done : List (List Nat)   -- finished lines, latest first
  cur  : List Nat          -- current line, latest first
  cont : Bool
  lineNr : Nat

/-- one iteration of the loop of `_get_token_lines` (token index `i`, token `t`) -/
def tokenLinesStep (st : LineSt) (i : Nat) (t : Tok) : LineSt :=
  if st.cur.isEmpty then { st with cur := [i], lineNr := t.line }
  else
    let st1 : LineSt := if st.cont then { st with cur := i :: st.cur, lineNr := t.line, cont := false } else st
    if t.line == st1.lineNr then
      { st1 with cur := i :: st1.cur,
                 cont := st1.cont || endsWithContinuation t.val || (t.isString && [10].isSuffixOf t.val) }
    else
      { st1 with done := st1.cur.reverse :: st1.done, cur := [i], lineNr := t.line }

def tokenLines (toks : List Tok) : List (List Nat) :=
  let st := toks.zipIdx.foldl (fun st (t, i) => tokenLinesStep st i t) ⟨[], [], false, 0⟩
  (if st.cur.isEmpty then st.done else st.cur.reverse :: st.done).reverse

def lineHead (toks : List Tok) (line : List Nat) : Except Err Tok :=
  match line with
  | [] => .error .index
  | i :: _ => getE toks i

/-- `_get_line_indentation` -/
def lineIndentation (toks : List Tok) (lines : List (List Nat)) (i : Nat) : Except Err Nat :=
  match lines.find? (fun l => l.contains i) with
  | some l => do let t ← lineHead toks l; pure t.col
  | none => do let t ← getE toks i; pure t.col

/-- the inner `for idx, line in enumerate(lines[::-1])` loop; `rev` = lines reversed, paired
with their indices -/
def blockLineIndices (toks : List Tok) (hdrLine hdrInd : Nat) :
    List (List Nat × Nat) → List Nat → Except Err (List Nat)
  | [], acc => .ok acc
  | (l, li) :: rest, acc =>
    match lineHead toks l with
    | .error e => .error e
    | .ok t =>
      if t.line ≤ hdrLine then .ok acc
      else if t.col > hdrInd then blockLineIndices toks hdrLine hdrInd rest (acc ++ [li])
      else blockLineIndices toks hdrLine hdrInd rest []

/-- `tokens.index(x)` with `Token.__eq__` (location, type, value) -/
def tokIndex (toks : List Tok) (x : Tok) : Except Err Nat :=
  match toks.findIdx? (fun t => t.line == x.line && t.col == x.col && t.ty == x.ty && t.val == x.val) with
  | some i => .ok i
  | none => .error .notFound

def pyBlockOf (toks : List Tok) (lines : List (List Nat)) (h : Header) : Except Err (Option Range) := do
  if h.rng.e ≥ toks.length then return none
  let after ← getE toks h.rng.e
  let first ← getE toks h.rng.s
  let ind ← lineIndentation toks lines h.rng.s
  let _ := first
  let idxs ← blockLineIndices toks after.line ind (lines.zipIdx.reverse) []
  if idxs.isEmpty then return none
  let scopeIdx := idxs.reverse.flatMap (fun li => (lines[li]?).getD [])
  match scopeIdx.head?, scopeIdx.getLast? with
  | some a, some b => do
    let ta ← getE toks a
    let tb ← getE toks b
    let s ← tokIndex toks ta
    let e ← tokIndex toks tb
    return some ⟨s, e + 1⟩
  | _, _ => .error .index

def pyBlocksRev (toks : List Tok) (lines : List (List Nat)) : List Header → Except Err (List Range)
  | [] => .ok []
  | h :: hs => match pyBlockOf toks lines h, pyBlocksRev toks lines hs with
    | .ok (some r), .ok rs => .ok (r :: rs)
    | .ok none, .ok rs => .ok rs
    | .error e, _ => .error e
    | _, .error e => .error e

/-- `Python.extract_blocks` (headers are visited last to first; the result is reversed back) -/
def pyBlocks (toks : List Tok) (hs : List Header) : Except Err (List Range) :=
  match pyBlocksRev toks (tokenLines toks) hs.reverse with
  | .error e => .error e
  | .ok rs => .ok rs.reverse

def extractBlocks (L : Language) (toks : List Tok) (hs : List Header) : Except Err (List Range) :=
  if L.python then pyBlocks toks hs else getBlocks toks

/-! ## scopes -/

/-- `_get_nearest_block`; `rev` = blocks reversed -/
def nearestBlock (h : Range) : List Range → Option Range → Option Range
  | [], res => res
  | b :: rest, res =>
    if b.contains h then (match res with | none => some b | some r => some r)
    else if b.s ≥ h.e then nearestBlock h rest (some b)
    else if b.lt h then res
    else nearestBlock h rest res

/-- `_find_scope_blocks_indices` -/
def scopeBlockIndices (h : Range) (blocks : List Range) : List Nat :=
  match nearestBlock h blocks.reverse none with
  | none => []
  | some body =>
    if body.contains h then
      (blocks.zipIdx.filter (fun (b, _) => body.contains b && b.s ≥ h.e)).map (·.2)
    else
      (blocks.zipIdx.filter (fun (b, _) => body.overlaps b && !b.lt body)).map (·.2)

def minList : List Nat → Except Err Nat
  | [] => .error .emptyMinMax
  | x :: xs => .ok (xs.foldl min x)

def maxList : List Nat → Except Err Nat
  | [] => .error .emptyMinMax
  | x :: xs => .ok (xs.foldl max x)

/-- the loop of `_build_scopes_from_headers_and_blocks` over the reversed headers -/
def buildScopesLoop : List Header → List Range → Except Err (List Scope)
  | [], _ => .ok []
  | h :: hs, blocks =>
    let idxs := scopeBlockIndices h.rng blocks
    if idxs.isEmpty then buildScopesLoop hs blocks
    else
      let sel := idxs.filterMap (fun i => blocks[i]?)
      match minList (sel.map (·.s)), maxList (sel.map (·.e)), buildScopesLoop hs (deleteIndices blocks idxs) with
      | .ok s, .ok e, .ok r => .ok (⟨h, ⟨s, e⟩⟩ :: r)
      | .error er, _, _ => .error er
      | _, .error er, _ => .error er
      | _, _, .error er => .error er

def buildScopes0 (toks : List Tok) (hs : List Header) (blocks : List Range) : Except Err (List Scope) :=
  match sortDesc toks (fun h : Header => h.rng.s) hs with
  | .error e => .error e
  | .ok rh => match buildScopesLoop rh blocks with
    | .error e => .error e
    | .ok r => .ok r.reverse

/-- `_filter_nocl_scopes` -/
def filterNocl (scopes : List Scope) (nocl : List Tok) : List Scope :=
  scopes.filter (fun s => !(nocl.map (·.line)).contains s.hdr.name.line)

/-- `filter_scopes_nested_functions` -/
def filterNested : List Scope → Option Scope → List Scope
  | [], _ => []
  | s :: ss, none => s :: filterNested ss (some s)
  | s :: ss, some last => if last.contains s then filterNested ss (some last) else s :: filterNested ss (some s)

/-- the descent `while siblings and siblings[-1].contains(scope)` of `fold_scopes` along the
right-most path `path` (outermost first; entries are (index, scope)) -/
def descend (s : Scope) : List (Nat × Scope) → List (Nat × Scope)
  | [] => []
  | p :: rest => if p.2.contains s then p :: descend s rest else []

/-- `fold_scopes` as parent pointers: result `i ↦ parent index` -/
def foldParents : List Scope → Nat → List (Nat × Scope) → List (Option Nat)
  | [], _, _ => []
  | s :: ss, i, path =>
    let pre := descend s path
    (pre.getLast?.map (·.1)) :: foldParents ss (i + 1) (pre ++ [(i, s)])

/-- scopes paired with the (header start, block end) ranges of their direct children -/
def withChildren (scopes : List Scope) (parents : List (Option Nat)) : List (Scope × List Range) :=
  scopes.zipIdx.map (fun (s, i) =>
    (s, ((scopes.zip parents).filter (fun (_, p) => p == some i)).map (fun (c, _) => ⟨c.hdr.rng.s, c.blk.e⟩)))

/-- `build_scopes` + `unfold_scopes`: the scopes in report order with their children -/
def buildScopes (L : Language) (all : List Tok) : Except Err (List (Scope × List Range)) := do
  let code := filterTokens false all
  let nocl := noclTokens all
  let hs ← extractHeaders L code
  let bs ← extractBlocks L code hs
  let sc ← buildScopes0 code hs bs
  let fl := filterNocl sc nocl
  if L.nested then pure (withChildren fl (foldParents fl 0 []))
  else pure ((filterNested fl none).map (fun s => (s, [])))

/-! ## counting and measurements -/

/-- the loop of `_scope_tokens`: lines of the tokens of `[i, stop)` not inside a child range -/
def scopeLinesLoop (toks : List Tok) : Nat → Nat → List Range → Except Err (List Nat)
  | 0, _, _ => .ok []
  | n + 1, i, ch =>
    let ch' := ch.dropWhile (fun c => i ≥ c.e)
    let keep := match ch' with | [] => true | c :: _ => i < c.s
    match (if keep then (getE toks i).map (fun t => [t.line]) else .ok []), scopeLinesLoop toks n (i + 1) ch' with
    | .ok a, .ok r => .ok (a ++ r)
    | .error e, _ => .error e
    | _, .error e => .error e

/-- `count_lines(scope, tokens)` -/
def countLines (toks : List Tok) (s : Scope) (children : List Range) : Except Err Nat :=
  match sortAsc toks Range.s children with
  | .error e => .error e
  | .ok ch => match scopeLinesLoop toks (s.blk.e - s.hdr.rng.s) s.hdr.rng.s ch with
    | .error e => .error e
    | .ok ls => .ok (countDistinct ls)

structure Measurement where
  name : Str
  sl : Nat
  sc : Nat
  el : Nat
  ec : Nat
  len : Nat
  deriving Repr, DecidableEq

/-- number of `\n` in a string and the length of the text after the last one -/
def lastLineInfo (v : Str) : Nat × Nat :=
  v.foldl (fun (n, k) c => if c = 10 then (n + 1, 0) else (n, k + 1)) (0, 0)

def measure (code : List Tok) (s : Scope) (children : List Range) : Except Err Measurement := do
  let len ← countLines code s children
  let first ← getE code s.hdr.rng.s
  if s.blk.e = 0 then throw .index   -- `code_tokens[-1]` would wrap around in Python; never reached
  let last ← getE code (s.blk.e - 1)
  let info := lastLineInfo last.val
  let (el, ec) := if info.1 = 0 then (last.line, last.col + last.val.length) else (last.line + info.1, info.2 + 1)
  pure ⟨s.hdr.name.val, first.line, first.col, el, ec, len⟩

def measureAll (code : List Tok) : List (Scope × List Range) → Except Err (List Measurement)
  | [] => .ok []
  | (s, ch) :: rest => match measure code s ch, measureAll code rest with
    | .ok m, .ok r => .ok (m :: r)
    | .error e, _ => .error e
    | _, .error e => .error e

/-- `Scanner.scan_file(tokens, language)`; `all` = the output of `lex(lexer, code, False)` -/
def scanFile (L : Language) (all : List Tok) : Except Err (List Measurement) :=
  match buildScopes L all with
  | .error e => .error e
  | .ok scs => measureAll (filterTokens false all) scs

/-- `_analyze_file`: measurements and the file's line total -/
def analyze (L : Language) (code : Str) (raw : List RawTok) : Except Err (List Measurement × Nat) :=
  match scanFile L (lex code raw false) with
  | .error e => .error e
  | .ok ms => .ok (ms, (ms.map (·.len)).foldl (· + ·) 0)

end CL
