import CodeLimit.Model.Pipeline
import CodeLimit.Model.CacheDoc
/-!
# The CLI entry functions of `codelimit/__main__.py` and the assembly of the configuration

`scan`, `check`, `report`, `findings` (not `badge`) as STATE TRANSFORMERS on

* the PROCESS-LEVEL configuration `Proc`: the three class attributes of
  `common/Configuration.py: Configuration` (`exclude`, `verbose`, `repository`).  They are class
  attributes, so there is ONE list `exclude` per interpreter; `--exclude` and every
  `Configuration.load` EXTEND it (`Configuration.exclude.extend(...)`), nothing ever resets it;
* the file system: the tree `fs` (`Sel.Node` from `/`, holding `.codelimit.yml`, `.gitignore` and the
  sources) and, separately, the content of `<dir>/.codelimit_cache/codelimit.json` for every
  directory (`cache`; that file lies in a hidden directory, is never walked, and is the only file
  the four commands write - as in `Model/Pipeline.lean`, where it is the argument `prev`).

```
def scan(path, exclude, verbose):                       def check(paths, exclude, quiet, verbose):
    if exclude: Configuration.exclude.extend(exclude)       if exclude: Configuration.exclude.extend(exclude)
    if verbose: Configuration.verbose = True                if verbose: Configuration.verbose = True
    Configuration.load(path)                                Configuration.load(Path('.'))
    setup_logging()                                         setup_logging()
    configure_github_repository(path)                       check_command(paths, quiet)
    scan_command(path)
def report(path, diff, fmt):                            def findings(path, full, fmt):
    Configuration.load(path)                                Configuration.load(path)
    report_command(path, fmt, diff)                         findings_command(path, full, fmt)
```

Paths are absolute component lists (the operating system resolves a relative `path` against the
working directory; the model has no `..` and no symbolic links, as `Model/Select.lean`).  Only
`check` depends on the working directory itself: it loads `./.codelimit.yml` and builds its spec from
`Path.cwd()`.

Parameters (`Sys`): the libraries of `Model/Pipeline.lean` (`Env`), `str.splitlines`, and
`yaml.load(f, FullLoader)` as far as `Configuration.load` looks at the document (`ConfigDoc`).
Per call: what `configure_github_repository` finds (`detected`), `uuid4()` and the clock.

What a call returns is data: the lines handed to `PathSpec.from_lines`, the flags in force, and
the result of the command model of `Model/Pipeline.lean` / `Model/CacheDoc.lean` (`none` where those
models have no answer: an exclusion line outside the six classes of `Spec/Gitignore.lean`, or a
root that is not a directory of the tree).
-/
namespace CL.Entry

open CL CL.Sel

/-! ## the process-level configuration -/

/-- the class attributes of `Configuration` (one set per interpreter) -/
structure Proc where
  /-- `Configuration.exclude: list[str] = []` -/
  exclude : List Str
  /-- `Configuration.verbose = False` -/
  verbose : Bool
  /-- `Configuration.repository: GithubRepository | None = None` -/
  repository : Option Json.Repo
  deriving Repr, DecidableEq, Inhabited

/-- a fresh interpreter -/
def Proc.fresh : Proc := ⟨[], false, none⟩

/-- **`d = yaml.load(f, Loader=FullLoader)` as `Configuration.load` sees it**
(`if "exclude" in d: cls.exclude.extend(d["exclude"])`, `if "verbose" in d: cls.verbose = d["verbose"]`):
* `mapping ex vb` - a mapping; `ex = some l`: it has the key `exclude` and iterating `d["exclude"]`
  yields the strings `l` (a list of strings; a plain string yields its characters); `vb = some b`:
  it has the key `verbose` with the truth value `b`;
* `inert` - not a mapping, and both `in` tests are false: a string that contains neither word, a
  list without these two items.  `load` changes nothing;
* `raises` - `load` raises before it changes anything: the document is empty or only comments
  (`d is None`: `TypeError: argument of type 'NoneType' is not iterable`), a number or a boolean,
  a string / list that contains one of the words (`d["exclude"]`: `TypeError`), a mapping whose
  `exclude` is not iterable (`exclude:` without value, `exclude: 5`), or not YAML at all
  (`yaml.YAMLError`). -/
inductive ConfigDoc where
  | mapping (exclude : Option (List Str)) (verbose : Option Bool)
  | inert
  | raises
  deriving Repr, DecidableEq, Inhabited

/-- libraries and operating system, the same for every call -/
structure Sys where
  /-- Pygments, `_read_file`, MD5, `Report.VERSION` -/
  env : Pipeline.Env
  /-- `Path.read_text().splitlines()` of a `.gitignore` -/
  lines : Str → List Str
  /-- `yaml.load` of the text of a `.codelimit.yml` -/
  yaml : Str → ConfigDoc

/-- everything an entry function reads or writes -/
structure State where
  proc : Proc
  /-- the directory tree from `/` (never written by the four commands) -/
  fs : Node
  /-- the text of `<dir>/.codelimit_cache/codelimit.json` (`none`: no such file) -/
  cache : List Str → Option Str

def gitignoreName : Str := Gi.str ".gitignore"
def configName : Str := Gi.str ".codelimit.yml"

/-- the text of the regular file `name` in the directory `dir`, if there is one -/
def fileAt (fs : Node) (dir : List Str) (name : Str) : Option Str :=
  match getNode fs (dir ++ [name]) with
  | some (.file _ c) => some c
  | _ => none

/-! ## `Configuration.load`, the options, `generate_exclude_spec` -/

/-- `if exclude: Configuration.exclude.extend(exclude)`, `if verbose: Configuration.verbose = True`
(`None` and `[]` are both false) -/
def addOptions (p : Proc) (excludeOpt : Option (List Str)) (verbose : Bool) : Proc :=
  { p with exclude := p.exclude ++ excludeOpt.getD [], verbose := p.verbose || verbose }

/-- **`Configuration.load(dir)`**; `none`: an exception escapes (and nothing was changed).
No file `dir/.codelimit.yml`: `return`. -/
def load (S : Sys) (fs : Node) (dir : List Str) (p : Proc) : Option Proc :=
  match fileAt fs dir configName with
  | none => some p
  | some text =>
    match S.yaml text with
    | .raises => none
    | .inert => some p
    | .mapping ex vb => some { p with exclude := p.exclude ++ ex.getD [], verbose := vb.getD p.verbose }

/-- `Scanner._read_gitignore(dir)` -/
def gitignoreAt (S : Sys) (fs : Node) (dir : List Str) : Option (List Str) :=
  (fileAt fs dir gitignoreName).map S.lines

/-- **the lines `generate_exclude_spec(dir)` hands to `PathSpec.from_lines`** when the process
configuration is `p`: `DEFAULT_EXCLUDES`, then `Configuration.exclude`, then `dir/.gitignore` -/
def specLines (S : Sys) (fs : Node) (p : Proc) (dir : List Str) : List Str :=
  Pipeline.excludeLines p.exclude (gitignoreAt S fs dir)

/-- ... and those after the built-in ones as patterns of the modelled classes -/
def specPats (S : Sys) (fs : Node) (p : Proc) (dir : List Str) : Option (List Gi.Pat) :=
  Pipeline.userPats p.exclude (gitignoreAt S fs dir)

/-- `str(path.resolve().absolute())` of the directory with these components -/
def rootStr (root : List Str) : Str := 47 :: joinPath root

def setCache (cache : List Str → Option Str) (dir : List Str) (text : Str) : List Str → Option Str :=
  fun d => if d = dir then some text else cache d

/-! ## `scan` -/

structure ScanCall where
  /-- the lines handed to `PathSpec.from_lines` by `generate_exclude_spec(path)` -/
  lines : List Str
  /-- `Configuration.verbose` as `setup_logging` and `scan_codebase` read it -/
  verbose : Bool
  /-- `Configuration.repository` as `Report(codebase, Configuration.repository)` reads it -/
  repository : Option Json.Repo
  /-- `scan_command(path)`: the report and the text written to the cache file, or the exception -/
  result : Option (Except Err (Json.ReportData × Str))

/-- **`__main__.scan(path, exclude, verbose)`**.  `detected`: the repository
`configure_github_repository(path)` finds (`none`: it returns without assigning, the attribute
keeps its value).  Second component `none`: `Configuration.load` raised - the option values
have already been stored. -/
def entryScan (S : Sys) (st : State) (root : List Str) (excludeOpt : Option (List Str)) (verbose : Bool)
    (detected : Option Json.Repo) (uuid now : Str) : State × Option ScanCall :=
  let p1 := addOptions st.proc excludeOpt verbose
  match load S st.fs root p1 with
  | none => ({ st with proc := p1 }, none)
  | some p2 =>
    let p3 : Proc := { p2 with repository := match detected with | some r => some r | none => p2.repository }
    let result :=
      match specPats S st.fs p3 root, getNode st.fs root with
      | some pats, some (.dir n ch) =>
        some (Pipeline.scan S.env ⟨pats, rootStr root, uuid, now, p3.repository⟩ (.dir n ch) (st.cache root))
      | _, _ => none
    let cache' := match result with
      | some (.ok (_, text)) => setCache st.cache root text
      | _ => st.cache
    ({ st with proc := p3, cache := cache' }, some ⟨specLines S st.fs p3 root, p3.verbose, p3.repository, result⟩)

/-! ## `check` -/

structure CheckCall where
  /-- the lines handed to `PathSpec.from_lines` by `generate_exclude_spec(Path.cwd())` -/
  lines : List Str
  verbose : Bool
  /-- the second argument of `check_command` -/
  quiet : Bool
  /-- `check_command(paths, quiet)`: file list, exit status, what is printed -/
  result : Option (Except Err Pipeline.CheckOut)

/-- **`__main__.check(paths, exclude, quiet, verbose)`** run in the working directory `cwd` -/
def entryCheck (S : Sys) (st : State) (cwd : List Str) (args : List CheckArg) (excludeOpt : Option (List Str))
    (quiet verbose : Bool) : State × Option CheckCall :=
  let p1 := addOptions st.proc excludeOpt verbose
  match load S st.fs cwd p1 with
  | none => ({ st with proc := p1 }, none)
  | some p2 =>
    ({ st with proc := p2 },
     some ⟨specLines S st.fs p2 cwd, p2.verbose, quiet,
       (specPats S st.fs p2 cwd).map fun pats => Pipeline.check S.env pats st.fs cwd args quiet⟩)

/-! ## `report`, `findings` -/

/-- `ReportFormat` -/
inductive Fmt where
  | text
  | markdown
  deriving Repr, DecidableEq, Inhabited

/-- what `report_command` / `findings_command` do after `read_report` -/
inductive Display where
  /-- "No cached report found, run scan first", `typer.Exit(code=1)` -/
  | noReport
  /-- "Report version mismatch, run scan first", `typer.Exit(code=1)` -/
  | mismatch
  /-- an exception of `json.loads` / `ReportReader` escapes (a damaged file) -/
  | raises (e : Json.ReadErr)
  /-- the report (and the one to compare with) is handed to `print_report` / `print_findings` -/
  | shown (r : Json.UReport) (diff : Option Json.UReport)
  deriving Repr, Inhabited

/-- `utils.read_report` with the codebase model for `add_file` / `aggregate` -/
def readReport (cur : Str) (file : Option Str) : Json.ReadDocResult :=
  Json.readReportDoc cur Json.buildOkModel file

/-- **`report_command(path, fmt, diff)`** up to printing: `read_report(make_report_path(path))`,
then `read_report(diff_path) if diff_path else None`.  `diff = none`: no `--diff`;
`some f`: the file it names (`f = none`: no such file). -/
def reportCommand (cur : Str) (main : Option Str) (diff : Option (Option Str)) : Display :=
  match readReport cur main with
  | .noReport => .noReport
  | .mismatch => .mismatch
  | .raises e => .raises e
  | .shown r =>
    match diff with
    | none => .shown r none
    | some f =>
      match readReport cur f with
      | .noReport => .noReport
      | .mismatch => .mismatch
      | .raises e => .raises e
      | .shown r' => .shown r (some r')

/-- **`findings_command(path, full, fmt)`** up to printing -/
def findingsCommand (cur : Str) (main : Option Str) : Display := reportCommand cur main none

/-- the process exit status: `typer.Exit(code=1)` for the two messages, a normal return (0) after
printing; an escaping exception has none (`python -m codelimit` turns it into a traceback and 1) -/
def Display.exit : Display → Option Nat
  | .noReport => some 1
  | .mismatch => some 1
  | .raises _ => none
  | .shown _ _ => some 0

/-- the first line a call prints -/
inductive Headline where
  /-- `No cached report found, run scan first` -/
  | noReportMsg
  /-- `Report version mismatch, run scan first` -/
  | mismatchMsg
  /-- `Overview`, centred (`format_text.print_totals_header`) -/
  | overviewText
  /-- `### Overview` (`format_markdown.print_totals`) -/
  | overviewMarkdown
  /-- the header row of the findings table; with a repository the columns differ -/
  | findingsTable (withRepository : Bool)
  /-- text findings: the first finding if there is one, else nothing -/
  | findingsRows
  /-- nothing: an exception escapes -/
  | nothing
  deriving Repr, DecidableEq, Inhabited

/-- the text of the first line, where it does not depend on the report's content (blanks around
the centred title left out) -/
def Headline.text : Headline → Option Str
  | .noReportMsg => some (Gi.str "No cached report found, run scan first")
  | .mismatchMsg => some (Gi.str "Report version mismatch, run scan first")
  | .overviewText => some (Gi.str "Overview")
  | .overviewMarkdown => some (Gi.str "### Overview")
  | .findingsTable false => some (Gi.str "| **File** | **Line** | **Column** | **Length** | **Function** |")
  | .findingsTable true => some (Gi.str "| **Function** | **Length** | **File** |")
  | .findingsRows => none
  | .nothing => none

def reportHeadline (fmt : Fmt) : Display → Headline
  | .noReport => .noReportMsg
  | .mismatch => .mismatchMsg
  | .raises _ => .nothing
  | .shown _ _ => match fmt with | .text => .overviewText | .markdown => .overviewMarkdown

def findingsHeadline (fmt : Fmt) : Display → Headline
  | .noReport => .noReportMsg
  | .mismatch => .mismatchMsg
  | .raises _ => .nothing
  | .shown r _ => match fmt with | .text => .findingsRows | .markdown => .findingsTable r.repository.isSome

structure ShowCall where
  display : Display
  headline : Headline

/-- **`__main__.report(path, diff, fmt)`**: `Configuration.load(path)` (the configured lines are
appended to the process-level list although `report` never uses them), then `report_command` -/
def entryReport (S : Sys) (st : State) (root : List Str) (fmt : Fmt) (diff : Option (Option Str)) :
    State × Option ShowCall :=
  match load S st.fs root st.proc with
  | none => (st, none)
  | some p =>
    let d := reportCommand S.env.version (st.cache root) diff
    ({ st with proc := p }, some ⟨d, reportHeadline fmt d⟩)

/-- **`__main__.findings(path, full, fmt)`** (`full` only limits the number of rows printed) -/
def entryFindings (S : Sys) (st : State) (root : List Str) (_full : Bool) (fmt : Fmt) : State × Option ShowCall :=
  match load S st.fs root st.proc with
  | none => (st, none)
  | some p =>
    let d := findingsCommand S.env.version (st.cache root)
    ({ st with proc := p }, some ⟨d, findingsHeadline fmt d⟩)

/-! ## histories: several entry calls in one interpreter -/

inductive Call where
  | scan (root : List Str) (exclude : Option (List Str)) (verbose : Bool) (detected : Option Json.Repo) (uuid now : Str)
  | check (cwd : List Str) (args : List CheckArg) (exclude : Option (List Str)) (quiet verbose : Bool)
  | report (root : List Str) (fmt : Fmt) (diff : Option (Option Str))
  | findings (root : List Str) (full : Bool) (fmt : Fmt)

inductive Reply where
  /-- `Configuration.load` raised -/
  | loadRaised
  | scan (c : ScanCall)
  | check (c : CheckCall)
  | shown (c : ShowCall)

def Reply.ofScan : Option ScanCall → Reply
  | none => .loadRaised
  | some c => .scan c

def Reply.ofCheck : Option CheckCall → Reply
  | none => .loadRaised
  | some c => .check c

def Reply.ofShown : Option ShowCall → Reply
  | none => .loadRaised
  | some c => .shown c

/-- the lines handed to `PathSpec.from_lines` during the call (`report` / `findings` build no spec) -/
def Reply.lines : Reply → Option (List Str)
  | .scan c => some c.lines
  | .check c => some c.lines
  | _ => none

def step (S : Sys) (st : State) : Call → State × Reply
  | .scan root ex vb det uuid now => let r := entryScan S st root ex vb det uuid now; (r.1, .ofScan r.2)
  | .check cwd args ex q vb => let r := entryCheck S st cwd args ex q vb; (r.1, .ofCheck r.2)
  | .report root fmt diff => let r := entryReport S st root fmt diff; (r.1, .ofShown r.2)
  | .findings root full fmt => let r := entryFindings S st root full fmt; (r.1, .ofShown r.2)

/-- the calls one after the other in the same interpreter (an exception of `Configuration.load` is
caught by the caller, who goes on) -/
def run (S : Sys) (st : State) : List Call → State × List Reply
  | [] => (st, [])
  | c :: cs =>
    let r := step S st c
    let rs := run S r.1 cs
    (rs.1, r.2 :: rs.2)

/-- the directory whose `.codelimit.yml` the call loads (and, for `scan` / `check`, whose `.gitignore`
is read) -/
def Call.dir : Call → List Str
  | .scan root .. => root
  | .check cwd .. => cwd
  | .report root .. => root
  | .findings root .. => root

/-- the values of the call's `--exclude` option -/
def Call.options : Call → List Str
  | .scan _ ex .. => ex.getD []
  | .check _ _ ex .. => ex.getD []
  | _ => []

/-- the `exclude` list `Configuration.load(dir)` appends (nothing when there is no file, no such
key, or `load` raises) -/
def configLines (S : Sys) (fs : Node) (dir : List Str) : List Str :=
  match fileAt fs dir configName with
  | none => []
  | some text =>
    match S.yaml text with
    | .mapping (some l) _ => l
    | _ => []

/-- what one call appends to `Configuration.exclude` -/
def contribution (S : Sys) (fs : Node) (c : Call) : List Str :=
  c.options ++ configLines S fs c.dir

end CL.Entry
