import CodeLimit.Model.Token
import CodeLimit.Gen.Logic
/-!
# Model of `codelimit/common/Codebase.py` and the classes it is built from

Transcribed, in the order of the Python statements:

* `utils.get_parent_folder`, `utils.get_basename` (`str.split("/")`, `"/".join`) on strings of
  code points (`Str`), so that odd paths (`a//b`, `/a`, `a/`, `./x`) behave as in the code;
* `utils.make_profile`, `utils.make_count_profile`, `utils.merge_profiles`; the bucket a
  measurement falls in is the *generated* `CL.Gen.Logic.make_profile_bucket` /
  `make_count_profile_bucket` (regenerated from the source on every run);
* `SourceFileEntry`, `SourceFolderEntry`, `CodebaseEntry` (`name`), `SourceFolder`;
* `LanguageTotals.add`, `ScanTotals.add`, `ScanTotals.total_*`;
* `Codebase.add_file`, the recursive `Codebase.add_folder`, `Codebase.aggregate` with its nested
  recursive `aggregate_folder`, `all_files`, `all_measurements`, `total_loc`.

Python dicts are association lists in insertion order (`dset` overwrites in place, appends a
new key at the end); a missing key is `KeyError` = `Err.other`. A `Measurement` is represented
by its `value` (the only field the code in scope reads). Python recursion is modelled with
fuel; `Err.fuel` is proved unreachable for `add_file` (every path) and for `aggregate` on every
tree built from admissible paths (`Props/C07.lean`). Outside that domain a folder can become its
own sub-folder (path `././x`): Python then raises `RecursionError`, the model `Err.fuel`.
-/
namespace CL.Codebase

open CL

/-- code point of `os.path.sep` -/
def sl : Nat := 47
/-- code point of `.` -/
def dot : Nat := 46
/-- `"./"`, the key of the root folder in `Codebase.tree` -/
def rootKey : Str := [dot, sl]

/-! ## `str.split("/")`, `"/".join` -/

/-- `s.split("/")` -/
def splitSep : Str → List Str
  | [] => [[]]
  | c :: cs =>
    if c = sl then [] :: splitSep cs
    else match splitSep cs with
      | h :: t => (c :: h) :: t
      | [] => [[c]]

/-- `"/".join(parts)` -/
def joinSep : List Str → Str
  | [] => []
  | [p] => p
  | p :: q :: rest => p ++ sl :: joinSep (q :: rest)

/-- `utils.get_parent_folder` -/
def getParentFolder (path : Str) : Str :=
  let parts := splitSep path
  if parts.length = 1 then [dot] else joinSep parts.dropLast

/-- `utils.get_basename` (`parts[-1]`; `split` never returns an empty list) -/
def getBasename (path : Str) : Str :=
  (splitSep path).getLastD []

/-! ## profiles -/

/-- a four element list `[easy, verbose, hard_to_maintain, unmaintainable]` -/
structure Profile where
  p0 : Int
  p1 : Int
  p2 : Int
  p3 : Int
  deriving Repr, DecidableEq, Inhabited

def Profile.zero : Profile := ⟨0, 0, 0, 0⟩

/-- `profile[i]` -/
def Profile.get (p : Profile) : Nat → Int
  | 0 => p.p0 | 1 => p.p1 | 2 => p.p2 | 3 => p.p3 | _ => 0

/-- `result[i] += v` (for `i ≥ 4` Python would raise `IndexError`; the generated buckets are
proved to be `< 4` in `CL.C07.bucket_lt_four`, so that branch is unreachable) -/
def Profile.addAt (p : Profile) (i : Nat) (v : Int) : Profile :=
  match i with
  | 0 => { p with p0 := p.p0 + v }
  | 1 => { p with p1 := p.p1 + v }
  | 2 => { p with p2 := p.p2 + v }
  | 3 => { p with p3 := p.p3 + v }
  | _ => p

/-- `utils.merge_profiles` -/
def mergeProfiles (a b : Profile) : Profile :=
  ⟨a.p0 + b.p0, a.p1 + b.p1, a.p2 + b.p2, a.p3 + b.p3⟩

/-- `utils.make_profile` over the measurement values -/
def makeProfile (ms : List Int) : Profile :=
  ms.foldl (fun r v => r.addAt (Gen.Logic.make_profile_bucket v) v) Profile.zero

/-- `utils.make_count_profile` over the measurement values -/
def makeCountProfile (ms : List Int) : Profile :=
  ms.foldl (fun r v => r.addAt (Gen.Logic.make_count_profile_bucket v) 1) Profile.zero

/-! ## entries and folders -/

/-- the constructor arguments of `SourceFileEntry` (a `Measurement` is its `value`) -/
structure FileEntry where
  path : Str
  checksum : Str
  language : Str
  loc : Int
  measurements : List Int
  deriving Repr, DecidableEq, Inhabited

/-- `SourceFileEntry._profile`, computed by the constructor -/
def FileEntry.profile (e : FileEntry) : Profile := makeProfile e.measurements

/-- `CodebaseEntry.name` of a file entry -/
def FileEntry.name (e : FileEntry) : Str := getBasename e.path

/-- an element of `SourceFolder.entries`: a `SourceFileEntry`, or a `SourceFolderEntry` given by
its `name` (`get_basename(path) + "/"`) -/
inductive Entry where
  | file (e : FileEntry)
  | folder (name : Str)
  deriving Repr, DecidableEq, Inhabited

/-- `CodebaseEntry.name` -/
def Entry.name : Entry → Str
  | .file e => e.name
  | .folder n => n

structure Folder where
  entries : List Entry
  profile : Profile
  deriving Repr, DecidableEq, Inhabited

/-- `SourceFolder()` -/
def Folder.new : Folder := ⟨[], Profile.zero⟩

/-- `SourceFolder.add_file` -/
def Folder.addFile (f : Folder) (e : FileEntry) : Folder :=
  { f with entries := f.entries ++ [.file e] }

/-- `SourceFolder.add_folder(name)`: `SourceFolderEntry(name).name = get_basename(name) + "/"` -/
def Folder.addFolder (f : Folder) (name : Str) : Folder :=
  { f with entries := f.entries ++ [.folder (getBasename name ++ [sl])] }

/-! ## language totals -/

structure LanguageTotals where
  language : Str
  files : Int
  loc : Int
  functions : Int
  hardToMaintain : Int
  unmaintainable : Int
  deriving Repr, DecidableEq, Inhabited

/-- `LanguageTotals(language)` -/
def LanguageTotals.new (language : Str) : LanguageTotals := ⟨language, 0, 0, 0, 0, 0⟩

/-- `LanguageTotals.add` -/
def LanguageTotals.add (t : LanguageTotals) (e : FileEntry) : LanguageTotals :=
  let profile := makeCountProfile e.measurements
  { t with
    files := t.files + 1,
    loc := t.loc + e.loc,
    functions := t.functions + (e.measurements.length : Int),
    hardToMaintain := t.hardToMaintain + profile.get 2,
    unmaintainable := t.unmaintainable + profile.get 3 }

/-! ## dicts -/

/-- `d.get(k)` -/
def dget? {α : Type} (k : Str) : List (Str × α) → Option α
  | [] => none
  | (k', v) :: t => if k' = k then some v else dget? k t

/-- `k in d` -/
def dhas {α : Type} (k : Str) (d : List (Str × α)) : Bool := (dget? k d).isSome

/-- `d[k] = v` -/
def dset {α : Type} (k : Str) (v : α) : List (Str × α) → List (Str × α)
  | [] => [(k, v)]
  | (k', v') :: t => if k' = k then (k, v) :: t else (k', v') :: dset k v t

/-- `d[k]` (`KeyError` when missing) -/
def dgetE {α : Type} (k : Str) (d : List (Str × α)) : Except Err α :=
  match dget? k d with
  | some v => .ok v
  | none => .error .other

abbrev Tree := List (Str × Folder)
abbrev Totals := List (Str × LanguageTotals)

/-- `ScanTotals.add` / the totals part of `Codebase.add_file` -/
def totalsAdd (totals : Totals) (e : FileEntry) : Except Err Totals := do
  let totals := if !dhas e.language totals then dset e.language (LanguageTotals.new e.language) totals
                else totals
  let t ← dgetE e.language totals
  pure (dset e.language (t.add e) totals)

/-- `ScanTotals.total_files` -/
def totalFiles (t : Totals) : Int := (t.map (·.2.files)).sum
/-- `ScanTotals.total_functions` -/
def totalFunctions (t : Totals) : Int := (t.map (·.2.functions)).sum
/-- `ScanTotals.total_loc` -/
def totalLoc (t : Totals) : Int := (t.map (·.2.loc)).sum
/-- `ScanTotals.total_hard_to_maintain` -/
def totalHardToMaintain (t : Totals) : Int := (t.map (·.2.hardToMaintain)).sum
/-- `ScanTotals.total_unmaintainable` -/
def totalUnmaintainable (t : Totals) : Int := (t.map (·.2.unmaintainable)).sum

/-! ## the codebase -/

structure Codebase where
  tree : Tree
  files : List (Str × FileEntry)
  totals : Totals
  deriving Repr, DecidableEq, Inhabited

/-- `Codebase(root)` (the `root` string is not used by the code in scope) -/
def Codebase.new : Codebase := ⟨[(rootKey, Folder.new)], [], []⟩

/-- `Codebase.add_folder(path)` on the `tree` dict -/
def addFolder : Nat → Str → Tree → Except Err Tree
  | 0, _, _ => .error .fuel
  | fuel + 1, path, tree =>
    if path = [dot] then pure tree
    else if !dhas (path ++ [sl]) tree then do
      let tree := dset (path ++ [sl]) Folder.new tree
      let tree ← addFolder fuel (getParentFolder path) tree
      let parentFolder ← dgetE (getParentFolder path ++ [sl]) tree
      pure (dset (getParentFolder path ++ [sl]) (parentFolder.addFolder (getBasename path)) tree)
    else pure tree

/-- recursion depth that `add_folder(path)` cannot exceed: one call per component, one for `.` -/
def addFolderFuel (path : Str) : Nat := path.length + 2

/-- `Codebase.add_file` -/
def Codebase.addFile (cb : Codebase) (e : FileEntry) : Except Err Codebase := do
  let files := dset e.path e cb.files
  let totals ← totalsAdd cb.totals e
  let parentFolder := getParentFolder e.path
  let tree ← if !dhas (parentFolder ++ [sl]) cb.tree
             then addFolder (addFolderFuel parentFolder) parentFolder cb.tree
             else pure cb.tree
  let folder ← dgetE (parentFolder ++ [sl]) tree
  pure ⟨dset (parentFolder ++ [sl]) (folder.addFile e) tree, files, totals⟩

/-- `add_file` for every entry of a list, in order -/
def Codebase.addFiles (cb : Codebase) : List FileEntry → Except Err Codebase
  | [] => pure cb
  | e :: es => do
    let cb ← cb.addFile e
    cb.addFiles es

/-- `folder.profile = p` for the folder object stored under `path` -/
def setProfile (path : Str) (p : Profile) (tree : Tree) : Tree :=
  match dget? path tree with
  | some f => dset path { f with profile := p } tree
  | none => tree

/-- the `for entry in folder.entries` loop of `aggregate_folder(path)`; `recurse` is the
recursive call `aggregate_folder` -/
def aggregateEntries (recurse : Str → Tree → Except Err (Tree × Profile)) (path : Str) :
    List Entry → Tree → Except Err Tree
  | [], tree => pure tree
  | .folder name :: rest, tree => do
    let subFolder := if path = rootKey then name else path ++ name
    -- `merge_profiles(folder.profile, aggregate_folder(sub_folder))`: left argument first
    let folder ← dgetE path tree
    let old := folder.profile
    let (tree, sub) ← recurse subFolder tree
    aggregateEntries recurse path rest (setProfile path (mergeProfiles old sub) tree)
  | .file e :: rest, tree => do
    let folder ← dgetE path tree
    aggregateEntries recurse path rest (setProfile path (mergeProfiles folder.profile e.profile) tree)

/-- `aggregate_folder(path)`: returns the updated tree and `folder.profile` -/
def aggregateFolder : Nat → Str → Tree → Except Err (Tree × Profile)
  | 0, _, _ => .error .fuel
  | fuel + 1, path, tree => do
    let folder ← dgetE path tree
    let tree ← aggregateEntries (aggregateFolder fuel) path folder.entries tree
    let folder ← dgetE path tree
    pure (tree, folder.profile)

/-- `Codebase.aggregate` (fuel: number of folders + 1) -/
def Codebase.aggregate (cb : Codebase) : Except Err Codebase := do
  let (tree, _) ← aggregateFolder (cb.tree.length + 1) rootKey cb.tree
  pure { cb with tree := tree }

/-- `Codebase.all_files` -/
def Codebase.allFiles (cb : Codebase) : List Str := cb.files.map (·.1)

/-- `Codebase.all_measurements` (values) -/
def Codebase.allMeasurements (cb : Codebase) : List Int := cb.files.flatMap (·.2.measurements)

/-- `Codebase.total_loc` -/
def Codebase.totalLoc (cb : Codebase) : Int := cb.allMeasurements.foldl (· + ·) 0

/-- `Report.quality_profile` -/
def Codebase.qualityProfile (cb : Codebase) : Profile := makeProfile cb.allMeasurements

/-- build a codebase as the scanner does: `add_file` for every entry, then one `aggregate` -/
def build (es : List FileEntry) : Except Err Codebase := do
  let cb ← Codebase.new.addFiles es
  cb.aggregate

/-! ## path classes -/

/-- the paths the theorems of C07 cover: every string that does not start with `"./"` (for such
a path `get_parent_folder` conflates the folder `.` with the root) -/
def admissible (p : Str) : Bool := !(rootKey.isPrefixOf p)

/-- a normalised relative path: non-empty components, none of them `.` or `..`
(`os.path.normpath(p) == p`, not absolute, not `.`) -/
def normalised (p : Str) : Bool :=
  (splitSep p).all fun c => c ≠ [] && c ≠ [dot] && c ≠ [dot, dot]

end CL.Codebase
