import CodeLimit.Model.Report
import CodeLimit.Model.Cache
import CodeLimit.Model.Codebase
/-!
# What the commands make of the TEXT of a report file

`ReportReader.from_json` as Python really runs it (dynamically typed), `utils.read_report`
(used by `report` and `findings`), `commands/scan.py: _read_cached_report`, `_is_well_formed`,
`_is_int`, and the abstraction function from the text of the cache file to the abstract
`Cache.CacheFile` of `Model/Cache.lean`.

`Model/Report.lean: fromJson` is a TYPED reader: it answers `RErr.type` wherever the document
holds a value of another JSON type than the writer emits.  Python does not check types while
reading: `ReportReader.from_json` stores whatever `json.loads` returned and raises only where an
operation is undefined for the value (`x[k]` on a non-`dict`, `.items()` on a non-`dict`,
`value <= 15` on a non-number, `0 + loc` on a non-number, an unhashable `language` as `dict`
key, `GithubRepository(**x)` with missing / unknown keywords).  `fromJsonU` below transcribes
exactly that; its result `UReport` holds Python values (`JVal`) in every field.

A Python value that came out of `json.loads` is a `JVal`: `None` = `.null`, `bool`, `int` =
`.num`, `float` = `.real` / `.nonfinite`, `str`, `list` = `.arr`, `dict` = `.obj`.

Parameters:
* `cur`     - `Report.VERSION` (`codelimit/version.py`);
* `buildOk` - "`Codebase.add_file` for these paths in this order followed by `aggregate` raises
              neither `KeyError` nor `RecursionError`" (the path arithmetic of C07; true for
              every path list a scan produces; the driver instantiates it with
              `Codebase.build`).
A file is `Option Str`: `none` = `report_path.exists()` is false, `some text` = the result of
`report_path.read_text()` (a file that is not valid UTF-8 makes `read_text` raise
`UnicodeDecodeError`, a `ValueError`: for `_read_cached_report` that is the same as a text
that is not JSON; see `Model/Decode.lean` for the bytes).
-/
namespace CL.Json

/-! ## the dynamically typed in-memory report -/

/-- `Measurement(unit_name, Location(line, column), Location(line, column), value)` -/
structure UMeas where
  unitName : JVal
  sl : JVal
  sc : JVal
  el : JVal
  ec : JVal
  value : JVal
  deriving Repr, Inhabited

/-- `SourceFileEntry` without its path and profile -/
structure UFile where
  checksum : JVal
  language : JVal
  loc : JVal
  measurements : List UMeas
  deriving Repr, Inhabited

/-- `GithubRepository(**kw)`: `branch` and `tag` default to `None` -/
structure URepo where
  owner : JVal
  name : JVal
  branch : JVal
  tag : JVal
  deriving Repr, Inhabited

/-- the `Report` object `from_json` returns, as far as it is a function of the document -/
structure UReport where
  version : JVal          -- `None` (`.null`) when the key is absent
  uuid : JVal
  root : JVal
  repository : Option URepo
  files : List (Str × UFile)   -- `codebase.files`, a `dict`: insertion order, distinct keys
  deriving Repr, Inhabited

/-! ## where Python raises -/

/-- `int`, `float` or `bool`: the values for which `v <= 15` and `0 + v` are defined -/
def isNumber : JVal → Bool
  | .num _ | .real _ | .nonfinite _ | .bool _ => true
  | _ => false

/-- usable as a `dict` key (`list` and `dict` are unhashable: `TypeError`) -/
def isHashable : JVal → Bool
  | .arr _ | .obj _ => false
  | _ => true

/-- the body of `for m in v["measurements"]`: no type is checked, only subscripting can fail -/
def readMeasurementU (m : JVal) : Except RErr UMeas := do
  let sl ← getKey (cp! "start") m >>= getKey (cp! "line")
  let sc ← getKey (cp! "start") m >>= getKey (cp! "column")
  let el ← getKey (cp! "end") m >>= getKey (cp! "line")
  let ec ← getKey (cp! "end") m >>= getKey (cp! "column")
  let name ← getKey (cp! "unit_name") m
  let value ← getKey (cp! "value") m
  .ok ⟨name, sl, sc, el, ec, value⟩

/-- one iteration of `for k, v in d["codebase"]["files"].items()`, including the parts of
`SourceFileEntry.__init__` (`make_profile`: `m.value <= 15`) and `Codebase.add_file`
(`entry.language not in self.totals`, `LanguageTotals.add`: `self.loc += entry.loc`) that can
raise `TypeError` -/
def readFileU (k : Str) (v : JVal) : Except RErr (Str × UFile) := do
  let ms ← getKey (cp! "measurements") v >>= iterMeasurements
  let measurements ← ms.mapM readMeasurementU
  let checksum ← getKey (cp! "checksum") v
  let language ← getKey (cp! "language") v
  let loc ← getKey (cp! "loc") v
  if !(measurements.all fun m => isNumber m.value) then .error .type
  else if !isHashable language then .error .type
  else if !isNumber loc then .error .type
  else .ok (k, ⟨checksum, language, loc, measurements⟩)

/-- `GithubRepository(**v)`: `v` must be a `dict` whose keys are among the four field names
and include `owner` and `name`; the values are stored as they are -/
def readRepositoryU (v : JVal) : Except RErr URepo :=
  match v with
  | .obj ms =>
    if ms.all (fun kv => kv.1 = cp! "owner" || kv.1 = cp! "name" || kv.1 = cp! "branch" || kv.1 = cp! "tag") then
      match lookup (cp! "owner") ms, lookup (cp! "name") ms with
      | some o, some n =>
          .ok ⟨o, n, (lookup (cp! "branch") ms).getD .null, (lookup (cp! "tag") ms).getD .null⟩
      | _, _ => .error .type
    else .error .type
  | _ => .error .type

/-- `ReportReader.from_json` after `loads`, dynamically typed.  The path arithmetic of
`add_file` / `aggregate` is the parameter `buildOk` (a `KeyError` or `RecursionError`, both
listed in the `except` clause of `_read_cached_report`; reported as `RErr.key`). -/
def fromJsonU (buildOk : List Str → Bool) (d : JVal) : Except RErr UReport := do
  let root ← getKey (cp! "root") d
  let repository ← match (← getOpt (cp! "repository") d) with
    | some r => (readRepositoryU r).map some
    | none => .ok none
  let version := match (← getOpt (cp! "version") d) with
    | some v => v
    | none => .null
  let uuid ← getKey (cp! "uuid") d
  let fs ← (getKey (cp! "codebase") d >>= getKey (cp! "files")) >>= items
  let entries ← fs.mapM (fun kv => readFileU kv.1 kv.2)
  if !buildOk (entries.map (·.1)) then .error .key
  else .ok ⟨version, uuid, root, repository, dictOfPairs entries⟩

/-- the instance of `buildOk` given by the codebase model (C07): `Codebase.build` succeeds on
entries with these paths (the other fields of an entry cannot make it fail) -/
def buildOkModel (paths : List Str) : Bool :=
  match Codebase.build (paths.map fun p => (⟨p, [], [], 0, []⟩ : Codebase.FileEntry)) with
  | .ok _ => true
  | .error _ => false

/-! ## `_is_int`, `_is_well_formed` -/

/-- `_is_int(value)`: `isinstance(value, int) and not isinstance(value, bool)` -/
def isInt : JVal → Bool
  | .num _ => true
  | _ => false

/-- `isinstance(value, str)` -/
def isStr : JVal → Bool
  | .str _ => true
  | _ => false

/-- the test on one measurement -/
def UMeas.wellFormed (m : UMeas) : Bool :=
  isStr m.unitName && (isInt m.sl && isInt m.sc && isInt m.el && isInt m.ec && isInt m.value)

/-- the test on one entry (the loop over the measurements stops at the first failure) -/
def UFile.wellFormed (f : UFile) : Bool :=
  (isStr f.checksum && isStr f.language && isInt f.loc) && f.measurements.all UMeas.wellFormed

/-- `_is_well_formed(report)` -/
def UReport.wellFormed (r : UReport) : Bool := r.files.all fun kv => kv.2.wellFormed

/-- `report.version == Report.VERSION` for a version that is an arbitrary Python value -/
def versionIs (cur : Str) : JVal → Bool
  | .str s => s = cur
  | _ => false

/-! ## `_read_cached_report` -/

/-- `_read_cached_report(report_path)`: `None` when the file does not exist, when `from_json`
raises one of `ValueError` (not JSON), `KeyError`, `TypeError`, `AttributeError`,
`RecursionError`, when the version is not the tool's, or when `_is_well_formed` fails. -/
def readCachedDoc (cur : Str) (buildOk : List Str → Bool) : Option Str → Option UReport
  | none => none
  | some text =>
    match parseJson text with
    | none => none
    | some d =>
      match fromJsonU buildOk d with
      | .error _ => none
      | .ok r => if versionIs cur r.version && r.wellFormed then some r else none

/-! ## `utils.read_report` -/

/-- the exceptions `read_report` lets escape -/
inductive ReadErr where
  | json     -- `JSONDecodeError`
  | key      -- `KeyError` (also stands for the `RecursionError` of `buildOk`)
  | type     -- `TypeError` / `AttributeError`
  deriving Repr, DecidableEq, Inhabited

def ReadErr.ofRErr : RErr → ReadErr
  | .key => .key
  | .type => .type

inductive ReadDocResult where
  | noReport                 -- "No cached report found, run scan first", exit code 1
  | mismatch                 -- "Report version mismatch, run scan first", exit code 1
  | shown (r : UReport)      -- the report handed to `report` / `findings`
  | raises (e : ReadErr)
  deriving Repr, Inhabited

/-- `report_version != Report.VERSION` is decided on what `get_report_version` returns -/
def versionOptIs (cur : Str) : Option JVal → Bool
  | some v => versionIs cur v
  | none => false

/-- `utils.read_report(report_path, console)` -/
def readReportDoc (cur : Str) (buildOk : List Str → Bool) : Option Str → ReadDocResult
  | none => .noReport
  | some text =>
    match parseJson text with
    | none => .raises .json
    | some d =>
      match getReportVersion d with
      | .error e => .raises (.ofRErr e)
      | .ok v =>
        if versionOptIs cur v then
          match fromJsonU buildOk d with
          | .error e => .raises (.ofRErr e)
          | .ok r => .shown r
        else .mismatch

/-! ## the abstraction to `Cache.CacheFile` -/

/-- what a scan reads from a cached entry besides path and checksum: `language`, `loc`, the
measurements -/
abbrev CEntry := Str × Int × List Meas

def UMeas.typed? (m : UMeas) : Option Meas := do
  let n ← m.unitName.str?
  let sl ← m.sl.num?
  let sc ← m.sc.num?
  let el ← m.el.num?
  let ec ← m.ec.num?
  let v ← m.value.num?
  some ⟨n, sl, sc, el, ec, v⟩

/-- a cache row `(path, checksum, entry)` of a well-formed entry -/
def UFile.row? (k : Str) (f : UFile) : Option (Str × Str × CEntry) := do
  let c ← f.checksum.str?
  let l ← f.language.str?
  let n ← f.loc.num?
  let ms ← f.measurements.mapM UMeas.typed?
  some (k, c, l, n, ms)

/-- the version as far as it can matter: a string, or `none` for `None` and for every value
that is not a string (none of which equals `Report.VERSION`) -/
def versionTag : JVal → Option Str
  | .str s => some s
  | _ => none

/-- The abstraction function of `Model/Cache.lean`'s header, on texts: what the cache file IS for
a scan. -/
def abstractCache (buildOk : List Str → Bool) : Option Str → Cache.CacheFile Str Str CEntry (Option Str)
  | none => .missing
  | some text =>
    match parseJson text with
    | none => .junk .unreadable
    | some d =>
      match fromJsonU buildOk d with
      | .error _ => .junk .unreadable
      | .ok r =>
        match r.files.mapM (fun kv => kv.2.row? kv.1) with
        | none => .junk .illTyped
        | some rows => .doc (versionTag r.version) rows

/-- the `Params` of the cache model as far as reading is concerned (`analyze`, `hash`,
`selected` play no role in reading) -/
def readParams (cur : Str) : Cache.Params Str Str Str CEntry Unit (Option Str) :=
  { analyze := fun _ _ => ([], 0, []), hash := id, selected := fun _ _ => true, cur := some cur }

end CL.Json
