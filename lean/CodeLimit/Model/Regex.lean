import CodeLimit.Model.Basic
/-!
# Model of `codelimit/common/gsm`: expressions, Thompson construction, ε-closure,
subset construction, `match`, `starts_with`, `nfa_match`

Faithfulness notes (what Python does -> what the model does):

* `expression_to_nfa(list)` applies each item and then `Concat`, which makes the left
  fragment's accepting state an alias (`State.assign`) of the right fragment's start state;
  the right start object becomes unreachable. Model: `build r s n` builds the fragment of `r`
  *rooted at the given start id `s`* with fresh ids from `n`; `cat` roots the right fragment at
  the left fragment's accepting id. Python lists are left-nested `cat`s.
* State ids are `Nat`s drawn from a counter (`State._id`); the id base is a parameter.
* `set[State]` values are lists; a state set is identified (Python: `state_set_id`, the
  sorted id list rendered as a string) by `canon`, a canonical duplicate-free ascending list.
* iteration over a `set` of predicates happens in an arbitrary order: parameter `ord`.
* DFA `State` objects: the object created for the start set is `DState.start`; the object
  stored in the `states` dict for a set `T` is `DState.set T` (the start object is *not* in
  that dict, so a transition back to the start set would create a second, dead object -
  modelled as is).
-/
namespace CL

inductive Rx (α : Type) where
  | atom : α → Rx α
  | cat  : Rx α → Rx α → Rx α
  | alt  : Rx α → Rx α → Rx α
  | opt  : Rx α → Rx α
  | star : Rx α → Rx α
  | plus : Rx α → Rx α
  deriving Repr, DecidableEq, Inhabited

inductive Edge (α : Type) where
  | eps : Nat → Nat → Edge α
  | sym : Nat → α → Nat → Edge α
  deriving Repr, DecidableEq

def Edge.src {α : Type} : Edge α → Nat | .eps p _ => p | .sym p _ _ => p
def Edge.dst {α : Type} : Edge α → Nat | .eps _ q => q | .sym _ _ q => q

structure Frag (α : Type) where
  acc   : Nat
  next  : Nat
  edges : List (Edge α)
  deriving Repr

variable {α : Type}

/-- `build r s n`: fragment for `r` whose start state is the given `s`, fresh ids from `n`. -/
def build : Rx α → Nat → Nat → Frag α
  | .atom a, s, n => ⟨n, n + 1, [.sym s a n]⟩
  | .cat r1 r2, s, n =>
      let f1 := build r1 s n
      let f2 := build r2 f1.acc f1.next
      ⟨f2.acc, f2.next, f1.edges ++ f2.edges⟩
  | .alt r1 r2, s, n =>
      let f1 := build r1 n (n + 2)
      let f2 := build r2 (n + 1) f1.next
      let a := f2.next
      ⟨a, a + 1, [.eps s n, .eps s (n + 1), .eps f1.acc a, .eps f2.acc a] ++ (f1.edges ++ f2.edges)⟩
  | .opt r, s, n =>
      let f := build r n (n + 1)
      let a := f.next
      ⟨a, a + 1, [.eps s n, .eps s a, .eps f.acc a] ++ f.edges⟩
  | .star r, s, n =>
      let f := build r n (n + 1)
      let a := f.next
      ⟨a, a + 1, [.eps s n, .eps s a, .eps f.acc n, .eps f.acc a] ++ f.edges⟩
  | .plus r, s, n =>
      let f := build r n (n + 1)
      let a := f.next
      ⟨a, a + 1, [.eps s n, .eps f.acc n, .eps f.acc a] ++ f.edges⟩

structure Nfa (α : Type) where
  start : Nat
  acc   : Nat
  next  : Nat            -- all state ids are `< next`
  edges : List (Edge α)
  deriving Repr

/-- `expression_to_nfa`, with `base` the value of the global id counter. -/
def compile (r : Rx α) (base : Nat) : Nfa α :=
  let f := build r base (base + 1)
  ⟨base, f.acc, f.next, f.edges⟩

def epsSucc (E : List (Edge α)) (q : Nat) : List Nat :=
  E.filterMap (fun e => match e with | .eps p r => if p = q then some r else none | .sym _ _ _ => none)

def symOut (E : List (Edge α)) (q : Nat) : List (α × Nat) :=
  E.filterMap (fun e => match e with | .sym p a r => if p = q then some (a, r) else none | .eps _ _ => none)

/-- `epsilon_closure` (worklist + visited set), with explicit fuel. -/
def closureAux (E : List (Edge α)) : Nat → List Nat → List Nat → List Nat
  | 0, _, vis => vis
  | _ + 1, [], vis => vis
  | fuel + 1, q :: st, vis =>
      if vis.contains q then closureAux E fuel st vis
      else closureAux E fuel (epsSucc E q ++ st) (q :: vis)

def closure (E : List (Edge α)) (qs : List Nat) : List Nat :=
  closureAux E (qs.length + E.length + 1) qs []

/-- canonical representative of a state set: ascending, duplicate-free. -/
def canon (bound : Nat) (l : List Nat) : List Nat :=
  (List.range bound).filter (fun q => l.contains q)

variable [DecidableEq α]

/-- `move(states, symbol)`; predicates are compared with `==`. -/
def move (E : List (Edge α)) (T : List Nat) (a : α) : List Nat :=
  T.flatMap (fun q => (symOut E q).filterMap (fun (b, r) => if b = a then some r else none))

/-- `state_set_transitions` (a Python `set`: duplicates removed by `==`). -/
def transitions (E : List (Edge α)) (T : List Nat) : List α :=
  (T.flatMap (fun q => (symOut E q).map (·.1))).eraseDups

def delta (N : Nfa α) (T : List Nat) (a : α) : List Nat :=
  canon N.next (closure N.edges (move N.edges T a))

inductive DState where
  | start : DState
  | set : List Nat → DState
  deriving Repr, DecidableEq, Inhabited

structure Dfa (α : Type) where
  rows : List (DState × List (α × DState))   -- `state.transition` of every processed state
  acc  : List DState                          -- `accepting_states`
  deriving Repr

def Dfa.row (D : Dfa α) (s : DState) : List (α × DState) :=
  match D.rows.find? (fun r => r.1 = s) with
  | some r => r.2
  | none => []

def Dfa.isAcc (D : Dfa α) (s : DState) : Bool := D.acc.contains s

/-- the `while stack:` loop of `nfa_to_dfa`. `none` = out of fuel. -/
def dfaLoop (N : Nfa α) (ord : List α → List α) :
    Nat → List (DState × List Nat) → List (List Nat) → Dfa α → Option (Dfa α)
  | 0, _, _, _ => none
  | _ + 1, [], _, D => some D
  | fuel + 1, (s, T) :: st, marked, D =>
      if marked.contains T then dfaLoop N ord fuel st marked D
      else
        let ps := ord (transitions N.edges T)
        let row := ps.map (fun p => (p, DState.set (delta N T p)))
        let push := ps.map (fun p => (DState.set (delta N T p), delta N T p))
        dfaLoop N ord fuel (push.reverse ++ st) (T :: marked)
          { rows := (s, row) :: D.rows, acc := if T.contains N.acc then s :: D.acc else D.acc }

def startSet (N : Nfa α) : List Nat := canon N.next (closure N.edges [N.start])

/-- an upper bound on the number of loop iterations: every state set is processed at most
once and pushes at most one entry per edge. -/
def dfaFuel (N : Nfa α) : Nat := (2 ^ N.next) * (N.edges.length + 1) + 2

def nfaToDfa (N : Nfa α) (ord : List α → List α) : Option (Dfa α) :=
  dfaLoop N ord (dfaFuel N) [(DState.start, startSet N)] [] ⟨[], []⟩

/-- `matcher.nfa_match` (note: `next_states` is only reset after a non-empty step, and an empty
step returns `False` at once - as in the Python). -/
def nfaMatchLoop (N : Nfa α) : List Nat → List α → Bool
  | act, [] => act.contains N.acc
  | act, x :: xs =>
      let nxt := act.flatMap (fun q => (symOut N.edges q).flatMap
        (fun (b, r) => if b = x then closure N.edges [r] else []))
      if nxt.isEmpty then false else nfaMatchLoop N nxt xs

def nfaMatch (r : Rx α) (base : Nat) (w : List α) : Bool :=
  let N := compile r base
  nfaMatchLoop N (closure N.edges [N.start]) w

end CL
