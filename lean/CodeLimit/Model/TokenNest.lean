import CodeLimit.Model.Token
/-!
# Token predicates as trees with state (`Balanced` nested inside `Not` / `And` / `Or` / `Balanced`)

`Model/Token.lean` keeps the nesting depth of a `Balanced` predicate in a map beside the
predicate and lets a `Balanced` nested inside another predicate evaluate to `false` (the
extractor refuses such patterns). Here a predicate object is a tree in which *every*
`Balanced` node carries its own `depth` field, exactly like the Python objects:

* `PredN` - the object tree (`Balanced.depth` is a field of the node; `__eq__` / `__hash__` of
  `Balanced` include the depth, so structural equality of `PredN` is Python's `==`);
  the state of a copy is the tuple of the depths of its `Balanced` nodes in tree order
  (`PredN.depths`), its immutable part is `PredN.shape`;
* `acceptNest` - `predicate.accept(token)`, returning the verdict and the mutated object:
  - `Or.accept` is `left.accept(t) or right.accept(t)`: the right operand is NOT evaluated
    (its state does not change) when the left one accepts; `And.accept` likewise with `and`;
  - `Balanced.accept`: `left.accept`, and only if that fails `right.accept`; on a closing
    token at depth 0 the depth becomes `-1`, the verdict is `False` and the depth STAYS `-1`;
  - the `satisfied` flags of the Python classes are written but never read (not by `accept`,
    `__eq__`, `__hash__`, `Pattern` or `matcher`), so they are not modelled;
* `nestAcceptor` - `Pattern.consume`'s `predicate_map`: the first time a transition's predicate
  (the *template*, an object of the compiled pattern) is evaluated by an attempt, the attempt
  takes a `deepcopy` of it; afterwards it evaluates (and mutates) its own copy. The map is
  keyed by the template (Python: `id(template)`; as in `Model/Token.lean` two equal templates
  of one pattern are taken to be the same object). Templates may carry any depths (Python
  copies whatever the template holds), freshly constructed ones carry `0`.
* `Pred.emb` - the object tree of a predicate of `Model/Token.lean` (all depths `0`).

Section "shared predicate objects" models what happens WITHOUT the deepcopy discipline
(`copy.copy` instead of `copy.deepcopy`, seeded change C14-7): the children of a copied
predicate are then shared by the template, by all attempts and by all later calls.
-/
namespace CL

/-- a predicate object; `balanced l r d` = `Balanced` with `left = l`, `right = r`, `depth = d` -/
inductive PredN where
  | name : PredN
  | keyword : Str → PredN
  | symbol : Str → PredN
  | operator : Str → PredN
  | value : Str → PredN
  | ident : Str → PredN
  | not : PredN → PredN
  | and : PredN → PredN → PredN
  | or : PredN → PredN → PredN
  | balanced : PredN → PredN → Int → PredN
  deriving Repr, DecidableEq, Inhabited

/-- `predicate.accept(token)`: the verdict and the object after the call -/
def acceptNest : PredN → Tok → Bool × PredN
  | .name, t => (t.isName, .name)
  | .keyword v, t => (t.isKeyword && t.val == v, .keyword v)
  | .symbol v, t => (t.isSymbol v, .symbol v)
  | .operator v, t => (t.isOperator v, .operator v)
  | .value v, t => (t.val == v, .value v)
  | .ident v, _ => (false, .ident v)
  | .not p, t =>
    let a := acceptNest p t
    (!a.1, .not a.2)
  | .and p q, t =>
    let a := acceptNest p t
    if a.1 then
      let b := acceptNest q t
      (b.1, .and a.2 b.2)
    else (false, .and a.2 q)
  | .or p q, t =>
    let a := acceptNest p t
    if a.1 then (true, .or a.2 q)
    else
      let b := acceptNest q t
      (b.1, .or a.2 b.2)
  | .balanced l r d, t =>
    let a := acceptNest l t
    if a.1 then (true, .balanced a.2 r (d + 1))
    else
      let b := acceptNest r t
      if b.1 then (decide (0 ≤ d - 1), .balanced a.2 b.2 (d - 1))
      else (decide (0 < d), .balanced a.2 b.2 d)

/-- the immutable part of a predicate object: the predicate of `Model/Token.lean` it was
constructed as -/
def PredN.shape : PredN → Pred
  | .name => .name
  | .keyword v => .keyword v
  | .symbol v => .symbol v
  | .operator v => .operator v
  | .value v => .value v
  | .ident v => .ident v
  | .not p => .not p.shape
  | .and p q => .and p.shape q.shape
  | .or p q => .or p.shape q.shape
  | .balanced l r _ => .balanced l.shape r.shape

/-- the state of a predicate object: the depths of its `Balanced` nodes, in tree order (a
`Balanced` node comes before the nodes inside its `left` and `right`) -/
def PredN.depths : PredN → List Int
  | .not p => p.depths
  | .and p q => p.depths ++ q.depths
  | .or p q => p.depths ++ q.depths
  | .balanced l r d => d :: (l.depths ++ r.depths)
  | _ => []

/-- a freshly constructed predicate object (every depth `0`) -/
def Pred.emb : Pred → PredN
  | .name => .name
  | .keyword v => .keyword v
  | .symbol v => .symbol v
  | .operator v => .operator v
  | .value v => .value v
  | .ident v => .ident v
  | .not p => .not p.emb
  | .and p q => .and p.emb q.emb
  | .or p q => .or p.emb q.emb
  | .balanced l r => .balanced l.emb r.emb 0

/-- `Pattern.predicate_map`: template ↦ the attempt's own copy -/
abbrev Copies := List (PredN × PredN)

/-- the attempt's copy of the template `p`; before the first use it is (a deepcopy of) the
template itself -/
def getCopy (cs : Copies) (p : PredN) : PredN :=
  match cs.find? (fun e => e.1 = p) with
  | some e => e.2
  | none => p

def setCopy (cs : Copies) (p c : PredN) : Copies :=
  (p, c) :: cs.filter (fun e => e.1 ≠ p)

/-- the body of the loop of `Pattern.consume` for one transition: look the copy up (creating
it by `deepcopy` if absent), call `accept` on it -/
def acceptCopy (p : PredN) (cs : Copies) (t : Tok) : Bool × Copies :=
  let a := acceptNest (getCopy cs p) t
  (a.1, setCopy cs p a.2)

def nestAcceptor : Acceptor PredN Copies Tok where
  init := []
  accept := acceptCopy

/-- `nfa_to_dfa(expression_to_nfa(expression))` for an expression over predicate objects -/
def compileNest (r : Rx PredN) : Except Err (Dfa PredN) :=
  match nfaToDfa (compile r 1) id with
  | some D => .ok D
  | none => .error .fuel

/-- `matcher.find_all(expression, tokens)` -/
def findAllNest (r : Rx PredN) (toks : List Tok) : Except Err (List (Match Tok)) :=
  match compileNest r with
  | .error e => .error e
  | .ok D => findAll (dfaMachine D nestAcceptor) toks

def Rx.map {α β : Type} (f : α → β) : Rx α → Rx β
  | .atom a => .atom (f a)
  | .cat r s => .cat (r.map f) (s.map f)
  | .alt r s => .alt (r.map f) (s.map f)
  | .opt r => .opt (r.map f)
  | .star r => .star (r.map f)
  | .plus r => .plus (r.map f)

/-! ## shared predicate objects (with and without the deepcopy discipline)

The functional machine above cannot even express a defect of the copy discipline: its
templates are values. Here the template objects live in a store `Shared` that every attempt of
every `find_all` call with the same expression object reads and - possibly - writes:

* `CopyMode.deep` = `copy.deepcopy(template)` (the real code): at first use the attempt takes a
  copy of the whole object tree *as it is now* in the store; it never writes to the store.
* `CopyMode.shallow` = `copy.copy(template)` (seeded change C14-7): the copy is a new top-level
  object whose fields are the *same* objects as the template's fields. So only the `depth` of a
  top-level `Balanced` is private; every object below the top node is the template's own and is
  mutated in place - for all attempts and all later calls. -/

/-- the template objects as they are now (template as compiled ↦ current object); `[]` = as
constructed -/
abbrev Shared := Copies

inductive CopyMode where
  | deep
  | shallow
  deriving Repr, DecidableEq

def topDepthOf : PredN → Int
  | .balanced _ _ d => d
  | _ => 0

def setTopDepth (p : PredN) (d : Int) : PredN :=
  match p with
  | .balanced l r _ => .balanced l r d
  | q => q

/-- the depth of the top node of the current template object is kept, the children are
replaced -/
def withChildrenOf (cur new : PredN) : PredN :=
  match cur, new with
  | .balanced _ _ d, .balanced l r _ => .balanced l r d
  | _, n => n

/-- the attempt's own record for template `p`, `dflt` before the first use -/
def getCopyOr (cs : Copies) (p dflt : PredN) : PredN :=
  match cs.find? (fun e => e.1 = p) with
  | some e => e.2
  | none => dflt

/-- one transition of `Pattern.consume` under the given copy discipline: verdict, the attempt's
`predicate_map`, the template objects afterwards -/
def acceptMode (mode : CopyMode) (p : PredN) (cs : Copies) (g : Shared) (t : Tok) :
    Bool × Copies × Shared :=
  let cur := getCopy g p
  match mode with
  | .deep =>
    let a := acceptNest (getCopyOr cs p cur) t
    (a.1, setCopy cs p a.2, g)
  | .shallow =>
    -- own top node (its depth), the template's children
    let a := acceptNest (setTopDepth cur (topDepthOf (getCopyOr cs p cur))) t
    (a.1, setCopy cs p a.2, setCopy g p (withChildrenOf cur a.2))

/-- `Pattern.consume`, threading the store of template objects -/
def consumeAuxG (mode : CopyMode) (x : Tok) :
    List (PredN × DState) → Option DState → Copies → Shared →
      Except Err (Option DState × Copies × Shared)
  | [], f, cs, g => .ok (f, cs, g)
  | (p, t) :: rest, f, cs, g =>
    let r := acceptMode mode p cs g x
    if r.1 then
      (if f.isSome then .error .multipleTransitions
       else consumeAuxG mode x rest (some t) r.2.1 r.2.2)
    else consumeAuxG mode x rest f r.2.1 r.2.2

/-- a machine whose steps read and write a store shared by all attempts and all calls -/
structure MachineG (β σ γ : Type) where
  init : σ
  step : γ → σ → β → Except Err (Option σ × γ)
  acc  : σ → Bool
  dead : σ → Bool

structure FSG (β σ γ : Type) where
  ms   : List (Match β)
  next : List (Att β σ)
  g    : γ

section
variable {β σ γ : Type}

/-- `procOne` of `Model/Pattern.lean` with the shared store threaded through (a failing
`consume` has already mutated the store) -/
def procOneG (A : MachineG β σ γ) (idx : Nat) (x : β) (fs : FSG β σ γ) (p : Att β σ) :
    Except Err (FSG β σ γ) :=
  if !fs.ms.isEmpty && p.start < lastEnd fs.ms then .ok fs
  else if A.dead p.st && A.acc p.st then .ok { fs with ms := p.toMatch idx :: fs.ms }
  else match A.step fs.g p.st x with
    | .error e => .error e
    | .ok (some q, g') =>
      .ok { fs with next := { p with st := q, toks := x :: p.toks } :: fs.next, g := g' }
    | .ok (none, g') =>
      .ok (if A.acc p.st then { fs with ms := p.toMatch idx :: fs.ms, g := g' }
           else { fs with g := g' })

def procAllG (A : MachineG β σ γ) (idx : Nat) (x : β) :
    List (Att β σ) → FSG β σ γ → Except Err (FSG β σ γ)
  | [], fs => .ok fs
  | p :: ps, fs => match procOneG A idx x fs p with
    | .error e => .error e
    | .ok fs' => procAllG A idx x ps fs'

def outerG (A : MachineG β σ γ) : Nat → List β → List (Match β) → List (Att β σ) → γ →
    Except Err (List (Match β) × List (Att β σ) × γ)
  | _, [], ms, act, g => .ok (ms, act, g)
  | idx, x :: xs, ms, act, g =>
    match procAllG A idx x (act ++ [⟨idx, A.init, []⟩]) ⟨ms, [], g⟩ with
    | .error e => .error e
    | .ok fs => outerG A (idx + 1) xs fs.ms fs.next.reverse fs.g

def finalizeG (A : MachineG β σ γ) (n : Nat) (ms : List (Match β)) (act : List (Att β σ)) :
    List (Match β) :=
  act.foldl (fun ms p =>
    if !ms.isEmpty && p.start < lastEnd ms then ms
    else if A.acc p.st then p.toMatch n :: ms else ms) ms

/-- `find_all` started with the store `g`: the matches and the store it leaves behind -/
def findAllG (A : MachineG β σ γ) (g : γ) (xs : List β) : Except Err (List (Match β) × γ) :=
  match outerG A 0 xs [] [] g with
  | .error e => .error e
  | .ok (ms, act, g') => .ok ((finalizeG A xs.length ms act).reverse, g')

/-- a machine that does not use the store -/
def Machine.toG (A : Machine β σ) : MachineG β σ γ where
  init := A.init
  step := fun g s x => match A.step s x with
    | .error e => .error e
    | .ok r => .ok (r, g)
  acc := A.acc
  dead := A.dead

end

/-- the pattern machine under a copy discipline -/
def modeMachine (mode : CopyMode) (D : Dfa PredN) : MachineG Tok (DState × Copies) Shared where
  init := (.start, [])
  step := fun g s x =>
    match consumeAuxG mode x (D.row s.1) none s.2 g with
    | .error e => .error e
    | .ok (none, _, g') => .ok (none, g')
    | .ok (some t, cs, g') => .ok (some (t, cs), g')
  acc := fun s => D.isAcc s.1
  dead := fun s => (D.row s.1).isEmpty

/-- `find_all` under a copy discipline, started with the template objects in state `g`: the
matches and the template objects afterwards -/
def findAllMode (mode : CopyMode) (r : Rx PredN) (g : Shared) (toks : List Tok) :
    Except Err (List (Match Tok) × Shared) :=
  match compileNest r with
  | .error e => .error e
  | .ok D => findAllG (modeMachine mode D) g toks

end CL

