import CodeLimit.Model.ProgText
import CodeLimit.Spec.PyTree
/-!
# Source TEXT of a Python indentation tree, and the raw token stream assumed for it

`Spec/PyTree.lean` renders a forest `t : PyProg PTok` to located tokens (`pyRender t`, the first
token of the file stands on line `nl ≥ 1`).  Here the same forest is rendered to characters, the
Python counterpart of `Model/ProgText.lean`:

* `pyTextOf t : Str` - the source text: every token's text, preceded by the white space that puts
  it at the (line, column) `pyRender` assigns to it, and ONE trailing newline after the last token;
* `pyRawOf t : List RawTok` - the raw token stream `(offset, kind, type, value)` of that text: the
  tokens of the forest at their offsets, ONE whitespace token (kind 6) for every non-empty gap and
  one for the trailing newline (the real lexer emits a newline token and an indentation token
  separately; `lex` only needs the tiling and drops whitespace tokens);
* `PyProg.Spaced t : Bool` - the side condition under which the text reproduces the rendering:
  token texts are not empty, and no token starts before its predecessor ends.

Unlike `textFrom` of the brace languages, a token's text MAY contain line breaks (a docstring
over several lines is ONE token of the canonical Python fragment): `nl` counts the line breaks
from the line on which the previous token STARTS, so the gap after a token whose text contains
`k` line breaks has `nl - k` newline characters.  For forests without such tokens the text is
`textFrom` of `Model/ProgText.lean` (`Lemmas/PyTreeText.lean`: `pyTextFrom_eq_textFrom`,
`pyTextOf_eq_textFrom`).

Everything only depends on the token sequence `t.flat`.  Mathlib-free: linked into the driver
(`Model/PyTreeOps.lean`).
-/
namespace CL

/-- the number of characters after the last newline of `s` (all of `s` if there is none) -/
def tailLen (s : Str) : Nat := (s.reverse.takeWhile (· ≠ 10)).length

/-- the column of the write position after a token with text `pv` that starts at `s`: one past
its last character -/
def endCol (s : Nat × Nat) (pv : Str) : Nat :=
  if pv.count 10 = 0 then s.2 + pv.length else tailLen pv + 1

/-- the white space written before token `t`: `s` = the location of the previous token, `pv` =
its text (the write position is on line `s.1 + pv.count 10`, in column `endCol s pv`).  If `t`
stands on the line of the write position: blanks up to its column; otherwise the missing
newlines, then `t.col` blanks. -/
def PTok.pyGap (s : Nat × Nat) (pv : Str) (t : PTok) : Str :=
  if t.nl ≤ pv.count 10 then blanks ((t.put s).col - endCol s pv)
  else lineBreaks (t.nl - pv.count 10) ++ blanks t.col

/-- the text of the tokens `l` and one trailing newline; `s` = the location of the previous
token (as in `place`), `pv` = its text -/
def pyTextFrom : Nat × Nat → Str → List PTok → Str
  | _, _, [] => [10]
  | s, pv, t :: ts => t.pyGap s pv ++ (t.val ++ pyTextFrom (t.put s).loc t.val ts)

/-- the raw tokens of `pyTextFrom s pv l`, the first character having offset `off` -/
def pyRawFrom : Nat → Nat × Nat → Str → List PTok → List RawTok
  | off, _, _, [] => [⟨off, 6, 0, [10]⟩]
  | off, s, pv, t :: ts =>
    wsTok off (t.pyGap s pv) ++
      ⟨off + (t.pyGap s pv).length, t.kind, t.ty, t.val⟩ ::
        pyRawFrom (off + (t.pyGap s pv).length + t.val.length) (t.put s).loc t.val ts

/-- the source text of a token list that begins a file.  The layout starts "after a token at
(0, 0)": the first token, `nl ≥ 1` line breaks later, stands on line `nl`.  The text starts on
line 1, so the virtual predecessor is given the text of ONE line break. -/
def pyTextOfToks (l : List PTok) : Str := pyTextFrom (0, 0) [10] l

/-- the raw token stream of `pyTextOfToks l` -/
def pyRawOfToks (l : List PTok) : List RawTok := pyRawFrom 0 (0, 0) [10] l

/-- **the source text of a Python forest** -/
def pyTextOf (t : PyProg PTok) : Str := pyTextOfToks t.flat

/-- **the raw token stream of `pyTextOf t`** -/
def pyRawOf (t : PyProg PTok) : List RawTok := pyRawOfToks t.flat

/-- token `t` does not start before the end of its predecessor with text `pv`: it starts on a
later line than the one on which the predecessor ends, or on that line with `col + 1 ≥` the
length of the predecessor's text (one-line predecessor: `col` counts from its FIRST column) resp.
`col ≥` the length of the last line of the predecessor's text (`col` counts from column 1) -/
def PTok.gapOk (pv : Str) (t : PTok) : Bool :=
  decide (pv.count 10 < t.nl) ||
    (t.nl == pv.count 10 &&
      (if pv.count 10 = 0 then decide (pv.length ≤ t.col + 1) else decide (tailLen pv ≤ t.col)))

/-- `Spaced` for the tokens following a token with text `pv` -/
def pySpacedAfter : Str → List PTok → Bool
  | _, [] => true
  | pv, t :: ts => !t.val.isEmpty && t.gapOk pv && pySpacedAfter t.val ts

/-- **the side condition on the layout** (decidable): token texts are not empty; no token starts
before its predecessor ends (see `PTok.gapOk`); the first token of the file follows at least one
"line break" (`nl ≥ 1`: it stands on line `nl`) -/
def PyProg.Spaced (t : PyProg PTok) : Bool := pySpacedAfter [10] t.flat

/-- no token of the forest is a whitespace token (`lex` would drop it) -/
def PyProg.noWs (t : PyProg PTok) : Bool := t.flat.all (fun x => !x.bare.isWhitespace)

/-- the first token with one line break less: the token list whose layout after (1, 0) is the
layout of the original list after (0, 0) -/
def decFirst : List PTok → List PTok
  | [] => []
  | t :: ts => { t with nl := t.nl - 1 } :: ts

end CL
