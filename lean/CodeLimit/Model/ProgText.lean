import CodeLimit.Spec.ProgTree
/-!
# Source TEXT of a program forest, and the raw token stream a lexer is assumed to produce for it

`Spec/ProgTree.lean` renders a forest `p : Prog PTok` to located tokens (`render p`).  Here the
same forest is rendered to characters:

* `textOf p : Str` - the source text: every token's text, preceded by the white space that
  puts it at the (line, column) `render` assigns to it (`nl` newlines `10` and `col` blanks `32`
  after a line break; blanks up to column `previous column + 1 + col` on the same line), and ONE
  trailing newline after the last token;
* `rawOf p : List RawTok` - the raw token stream `(offset, kind, type, value)` of that text: the
  tokens of the forest at their offsets, ONE whitespace token (kind 6) for every non-empty gap
  and one for the trailing newline.  A real lexer splits gaps differently (a newline token, an
  indentation token ...); the model of `lex` only needs the tiling (`RawOk`), and whitespace
  tokens are dropped by `lex` anyway;
* `Prog.Spaced p : Bool` - the side condition under which the text reproduces the rendering:
  token texts are non-empty and contain no newline, and a token that stays on the line of its
  predecessor (`nl = 0`) does not start before the predecessor ends (`col + 1 ≥` the length of the
  predecessor's text: `col` counts from the predecessor's FIRST column).

Everything only depends on the token sequence `p.flat` (as `render` does: `render_eq`).
Mathlib-free: linked into the driver (`Model/ProgTreeOps.lean`).
-/
namespace CL

/-- `n` blanks -/
def blanks (n : Nat) : Str := List.replicate n 32

/-- `n` newline characters -/
def lineBreaks (n : Nat) : Str := List.replicate n 10

/-- the white space written before token `t`: `c0` = the column of the previous token (0 at the
start of the file), `e` = the column of the write position (one past the end of the previous
token; 1 at the start of the file).  On the same line: blanks up to column `c0 + 1 + t.col`;
after line breaks: `t.nl` newlines, then `t.col` blanks. -/
def PTok.gapText (c0 e : Nat) (t : PTok) : Str :=
  if t.nl = 0 then blanks (c0 + 1 + t.col - e) else lineBreaks t.nl ++ blanks t.col

/-- the text of the tokens `l` and one trailing newline; `s` = the location of the previous
token (as in `place`), `e` = the column of the write position -/
def textFrom : Nat × Nat → Nat → List PTok → Str
  | _, _, [] => [10]
  | s, e, t :: ts =>
    t.gapText s.2 e ++ (t.val ++ textFrom (t.put s).loc ((t.put s).col + t.val.length) ts)

/-- the whitespace raw token for the gap `g` at offset `off` (none for an empty gap) -/
def wsTok (off : Nat) (g : Str) : List RawTok := if g.isEmpty then [] else [⟨off, 6, 0, g⟩]

/-- the raw tokens of `textFrom s e l`, the first character having offset `off` -/
def rawFrom : Nat → Nat × Nat → Nat → List PTok → List RawTok
  | off, _, _, [] => [⟨off, 6, 0, [10]⟩]
  | off, s, e, t :: ts =>
    wsTok off (t.gapText s.2 e) ++
      ⟨off + (t.gapText s.2 e).length, t.kind, t.ty, t.val⟩ ::
        rawFrom (off + (t.gapText s.2 e).length + t.val.length) (t.put s).loc
          ((t.put s).col + t.val.length) ts

/-- **the source text of a forest** -/
def textOf (p : Prog PTok) : Str := textFrom (1, 0) 1 p.flat

/-- **the raw token stream of `textOf p`** -/
def rawOf (p : Prog PTok) : List RawTok := rawFrom 0 (1, 0) 1 p.flat

/-- `Spaced` for the tokens following a token whose text has `w` characters: every text is
non-empty and without newline, and a token on the line of its predecessor starts at or after
the predecessor's end -/
def spacedAfter : Nat → List PTok → Bool
  | _, [] => true
  | w, t :: ts =>
    !t.val.isEmpty && !t.val.contains 10 && (t.nl != 0 || decide (w ≤ t.col + 1))
      && spacedAfter t.val.length ts

/-- **the side condition on the layout** (decidable): token texts are non-empty and contain no
newline; a token that stays on the line (`nl = 0`) has `col + 1 ≥` the length of the previous
token's text, i.e. it starts in a column at or past the end of the previous token (the first
token of the file has no predecessor: width 0) -/
def Prog.Spaced (p : Prog PTok) : Bool := spacedAfter 0 p.flat

/-- no token of the forest is a whitespace token (`lex` would drop it) -/
def Prog.noWs (p : Prog PTok) : Bool := p.flat.all (fun t => !t.bare.isWhitespace)

end CL
