import CodeLimit.Model.Token
/-!
# JSON as Python's `json` module reads and writes it (the part Code Limit's report uses)

Strings are lists of Unicode code points (`Str = List Nat`), so lone surrogates exist, exactly
as in a Python `str`.

* `dumpsStr` - `json.dumps(s)` for a `str` with the default `ensure_ascii=True`
  (`_json.c: ascii_escape_unicode`); `dumpsOpt` adds `json.dumps(None) = "null"`.
* `intText` - `f"{n}"` / `str(n)` for a Python `int`.
* `parseJson` - `json.loads(text)` (`json/decoder.py: JSONDecoder.decode` with the C scanner
  `_json.c: scan_once_unicode`, `_parse_object_unicode`, `_parse_array_unicode`,
  `scanstring_unicode` (strict), `_match_number_unicode`), `none` = `JSONDecodeError`.

The parser is written as a one-pass pushdown machine (`step` folded over the input, explicit
stack of open containers): this is the recursive-descent parser of `_json.c` with its call
stack made explicit.  It is structurally recursive on the input, hence total without fuel and
evaluable by the kernel.

Deliberate limits (stated in the correspondence check as assumptions):
* floats are accepted exactly where Python accepts them, but their value is kept as the lexeme
  (`JVal.real`); `NaN`, `Infinity`, `-Infinity` are `JVal.nonfinite 0/1/2`;
* Python refuses integers of more than 4300 digits (`sys.int_max_str_digits`) and nesting
  deeper than the recursion limit; the model has neither limit;
* `-0` is the integer `0` (Python: `int("-0") == 0`).
-/
namespace CL.Json

open Lean in
/-- `cp! "abc"`: the code points of a literal, as a `List Nat` literal -/
macro "cp!" s:str : term => do
  let cs := s.getString.toList.map fun c => Syntax.mkNumLit (toString c.toNat)
  `(([$(cs.toArray),*] : List Nat))

/-- a parsed JSON document, as `json.loads` returns it (`dict` in insertion order) -/
inductive JVal where
  | null
  | bool (b : Bool)
  | num (n : Int)
  | real (lexeme : Str)          -- a number with fraction and/or exponent: the lexeme
  | nonfinite (k : Nat)          -- 0 `NaN`, 1 `Infinity`, 2 `-Infinity`
  | str (s : Str)
  | arr (items : List JVal)
  | obj (members : List (Str × JVal))
  deriving Repr, Inhabited

/-! ## `dict` semantics -/

/-- `d[k] = v` on an insertion-ordered `dict`: an existing key keeps its position -/
def dictInsert {α : Type} (d : List (Str × α)) (k : Str) (v : α) : List (Str × α) :=
  match d with
  | [] => [(k, v)]
  | (k', v') :: t => if k' = k then (k', v) :: t else (k', v') :: dictInsert t k v

/-- the `dict` built by inserting the pairs in order (duplicate keys: first position, last value) -/
def dictOfPairs {α : Type} (ps : List (Str × α)) : List (Str × α) :=
  ps.foldl (fun d kv => dictInsert d kv.1 kv.2) []

/-- `k in d` / `d[k]` on the members of a `dict` -/
def lookup {α : Type} (k : Str) : List (Str × α) → Option α
  | [] => none
  | (k', v) :: t => if k' = k then some v else lookup k t

/-! ## Writing: `json.dumps` of a string, `str` of an int -/

/-- lower-case hexadecimal digit (`"0123456789abcdef"[n]`) -/
def hexDigit (n : Nat) : Nat := if n < 10 then 48 + n else 87 + n

/-- `\uXXXX` -/
def uEsc (c : Nat) : Str :=
  [92, 117, hexDigit (c / 4096 % 16), hexDigit (c / 256 % 16), hexDigit (c / 16 % 16), hexDigit (c % 16)]

/-- `ascii_escape_unichar`: the output for one code point. Python computes the surrogates as
`0xd800 | ((v >> 10) & 0x3ff)` and `0xdc00 | (v & 0x3ff)` with `v = c - 0x10000`; for
`c < 0x110000` these are the sums below. -/
def escCp (c : Nat) : Str :=
  if c = 34 then [92, 34]
  else if c = 92 then [92, 92]
  else if c = 10 then [92, 110]
  else if c = 13 then [92, 114]
  else if c = 9 then [92, 116]
  else if c = 8 then [92, 98]
  else if c = 12 then [92, 102]
  else if 32 ≤ c ∧ c ≤ 126 then [c]
  else if c ≥ 65536 then
    uEsc (55296 + (c - 65536) / 1024 % 1024) ++ uEsc (56320 + (c - 65536) % 1024)
  else uEsc c

/-- the text between the quotes -/
def strBody (s : Str) : Str := s.flatMap escCp

/-- `json.dumps(s)` for `s : str` -/
def dumpsStr (s : Str) : Str := 34 :: (strBody s ++ [34])

/-- `json.dumps(x)` for `x : str | None` -/
def dumpsOpt : Option Str → Str
  | none => cp! "null"
  | some s => dumpsStr s

/-- decimal digits of a natural number -/
def natText (n : Nat) : Str := (Nat.toDigits 10 n).map Char.toNat

/-- `f"{n}"` for a Python `int` -/
def intText : Int → Str
  | .ofNat n => natText n
  | .negSucc n => 45 :: natText (n + 1)

/-! ## Reading: `json.loads` -/

def isWs (c : Nat) : Bool := c = 32 || c = 9 || c = 10 || c = 13
def isDigit (c : Nat) : Bool := 48 ≤ c && c ≤ 57
def isHigh (c : Nat) : Bool := 55296 ≤ c && c ≤ 56319
def isLow (c : Nat) : Bool := 56320 ≤ c && c ≤ 57343

/-- value of a hexadecimal digit, either case -/
def hexVal (c : Nat) : Option Nat :=
  if 48 ≤ c ∧ c ≤ 57 then some (c - 48)
  else if 97 ≤ c ∧ c ≤ 102 then some (c - 87)
  else if 65 ≤ c ∧ c ≤ 70 then some (c - 55)
  else none

/-- the character after a backslash, other than `u` -/
def simpleEsc (c : Nat) : Option Nat :=
  if c = 34 then some 34 else if c = 92 then some 92 else if c = 47 then some 47
  else if c = 98 then some 8 else if c = 102 then some 12 else if c = 110 then some 10
  else if c = 114 then some 13 else if c = 116 then some 9 else none

/-- `Py_UNICODE_JOIN_SURROGATES` -/
def joinSurrogates (h l : Nat) : Nat := 65536 + ((h - 55296) * 1024 + (l - 56320))

/-- an open container: its contents so far (most recent first); an object also holds the key
whose value is being read -/
inductive Frame where
  | arr (acc : List JVal)
  | obj (acc : List (Str × JVal)) (key : Option Str)
  deriving Repr, Inhabited

/-- where `scanstring` is inside a string -/
inductive SState where
  | plain
  | esc                          -- after a backslash
  | hex (k v : Nat)              -- after `\u` and `k` hex digits of value `v`
  | hi (h : Nat)                 -- a `\uXXXX` high surrogate was read; look ahead for `\uXXXX`
  | hiEsc (h : Nat)              -- ... and a backslash
  | hiHex (h k v : Nat)          -- ... and `\u` and `k` hex digits
  deriving Repr, Inhabited

/-- where `_match_number` is inside a number -/
inductive NumPhase where
  | minus | zero | int | frac0 | frac | exp0 | expSign | exp
  deriving Repr, DecidableEq, Inhabited

inductive Mode where
  | value (first : Bool)         -- a value is expected (`first`: just after `[`, so `]` is allowed)
  | key (first : Bool)           -- a property name is expected (`first`: just after `{`, so `}` is allowed)
  | colon
  | next                         -- after a value inside a container: `,` or the closing bracket
  | str (isKey : Bool) (acc : Str) (ss : SState)
  | num (neg : Bool) (val : Nat) (txt : Str) (ph : NumPhase)
  | lit (rem : Str) (v : JVal)   -- the rest of `null`, `true`, `false`, `NaN`, `Infinity`
  | done (v : JVal)              -- the document's value is complete: only whitespace may follow
  | err
  deriving Repr, Inhabited

structure St where
  mode : Mode
  stack : List Frame
  deriving Repr, Inhabited

def St.error : St := ⟨.err, []⟩

/-- a value is complete: hand it to the innermost open container -/
def complete (v : JVal) : List Frame → St
  | [] => ⟨.done v, []⟩
  | .arr acc :: K => ⟨.next, .arr (v :: acc) :: K⟩
  | .obj acc (some k) :: K => ⟨.next, .obj ((k, v) :: acc) none :: K⟩
  | .obj _ none :: _ => St.error

def completeStr (isKey : Bool) (s : Str) (K : List Frame) : St :=
  if isKey then
    match K with
    | .obj acc none :: K' => ⟨.colon, .obj acc (some s) :: K'⟩
    | _ => St.error
  else complete (.str s) K

/-- `scan_once` on the first character of a value -/
def startValue (K : List Frame) (c : Nat) : St :=
  if c = 34 then ⟨.str false [] .plain, K⟩
  else if c = 123 then ⟨.key true, .obj [] none :: K⟩
  else if c = 91 then ⟨.value true, .arr [] :: K⟩
  else if c = 110 then ⟨.lit (cp! "ull") .null, K⟩
  else if c = 116 then ⟨.lit (cp! "rue") (.bool true), K⟩
  else if c = 102 then ⟨.lit (cp! "alse") (.bool false), K⟩
  else if c = 78 then ⟨.lit (cp! "aN") (.nonfinite 0), K⟩
  else if c = 73 then ⟨.lit (cp! "nfinity") (.nonfinite 1), K⟩
  else if c = 45 then ⟨.num true 0 [45] .minus, K⟩
  else if c = 48 then ⟨.num false 0 [48] .zero, K⟩
  else if 49 ≤ c ∧ c ≤ 57 then ⟨.num false (c - 48) [c] .int, K⟩
  else St.error

/-- after a value inside a container -/
def stepNext (K : List Frame) (c : Nat) : St :=
  if isWs c then ⟨.next, K⟩ else
  match K with
  | .arr acc :: K' =>
      if c = 44 then ⟨.value false, K⟩
      else if c = 93 then complete (.arr acc.reverse) K'
      else St.error
  | .obj acc _ :: K' =>
      if c = 44 then ⟨.key false, K⟩
      else if c = 125 then complete (.obj (dictOfPairs acc.reverse)) K'
      else St.error
  | [] => St.error

/-- after the document's value: `JSONDecoder.decode` allows whitespace only ("Extra data") -/
def stepDone (v : JVal) (c : Nat) : St :=
  if isWs c then ⟨.done v, []⟩ else St.error

/-- one character in a state produced by `complete` -/
def stepCompleted (s : St) (c : Nat) : St :=
  match s.mode with
  | .next => stepNext s.stack c
  | .done v => stepDone v c
  | _ => St.error

/-- the value of a number that ends here, if it can end here -/
def numDone (neg : Bool) (val : Nat) (txt : Str) : NumPhase → Option JVal
  | .zero | .int => some (.num (if neg then -(val : Int) else (val : Int)))
  | .frac | .exp => some (.real txt.reverse)
  | _ => none

/-- `_match_number_unicode`; a character that cannot continue the number ends it and is then
read in the state after the value -/
def stepNum (neg : Bool) (val : Nat) (txt : Str) (ph : NumPhase) (K : List Frame) (c : Nat) : St :=
  let go (ph' : NumPhase) : St := ⟨.num neg val (c :: txt) ph', K⟩
  let fin : St :=
    match numDone neg val txt ph with
    | some v => stepCompleted (complete v K) c
    | none => St.error
  let isE : Bool := c = 101 || c = 69
  match ph with
  | .minus =>
      if c = 48 then go .zero
      else if 49 ≤ c ∧ c ≤ 57 then ⟨.num neg (c - 48) (c :: txt) .int, K⟩
      else if c = 73 then ⟨.lit (cp! "nfinity") (.nonfinite 2), K⟩
      else St.error
  | .zero => if c = 46 then go .frac0 else if isE then go .exp0 else fin
  | .int =>
      if isDigit c then ⟨.num neg (val * 10 + (c - 48)) (c :: txt) .int, K⟩
      else if c = 46 then go .frac0 else if isE then go .exp0 else fin
  | .frac0 => if isDigit c then go .frac else St.error
  | .frac => if isDigit c then go .frac else if isE then go .exp0 else fin
  | .exp0 => if isDigit c then go .exp else if c = 43 ∨ c = 45 then go .expSign else St.error
  | .expSign => if isDigit c then go .exp else St.error
  | .exp => if isDigit c then go .exp else fin

/-- inside a string, no escape pending (`strict=True`: raw control characters are errors) -/
def stepPlain (k : Bool) (acc : Str) (K : List Frame) (c : Nat) : St :=
  if c = 34 then completeStr k acc.reverse K
  else if c = 92 then ⟨.str k acc .esc, K⟩
  else if c < 32 then St.error
  else ⟨.str k (c :: acc) .plain, K⟩

/-- the character after a backslash -/
def stepEsc (k : Bool) (acc : Str) (K : List Frame) (c : Nat) : St :=
  if c = 117 then ⟨.str k acc (.hex 0 0), K⟩
  else match simpleEsc c with
    | some d => ⟨.str k (d :: acc) .plain, K⟩
    | none => St.error

/-- a `\uXXXX` escape with value `u` is complete -/
def afterU (k : Bool) (acc : Str) (K : List Frame) (u : Nat) : St :=
  if isHigh u then ⟨.str k acc (.hi u), K⟩ else ⟨.str k (u :: acc) .plain, K⟩

/-- `scanstring_unicode`: an escaped high surrogate immediately followed by an escaped low
surrogate becomes one code point; anything else after it leaves it alone -/
def stepStr (k : Bool) (acc : Str) (ss : SState) (K : List Frame) (c : Nat) : St :=
  match ss with
  | .plain => stepPlain k acc K c
  | .esc => stepEsc k acc K c
  | .hex n v =>
      match hexVal c with
      | none => St.error
      | some d => if n = 3 then afterU k acc K (v * 16 + d) else ⟨.str k acc (.hex (n + 1) (v * 16 + d)), K⟩
  | .hi h => if c = 92 then ⟨.str k acc (.hiEsc h), K⟩ else stepPlain k (h :: acc) K c
  | .hiEsc h => if c = 117 then ⟨.str k acc (.hiHex h 0 0), K⟩ else stepEsc k (h :: acc) K c
  | .hiHex h n v =>
      match hexVal c with
      | none => St.error
      | some d =>
          if n = 3 then
            (if isLow (v * 16 + d) then ⟨.str k (joinSurrogates h (v * 16 + d) :: acc) .plain, K⟩
             else afterU k (h :: acc) K (v * 16 + d))
          else ⟨.str k acc (.hiHex h (n + 1) (v * 16 + d)), K⟩

/-- one character -/
def step (s : St) (c : Nat) : St :=
  match s.mode with
  | .value first =>
      if isWs c then s
      else if c = 93 ∧ first = true then
        (match s.stack with
         | .arr _ :: K' => complete (.arr []) K'
         | _ => St.error)
      else startValue s.stack c
  | .key first =>
      if isWs c then s
      else if c = 34 then ⟨.str true [] .plain, s.stack⟩
      else if c = 125 ∧ first = true then
        (match s.stack with
         | .obj _ _ :: K' => complete (.obj []) K'
         | _ => St.error)
      else St.error
  | .colon => if isWs c then s else if c = 58 then ⟨.value false, s.stack⟩ else St.error
  | .next => stepNext s.stack c
  | .str k acc ss => stepStr k acc ss s.stack c
  | .num neg val txt ph => stepNum neg val txt ph s.stack c
  | .lit rem v =>
      (match rem with
       | [] => St.error
       | r :: rs => if c = r then (if rs.isEmpty then complete v s.stack else ⟨.lit rs v, s.stack⟩) else St.error)
  | .done v => stepDone v c
  | .err => St.error

def run (s : St) (cs : List Nat) : St := cs.foldl step s

def St.init : St := ⟨.value false, []⟩

/-- end of input -/
def finish (s : St) : Option JVal :=
  match s.mode, s.stack with
  | .done v, _ => some v
  | .num neg val txt ph, [] => numDone neg val txt ph
  | _, _ => none

/-- `json.loads(text)`; `none` = `JSONDecodeError` -/
def parseJson (cs : List Nat) : Option JVal := finish (run St.init cs)

/-! ## Accessors used by readers of parsed documents -/

def JVal.str? : JVal → Option Str
  | .str s => some s
  | _ => none

def JVal.num? : JVal → Option Int
  | .num n => some n
  | _ => none

end CL.Json
