import CodeLimit.Model.Entry
import CodeLimit.Model.ReportOps
/-!
# Driver operation for `Model/Entry.lean`: a history of entry calls in one interpreter

Words as in `Model/ReportOps.lean`: `<str>` = `<len> <codepoint>*`, `<opt>` = `0` | `1 <str>`,
`<path>` = `<n> <str component>*n`.

```
entry <str version> <node> <yamltab> <linestab> <langs> <rawtab> <caches> <n> call*n

node     := F <str name> <str text> | D <str name> <k> node*k      the tree from `/` (its own name is unused)
yamltab  := <n> (<str text> <doc>)*n        what `yaml.load` makes of the text of a `.codelimit.yml`
   doc   := M (0 | 1 <k> <str>*k) (0 | 1 | 2) | I | R               mapping: exclude absent / list, verbose absent / false / true;
                                                                    inert; raises.  A text not listed: raises
linestab := <n> (<str text> <k> <str line>*k)*n                     `splitlines` of the text of a `.gitignore`; not listed: no lines
langs    := <n> (<str file name> <lexer number>)*n                  `get_lexer_for_filename`; not listed: `ClassNotFound`
rawtab   := <n> (<lexer number> <str text> <k> (<off> <kind> <ty> <str val>)*k)*n  the output of a lexer for a text; not listed: no tokens
caches   := <n> (<path dir> <str text>)*n                           `<dir>/.codelimit_cache/codelimit.json` before the first call

call     := S <path root> <excl> <0|1 verbose> (0 | 1 <str owner> <str name> <opt branch>) <str uuid> <str now>
          | C <path cwd> <n> (<kind> <path>)*n <excl> <0|1 quiet> <0|1 verbose>     kind as in `checksel`
          | R <path root> <0|1 markdown> (0 | 1 <opt text>)                          `--diff`: absent | the file's text
          | F <path root> <0|1 full> <0|1 markdown>
excl     := 0 | 1 <k> <str>*k                                        `None` | the list of `--exclude` values
```
Reply: `ok <n> (reply proc)*n`, one pair per call, each part ending in `;`
```
P <k> <str>*k <verbose> (0 | 1 <str owner> <str name> <opt branch>) ;      the class attributes after the call
L ;                                                  `Configuration.load` raised
S <lines> <verbose> <0|1 repository> (U | E <code> | K <n> (<str key> <k> <int value>*k)*n) ;
C <lines> <verbose> <quiet> (U | E <code> | K <exit> <0|1 printed> <count> <n> (<0|1 abs> <path> <k> <len>*k)*n) ;
D <noreport | mismatch | raise json|key|type | shown <n> <str key>*n> <exit | -> <headline number> <opt text> ;
```
`<lines>` = `<k> <str>*k`: all lines handed to `PathSpec.from_lines`, built-in ones included.
`U`: outside the model (a line outside the six pattern classes, or the root is not a directory).
`decode` and `checksum` are the identity.
-/
namespace CL.Entry.Ops

open CL CL.Sel CL.Json.Ops

def pPath : P (List Str) := many pStr

/-- a tree; the fuel bounds the nesting depth (the number of words left is enough) -/
def pNodeF : Nat → P Node
  | 0 => return .file [] []
  | fuel + 1 => do
    match (← nextWord) with
    | "F" => let name ← pStr; let text ← pStr; return .file name text
    | "D" =>
      let name ← pStr
      let ch ← many (pNodeF fuel)
      return .dir name ch
    | _ => return .file [] []

def pNode : P Node := do
  let ws ← get
  pNodeF ws.length

def pDoc : P ConfigDoc := do
  match (← nextWord) with
  | "M" =>
    let ex ← (do if (← nextNat) == 1 then return some (← many pStr) else return none)
    let vb ← nextNat
    return .mapping ex (match vb with | 0 => none | 1 => some false | _ => some true)
  | "I" => return .inert
  | _ => return .raises

def pRaw : P (List RawTok) := many (do
  let off ← nextNat; let kind ← nextNat; let ty ← nextNat; let v ← pStr
  return (⟨off, kind, ty, v⟩ : RawTok))

def pExcl : P (Option (List Str)) := do
  if (← nextNat) == 1 then return some (← many pStr) else return none

def pArg : P CheckArg := do
  let kind ← nextNat
  let p ← pPath
  return match kind with
    | 0 => .relFile p | 1 => .absFile p | 2 => .relDir p | _ => .absDir p

def pFmt : P Fmt := do return (if (← nextNat) == 1 then .markdown else .text)

def pCall : P Call := do
  match (← nextWord) with
  | "S" =>
    let root ← pPath; let ex ← pExcl; let vb ← nextNat
    let det ← (do
      if (← nextNat) == 1 then
        let o ← pStr; let n ← pStr; let b ← pOpt
        return some (⟨o, n, b, none⟩ : Json.Repo)
      else return none)
    let uuid ← pStr; let now ← pStr
    return .scan root ex (vb == 1) det uuid now
  | "C" =>
    let cwd ← pPath; let args ← many pArg; let ex ← pExcl; let q ← nextNat; let vb ← nextNat
    return .check cwd args ex (q == 1) (vb == 1)
  | "R" =>
    let root ← pPath; let fmt ← pFmt
    let diff ← (do if (← nextNat) == 1 then return some (← pOpt) else return none)
    return .report root fmt diff
  | _ =>
    let root ← pPath; let full ← nextNat; let fmt ← pFmt
    return .findings root (full == 1) fmt

def lookupD {α β : Type} [BEq α] (d : β) (k : α) : List (α × β) → β
  | [] => d
  | (k', v) :: r => if k' == k then v else lookupD d k r

def mkSys (version : Str) (yamltab : List (Str × ConfigDoc)) (linestab : List (Str × List Str))
    (langs : List (Str × Nat)) (rawtab : List ((Nat × Str) × List RawTok)) : Sys where
  env := { lexerOf := fun n => lookupD none n (langs.map fun kv => (kv.1, some kv.2)),
           lexOf := fun i t => lookupD [] (i, t) rawtab,
           decode := id, checksum := id, version := version }
  lines := fun t => lookupD [] t linestab
  yaml := fun t => lookupD .raises t yamltab

def showLines (l : List Str) : String := showMany showStr l

def showBool (b : Bool) : String := if b then "1" else "0"

def showCPath (p : CPath) : String := showBool p.abs ++ " " ++ showMany showStr p.comps

def headlineNo : Headline → Nat
  | .noReportMsg => 0 | .mismatchMsg => 1 | .overviewText => 2 | .overviewMarkdown => 3
  | .findingsTable false => 4 | .findingsTable true => 5 | .findingsRows => 6 | .nothing => 7

def showReply : Reply → String
  | .loadRaised => "L ;"
  | .scan c =>
    String.intercalate " " ["S", showLines c.lines, showBool c.verbose, showBool c.repository.isSome,
      (match c.result with
       | none => "U"
       | some (.error e) => s!"E {e.code}"
       | some (.ok (d, _)) => "K " ++ showMany (fun (kv : Str × Json.FileData) =>
           showStr kv.1 ++ " " ++ showInts (kv.2.measurements.map (·.value))) d.files), ";"]
  | .check c =>
    String.intercalate " " ["C", showLines c.lines, showBool c.verbose, showBool c.quiet,
      (match c.result with
       | none => "U"
       | some (.error e) => s!"E {e.code}"
       | some (.ok co) => String.intercalate " " ["K", toString co.out.exitCode, showBool co.out.printed,
           toString co.out.count,
           showMany (fun (pr : CPath × List Measurement) => showCPath pr.1 ++ " " ++
             showMany (fun (m : Measurement) => toString m.len) pr.2) co.files]), ";"]
  | .shown c =>
    String.intercalate " " ["D",
      (match c.display with
       | .noReport => "noreport"
       | .mismatch => "mismatch"
       | .raises .json => "raise json"
       | .raises .key => "raise key"
       | .raises .type => "raise type"
       | .shown r _ => "shown " ++ showMany (fun (kv : Str × Json.UFile) => showStr kv.1) r.files),
      (match c.display.exit with | none => "-" | some n => toString n),
      toString (headlineNo c.headline), showOpt c.headline.text, ";"]

/-- `Configuration.exclude`, `verbose`, `repository` after a call -/
def showProc (p : Proc) : String :=
  String.intercalate " " ["P", showLines p.exclude, showBool p.verbose,
    (match p.repository with
     | none => "0"
     | some r => String.intercalate " " ["1", showStr r.owner, showStr r.name, showOpt r.branch]), ";"]

def handleEntry (cmd : String) (args : List String) : Option String :=
  let run {α} (p : P α) : α := (p.run args).1
  match cmd with
  | "entry" => some <| run do
      let version ← pStr
      let fs ← pNode
      let yamltab ← many (do let t ← pStr; let d ← pDoc; return (t, d))
      let linestab ← many (do let t ← pStr; let ls ← many pStr; return (t, ls))
      let langs ← many (do let n ← pStr; let l ← nextNat; return (n, l))
      let rawtab ← many (do let i ← nextNat; let t ← pStr; let r ← pRaw; return ((i, t), r))
      let caches ← many (do let d ← pPath; let t ← pStr; return (d, t))
      let calls ← many pCall
      let S := mkSys version yamltab linestab langs rawtab
      let st : State := ⟨Proc.fresh, fs, fun d => lookupD none d (caches.map fun kv => (kv.1, some kv.2))⟩
      -- `CL.Entry.run`, with the process configuration printed after every call
      let mut cur := st
      let mut outs : Array String := #[]
      for c in calls do
        let r := step S cur c
        cur := r.1
        outs := outs.push (showReply r.2 ++ " " ++ showProc cur.proc)
      return "ok " ++ showMany id outs.toList
  | _ => none

end CL.Entry.Ops
