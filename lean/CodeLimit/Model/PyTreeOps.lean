import CodeLimit.Model.PyTreeText
import CodeLimit.Model.ProgTreeOps
/-!
# Driver operation for Python indentation trees (`Spec/PyTree.lean`, `Model/PyTreeText.lean`)

```
tok    := <kind> <ty> <nl> <col> <str val>              -- a token without location (`PTok`)
toks   := <n> tok*n
forest := <n> stmt*n
stmt   := 0 <toks>                                        -- a simple statement / decorator line
        | 1 <toks head> <forest suite>                    -- a compound statement that is no function
        | 2 <toks pre> <tok kw> <tok name> <toks params> <toks post> <forest suite>
                                                         -- `pre def name ( … ) post` and its suite
str    := <len> <codepoint>*len

pytree <forest>
  -> ok <wf> <spaced> <str text> <nraw> (<off> <kind> <ty> <str val>)*nraw
        <k> (<str name> sl sc el ec len)*k
```
The two flags are the decidable hypotheses of `C01pytext.analyze_of_pytree_text`
(`PyProg.wf`, `PyProg.Spaced`), evaluated on this forest; `text` / `raw` are `pyTextOf` /
`pyRawOf`; the report is `pyTreeReport` of the located forest - computed from the TREE, not by
`scanFile`.

```
pytoks <toks all> <forest>
  -> ok <wf> <spaced> <noWs> <codeEq> <unmarked> <str text> <nraw> (<off> <kind> <ty> <str val>)*nraw
        <k> (<str name> sl sc el ec len)*k
```
The variant WITH COMMENTS: `all` is the token list of the file (comment tokens interspersed), the
forest describes its code tokens.  The five flags are the decidable hypotheses of
`C01pytext.analyze_of_pytoks_text`: the forest is well-formed; `all` is spaced and has no
whitespace token; the layout of `all` with the comment tokens removed is the rendering of the
forest; no function's name stands on a line with a suppression comment.  `text` / `raw` are
`pyTextOfToks all` / `pyRawOfToks all`; the report is the tree report of the forest.
-/
namespace CL.PyTreeOps
open CL.TreeOps

/-- what the `pytree` operation returns -/
structure PyTreeReply where
  wf : Bool
  spaced : Bool
  text : Str
  raw : List RawTok
  report : List Measurement

def pyTreeOp (t : PyProg PTok) : PyTreeReply where
  wf := t.wf
  spaced := t.Spaced
  text := pyTextOf t
  raw := pyRawOf t
  report := pyTreeReport t.located

/-- both flags hold -/
def PyTreeReply.good (r : PyTreeReply) : Bool := r.wf && r.spaced

/-- line `ℓ` carries a suppression marker (Boolean form of `Marked`, `Lemmas/Nocl.lean`) -/
def markedB (all : List Tok) (ℓ : Nat) : Bool :=
  all.any (fun t => t.isComment && isNoclText t.val && t.line == ℓ)

/-- what the `pytoks` operation returns -/
structure PyToksReply where
  wf : Bool
  spaced : Bool
  noWs : Bool
  codeEq : Bool
  unmarked : Bool
  text : Str
  raw : List RawTok
  report : List Measurement

def pyToksOp (l : List PTok) (t : PyProg PTok) : PyToksReply where
  wf := t.wf
  spaced := pySpacedAfter [10] l
  noWs := l.all (fun x => !x.bare.isWhitespace)
  codeEq := filterTokens false (place (0, 0) l) == pyRender t
  unmarked := (pyFnsOf t.located 0).all (fun f => !markedB (place (0, 0) l) f.hdr.name.line)
  text := pyTextOfToks l
  raw := pyRawOfToks l
  report := pyTreeReport t.located

/-- all five flags hold -/
def PyToksReply.good (r : PyToksReply) : Bool :=
  r.wf && r.spaced && r.noWs && r.codeEq && r.unmarked

/-! ## line protocol -/

def ptToks : PT (List PTok) := do
  let n ← ptNat
  let mut out := #[]
  for _ in [0:n] do
    out := out.push (← ptTok)
  return out.toList

/-- a forest; `fuel` bounds the nesting depth (the number of request words suffices) -/
def ptPyForest : Nat → PT (List (PyNode PTok))
  | 0 => pure []
  | fuel + 1 => do
    let n ← ptNat
    let mut out := #[]
    for _ in [0:n] do
      match (← ptNat) with
      | 0 => out := out.push (.line (← ptToks))
      | 1 =>
        let head ← ptToks; let suite ← ptPyForest fuel
        out := out.push (.block head suite)
      | _ =>
        let pre ← ptToks; let kw ← ptTok; let name ← ptTok
        let params ← ptToks; let post ← ptToks; let suite ← ptPyForest fuel
        out := out.push (.defn pre kw name params post suite)
    return out.toList

def showPyReply (r : PyTreeReply) : String :=
  s!"ok {showB r.wf} {showB r.spaced} "
    ++ showS r.text ++ s!" {r.raw.length}"
    ++ String.join (r.raw.map fun t => s!" {t.off} {t.kind} {t.ty} " ++ showS t.val)
    ++ s!" {r.report.length}"
    ++ String.join (r.report.map fun m =>
        " " ++ showS m.name ++ s!" {m.sl} {m.sc} {m.el} {m.ec} {m.len}")

def showPyToksReply (r : PyToksReply) : String :=
  s!"ok {showB r.wf} {showB r.spaced} {showB r.noWs} {showB r.codeEq} {showB r.unmarked} "
    ++ showS r.text ++ s!" {r.raw.length}"
    ++ String.join (r.raw.map fun t => s!" {t.off} {t.kind} {t.ty} " ++ showS t.val)
    ++ s!" {r.report.length}"
    ++ String.join (r.report.map fun m =>
        " " ++ showS m.name ++ s!" {m.sl} {m.sc} {m.el} {m.ec} {m.len}")

def handlePyTree (cmd : String) (args : List String) : Option String :=
  let run {α} (p : PT α) : α := (p.run args).1
  match cmd with
  | "pytree" => some <| run do
      let ns ← ptPyForest args.length
      return showPyReply (pyTreeOp (PyProg.ofNodes ns))
  | "pytoks" => some <| run do
      let l ← ptToks
      let ns ← ptPyForest args.length
      return showPyToksReply (pyToksOp l (PyProg.ofNodes ns))
  | _ => none

end CL.PyTreeOps
