import CodeLimit.Model.Select
import CodeLimit.Model.Json
/-!
# What `check` prints: `CheckResult.report`, `CheckResult.add`, `utils.format_measurement`

The input is `CheckResult.file_list` as `Model/Select.lean` produces it (`Sel.CheckOut.result`:
the `Path` handed to `check_file` with the `risks` of the file) and the working directory.
The output is the list of printed LINES (code points, without the line terminator).

Paths are `Sel.CPath`: absolute or relative, with components.  `pathlib.Path` drops empty and
`.` components of what the user typed but keeps `..`; so components may be `..`.  What the
libraries do is transcribed on component lists:

* `str(path)`                  - `pathStr`
* `cwd_path in file.parents`   - `inParents`: purely lexical, `cwd` is a PROPER prefix of the
                                 components of an ABSOLUTE `file` (a relative path has only
                                 relative parents);
* `os.path.relpath(file, cwd)` - `relpath` after `normpath` of both (`os.path.abspath`): the
                                 shared leading components are dropped, one `..` per remaining
                                 component of `cwd`.

`rich`: `stdout.print(Text, soft_wrap=True)` prints the characters of the `Text` (no markup, no
emoji codes, no wrapping); rich removes the control characters 7, 8, 11, 12, 13 from appended
strings, expands tabs and a line feed would start a new line: the model assumes path components
and unit names without characters below 32 (the harness checks that assumption on its inputs).
`rich.print(str)` for the summary line does replace `:sparkles:` by U+2728 and wraps at the
console width; the model gives the logical line.

The emoji and the decisions (`hard_to_maintain`, `unmaintainable`, which summary, whether
anything is printed, exit status) are the generated definitions of `Gen/Logic.lean`.
-/
namespace CL.Print

open CL CL.Sel CL.Json

/-! ## paths -/

/-- `str(path)` for a `pathlib.Path` -/
def pathStr (p : CPath) : Str :=
  if p.abs then 47 :: joinPath p.comps
  else if p.comps.isEmpty then [46] else joinPath p.comps

/-- `cwd_path in file.parents` for the absolute `cwd_path = Path(os.getcwd())` -/
def inParents (cwd : List Str) (file : CPath) : Bool :=
  file.abs && (decide (cwd.length < file.comps.length) && cwd.isPrefixOf file.comps)

/-- one component in `os.path.normpath` of an absolute path (the stack is reversed): empty and
`.` are skipped, `..` removes the last component (at the root it is dropped) -/
def normStep (st : List Str) (c : Str) : List Str :=
  if c = [] ∨ c = [46] then st
  else if c = [46, 46] then st.tail
  else c :: st

/-- `os.path.normpath` on the components of an absolute path -/
def normComps (cs : List Str) : List Str := (cs.foldl normStep []).reverse

/-- length of the longest common prefix -/
def commonLen : List Str → List Str → Nat
  | a :: as, b :: bs => if a = b then commonLen as bs + 1 else 0
  | _, _ => 0

/-- `os.path.relpath(path, start)` on normalised absolute component lists; `[.]` when equal -/
def relpath (start path : List Str) : List Str :=
  let i := commonLen start path
  let rel := List.replicate (start.length - i) [46, 46] ++ path.drop i
  if rel.isEmpty then [[46]] else rel

/-- the `file_path` of `CheckResult.report`, as components of a relative or absolute path -/
def printedPath (cwd : List Str) (file : CPath) : CPath :=
  if inParents cwd file then ⟨false, relpath (normComps cwd) (normComps file.comps)⟩ else file

/-- ... and as the string that is printed (`relpath` returns a string, `str(file)` otherwise) -/
def printedPathStr (cwd : List Str) (file : CPath) : Str :=
  if inParents cwd file then joinPath (relpath (normComps cwd) (normComps file.comps)) else pathStr file

/-! ## lines -/

/-- code points of a Lean string literal (the generated emoji) -/
def ofString (s : String) : Str := s.toList.map Char.toNat

/-- the fields of one printed line -/
structure PLine where
  path : Str
  line : Nat
  col : Nat
  value : Nat
  emoji : Str
  name : Str
  deriving Repr, DecidableEq

/-- `format_measurement(path, m)`: `path:line:col: value emoji unit_name` -/
def PLine.render (l : PLine) : Str :=
  l.path ++ [58] ++ natText l.line ++ [58] ++ natText l.col ++ [58, 32] ++ natText l.value ++ [32] ++ l.emoji ++ [32] ++ l.name

/-- the line of one measurement of one file -/
def lineOf (path : Str) (m : Measurement) : PLine :=
  ⟨path, m.sl, m.sc, m.len, ofString (Gen.Logic.emoji (m.len : Int)), m.name⟩

/-- the two nested loops of `CheckResult.report` -/
def listedLines (cwd : List Str) (fileList : List (CPath × List Measurement)) : List PLine :=
  fileList.flatMap fun fm => fm.2.map (lineOf (printedPathStr cwd fm.1))

/-- `CheckResult.add` summed over the file list: `hard_to_maintain`, `unmaintainable` -/
def counters (fileList : List (CPath × List Measurement)) : Int × Int :=
  fileList.foldl (fun acc fm =>
    (acc.1 + ((fm.2.filter fun m => decide (Gen.Logic.check_counts_hard (m.len : Int))).length : Int),
     acc.2 + ((fm.2.filter fun m => decide (Gen.Logic.check_counts_unmaintainable (m.len : Int))).length : Int))) (0, 0)

/-- the summary line -/
def summaryLine (fileList : List (CPath × List Measurement)) : Str :=
  let c := counters fileList
  if decide (Gen.Logic.check_says_refactoring c.1 c.2) then
    natText fileList.length ++ cp! " files checked, " ++ intText (Gen.Logic.check_summary_count c.1 c.2) ++
      cp! " functions need refactoring."
  else
    natText fileList.length ++ cp! " files checked, ✨ Refactoring not necessary ✨, happy coding!"

/-- `CheckResult.report()`: every printed line -/
def reportLines (cwd : List Str) (fileList : List (CPath × List Measurement)) : List Str :=
  (listedLines cwd fileList).map PLine.render ++ [summaryLine fileList]

structure Output where
  exitCode : Int
  lines : List Str      -- `[]` when `report()` is not called
  deriving Repr, DecidableEq

/-- the end of `check_command`: exit status and what is printed -/
def checkOutput (quiet : Bool) (cwd : List Str) (fileList : List (CPath × List Measurement)) : Output :=
  let c := counters fileList
  { exitCode := Gen.Logic.check_exit_code c.2,
    lines := if decide (Gen.Logic.check_prints quiet c.1 c.2) then reportLines cwd fileList else [] }

end CL.Print
