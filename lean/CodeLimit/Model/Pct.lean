/-!
# Exact reading of the percentage formula of `Report.quality_profile_percentage`

`ceil((p / t) * 100 - 0.001)` evaluated over the rationals is `⌈(100000 p - t) / (1000 t)⌉`.
For `t > 0` that is `-⌊(t - 100000 p) / (1000 t)⌋` (`Int` division rounds towards minus
infinity for a positive divisor). CPython evaluates the formula in IEEE doubles; equality with
this exact reading is checked by the correspondence run, not proved (see C19).
-/
namespace CL

def pct (p t : Int) : Int := -((t - 100000 * p) / (1000 * t))

end CL
