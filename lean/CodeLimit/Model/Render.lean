import CodeLimit.Model.Token
import CodeLimit.Gen.Logic
/-!
# Model of the rendered report: overview (text / Markdown, with / without a previous report)
# and findings list (text / Markdown, full / not full, with / without repository)

Python modelled (all under `codelimit/common`): `ScanTotals.py`, `LanguageTotalsDelta.py`,
`ScanTotalsDelta.py`, `ScanResultTable.py`, `report/format_text.py` (`print_totals`,
`print_findings`), `report/format_markdown.py` (`_print_totals`, `print_findings`),
`report/Report.py` (`all_report_units_sorted_by_length_asc`).

What is observed is CELL STRINGS (what `rich` is handed / what stands between the `|` of the
Markdown lines), not layout. Every comparison (`delta == 0`, `m.value > threshold`,
`not full and total_findings > 10`, `[:10]`, `total_findings - 10`) is the definition that
`translator/logic.py` regenerates from the source into `CL.Gen.Logic`.

Number formatting. `f"{n:n}"` and `f"{d:+n}"` depend on the process locale (`LC_NUMERIC`): they
are the parameter `Locale` (`n`, `signed`). `f"{n}"` (used by the Markdown overview WITHOUT a
previous report) does not: it is `fmtD`. The native driver and the correspondence check use
`Locale.C` (no grouping), the locale of the sandbox.

Python's `sorted(..., key=k, reverse=True)` is stable (elements with equal keys keep their
original order, also with `reverse=True`); it is modelled by the stable insertion sort
`sortDesc`, proved equal to core's stable `List.mergeSort` in `Lemmas/Render.lean`.
Dicts are association lists in insertion order.
-/
namespace CL.Render

open CL.Gen.Logic

/-! ## strings and numbers -/

/-- a Lean string literal as a list of code points -/
def str (s : String) : Str := s.toList.map Char.toNat

/-- decimal digits of a natural number -/
def natDigits (n : Nat) : Str := (Nat.toDigits 10 n).map Char.toNat

/-- `str(i)` / `f"{i}"` / `f"{i:d}"` for a Python int -/
def fmtD : Int → Str
  | .ofNat n => natDigits n
  | .negSucc n => 45 :: natDigits (n + 1)

/-- `f"{i:+d}"` -/
def fmtSignedD : Int → Str
  | .ofNat n => 43 :: natDigits n
  | .negSucc n => 45 :: natDigits (n + 1)

/-- the locale-dependent formats: `n i` is `f"{i:n}"`, `signed i` is `f"{i:+n}"` -/
structure Locale where
  n : Int → Str
  signed : Int → Str

/-- the C locale: no thousands separator, so `:n` is `:d` -/
def Locale.C : Locale := ⟨fmtD, fmtSignedD⟩

/-! ## totals -/

/-- `LanguageTotals` -/
structure LangTotals where
  language : Str
  files : Int
  functions : Int
  loc : Int
  hard : Int
  unm : Int
  deriving Repr, DecidableEq, Inhabited

/-- `ScanTotals._languages_totals`: a dict `language -> LanguageTotals` in insertion order
(`Codebase.add_file` inserts `LanguageTotals(entry.language)` under the key `entry.language`,
so key = `.language` and the keys are distinct) -/
abbrev Totals := List LangTotals

/-- insertion of `x` into a list sorted by `key` descending, BEFORE the first element whose
key is not larger (the inserted element is the one that came first in the input) -/
def insertDesc {α : Type} (key : α → Int) (x : α) : List α → List α
  | [] => [x]
  | y :: ys => if key y > key x then y :: insertDesc key x ys else x :: y :: ys

/-- `sorted(l, key=key, reverse=True)`: stable, descending -/
def sortDesc {α : Type} (key : α → Int) : List α → List α
  | [] => []
  | x :: xs => insertDesc key x (sortDesc key xs)

/-- `ScanTotals.languages_totals()` -/
def languagesTotals (t : Totals) : List LangTotals := sortDesc (·.loc) t

/-- `ScanTotals.language_total(language)`: `dict.get` -/
def languageTotal (t : Totals) (language : Str) : Option LangTotals :=
  t.find? (fun p => p.language == language)

/-- `sum([...])` over the dict values, in order, starting from 0 -/
def sumOf (f : LangTotals → Int) (t : Totals) : Int := (t.map f).foldl (· + ·) 0

def totalFiles (t : Totals) : Int := sumOf (·.files) t
def totalFunctions (t : Totals) : Int := sumOf (·.functions) t
def totalLoc (t : Totals) : Int := sumOf (·.loc) t
def totalHard (t : Totals) : Int := sumOf (·.hard) t
def totalUnm (t : Totals) : Int := sumOf (·.unm) t

/-! ## delta formatting -/

/-- `f"{total:n}" if <plain> else f"{total:n} ({delta:+n})"` -/
def annotate (L : Locale) (plain : Bool) (total delta : Int) : Str :=
  if plain then L.n total else L.n total ++ str " (" ++ L.signed delta ++ str ")"

/-- `LanguageTotalsDelta.files`: a missing previous language counts as 0 -/
def ltdFiles (L : Locale) (c : LangTotals) (p : Option LangTotals) : Str :=
  let total := c.files
  let delta := total - (match p with | some p => p.files | none => 0)
  annotate L (decide (LanguageTotalsDelta_files_plain delta)) total delta

/-- `LanguageTotalsDelta.functions` -/
def ltdFunctions (L : Locale) (c : LangTotals) (p : Option LangTotals) : Str :=
  let total := c.functions
  let delta := total - (match p with | some p => p.functions | none => 0)
  annotate L (decide (LanguageTotalsDelta_functions_plain delta)) total delta

/-- `LanguageTotalsDelta.loc` -/
def ltdLoc (L : Locale) (c : LangTotals) (p : Option LangTotals) : Str :=
  let total := c.loc
  let delta := total - (match p with | some p => p.loc | none => 0)
  annotate L (decide (LanguageTotalsDelta_loc_plain delta)) total delta

/-- `LanguageTotalsDelta.hard_to_maintain`: NO annotation when the language is new -/
def ltdHard (L : Locale) (c : LangTotals) (p : Option LangTotals) : Str :=
  let total := c.hard
  match p with
  | some p =>
    let delta := total - p.hard
    annotate L (decide (LanguageTotalsDelta_hard_to_maintain_plain delta)) total delta
  | none => L.n total

/-- `LanguageTotalsDelta.unmaintainable`: NO annotation when the language is new -/
def ltdUnm (L : Locale) (c : LangTotals) (p : Option LangTotals) : Str :=
  let total := c.unm
  match p with
  | some p =>
    let delta := total - p.unm
    annotate L (decide (LanguageTotalsDelta_unmaintainable_plain delta)) total delta
  | none => L.n total

/-- `ScanTotalsDelta.total_files` -/
def stdFiles (L : Locale) (cur prev : Totals) : Str :=
  let total := totalFiles cur
  let delta := total - totalFiles prev
  annotate L (decide (ScanTotalsDelta_total_files_plain delta)) total delta

/-- `ScanTotalsDelta.total_functions` -/
def stdFunctions (L : Locale) (cur prev : Totals) : Str :=
  let total := totalFunctions cur
  let delta := total - totalFunctions prev
  annotate L (decide (ScanTotalsDelta_total_functions_plain delta)) total delta

/-- `ScanTotalsDelta.total_loc` -/
def stdLoc (L : Locale) (cur prev : Totals) : Str :=
  let total := totalLoc cur
  let delta := total - totalLoc prev
  annotate L (decide (ScanTotalsDelta_total_loc_plain delta)) total delta

/-- `ScanTotalsDelta.total_hard_to_maintain` -/
def stdHard (L : Locale) (cur prev : Totals) : Str :=
  let total := totalHard cur
  let delta := total - totalHard prev
  annotate L (decide (ScanTotalsDelta_total_hard_to_maintain_plain delta)) total delta

/-- `ScanTotalsDelta.total_unmaintainable` -/
def stdUnm (L : Locale) (cur prev : Totals) : Str :=
  let total := totalUnm cur
  let delta := total - totalUnm prev
  annotate L (decide (ScanTotalsDelta_total_unmaintainable_plain delta)) total delta

/-! ## overview -/

/-- the overview as cell strings: one row `[language, files, functions, loc, hard, unm]` per
language; `footer` = the five totals cells when the totals line is shown -/
structure Overview where
  rows : List (List Str)
  footer : Option (List Str)
  deriving Repr, DecidableEq

/-- `format_text.print_totals` = `ScanResultTable(current, previous)`: the column footers hold
the totals, `show_footer=len(current.languages()) > 1`; `_populate` adds one row per language
of `languages_totals()` -/
def overviewText (L : Locale) (cur : Totals) (prev : Option Totals) : Overview :=
  let showFooter := decide (cur.length > 1)
  let footers := match prev with
    | some p => [stdFiles L cur p, stdFunctions L cur p, stdLoc L cur p, stdHard L cur p, stdUnm L cur p]
    | none => [L.n (totalFiles cur), L.n (totalFunctions cur), L.n (totalLoc cur), L.n (totalHard cur),
               L.n (totalUnm cur)]
  let rows := (languagesTotals cur).map fun lt =>
    match prev with
    | some p =>
      let ltp := languageTotal p lt.language
      [lt.language, ltdFiles L lt ltp, ltdFunctions L lt ltp, ltdLoc L lt ltp, ltdHard L lt ltp, ltdUnm L lt ltp]
    | none =>
      [lt.language, L.n lt.files, L.n lt.functions, L.n lt.loc, L.n lt.hard, L.n lt.unm]
  { rows := rows, footer := if showFooter then some footers else none }

/-- `format_markdown._print_totals`: the rows without previous report use `f"{x}"` (not
`:n`); the `**Totals**` row is printed when `len(languages_totals()) > 1` -/
def overviewMarkdown (L : Locale) (cur : Totals) (prev : Option Totals) : Overview :=
  let rows := (languagesTotals cur).map fun lt =>
    match prev with
    | some p =>
      let ltp := languageTotal p lt.language
      [lt.language, ltdFiles L lt ltp, ltdFunctions L lt ltp, ltdLoc L lt ltp, ltdHard L lt ltp, ltdUnm L lt ltp]
    | none =>
      [lt.language, fmtD lt.files, fmtD lt.functions, fmtD lt.loc, fmtD lt.hard, fmtD lt.unm]
  let footer :=
    if (languagesTotals cur).length > 1 then
      match prev with
      | some p => some [stdFiles L cur p, stdFunctions L cur p, stdLoc L cur p, stdHard L cur p, stdUnm L cur p]
      | none => some [fmtD (totalFiles cur), fmtD (totalFunctions cur), fmtD (totalLoc cur), fmtD (totalHard cur),
                      fmtD (totalUnm cur)]
    else none
  { rows := rows, footer := footer }

/-! ## findings -/

/-- `Measurement` (name, start line/column, end line, value) -/
structure Meas where
  name : Str
  line : Int
  col : Int
  endLine : Int
  value : Int
  deriving Repr, DecidableEq, Inhabited

/-- `ReportUnit` -/
structure RUnit where
  file : Str
  m : Meas
  deriving Repr, DecidableEq, Inhabited

/-- `codebase.files`: dict `path -> entry` in insertion order, entry = its measurements -/
abbrev Files := List (Str × List Meas)

/-- `Report.all_report_units_sorted_by_length_asc(threshold)` (the name says "asc"; the code
sorts descending) -/
def allReportUnits (files : Files) (threshold : Int) : List RUnit :=
  let result := files.flatMap fun (file, ms) =>
    (ms.filter fun m => decide (units_keeps m.value threshold)).map fun m => ⟨file, m⟩
  sortDesc (·.m.value) result

/-- what a findings listing shows: the units in order, the fields printed for each of them
(`rows`), and the number in the "... more rows" line when that line is printed -/
structure Findings where
  shown : List RUnit
  rows : List (List Str)
  more : Option Int
  deriving Repr, DecidableEq

/-- `utils.format_measurement(path, m)`: `path:line:column: value emoji name` -/
def rowText (u : RUnit) : List Str :=
  [u.file, fmtD u.m.line, fmtD u.m.col, fmtD u.m.value, str (emoji u.m.value), u.m.name]

/-- one row of `_print_findings_without_repository`: `| file | line | column | value | type name |` -/
def rowMarkdown (u : RUnit) : List Str :=
  let type := if md_cross_without_repository u.m.value then str "\u274C" else str "\u26A0"
  [u.file, fmtD u.m.line, fmtD u.m.col, fmtD u.m.value, type, u.m.name]

/-- one row of `_print_findings_with_repository`:
`| type [name](https://github.com/o/n/blob/b/<file>#L<line>-L<end line>) | value | file |` -/
def rowMarkdownRepo (u : RUnit) : List Str :=
  let type := if md_cross_with_repository u.m.value then str "\u274C" else str "\u26A0"
  [type, u.m.name, u.file, fmtD u.m.line, fmtD u.m.endLine, fmtD u.m.value, u.file]

/-- `format_text.print_findings(console, report, full)` -/
def findingsText (files : Files) (full : Bool) : Findings :=
  let functions := allReportUnits files findings_threshold_text
  let total : Int := functions.length
  let functions := if findings_truncates_text full total then functions.take findings_kept_text else functions
  { shown := functions,
    rows := functions.map rowText,
    more := if findings_truncates_text full total then some (findings_omitted_text total) else none }

/-- `format_markdown.print_findings(report, console, full)`; `hasRepo` = `report.repository`
is set (it only selects the table layout) -/
def findingsMarkdown (files : Files) (full : Bool) (hasRepo : Bool) : Findings :=
  let functions := allReportUnits files findings_threshold_markdown
  let total : Int := functions.length
  let functions := if findings_truncates_markdown full total then functions.take findings_kept_markdown else functions
  { shown := functions,
    rows := if hasRepo then functions.map rowMarkdownRepo else functions.map rowMarkdown,
    more := if findings_truncates_markdown full total then some (findings_omitted_markdown total) else none }

end CL.Render
