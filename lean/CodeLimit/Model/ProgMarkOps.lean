import CodeLimit.Model.ProgTreeOps
import CodeLimit.Spec.ProgTreeCanonArrow
import CodeLimit.Spec.ProgTreeMarks
/-!
# Driver operation for program forests WITH comments and suppression markers

The operation `tree` (`Model/ProgTreeOps.lean`) serves forests of code tokens and evaluates the
header-discovery hypothesis.  Here the forest may contain comment leaves / gap tokens (kind 5)
anywhere, any of them a suppression marker, and NOTHING about the matcher is evaluated: the flags are
the decidable, location-independent hypotheses of the unconditional theorems of
`Props/C01marks.lean` (M2) and, for JavaScript / TypeScript forests with assigned arrow functions,
of `Props/C01marktext.lean`.

```
marktree <lang> <forest>                      -- wire format of the forest: Model/ProgTreeOps.lean
  -> ok <canon> <wfCore> <noAdj> <spaced> <noWs>
        <str text> <nraw> (<off> <kind> <ty> <str val>)*nraw
        <k> (<str name> sl sc el ec len)*k
   | bad-lang
markcanon <lang> <forest> -> ok <plain> <arrow> | bad-lang
```

* `canon` - the COMMENT-FREE forest `p.bare.stripComments` lies in the canonical fragment of the
  language: `Canon` (C, C++, C#), `CanonJava`, `CanonJs` or `CanonJsArrow` (JavaScript), `CanonTs` or
  `CanonTsArrow` (TypeScript);
* `wfCore`, `noAdj` - the structural conditions, on the comment-free forest, too;
* `spaced`, `noWs` - the layout condition of `Model/ProgText.lean` on the forest WITH its comments
  (token texts non-empty and without newline, no overlap), and: no whitespace token in the forest;
* `text` / `raw` - `textOf` / `rawOf` of the forest with its comments;
* the report is `markedReport` (`markedReportFlat` for a language that does not report nested
  functions): lay out, drop the comments, dissolve the function nodes named on a marked line, read
  the report off the TREE.  `scanFile` is not called.

`markcanon`: the two fragments of the comment-free forest separately (`plain` = the fragment
without arrow nodes, `arrow` = `CanonJsArrow` / `CanonTsArrow`; `0` for the other languages).
-/
namespace CL.MarkOps
open CL.TreeOps

/-- the canonical fragment that belongs to a language -/
inductive Frag where
  | cfam | java | js | ts
  deriving DecidableEq, Repr

/-- the fragment of a language of `Gen.all`, by its name; Python (indentation blocks) has none -/
def fragOfName : String → Option Frag
  | "C" | "C++" | "C#" => some .cfam
  | "Java" => some .java
  | "JavaScript" => some .js
  | "TypeScript" => some .ts
  | _ => none

/-- the fragment without arrow nodes -/
def Frag.plain : Frag → Prog Tok → Bool
  | .cfam, q => q.Canon
  | .java, q => q.CanonJava
  | .js, q => q.CanonJs
  | .ts, q => q.CanonTs

/-- the fragment with assigned arrow functions as function nodes (JavaScript, TypeScript) -/
def Frag.arrow : Frag → Prog Tok → Bool
  | .js, q => q.CanonJsArrow
  | .ts, q => q.CanonTsArrow
  | _, _ => false

/-- the forest lies in (one of) the canonical fragment(s) -/
def Frag.holds (F : Frag) (q : Prog Tok) : Bool := F.plain q || F.arrow q

/-- what the `marktree` operation returns -/
structure MarkReply where
  canon : Bool
  wfCore : Bool
  noAdj : Bool
  spaced : Bool
  noWs : Bool
  text : Str
  raw : List RawTok
  report : List Measurement

/-- the report read off the tree with comments and markers -/
def markedReportOf (L : Language) (p : Prog PTok) : List Measurement :=
  if L.nested = true then markedReport p else markedReportFlat p

def markOp (F : Frag) (L : Language) (p : Prog PTok) : MarkReply where
  canon := F.holds p.bare.stripComments
  wfCore := p.bare.stripComments.wfCore
  noAdj := p.bare.stripComments.noAdj
  spaced := p.Spaced
  noWs := p.noWs
  text := textOf p
  raw := rawOf p
  report := markedReportOf L p

/-- all five flags hold -/
def MarkReply.good (r : MarkReply) : Bool :=
  r.canon && r.wfCore && r.noAdj && r.spaced && r.noWs

def showMarkReply (r : MarkReply) : String :=
  s!"ok {showB r.canon} {showB r.wfCore} {showB r.noAdj} {showB r.spaced} {showB r.noWs} "
    ++ showS r.text ++ s!" {r.raw.length}"
    ++ String.join (r.raw.map fun t => s!" {t.off} {t.kind} {t.ty} " ++ showS t.val)
    ++ s!" {r.report.length}"
    ++ String.join (r.report.map fun m =>
        " " ++ showS m.name ++ s!" {m.sl} {m.sc} {m.el} {m.ec} {m.len}")

def handleMark (cmd : String) (args : List String) : Option String :=
  let run {α} (p : PT α) : α := (p.run args).1
  match cmd with
  | "marktree" => some <| run do
      let li ← ptNat
      let ns ← ptForest args.length
      match Gen.all[li]? with
      | some (name, L) =>
        match fragOfName name with
        | some F => return showMarkReply (markOp F L (Prog.ofNodes ns))
        | none => return "bad-lang"
      | none => return "bad-lang"
  | "markcanon" => some <| run do
      let li ← ptNat
      let ns ← ptForest args.length
      let q : Prog Tok := (Prog.ofNodes ns : Prog PTok).bare.stripComments
      match Gen.all[li]? with
      | some (name, _) =>
        match fragOfName name with
        | some F => return s!"ok {showB (F.plain q)} {showB (F.arrow q)}"
        | none => return "bad-lang"
      | none => return "bad-lang"
  | _ => none

end CL.MarkOps
