import CodeLimit.Model.Pattern
/-!
# Tokens, token predicates (`codelimit/common/token_matching/predicate`), `Token` methods

A token's text is a list of Unicode code points. `kind` is the class the Pygments token type
falls in, as tested by the `Token.is_*` methods (`token_type in Keyword` etc. are subtree
tests; `Text`/`Whitespace` are exact-type tests); `ty` identifies the exact type (only used by
`Token.__eq__`, i.e. by `list.index`).
-/
namespace CL

abbrev Str := List Nat

structure Tok where
  kind : Nat     -- 0 other | 1 in Keyword | 2 in Name | 3 in Punctuation | 4 in Operator | 5 in Comment | 6 == Text or == Whitespace | 7 in String
  ty   : Nat     -- interned `str(token_type)`
  val  : Str
  line : Nat
  col  : Nat
  deriving Repr, DecidableEq, Inhabited

/-- code points for which Python's `str.isspace()` holds -/
def spaceChars : List Nat :=
  [9, 10, 11, 12, 13, 28, 29, 30, 31, 32, 133, 160, 5760, 8192, 8193, 8194, 8195, 8196, 8197,
   8198, 8199, 8200, 8201, 8202, 8232, 8233, 8239, 8287, 12288]

def isSpaceChar (c : Nat) : Bool := spaceChars.contains c

/-- `str.isspace()` -/
def strIsSpace (s : Str) : Bool := !s.isEmpty && s.all isSpaceChar

def Tok.isKeyword (t : Tok) : Bool := t.kind == 1
def Tok.isName (t : Tok) : Bool := t.kind == 2
def Tok.isSymbol (t : Tok) (s : Str) : Bool := t.kind == 3 && t.val == s
def Tok.isOperator (t : Tok) (s : Str) : Bool := t.kind == 4 && t.val == s
def Tok.isComment (t : Tok) : Bool := t.kind == 5
def Tok.isString (t : Tok) : Bool := t.kind == 7
/-- `Token.is_whitespace` (an empty `Text` token counts as whitespace) -/
def Tok.isWhitespace (t : Tok) : Bool := t.kind == 6 && (t.val.isEmpty || strIsSpace t.val)

/-- predicate objects, compared structurally (= their Python `__eq__`) -/
inductive Pred where
  | name : Pred
  | keyword : Str → Pred
  | symbol : Str → Pred
  | operator : Str → Pred
  | value : Str → Pred            -- `TokenValue`
  | ident : Str → Pred            -- `Identity(str)`: a bare string atom; `str == Token` is never true
  | not : Pred → Pred
  | and : Pred → Pred → Pred
  | or : Pred → Pred → Pred
  | balanced : Pred → Pred → Pred
  deriving Repr, DecidableEq, Inhabited

/-- `accept` of the stateless predicates (a `Balanced` nested inside another predicate is
refused by the extractor; it evaluates to `false` here) -/
def Pred.eval : Pred → Tok → Bool
  | .name, t => t.isName
  | .keyword v, t => t.isKeyword && t.val == v
  | .symbol v, t => t.isSymbol v
  | .operator v, t => t.isOperator v
  | .value v, t => t.val == v
  | .ident _, _ => false
  | .not p, t => !p.eval t
  | .and p q, t => p.eval t && q.eval t
  | .or p q, t => p.eval t || q.eval t
  | .balanced _ _, _ => false

/-- nesting depth of every `Balanced` copy held by a pattern (`Pattern.predicate_map`) -/
abbrev Depths := List (Pred × Int)

def getDepth (ds : Depths) (p : Pred) : Int :=
  match ds.find? (fun e => e.1 = p) with
  | some e => e.2
  | none => 0

def setDepth (ds : Depths) (p : Pred) (d : Int) : Depths :=
  (p, d) :: ds.filter (fun e => e.1 ≠ p)

/-- `predicate.accept(token)` on the pattern's own copy of the predicate -/
def acceptTok (p : Pred) (ds : Depths) (t : Tok) : Bool × Depths :=
  match p with
  | .balanced l r =>
    let d := getDepth ds p
    if l.eval t then (true, setDepth ds p (d + 1))
    else if r.eval t then (decide (0 ≤ d - 1), setDepth ds p (d - 1))
    else (decide (0 < d), ds)
  | q => (q.eval t, ds)

def tokAcceptor : Acceptor Pred Depths Tok where
  init := []
  accept := acceptTok

end CL
