/-!
# Model of the scan cache: `commands/scan.py`, `common/Scanner.py`, `utils.py:read_report`

An abstract state machine (pure functions). What comes from libraries, the OS or other parts
of the program is a parameter (`Params`):

* `analyze p c`  - `Scanner._analyze_file` on the file at relative path `p` with bytes `c`, minus
                   path and checksum: `(language, loc, measurements)`. It depends on the path
                   (the lexer is chosen from the file name) and on the bytes only.
* `hash c`       - `calculate_checksum`: md5 of the bytes.
* `selected e p` - the walk of `scan_path` reaches `p` under the exclusions `e` and `p` has a
                   supported language (hidden files, exclusion patterns, lexer lookup: C11).
* `cur`          - `Report.VERSION`.

State: the files below the scanned root in the order `os.walk` yields them (an association
list; the order is the operating system's, the theorems hold for every order), the exclusions,
the cache directory, the cache file.

The cache file is abstracted by what `_read_cached_report` / `ReportReader.from_json` make of
its bytes:
* `missing`           - `report_path.exists()` is false (no directory, or directory without file);
* `junk unreadable`   - `ReportReader.from_json(report_path.read_text())` raises one of the
                        exceptions the `except` clause lists (`ValueError` incl.
                        `JSONDecodeError`/`UnicodeDecodeError`, `KeyError`, `TypeError`,
                        `AttributeError`, `RecursionError`): empty, truncated, not JSON, wrong
                        top-level type, a missing key that the reader needs, ...;
* `junk illTyped`     - the reader succeeds but `_is_well_formed` is false (a checksum, language,
                        loc or measurement field of the wrong type);
* `doc v es`          - a report document of version `v` (`None` when the key is absent) whose
                        `codebase.files` holds, in document order, the entries `es` with
                        well-typed fields.  A JSON object may repeat a key; `json.loads` keeps the
                        last value, hence `lookupLast`.
-/
namespace CL
namespace Cache

structure Params (Path Content Hash Entry Excl Version : Type) where
  analyze : Path → Content → Entry
  hash : Content → Hash
  selected : Excl → Path → Bool
  cur : Version

inductive JunkKind where
  | unreadable
  | illTyped
  deriving DecidableEq, Repr

inductive CacheFile (Path Hash Entry Version : Type) where
  | missing
  | junk (k : JunkKind)
  | doc (v : Version) (es : List (Path × Hash × Entry))
  deriving DecidableEq, Repr

/-- `.codelimit_cache`: absent, or present with/without both marker files
(`CACHEDIR.TAG`, `.gitignore`) -/
inductive DirState where
  | absent
  | present (markers : Bool)
  deriving DecidableEq, Repr

structure State (Path Content Hash Entry Excl Version : Type) where
  fs : List (Path × Content)
  excl : Excl
  dir : DirState
  cache : CacheFile Path Hash Entry Version

/-- how `_scan_file` obtained an entry -/
inductive How where
  | reused
  | analysed
  deriving DecidableEq, Repr

section
variable {Path Content Hash Entry Excl Version : Type}
variable [DecidableEq Path] [DecidableEq Hash] [DecidableEq Version]

/-- the report as far as the cache is concerned: `codebase.files` in insertion (= walk) order;
totals and tree are functions of it (C07), uuid and timestamp are never compared -/
abbrev Report (Path Hash Entry : Type) := List (Path × Hash × Entry)

/-- `_read_cached_report`: the cached report a scan may use, `None` otherwise. The `try/except`
around the reader and the `_is_well_formed` test make this total. -/
def readCachedReport (P : Params Path Content Hash Entry Excl Version) :
    CacheFile Path Hash Entry Version → Option (List (Path × Hash × Entry))
  | .missing => none               -- `if report_path.exists()` fails
  | .junk .unreadable => none      -- `except (...): return None`
  | .junk .illTyped => none        -- `_is_well_formed(cached_report)` is false
  | .doc v es => if v = P.cur then some es else none   -- `cached_report.version == Report.VERSION`

/-- `cached_report.codebase.files[rel_path]` (`KeyError` -> `None`): the reader inserts the
entries in document order into a dict, a later entry for the same key overwrites -/
def lookupLast (es : List (Path × Hash × Entry)) (p : Path) : Option (Hash × Entry) :=
  (es.reverse.find? (fun r => decide (r.1 = p))).map (fun r => r.2)

/-- `_scan_file` -/
def scanFile (P : Params Path Content Hash Entry Excl Version)
    (cached : Option (List (Path × Hash × Entry))) (f : Path × Content) :
    (Path × Hash × Entry) × How :=
  let checksum := P.hash f.2
  let cachedEntry : Option (Hash × Entry) :=
    match cached with
    | some es => lookupLast es f.1
    | none => none
  match cachedEntry with
  | some (h, e) =>
      if h = checksum then ((f.1, checksum, e), .reused)
      else ((f.1, checksum, P.analyze f.1 f.2), .analysed)
  | none => ((f.1, checksum, P.analyze f.1 f.2), .analysed)

/-- the files `scan_path` hands to `_scan_file`, in walk order -/
def walk (P : Params Path Content Hash Entry Excl Version)
    (s : State Path Content Hash Entry Excl Version) : List (Path × Content) :=
  s.fs.filter (fun f => P.selected s.excl f.1)

/-- one result per walked file: the entry and how it was obtained -/
def scanLog (P : Params Path Content Hash Entry Excl Version)
    (s : State Path Content Hash Entry Excl Version) : List ((Path × Hash × Entry) × How) :=
  (walk P s).map (scanFile P (readCachedReport P s.cache))

/-- the report of a scan (`Report(codebase)`) -/
def report (P : Params Path Content Hash Entry Excl Version)
    (s : State Path Content Hash Entry Excl Version) : Report Path Hash Entry :=
  (scanLog P s).map (fun x => x.1)

/-- instrumentation: the walked files whose entry came from the cache -/
def reusedFiles (P : Params Path Content Hash Entry Excl Version)
    (s : State Path Content Hash Entry Excl Version) : List (Path × Content) :=
  (walk P s).filter (fun f => decide ((scanFile P (readCachedReport P s.cache) f).2 = .reused))

/-- instrumentation: the walked files that `_analyze_file` was called on -/
def analysedFiles (P : Params Path Content Hash Entry Excl Version)
    (s : State Path Content Hash Entry Excl Version) : List (Path × Content) :=
  (walk P s).filter (fun f => !decide ((scanFile P (readCachedReport P s.cache) f).2 = .reused))

/-- `scan_command` lines 24-29: the directory and both marker files are created only when the
directory does not exist -/
def dirAfterScan : DirState → DirState
  | .absent => .present true
  | d => d

/-- `scan_command`: read the cache, scan, write the report as the new cache -/
def scan (P : Params Path Content Hash Entry Excl Version)
    (s : State Path Content Hash Entry Excl Version) :
    State Path Content Hash Entry Excl Version × Report Path Hash Entry :=
  let r := report P s
  ({ s with dir := dirAfterScan s.dir, cache := .doc P.cur r }, r)

/-- the report of a from-scratch scan of the same tree under the same exclusions -/
def fresh (P : Params Path Content Hash Entry Excl Version)
    (s : State Path Content Hash Entry Excl Version) : Report Path Hash Entry :=
  report P { s with cache := .missing }

/-! ## `read_report` (used by `report_command` and `findings_command`) -/

inductive ReadResult (Path Hash Entry : Type) where
  | noReport        -- "No cached report found, run scan first", `typer.Exit(code=1)`
  | refuse          -- "Report version mismatch, run scan first", `typer.Exit(code=1)`
  | shown (es : List (Path × Hash × Entry))   -- `ReportReader.from_json(report_data)` is displayed
  | unspecified     -- junk: depends on the bytes (`JSONDecodeError`, `TypeError`, `KeyError`,
                    -- the mismatch message, or a report is shown); no property speaks about it
  deriving DecidableEq, Repr

def readReport (P : Params Path Content Hash Entry Excl Version) :
    CacheFile Path Hash Entry Version → ReadResult Path Hash Entry
  | .missing => .noReport
  | .junk _ => .unspecified
  | .doc v es => if v = P.cur then .shown es else .refuse

/-! ## Operations of the environment -/

def fsLookup (fs : List (Path × Content)) (p : Path) : Option Content :=
  (fs.find? (fun f => decide (f.1 = p))).map (fun f => f.2)

def fsDelete (fs : List (Path × Content)) (p : Path) : List (Path × Content) :=
  fs.filter (fun f => !decide (f.1 = p))

/-- overwrite in place; a new file goes where the operating system puts it (here: last) -/
def fsWrite (fs : List (Path × Content)) (p : Path) (c : Content) : List (Path × Content) :=
  if fs.any (fun f => decide (f.1 = p)) then
    fs.map (fun f => if f.1 = p then (p, c) else f)
  else fs ++ [(p, c)]

/-- `os.replace(a, b)`: no effect when `a` does not exist -/
def fsRename (fs : List (Path × Content)) (a b : Path) : List (Path × Content) :=
  match fsLookup fs a with
  | none => fs
  | some c => if a = b then fs else fsWrite (fsDelete fs a) b c

/-- exchange the contents of two existing files -/
def fsSwap (fs : List (Path × Content)) (a b : Path) : List (Path × Content) :=
  match fsLookup fs a, fsLookup fs b with
  | some ca, some cb => fs.map (fun f => if f.1 = a then (a, cb) else if f.1 = b then (b, ca) else f)
  | _, _ => fs

inductive Op (Path Content Hash Entry Excl Version : Type) where
  | write (p : Path) (c : Content)
  | delete (p : Path)
  | rename (a b : Path)
  | touch (p : Path)                    -- new modification time, same bytes
  | swap (a b : Path)
  | setExcl (e : Excl)
  | replaceCache (c : CacheFile Path Hash Entry Version)   -- put any file there (or remove it)
  | truncate (onlyWhitespace : Bool)    -- cut the cache file short
  | removeCacheDir                      -- delete `.codelimit_cache` altogether
  | removeMarkers                       -- delete `CACHEDIR.TAG` and `.gitignore` from it
  | scan

/-- a cut that removes only trailing whitespace leaves a file that reads the same; any other
proper prefix of a document is unreadable (contract `ByteContract`, checked at every offset) -/
def truncateCache (onlyWhitespace : Bool) :
    CacheFile Path Hash Entry Version → CacheFile Path Hash Entry Version
  | .missing => .missing
  | c => if onlyWhitespace then c else .junk .unreadable

def step (P : Params Path Content Hash Entry Excl Version)
    (s : State Path Content Hash Entry Excl Version) :
    Op Path Content Hash Entry Excl Version → State Path Content Hash Entry Excl Version
  | .write p c => { s with fs := fsWrite s.fs p c }
  | .delete p => { s with fs := fsDelete s.fs p }
  | .rename a b => { s with fs := fsRename s.fs a b }
  | .touch _ => s
  | .swap a b => { s with fs := fsSwap s.fs a b }
  | .setExcl e => { s with excl := e }
  | .replaceCache c =>
      { s with cache := c,
               dir := match c, s.dir with
                 | .missing, d => d
                 | _, .absent => .present false
                 | _, d => d }
  | .truncate ws => { s with cache := truncateCache ws s.cache }
  | .removeCacheDir => { s with dir := .absent, cache := .missing }
  | .removeMarkers => { s with dir := match s.dir with | .absent => .absent | .present _ => .present false }
  | .scan => (scan P s).1

def run (P : Params Path Content Hash Entry Excl Version)
    (s : State Path Content Hash Entry Excl Version)
    (ops : List (Op Path Content Hash Entry Excl Version)) :
    State Path Content Hash Entry Excl Version :=
  ops.foldl (step P) s

/-- a tree that was never scanned -/
def init (fs : List (Path × Content)) (e : Excl) : State Path Content Hash Entry Excl Version :=
  { fs := fs, excl := e, dir := .absent, cache := .missing }

/-- the reports of all scans of a history, oldest first, with the reused and analysed paths -/
def observe (P : Params Path Content Hash Entry Excl Version) :
    State Path Content Hash Entry Excl Version → List (Op Path Content Hash Entry Excl Version) →
    List (Report Path Hash Entry × List Path × List Path × DirState)
  | _, [] => []
  | s, .scan :: ops =>
      ((scan P s).2, (reusedFiles P s).map (·.1), (analysedFiles P s).map (·.1), (scan P s).1.dir)
        :: observe P (scan P s).1 ops
  | s, op :: ops => observe P (step P s op) ops

end
end Cache
end CL
