import CodeLimit.Spec.Gitignore
import CodeLimit.Spec.GitignoreRegex
/-!
# Driver operation for `Spec/Gitignore.lean`

```
str   := <n> <code point>*n
path  := <n> <str>*n
gitignore <npats> <str pattern>*npats <npaths> <path>*npaths
  -> ok <bits>          one character per path: 1 = excluded by DEFAULT_EXCLUDES ++ the patterns
                        (blank lines and `#` comment lines among the patterns are skipped, as pathspec does)
   | unparsed <i>       pattern number i (from 0) is outside the six modelled classes
gitclass <str pattern>
  -> ok <k> <str>*      k = 0 name x | 1 dirOnly d | 2 ext e | 3 rel ps | 4 under a | 5 rooted ps,
                        followed by the names (rel / rooted: <n> then n names)
   | none
gitregex <str pattern>
  -> ok <str>           the text of the regular expression pathspec generates for the line
                        (`Pat.regexText`, to be compared with `pattern_to_regex(line)[0]`)
   | none
```
-/
namespace CL.Gi

abbrev GS := StateM (List String)

def gsWord : GS (Option String) := do
  match (← get) with
  | [] => pure none
  | w :: ws => set ws; pure (some w)

def gsNat : GS Nat := do
  match (← gsWord) with
  | some w => pure (w.toNat?.getD 0)
  | none => pure 0

def gsStr : GS Str := do
  let n ← gsNat
  let mut out := #[]
  for _ in [0:n] do
    out := out.push (← gsNat)
  return out.toList

def gsPath : GS Path := do
  let n ← gsNat
  let mut out := #[]
  for _ in [0:n] do
    out := out.push (← gsStr)
  return out.toList

def showS (s : Str) : String := toString s.length ++ String.join (s.map fun c => s!" {c}")

def showNames (ps : List Str) : String := toString ps.length ++ String.join (ps.map fun c => " " ++ showS c)

/-- index of the first line that is neither ignored (blank, `#` comment) nor parsed -/
def firstUnparsed : List Str → Nat → Option Nat
  | [], _ => none
  | s :: r, i => if ignoredLine s || (Pat.parse s).isSome then firstUnparsed r (i + 1) else some i

def handleGitignore (cmd : String) (args : List String) : Option String :=
  let run {α} (p : GS α) : α := (p.run args).1
  match cmd with
  | "gitignore" => some <| run do
      let np ← gsNat
      let mut texts := #[]
      for _ in [0:np] do
        texts := texts.push (← gsStr)
      let npaths ← gsNat
      let mut paths := #[]
      for _ in [0:npaths] do
        paths := paths.push (← gsPath)
      return match parseAll texts.toList with
        | none => s!"unparsed {(firstUnparsed texts.toList 0).getD 0}"
        | some pats => "ok " ++ String.join (paths.toList.map fun p => if excludedWith pats p then "1" else "0")
  | "gitclass" => some <| run do
      let s ← gsStr
      return match Pat.parse s with
        | none => "none"
        | some (.name x) => "ok 0 " ++ showS x
        | some (.dirOnly d) => "ok 1 " ++ showS d
        | some (.ext e) => "ok 2 " ++ showS e
        | some (.rel ps) => "ok 3 " ++ showNames ps
        | some (.under a) => "ok 4 " ++ showS a
        | some (.rooted ps) => "ok 5 " ++ showNames ps
  | "gitregex" => some <| run do
      let s ← gsStr
      return match Pat.parse s with
        | none => "none"
        | some q => "ok " ++ showS q.regexText
  | _ => none

end CL.Gi
