import CodeLimit.Model.Render
/-!
Driver operations for `Model/Render.lean` (locale = `Locale.C`).

* `overview <fmt> <cur> <hasPrev> <prev>` with `fmt` 0 = text, 1 = Markdown;
  totals = `<n> (<language:Str> <files> <functions> <loc> <hard> <unm>)*` (integers may be
  negative); `<prev>` is read (and ignored) also when `hasPrev` = 0.
  Reply: `ok <rows> <hasFooter> [<cells>]`.
* `findings <fmt> <full> <files>` with `fmt` 0 = text, 1 = Markdown without repository,
  2 = Markdown with repository; files = `<n> (<path:Str> <k> (<name:Str> <line> <col> <endLine> <value>)*)*`.
  Reply: `ok <rows> <hasMore> <more>`.

`<rows>` = `<n> (<cells>)*`, `<cells>` = `<k> (<Str>)*`, `<Str>` = `<len> <codepoint>*`.
-/
namespace CL.RenderOps
open CL.Render

abbrev P := StateM (List String)

def nextWord : P (Option String) := do
  match (← get) with
  | [] => pure none
  | w :: ws => set ws; pure (some w)

def nextNat : P Nat := do
  match (← nextWord) with
  | some w => pure (w.toNat?.getD 0)
  | none => pure 0

def nextInt : P Int := do
  match (← nextWord) with
  | some w => pure (w.toInt?.getD 0)
  | none => pure 0

def parseStr : P Str := do
  let n ← nextNat
  let mut out := #[]
  for _ in [0:n] do
    out := out.push (← nextNat)
  return out.toList

def parseTotals : P Totals := do
  let n ← nextNat
  let mut out : Array LangTotals := #[]
  for _ in [0:n] do
    let language ← parseStr
    let files ← nextInt; let functions ← nextInt; let loc ← nextInt; let hard ← nextInt; let unm ← nextInt
    out := out.push ⟨language, files, functions, loc, hard, unm⟩
  return out.toList

def parseFiles : P Files := do
  let n ← nextNat
  let mut out : Array (Str × List Meas) := #[]
  for _ in [0:n] do
    let path ← parseStr
    let k ← nextNat
    let mut ms : Array Meas := #[]
    for _ in [0:k] do
      let name ← parseStr
      let line ← nextInt; let col ← nextInt; let endLine ← nextInt; let value ← nextInt
      ms := ms.push ⟨name, line, col, endLine, value⟩
    out := out.push (path, ms.toList)
  return out.toList

def showStr (s : Str) : String := toString s.length ++ String.join (s.map fun c => s!" {c}")
def showCells (cs : List Str) : String := toString cs.length ++ String.join (cs.map fun c => " " ++ showStr c)
def showRows (rs : List (List Str)) : String := toString rs.length ++ String.join (rs.map fun r => " " ++ showCells r)

def showOverview (o : Overview) : String :=
  "ok " ++ showRows o.rows ++ (match o.footer with
    | some f => " 1 " ++ showCells f
    | none => " 0")

def showFindings (f : Findings) : String :=
  "ok " ++ showRows f.rows ++ (match f.more with
    | some k => s!" 1 {k}"
    | none => " 0 0")

def handleRender (cmd : String) (args : List String) : Option String :=
  let run {α} (p : P α) : α := (p.run args).1
  match cmd with
  | "overview" => some <| run do
      let fmt ← nextNat
      let cur ← parseTotals
      let hasPrev ← nextNat
      let prev ← parseTotals
      let p := if hasPrev == 1 then some prev else none
      return showOverview (if fmt == 0 then overviewText Locale.C cur p else overviewMarkdown Locale.C cur p)
  | "findings" => some <| run do
      let fmt ← nextNat
      let full ← nextNat
      let files ← parseFiles
      return showFindings (if fmt == 0 then findingsText files (full == 1)
        else findingsMarkdown files (full == 1) (fmt == 2))
  | _ => none

end CL.RenderOps
