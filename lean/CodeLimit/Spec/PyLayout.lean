import CodeLimit.Spec.Layout
/-!
# Specification vocabulary for C01 (stage C): canonical layouts of Python files

Python has no braces: the body of a function is its *suite*, the run of logical lines after the
header that are indented deeper than the line on which the header begins.  This file describes
a tokenised Python file by data that do not mention the analysis algorithm: the code tokens,
and the functions in source order, each with the token range of its header `def name ( … )`
and the token range of its suite (`Fn` of `Spec/Layout.lean`; all ranges are half-open).
`PyLayout code fns` says that these data are arranged the way they are in a well-formed,
conventionally indented Python file.  The expected report is the one of `Spec/Layout.lean`
(`expected`, `ownLines`, `parent`): it only depends on where a function starts
(`hdr.rng.s`), where it ends (`body.e`) and which functions lie inside which.

## logical lines

A *logical line* is a maximal run of tokens in which every token but the first stands on the
same physical line as its predecessor or follows a *continuation token*: a token whose text
ends in backslash-newline, or a String token whose text ends in a newline (a line of a
multi-line string literal; a multi-line docstring is a single token and needs no
continuation).

**`startsLine` is the CODE's notion of a logical line, not Python's.**  One oddity of the code is
part of the definition: the FIRST token of a logical line never acts as a continuation token
(`_get_token_lines` only looks at the text of the tokens it appends to a line that is already
begun).  Python's own notion is `startsLogical` below (every continuation token continues the line).
The two agree exactly when no logical line BEGINS with a continuation token
(`CL.C01py.startsLine_eq_startsLogical`); a file in which one does - a line that starts with
backslash-newline, legal Python - is outside `PyLayout`, and the code mis-measures it
(`CL.C01py.line_beginning_with_backslash`: a finding about the code, not a property of Python).  In a
file without continuation tokens the logical lines are the physical lines
(`CL.C01py.startsLine_physical`).
-/
namespace CL

/-- the text of the token ends with a line break that does not end the logical line: a
backslash-newline, or (String tokens) a newline inside a multi-line string literal -/
def Tok.continuesLine (t : Tok) : Bool :=
  [92, 10].isSuffixOf t.val || (t.isString && [10].isSuffixOf t.val)

/-- `startsLine code i`: token `i` is the first token of a logical line: it is the first token
of the file, or it stands on another physical line than token `i - 1` and token `i - 1` does not
continue the line (a token that itself begins a logical line never continues it) -/
def startsLine (code : List Tok) : Nat → Bool
  | 0 => true
  | i + 1 =>
    match code[i]?, code[i + 1]? with
    | some p, some t => t.line != p.line && !(p.continuesLine && !startsLine code i)
    | _, _ => false

/-- `startsLogical code i`: token `i` is the first token of a logical line IN PYTHON'S SENSE: it is
the first token of the file, or it stands on another physical line than token `i - 1` and token
`i - 1` is not a continuation token.  (Not used by `PyLayout`; the reference point for
`startsLine`, see `CL.C01py.startsLine_eq_startsLogical`.) -/
def startsLogical (code : List Tok) : Nat → Bool
  | 0 => true
  | i + 1 =>
    match code[i]?, code[i + 1]? with
    | some p, some t => t.line != p.line && !p.continuesLine
    | _, _ => false

/-- the index of the first token of the logical line on which token `i` stands: the last
`j ≤ i` with `startsLine code j` -/
def lineStartOf (code : List Tok) : Nat → Nat
  | 0 => 0
  | i + 1 => if startsLine code (i + 1) then i + 1 else lineStartOf code i

/-- physical line of token `i` -/
def lineNo (code : List Tok) (i : Nat) : Nat := (code[i]?.map (·.line)).getD 0

/-- column of token `i` -/
def colNo (code : List Tok) (i : Nat) : Nat := (code[i]?.map (·.col)).getD 0

/-- indentation of the logical line on which token `i` stands: the column of the line's first
token (for `async def f` or `@d def f` on one line that is the column of `async` / `@`) -/
def indentAt (code : List Tok) (i : Nat) : Nat := colNo code (lineStartOf code i)

/--
`PyLayout code fns`: `code` = the code tokens of a Python file, `fns` = its functions in source
order; `f.hdr.rng = [s, e)` is the header `def name ( … )` (so `code[e]` is the token after the
closing parenthesis: `:` or `->`) and `f.body = [s', e')` is the suite.  Every clause speaks
about token indices, physical lines, columns and first tokens of logical lines only.
-/
structure PyLayout (code : List Tok) (fns : List Fn) : Prop where
  /-- token locations (line, column) strictly increase along the file (C16) -/
  pos_sorted : code.Pairwise (fun a b => a.line < b.line ∨ (a.line = b.line ∧ a.col < b.col))
  /-- a header is a non-empty token range, the suite is a non-empty range of tokens of the
  file after the token that follows the header (`:` or `-> T :`) -/
  fn_ok : ∀ f ∈ fns, f.hdr.rng.s < f.hdr.rng.e ∧ f.hdr.rng.e < f.body.s ∧ f.body.s < f.body.e ∧
      f.body.e ≤ code.length
  /-- source order: a later function starts inside or after the suite of an earlier one (not
  inside its header and not between its header and its suite) -/
  fns_order : fns.Pairwise (fun f g => f.body.s ≤ g.hdr.rng.s)
  /-- the suite begins with the first token of a logical line that lies below the physical line
  of the token following the header ... -/
  suite_start : ∀ f ∈ fns, startsLine code f.body.s = true ∧
      lineNo code f.hdr.rng.e < lineNo code f.body.s
  /-- ... namely with the FIRST such logical line: every logical line that begins before the suite
  begins on or above the physical line of the token following the header (in particular this
  holds when no logical line begins between that token and the suite, i.e. `-> T :` stays on
  one logical line) -/
  suite_first : ∀ f ∈ fns, ∀ j < f.body.s, startsLine code j = true →
      lineNo code j ≤ lineNo code f.hdr.rng.e
  /-- every logical line of the suite is indented deeper than the logical line on which the
  header begins (nothing is demanded of the continuation lines of a header that spans several
  lines: `) -> T:` on a line of its own may stand at the column of `def`) -/
  suite_deeper : ∀ f ∈ fns, ∀ j < f.body.e, f.body.s ≤ j → startsLine code j = true →
      indentAt code f.hdr.rng.s < colNo code j
  /-- the suite ends at the end of the file or in front of the first token of a logical line
  that is not indented deeper than the logical line on which the header begins -/
  suite_end : ∀ f ∈ fns, f.body.e = code.length ∨
      (startsLine code f.body.e = true ∧ colNo code f.body.e ≤ indentAt code f.hdr.rng.s)
  /-- no suite ends inside the header of a function or between the header and its suite.
  This is true of the real suites of every well-formed file; it excludes data in which a
  continuation line of a multi-line header is mistaken for the end of an enclosing suite (such
  a line, if it is not indented deeper than the enclosing function's line, violates
  `suite_deeper` of the enclosing function, see `CL.C01py.shallow_header_line`) -/
  hdr_whole : ∀ f ∈ fns, ∀ g ∈ fns, ¬ (f.hdr.rng.s < g.body.e ∧ g.body.e < f.body.s)

theorem pyLayout_iff (code : List Tok) (fns : List Fn) :
    PyLayout code fns ↔
      (code.Pairwise (fun a b => a.line < b.line ∨ (a.line = b.line ∧ a.col < b.col))
      ∧ (∀ f ∈ fns, f.hdr.rng.s < f.hdr.rng.e ∧ f.hdr.rng.e < f.body.s ∧ f.body.s < f.body.e ∧
          f.body.e ≤ code.length)
      ∧ fns.Pairwise (fun f g => f.body.s ≤ g.hdr.rng.s)
      ∧ (∀ f ∈ fns, startsLine code f.body.s = true ∧
          lineNo code f.hdr.rng.e < lineNo code f.body.s)
      ∧ (∀ f ∈ fns, ∀ j < f.body.s, startsLine code j = true →
          lineNo code j ≤ lineNo code f.hdr.rng.e)
      ∧ (∀ f ∈ fns, ∀ j < f.body.e, f.body.s ≤ j → startsLine code j = true →
          indentAt code f.hdr.rng.s < colNo code j)
      ∧ (∀ f ∈ fns, f.body.e = code.length ∨
          (startsLine code f.body.e = true ∧ colNo code f.body.e ≤ indentAt code f.hdr.rng.s))
      ∧ (∀ f ∈ fns, ∀ g ∈ fns, ¬ (f.hdr.rng.s < g.body.e ∧ g.body.e < f.body.s))) :=
  ⟨fun h => ⟨h.1, h.2, h.3, h.4, h.5, h.6, h.7, h.8⟩,
   fun ⟨h1, h2, h3, h4, h5, h6, h7, h8⟩ => ⟨h1, h2, h3, h4, h5, h6, h7, h8⟩⟩

instance (code : List Tok) (fns : List Fn) : Decidable (PyLayout code fns) :=
  decidable_of_iff _ (pyLayout_iff code fns).symm

/-! ## logical lines as lists of token indices (what `_get_token_lines` returns) -/

/-- `l` lists the tokens `[a, b)` of one logical line -/
structure LineOf (code : List Tok) (a b : Nat) (l : List Nat) : Prop where
  lt : a < b
  start : startsLine code a = true
  inner : ∀ j, a < j → j < b → startsLine code j = false
  head : l.head? = some a
  last : l.getLast? = some (b - 1)
  mem : ∀ x, x ∈ l ↔ a ≤ x ∧ x < b

/-- `ls` are consecutive logical lines covering the tokens `[a, c)` -/
inductive LineSeg (code : List Tok) : Nat → Nat → List (List Nat) → Prop
  | nil (a : Nat) : LineSeg code a a []
  | cons {a b c : Nat} {l : List Nat} {ls : List (List Nat)} :
      LineOf code a b l → LineSeg code b c ls → LineSeg code a c (l :: ls)

/-- a token list without continuation tokens: logical lines are physical lines -/
def NoContinuation (code : List Tok) : Prop := ∀ t ∈ code, t.continuesLine = false

instance (code : List Tok) : Decidable (NoContinuation code) := by
  unfold NoContinuation; infer_instance

end CL
