import CodeLimit.Model.CheckPrint
/-!
# Vocabulary for the theorems about what `check` prints (Props/Gaps.lean, part 3)
-/
namespace CL.Print

open CL CL.Sel

/-- a component that `normpath` keeps as it is: not empty, not `.`, not `..` -/
def plain (c : Str) : Bool := !(c == [] || c == [46] || c == [46, 46])

/-- a component list without empty, `.` and `..` components (what `os.getcwd()`, `os.walk` and a
user who types no `..` produce) -/
def Normal (cs : List Str) : Prop := cs.all plain = true

instance (cs : List Str) : Decidable (Normal cs) := by unfold Normal; infer_instance

/-- the file a path denotes when the working directory is `cwd`: the normalised absolute
component list (`os.path.abspath`; correct on file systems without symbolic links in the
directories that `..` steps over) -/
def resolve (cwd : List Str) (p : CPath) : List Str :=
  normComps (if p.abs then p.comps else cwd ++ p.comps)

/-- the lengths of a raw file list: the input of C02's `checkCommand` -/
def lensOf (files : List (CPath × List Measurement)) : List (List Int) :=
  files.map fun fm => fm.2.map fun m => (m.len : Int)

/-- `check_file` applied to every file: the `file_list` of `CheckResult` -/
def risksList (files : List (CPath × List Measurement)) : List (CPath × List Measurement) :=
  files.map fun fm => (fm.1, risksOf fm.2)

end CL.Print
