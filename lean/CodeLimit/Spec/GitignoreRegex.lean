import CodeLimit.Spec.Gitignore
/-!
# The regular expressions pathspec generates for the six classes

`GitWildMatchPattern.pattern_to_regex(line)` returns the text of a regular expression;
`match_file(path)` is `re.compile(text).match(path) is not None`. This file holds

* `Re`: the few forms of regular expression that occur, with their language (`Re.lang`) and their
  text (`Re.text`);
* `Pat.regex`: the expression generated for a line of each class. `Pat.regexText q` is compared
  character by character with `pattern_to_regex(q.text)[0]` by the correspondence stream
  (driver operation `gitregex`);
* `Re.accepts`: `re.match` of `^body$` - the body matches the whole text, or the text up to a final
  line feed (`$` without `re.MULTILINE`).

`Props/C11patRegex.lean` proves that on the `/`-joined components of a path the expression of a
line accepts exactly the paths `Pat.matches` accepts.
-/
namespace CL.Gi

inductive Re where
  /-- a literal text, printed with `re.escape` -/
  | chars (s : Str)
  /-- `.`: any character but line feed -/
  | dot
  /-- `[^/]` -/
  | notSlash
  | seq (a b : Re)
  /-- `a*` (used on `.` and `[^/]` only) -/
  | star (a : Re)
  /-- `a+` (used on `.` and `[^/]` only) -/
  | plus (a : Re)
  /-- `(?:a)?` -/
  | optGroup (a : Re)
  /-- `(?P<ps_d>a)`: the group pathspec names to find the directory marker; the same language as `a` -/
  | named (a : Re)
  deriving Repr, DecidableEq

/-- the words of the expression -/
def Re.lang : Re → Str → Prop
  | .chars s, w => w = s
  | .dot, w => ∃ c, w = [c] ∧ c ≠ 10
  | .notSlash, w => ∃ c, w = [c] ∧ c ≠ 47
  | .seq a b, w => ∃ u v, w = u ++ v ∧ a.lang u ∧ b.lang v
  | .star a, w => ∃ l : List Str, w = l.flatten ∧ ∀ u ∈ l, a.lang u
  | .plus a, w => ∃ l : List Str, l ≠ [] ∧ w = l.flatten ∧ ∀ u ∈ l, a.lang u
  | .optGroup a, w => w = [] ∨ a.lang w
  | .named a, w => a.lang w

/-- `re.match("^" + body + "$", text) is not None` -/
def Re.accepts (body : Re) (text : Str) : Prop :=
  body.lang text ∨ ∃ t, text = t ++ [10] ∧ body.lang t

/-- the characters `re.escape` puts a backslash before (Python >= 3.7):
`( ) [ ] { } ? * + - | ^ $ \ . & ~ #`, blank, `\t \n \r \v \f` -/
def reSpecial (c : Nat) : Bool :=
  [40, 41, 91, 93, 123, 125, 63, 42, 43, 45, 124, 94, 36, 92, 46, 38, 126, 35, 32, 9, 10, 13, 11, 12].contains c

/-- `re.escape` -/
def reEscape : Str → Str
  | [] => []
  | c :: r => if reSpecial c then 92 :: c :: reEscape r else c :: reEscape r

def Re.text : Re → Str
  | .chars s => reEscape s
  | .dot => [46]
  | .notSlash => str "[^/]"
  | .seq a b => a.text ++ b.text
  | .star a => a.text ++ [42]
  | .plus a => a.text ++ [43]
  | .optGroup a => str "(?:" ++ a.text ++ str ")?"
  | .named a => str "(?P<ps_d>" ++ a.text ++ [41]

/-- `(?:.+/)?`: what pathspec emits for a leading `**` -/
def reFloat : Re := .optGroup (.seq (.plus .dot) (.chars [47]))

/-- `(?:(?P<ps_d>/).*)?`: after the last segment of a line that does not end in `/` -/
def reTail : Re := .optGroup (.seq (.named (.chars [47])) (.star .dot))

/-- `(?P<ps_d>/).*`: for the trailing `**` of a line that ends in `/` -/
def reDirTail : Re := .seq (.named (.chars [47])) (.star .dot)

/-- the body (between `^` and `$`) of the expression generated for a line -/
def Pat.regex : Pat → Re
  | .name x => .seq reFloat (.seq (.chars x) reTail)
  | .dirOnly d => .seq reFloat (.seq (.chars d) reDirTail)
  | .ext e => .seq reFloat (.seq (.seq (.star .notSlash) (.chars e)) reTail)
  | .rel ps => .seq (.chars (joinSlash ps)) reTail
  | .under a => .seq (.chars (a ++ [47])) (.seq (.plus .notSlash) reTail)
  | .rooted ps => .seq (.chars (joinSlash ps)) reTail

/-- the text `pattern_to_regex` returns -/
def Pat.regexText (q : Pat) : Str := 94 :: q.regex.text ++ [36]

end CL.Gi
