import CodeLimit.Spec.ProgTreeCanon
/-!
# The canonical fragments of JavaScript / TypeScript WITH assigned arrow functions

`Spec/ProgTreeCanon.lean` describes the forests on which the function / method pattern
`[function] Name ( … )+` of JavaScript and TypeScript finds exactly the function nodes, under the
restriction that the second shipped pattern (the arrow-function pattern
`[const] Name = [async] ( … )+`, follow-up `=>` `{`) finds nothing.  Here a function NODE may also
be an assigned arrow function

`const f = ( a ) => { … }`, `f = async ( a ) => { … }`:

header `[const] Name = [async] ( … )+`, gap exactly the symbol `=>` (JavaScript and TypeScript: the
shipped follow-up of the arrow pattern is `=>` directly followed by `{`, nothing may stand between
`)` and `=>`), named by the Name token.

## vocabulary

* `arrowGap gap` - the gap is the single symbol `=>`: this is what makes a function node an ARROW
  node; every other function node is a function / method node;
* `Prog.plain p` - the forest `p` with every arrow node `hdr => { body }` replaced by its header
  items, the token `=>` and the brace group `{ body }`: the same token sequence, read the way the
  function / method pattern sees it (an arrow function is tokens and a brace group);
* `assignOpen ts` - the tokens start with `= (` or `= async (`;
  `noAssignOpen l` - no Name token of `l` is directly followed by `= (` / `= async (`;
* `arrowHeaderOK h k` - `h` is `[const] Name = [async] ( … )+` (one or more parenthesis groups and
  nothing else after them), `k` is the index of the Name token, and no Name token after it is
  directly followed by `= (` / `= async (` (an assignment-shaped group inside the parameter list
  would finish first and discard the attempt of the header: the analogue of known finding KF1);
* `arrowStart ts` - the tokens `ts` (after a Name token) are `= [async] ( … )+ => {`;
  `noArrowStart l` - no Name token of `l` is followed by that;
* `Prog.falseArrowAfter rest` - the siblings `rest` that follow a Name token are
  `= [async] ( … )+ => { … }`: Name token and groups look like an arrow header although they are
  not one;
* `Prog.arrowsOK` - the arrow-specific clauses, see below;
* `Prog.CanonJsArrow`, `Prog.CanonTsArrow` - the fragments.
-/
namespace CL
open CL.Syn (isOpen isClose)

/-- `const` -/
def kwConstS : Str := [99, 111, 110, 115, 116]

/-- the gap of an arrow function node: exactly one token, the symbol `=>` -/
def arrowGap : List Tok → Bool
  | [a] => a.isSymbol [61, 62]
  | _ => false

/-- the items of `a`, followed by the items of `b` -/
def Prog.app {α : Type} : Prog α → Prog α → Prog α
  | .nil, b => b
  | .leaf t r, b => .leaf t (app r b)
  | .group op cl items r, b => .group op cl items (app r b)
  | .fn h k g op cl body r, b => .fn h k g op cl body (app r b)

/-- **the forest as the function / method pattern sees it**: every arrow node (a function node
whose gap is `=>`) is replaced by its header items, the token `=>` and the brace group of its body;
the token sequence is the same (`flat_plain`) -/
def Prog.plain : Prog Tok → Prog Tok
  | .nil => .nil
  | .leaf t rest => .leaf t (plain rest)
  | .group op cl items rest => .group op cl (plain items) (plain rest)
  | .fn hdr k gap op cl body rest =>
    if arrowGap gap then hdr.app (Prog.toks gap (.group op cl (plain body) (plain rest)))
    else .fn hdr k gap op cl (plain body) (plain rest)

/-! ## arrow headers (token lists) -/

/-- the tokens start with `(` or with `async (` -/
def opensParams : List Tok → Bool
  | o :: r => isOpen o || (o.isKw kwAsyncS && r.head?.any isOpen)
  | [] => false

/-- the tokens start with `= (` or with `= async (` -/
def assignOpen : List Tok → Bool
  | e :: r => e.isOperator [61] && opensParams r
  | [] => false

/-- no Name token of the list is directly followed by `= (` or `= async (` -/
def noAssignOpen : List Tok → Bool
  | [] => true
  | t :: ts => !(t.isName && assignOpen ts) && noAssignOpen ts

/-- one or more parenthesis groups and nothing else -/
def paramGroups (l : List Tok) : Bool := !l.isEmpty && groupsOnly l 0

/-- `= ( … )+` or `= async ( … )+` -/
def arrowTail : List Tok → Bool
  | e :: r =>
    e.isOperator [61] &&
      (paramGroups r || match r with
        | a :: r' => a.isKw kwAsyncS && paramGroups r'
        | [] => false)
  | [] => false

/-- `Name = [async] ( … )+` named by its first token, or `const Name = [async] ( … )+` named by its
second token -/
def arrowShape (h : List Tok) (k : Nat) : Bool :=
  (k == 0 && match h with
    | n :: r => n.isName && arrowTail r
    | [] => false) ||
  (k == 1 && match h with
    | c :: n :: r => c.isKw kwConstS && n.isName && arrowTail r
    | _ => false)

/-- a canonical arrow header: `[const] Name = [async] ( … )+`, and no Name token after the name is
directly followed by `= (` / `= async (` -/
def arrowHeaderOK (h : List Tok) (k : Nat) : Bool :=
  arrowShape h k && noAssignOpen (h.drop (k + 1))

/-- the tokens (they follow a Name token) are `= [async] ( … )+ => {`: the operator `=`, optionally
the keyword `async`, then `(`, and the maximal run of parenthesis groups that starts there is
directly followed by the symbols `=>` and `{` -/
def arrowStart : List Tok → Bool
  | e :: r => e.isOperator [61] && arrowAfterAssign r
  | [] => false

/-- no Name token of the list is followed by `= [async] ( … )+ => {` -/
def noArrowStart : List Tok → Bool
  | [] => true
  | t :: ts => !(t.isName && arrowStart ts) && noArrowStart ts

/-! ## false arrow headers (trees) -/

/-- the siblings start with the symbol `=>` followed by a brace group -/
def Prog.startsArrowBodyT : Prog Tok → Bool
  | .leaf a (.group ..) => a.isSymbol [61, 62]
  | _ => false

/-- the siblings start with `(`, and where the maximal run of parenthesis groups that starts there
stops, the symbol `=>` and a brace group follow: `( … )+ => { … }` -/
def Prog.arrowBodyAfterRunT : Prog Tok → Bool
  | .leaf o rest => isOpen o && (rest.afterRun 1).startsArrowBodyT
  | _ => false

/-- the siblings (they follow an operator `=`) are `( … )+ => { … }` or `async ( … )+ => { … }` -/
def Prog.arrowAfterAssignT (q : Prog Tok) : Bool :=
  q.arrowBodyAfterRunT ||
    match q with
    | .leaf a r => a.isKw kwAsyncS && r.arrowBodyAfterRunT
    | _ => false

/-- the siblings (they follow a Name token) are `= [async] ( … )+ => { … }`: the Name token and the
groups look like the header of an assigned arrow function -/
def Prog.falseArrowAfter : Prog Tok → Bool
  | .leaf e rest => e.isOperator [61] && rest.arrowAfterAssignT
  | _ => false

/-- **the arrow-specific clauses** (`pc`: the token directly in front of the siblings is the
keyword `const`):

* a Name token that is not part of a function header starts no false arrow header: it is not
  followed by `= [async] ( … )+ => { … }` (read on `plain`: arrow nodes inside the parentheses are
  tokens and brace groups);
* an arrow node (gap `=>`) has a canonical arrow header (`arrowHeaderOK`), and the keyword `const`
  does not stand directly in front of an arrow node named by its first token (the keyword belongs
  INTO the header);
* in the header of a function / method node no Name token after the name is followed by
  `= [async] ( … )+ => {` (`noArrowStart`: no arrow function with a block body as default value of
  a parameter, `function f ( a = ( b ) => { … } ) { … }`, which the arrow pattern would report
  although the tree cannot have a function node inside a header). -/
def Prog.arrowsOK : Bool → Prog Tok → Bool
  | _, .nil => true
  | _, .leaf t rest =>
    !(t.isName && rest.plain.falseArrowAfter) && arrowsOK (t.isKw kwConstS) rest
  | _, .group _ _ items rest => arrowsOK false items && arrowsOK false rest
  | pc, .fn hdr k gap _ _ body rest =>
    (if arrowGap gap then arrowHeaderOK hdr.flat k && !(pc && k == 0)
     else noArrowStart (hdr.flat.drop (k + 1)))
      && arrowsOK false body && arrowsOK false rest

/-- **the canonical fragment of JavaScript with assigned arrow functions**:

* the token sequence of the file has balanced parentheses;
* read with every arrow node as tokens and a brace group (`plain`), the forest satisfies the clauses
  of the function / method pattern (`canonWith cfgJs`): function / method nodes have the header
  `[function] name ( … )+` without call-shaped group, directly followed by `{`; `function` does not
  stand in front of such a node; no Name token outside these headers - the tokens of arrow headers
  included - starts a false header `Name ( … )+ {`; brace groups and bodies are balanced;
* the arrow-specific clauses `arrowsOK`: arrow nodes have the header
  `[const] Name = [async] ( … )+` without `Name = [async] (` inside and the gap `=>`; `const` does
  not stand in front of an arrow node that starts with its name; no Name token elsewhere is followed
  by `= [async] ( … )+ => { … }`. -/
def Prog.CanonJsArrow (p : Prog Tok) : Bool :=
  parenBal p.flat 0 && p.plain.canonWith cfgJs false && p.arrowsOK false

/-- **the canonical fragment of TypeScript with assigned arrow functions**: as `CanonJsArrow`, with
the function / method clauses of TypeScript (`cfgTs`: optional return type annotation `: T …`
between a function / method header and its body; a false header is `Name ( … )+` in front of `{` or
of `:` not followed by a `;`).  The gap of an arrow node is exactly `=>`, as in JavaScript: an arrow
function with a return type annotation, `const f = ( a ) : T => { … }`, is not reported by the
shipped pattern and is tokens and a brace group of the forest. -/
def Prog.CanonTsArrow (p : Prog Tok) : Bool :=
  parenBal p.flat 0 && p.plain.canonWith cfgTs false && p.arrowsOK false

/-! ## the function nodes of the two kinds -/

/-- the function / method nodes (gap not `=>`) of a forest whose first token has index `i`, as
`fnsOf`, each with the index of its name token in its header -/
def fnsF : Prog Tok → Nat → List (Fn × Nat)
  | .nil, _ => []
  | .leaf _ rest, i => fnsF rest (i + 1)
  | .group _ _ items rest, i => fnsF items (i + 1) ++ fnsF rest (i + items.size + 2)
  | .fn hdr k gap _ _ body rest, i =>
    (if arrowGap gap then [] else
      [(⟨⟨hdr.flat.getD k default, ⟨i, i + hdr.size⟩⟩,
        ⟨i + hdr.size + gap.length, i + hdr.size + gap.length + body.size + 2⟩⟩, k)])
    ++ (fnsF body (i + hdr.size + gap.length + 1)
        ++ fnsF rest (i + hdr.size + gap.length + body.size + 2))

/-- the arrow nodes (gap `=>`) of a forest whose first token has index `i` -/
def fnsA : Prog Tok → Nat → List (Fn × Nat)
  | .nil, _ => []
  | .leaf _ rest, i => fnsA rest (i + 1)
  | .group _ _ items rest, i => fnsA items (i + 1) ++ fnsA rest (i + items.size + 2)
  | .fn hdr k gap _ _ body rest, i =>
    (if arrowGap gap then
      [(⟨⟨hdr.flat.getD k default, ⟨i, i + hdr.size⟩⟩,
        ⟨i + hdr.size + gap.length, i + hdr.size + gap.length + body.size + 2⟩⟩, k)]
     else [])
    ++ (fnsA body (i + hdr.size + gap.length + 1)
        ++ fnsA rest (i + hdr.size + gap.length + body.size + 2))

/-- the function / method nodes of a whole file, in source order -/
abbrev Prog.funFns (p : Prog Tok) : List Fn := (fnsF p 0).map (·.1)
/-- the arrow nodes of a whole file, in source order -/
abbrev Prog.arrowFns (p : Prog Tok) : List Fn := (fnsA p 0).map (·.1)

end CL
