import CodeLimit.Model.Scopes
/-!
# Specification vocabulary for C01 (stage A): canonical layouts of brace-block files

A *layout* describes a tokenised source file by data that does not mention the analysis
algorithm at all: the code tokens, the functions of the file in source order (each with the
token range of its header and the token range of its body block) and the list of **all** brace
blocks of the file (function bodies, class bodies, control blocks, initialisers, brace groups
in parameter lists, ...).  `Layout code fns blocks` says that these data are arranged the way
they are in a well-formed source file.  From a layout the *expected* report is defined
directly: which function is nested in which, which token lines belong to a function itself
(`ownLines`) and the measurement that is expected for it (`expected`).

All token ranges are half-open: `[s, e)`.
-/
namespace CL

/-- a function of the layout: its header (name token and token range `[hdr.rng.s, hdr.rng.e)`)
and the token range of its body block (`code[body.s]` is the opening and `code[body.e - 1]` the
closing brace) -/
structure Fn where
  hdr : Header
  body : Range
  deriving Repr, DecidableEq, Inhabited

/-- the scope the analysis is expected to build for a function: the header with the body -/
def Fn.toScope (f : Fn) : Scope := ⟨f.hdr, f.body⟩

/-- the token range `[first header token, one past the closing brace)` of the whole function -/
def Fn.extent (f : Fn) : Range := ⟨f.hdr.rng.s, f.body.e⟩

/--
`FnLayout fns blocks`: how the functions `fns` (in source order) lie relative to the brace
blocks `blocks` (ALL brace blocks of the file, in source order).  These clauses hold for every
well-formed source file.
-/
structure FnLayout (fns : List Fn) (blocks : List Range) : Prop where
  /-- the functions are listed in source order, no two headers start at the same token -/
  fns_sorted : fns.Pairwise (fun f g => f.hdr.rng.s < g.hdr.rng.s)
  /-- a header is a non-empty token range and the body starts at or after the header's end
  (there may be tokens in between: `throws E`, `: ReturnType`, `=>`) -/
  hdr_ok : ∀ f ∈ fns, f.hdr.rng.s < f.hdr.rng.e ∧ f.hdr.rng.e ≤ f.body.s
  /-- the body of a function is one of the brace blocks of the file -/
  body_mem : ∀ f ∈ fns, f.body ∈ blocks
  /-- the body is the FIRST block that starts at or after the header's end -/
  body_first : ∀ f ∈ fns, ∀ b ∈ blocks, ¬ (f.hdr.rng.e ≤ b.s ∧ b.s < f.body.s)
  /-- how any block `b` lies relative to any function `f`: `b` is around the whole function
  (a class body, the body of an enclosing function, a namespace), or `b` is a brace group
  inside the header (a default value `{1, 2}` in the parameter list), or `b` ends before the
  function, or `b` starts at or after the header's end (then `body_first` and `laminar` make it
  the body, a block inside the body, or a block after the function).  In particular no block
  boundary separates a header from its body and no block straddles a header boundary. -/
  block_vs_fn : ∀ f ∈ fns, ∀ b ∈ blocks,
      (b.s < f.hdr.rng.s ∧ f.body.e ≤ b.e)
    ∨ (f.hdr.rng.s < b.s ∧ b.e ≤ f.hdr.rng.e)
    ∨ b.e ≤ f.hdr.rng.s
    ∨ f.hdr.rng.e ≤ b.s
  /-- two headers are disjoint or nested (a function expression inside a parameter list), never
  partially overlapping -/
  hdrs_laminar : ∀ f ∈ fns, ∀ g ∈ fns, f.hdr.rng.s < g.hdr.rng.s →
      f.hdr.rng.e ≤ g.hdr.rng.s ∨ g.hdr.rng.e ≤ f.hdr.rng.e
  /-- no other header starts between a header's end and its body -/
  hdr_outside_gap : ∀ f ∈ fns, ∀ g ∈ fns,
      ¬ (f.hdr.rng.e ≤ g.hdr.rng.s ∧ g.hdr.rng.s < f.body.s)
  /-- two functions never share a body -/
  bodies_distinct : ∀ f ∈ fns, ∀ g ∈ fns, f.hdr.rng.s < g.hdr.rng.s → f.body ≠ g.body

/--
`LayoutCore code fns blocks`: `code` = the code tokens of the file, `fns` = its functions in
source order, `blocks` = ALL brace blocks of the file in source order: `FnLayout` plus four
facts about real token lists and real brace blocks (`CL.C01.getBlocks_laminar` proves that the
blocks computed by `getBlocks` always satisfy `blocks_ok`, `blocks_sorted` and `laminar`, see
`CL.C01.layoutCore_of_getBlocks`; C16 proves `pos_sorted` for lexed files).  All clauses hold
for every well-formed source file.
-/
structure LayoutCore (code : List Tok) (fns : List Fn) (blocks : List Range) : Prop
    extends FnLayout fns blocks where
  /-- token locations (line, column) strictly increase along the file (C16); the analysis
  sorts headers, blocks and children by *location*, the layout speaks about token *indices* -/
  pos_sorted : code.Pairwise (fun a b => a.line < b.line ∨ (a.line = b.line ∧ a.col < b.col))
  /-- a block is a non-empty range of tokens of the file -/
  blocks_ok : ∀ b ∈ blocks, b.s < b.e ∧ b.e ≤ code.length
  /-- the blocks are listed in source order, no two start at the same token -/
  blocks_sorted : blocks.Pairwise (fun a b => a.s < b.s)
  /-- blocks are properly bracketed: a later block is disjoint from, or nested in, an earlier
  one -/
  laminar : blocks.Pairwise (fun a b => a.e ≤ b.s ∨ b.e ≤ a.e)

/--
`Layout code fns blocks`: a canonical layout: `LayoutCore` plus one restriction that is NOT a
fact about well-formed files.
-/
structure Layout (code : List Tok) (fns : List Fn) (blocks : List Range) : Prop
    extends LayoutCore code fns blocks where
  /-- no block starts at the token directly after the closing brace of a function body
  (`f() { } { }`).  A Java instance initialiser may directly follow a method, so this is a real
  restriction; it is needed because the analysis merges such a block into the function, see
  `CL.C01.adjacent_block_is_merged`.  (A TypeScript method with an object type as return type,
  `f(): { a: T } { ... }`, also violates it: there the first block after the header is the
  return type and the merge accidentally yields the real extent.) -/
  no_adjacent : ∀ f ∈ fns, ∀ b ∈ blocks, b.s ≠ f.body.e

theorem fnLayout_iff (fns : List Fn) (blocks : List Range) :
    FnLayout fns blocks ↔
      (fns.Pairwise (fun f g => f.hdr.rng.s < g.hdr.rng.s)
      ∧ (∀ f ∈ fns, f.hdr.rng.s < f.hdr.rng.e ∧ f.hdr.rng.e ≤ f.body.s)
      ∧ (∀ f ∈ fns, f.body ∈ blocks)
      ∧ (∀ f ∈ fns, ∀ b ∈ blocks, ¬ (f.hdr.rng.e ≤ b.s ∧ b.s < f.body.s))
      ∧ (∀ f ∈ fns, ∀ b ∈ blocks,
            (b.s < f.hdr.rng.s ∧ f.body.e ≤ b.e) ∨ (f.hdr.rng.s < b.s ∧ b.e ≤ f.hdr.rng.e)
          ∨ b.e ≤ f.hdr.rng.s ∨ f.hdr.rng.e ≤ b.s)
      ∧ (∀ f ∈ fns, ∀ g ∈ fns, f.hdr.rng.s < g.hdr.rng.s →
            f.hdr.rng.e ≤ g.hdr.rng.s ∨ g.hdr.rng.e ≤ f.hdr.rng.e)
      ∧ (∀ f ∈ fns, ∀ g ∈ fns, ¬ (f.hdr.rng.e ≤ g.hdr.rng.s ∧ g.hdr.rng.s < f.body.s))
      ∧ (∀ f ∈ fns, ∀ g ∈ fns, f.hdr.rng.s < g.hdr.rng.s → f.body ≠ g.body)) :=
  ⟨fun h => ⟨h.1, h.2, h.3, h.4, h.5, h.6, h.7, h.8⟩,
   fun ⟨h1, h2, h3, h4, h5, h6, h7, h8⟩ => ⟨h1, h2, h3, h4, h5, h6, h7, h8⟩⟩

instance (fns : List Fn) (blocks : List Range) : Decidable (FnLayout fns blocks) :=
  decidable_of_iff _ (fnLayout_iff fns blocks).symm

theorem layoutCore_iff (code : List Tok) (fns : List Fn) (blocks : List Range) :
    LayoutCore code fns blocks ↔
      (FnLayout fns blocks
      ∧ code.Pairwise (fun a b => a.line < b.line ∨ (a.line = b.line ∧ a.col < b.col))
      ∧ (∀ b ∈ blocks, b.s < b.e ∧ b.e ≤ code.length)
      ∧ blocks.Pairwise (fun a b => a.s < b.s)
      ∧ blocks.Pairwise (fun a b => a.e ≤ b.s ∨ b.e ≤ a.e)) :=
  ⟨fun h => ⟨h.1, h.2, h.3, h.4, h.5⟩, fun ⟨h1, h2, h3, h4, h5⟩ => ⟨h1, h2, h3, h4, h5⟩⟩

instance (code : List Tok) (fns : List Fn) (blocks : List Range) :
    Decidable (LayoutCore code fns blocks) :=
  decidable_of_iff _ (layoutCore_iff code fns blocks).symm

theorem layout_iff (code : List Tok) (fns : List Fn) (blocks : List Range) :
    Layout code fns blocks ↔
      LayoutCore code fns blocks ∧ ∀ f ∈ fns, ∀ b ∈ blocks, b.s ≠ f.body.e :=
  ⟨fun h => ⟨h.1, h.2⟩, fun ⟨h1, h2⟩ => ⟨h1, h2⟩⟩

instance (code : List Tok) (fns : List Fn) (blocks : List Range) :
    Decidable (Layout code fns blocks) :=
  decidable_of_iff _ (layout_iff code fns blocks).symm

/-! ## the expected report, defined from the layout alone -/

/-- `f.encloses g`: `g` is nested (at any depth) inside `f`: it starts after `f` starts and
ends no later than `f` ends -/
def Fn.encloses (f g : Fn) : Bool := f.hdr.rng.s < g.hdr.rng.s && g.body.e ≤ f.body.e

/-- the parent of `g`: the innermost function enclosing `g`, i.e. (the functions being listed
in source order and properly nested) the LAST function of the file that encloses `g`
(`CL.parent_innermost`: every other function enclosing `g` encloses the parent) -/
def parent (fns : List Fn) (g : Fn) : Option Fn := (fns.filter (fun f => f.encloses g)).getLast?

/-- the direct children of `f`, in source order -/
def children (fns : List Fn) (f : Fn) : List Fn := fns.filter (fun g => parent fns g == some f)

/-- the token ranges `[header start, body end)` of the direct children of `f` -/
def childRanges (fns : List Fn) (f : Fn) : List Range := (children fns f).map Fn.extent

/-- the functions that are not nested in any other function, in source order -/
def topLevel (fns : List Fn) : List Fn := fns.filter (fun g => (parent fns g).isNone)

/-- the lines of the tokens of `f` (header start up to the closing brace) that do not belong to
a function nested in `f` at any depth -/
def ownLines (code : List Tok) (fns : List Fn) (f : Fn) : List Nat :=
  (code.zipIdx.filter (fun ti => f.hdr.rng.s ≤ ti.2 && ti.2 < f.body.e &&
      !fns.any (fun g => f.encloses g && g.hdr.rng.s ≤ ti.2 && ti.2 < g.body.e))).map (·.1.line)

/-- the lines of all tokens of `f` (header start up to the closing brace) -/
def allLines (code : List Tok) (f : Fn) : List Nat :=
  (code.zipIdx.filter (fun ti => f.hdr.rng.s ≤ ti.2 && ti.2 < f.body.e)).map (·.1.line)

/-- the location just past the end of a token (tokens may contain line breaks): on the token's line,
`text length` columns behind its start; for a text with `k > 0` line breaks, `k` lines below, one
column past the length of the text after the last line break.

This is computed from the token's OWN text and location, the way `Scanner.scan_file` does (and it is
the same function as `Tok.endPos` of `Spec/Scan.lean`: `C01text.endPos_L_eq_endPos`).  That it IS
the (line, column) of the text offset just past the token - `lineOf` / `colOf` of `Spec/Lex.lean`,
which count the newlines of the TEXT - for every token that `lex` places from a raw stream tiling the
text is `C01text.end_location_is_text_end`; an example with a last token over two lines:
`C01pytext.Ex.docLast_end`. -/
def Tok.endPos_L (t : Tok) : Nat × Nat :=
  if (lastLineInfo t.val).1 = 0 then (t.line, t.col + t.val.length)
  else (t.line + (lastLineInfo t.val).1, (lastLineInfo t.val).2 + 1)

/-- the measurement with length `len` for `f`: its own name, from the location of the first
header token to the location just past the closing brace (`none` if `f` is not inside `code`) -/
def expectedWith (code : List Tok) (f : Fn) (len : Nat) : Option Measurement :=
  if f.body.e = 0 then none else
  match code[f.hdr.rng.s]?, code[f.body.e - 1]? with
  | some first, some last =>
    some ⟨f.hdr.name.val, first.line, first.col, (Tok.endPos_L last).1, (Tok.endPos_L last).2, len⟩
  | _, _ => none

/-- the expected measurement of `f` in a language with nested functions -/
def expected (code : List Tok) (fns : List Fn) (f : Fn) : Option Measurement :=
  expectedWith code f (countDistinct (ownLines code fns f))

/-- the expected measurement of a top-level `f` in a language without nested functions:
nothing is subtracted -/
def expectedFlat (code : List Tok) (f : Fn) : Option Measurement :=
  expectedWith code f (countDistinct (allLines code f))

end CL
