import CodeLimit.Model.Codebase
/-!
# Vocabulary for the properties of the folder tree (C07)

Everything is phrased on strings: a folder key is the folder's path followed by `/`; a file or
folder lies beneath the folder with key `k` iff `k` is the root key or a prefix of its path.
-/
namespace CL.Codebase

/-- `k` is the key of a folder on the way to `s`: a prefix of `s` that ends with `/` -/
def IsDirPrefix (k s : Str) : Prop := k <+: s ∧ k.getLast? = some sl

/-- the key of the folder that directly holds the file or folder with path `s` -/
def dirKey (s : Str) : Str := getParentFolder s ++ [sl]

/-- the file or folder `s` lies (at any depth) beneath the folder with key `k` -/
def under (k s : Str) : Bool := k = rootKey || k.isPrefixOf s

/-- the key `aggregate_folder` computes for the sub-folder entry `name` of the folder `k` -/
def childKey (k name : Str) : Str := if k = rootKey then name else k ++ name

/-- the key of the parent folder of the (non-root) folder with key `k` -/
def parentKeyOf (k : Str) : Str := dirKey k.dropLast

/-- the entry name under which the (non-root) folder with key `k` is listed in its parent -/
def nameOf (k : Str) : Str := getBasename k.dropLast ++ [sl]

/-- a key of a folder other than the root: ends with `/` and does not start with `./` -/
def GoodNR (k : Str) : Prop := k.getLast? = some sl ∧ ¬ rootKey <+: k

/-- names of the sub-folder entries of a folder, in order -/
def folderNames (f : Folder) : List Str :=
  f.entries.filterMap fun | .folder n => some n | .file _ => none

/-- the file entries of a folder, in order -/
def fileEntries (f : Folder) : List FileEntry :=
  f.entries.filterMap fun | .file e => some e | .folder _ => none

/-- pointwise sum of a list of profiles -/
def psum : List Profile → Profile
  | [] => Profile.zero
  | p :: ps => mergeProfiles p (psum ps)

/-- sum of the lengths of the measurements that fall in bucket `i` -/
def bucketSum (i : Nat) (ms : List Int) : Int :=
  ((ms.filter fun v => Gen.Logic.make_profile_bucket v = i)).sum

/-- number of the measurements that fall in count-bucket `i` -/
def bucketCount (i : Nat) (ms : List Int) : Int :=
  ((ms.filter fun v => Gen.Logic.make_count_profile_bucket v = i)).length

/-- the totals the property requires for language `L` over the added files `es` -/
def langTotals (L : Str) (es : List FileEntry) : LanguageTotals :=
  let mine := es.filter (fun e => e.language = L)
  { language := L,
    files := mine.length,
    loc := (mine.map (·.loc)).sum,
    functions := (mine.map (fun e => (e.measurements.length : Int))).sum,
    hardToMaintain := (mine.map (fun e => bucketCount 2 e.measurements)).sum,
    unmaintainable := (mine.map (fun e => bucketCount 3 e.measurements)).sum }

end CL.Codebase
