import CodeLimit.Spec.ProgTree
import CodeLimit.Spec.SynHeader
/-!
# The canonical fragments of the brace languages, as decidable predicates on program TREES

`Props/C01tree.lean` shows: IF header discovery finds exactly the headers of the function nodes of
a forest, THEN `scan_file` returns the tree report.  This file says, in terms of the tree only (no
automata, no token indices), for which forests header discovery does that, for the languages whose
header pattern is `Name ( … )+`: C, C++, C# (follow-up: the symbol `{`), Java (follow-up `{` or
`throws … {`; a header preceded by the keyword `new` / `record` is dropped), and for the
`function` / method pattern `[function] Name ( … )+` of JavaScript (follow-up `{`) and TypeScript
(follow-up `{` or `: … {`) on forests in which the arrow-function pattern finds nothing
(`noAssignedArrow`).

Parentheses are the PUNCTUATION tokens `(` / `)` (`Syn.isOpen`, `Syn.isClose`: `Token.is_symbol`),
as the matcher counts them since the repair of defect F25; a token of another type with the text
`(` (the content of a string literal) is an ordinary token.

## vocabulary

* `parenBal ts d` - the tokens `ts`, read inside `d` open parentheses, never close a parenthesis
  that is not open and leave none open;
* `groupsOnly ts d` - `ts`, read inside `d` open parentheses, consists of parenthesis groups only:
  outside all parentheses only a `(` may come, and every parenthesis is closed at the end;
* `noCall ts` - no Name token of `ts` is directly followed by `(`;
* `headerShape h` - `h` is one Name token followed by one or more parenthesis groups:
  `name ( … ) ( … )`;
* `headerOK h` - `headerShape h`, and no Name token after the first token is directly followed by
  `(` (no call-shaped group inside the header: known finding KF1);
* `Prog.afterRun rest d` - reading the siblings `rest` inside `d` open parentheses: the siblings
  that remain where the maximal run of parenthesis groups stops (brace groups and functions that
  lie inside the parentheses are skipped as a whole);
* `Prog.falseHeaderAfter C rest` - the siblings `rest` that follow a Name token start with `(`,
  and what remains after the run of parenthesis groups looks like the start of a function body
  (`C.follows`): the Name token and the groups look like a function header although they are not
  one;
* `Prog.canonWith C` - the canonical fragment relative to the language-specific tests of a
  `CanonCfg`; `Prog.Canon` (C, C++, C#), `Prog.CanonJava`, `Prog.CanonJs` and `Prog.CanonTs` are its
  instances (the last two with the additional restriction `noAssignedArrow`).

Examples (C family): the control head `if ( x ) {` starts with a Keyword token, `struct s {`, `= {`
and `) {` after a keyword are no false headers; the call statement `g ( x ) ;` is none (the run
stops in front of `;`); `g ( x ) { … }` as a token run followed by a `group` IS a false header
(it would be reported as a function although the tree says it is none).

## what is definitional in this fragment, and what it silently leaves out

"Reports nothing that is not a function definition" is, on trees, relative to the tree's own
labelling: the fragment DEMANDS that every `Name ( … )+` directly in front of a brace group (Java:
or `throws … {`; TypeScript: or `: … {`) is labelled as a `fn` node - that is the false-header
clause.  Whether such a token run "is" a function definition of the language is not expressible on
token trees; the independent content of the clause is that nothing ELSE is reported (control
statements start with a Keyword, calls end in front of `;` / `)` / an operator, classes and
initialisers have no parenthesis group).  Real programs outside the fragment (witnesses in
`Props/C01full.lean`, all reproduce on the real code):

* C++ member functions with a qualifier between `)` and `{`: `int f ( ) const { … }`, `noexcept`,
  `override`, a trailing return type - the gap must be empty (`gapOK = isEmpty`); the code does NOT
  report them at all (`C01full.c_gap_clause_needed`);
* C++ constructors with a member initialiser list, `A ( ) : b ( 1 ) { … }`: the code reports the
  unit `b`, not `A` (`C01full.cpp_ctor_initializer_reports_member`);
* function-like macros `FOO ( x ) { … }` are reported as functions (they have the header shape);
* headers with a call-shaped group in the parameter list (KF1), TypeScript conditional expressions
  `c ? f ( x ) : { … }` (KF3), assigned arrow functions with a parenthesised default value.
-/
namespace CL
open CL.Syn (isOpen isClose)

/-- the token is neither the punctuation token `(` nor the punctuation token `)` -/
def Tok.noParen (t : Tok) : Bool := !isOpen t && !isClose t

/-- `parenBal ts d`: the tokens `ts` are read inside `d` open parentheses; no `)` comes when no
parenthesis is open, and none is open at the end -/
def parenBal : List Tok → Nat → Bool
  | [], d => d == 0
  | t :: ts, d =>
    if isOpen t then parenBal ts (d + 1)
    else if isClose t then
      (match d with
        | 0 => false
        | d' + 1 => parenBal ts d')
    else parenBal ts d

/-- `groupsOnly ts d`: the tokens `ts`, read inside `d` open parentheses, are parenthesis groups
and nothing else: outside all parentheses (`d = 0`) only a `(` may come; at the end every
parenthesis is closed -/
def groupsOnly : List Tok → Nat → Bool
  | [], d => d == 0
  | t :: ts, d =>
    if isOpen t then groupsOnly ts (d + 1)
    else match d with
      | 0 => false
      | d' + 1 => if isClose t then groupsOnly ts d' else groupsOnly ts (d' + 1)

/-- no Name token of the list is directly followed by a punctuation token `(` -/
def noCall : List Tok → Bool
  | t :: u :: ts => !(t.isName && isOpen u) && noCall (u :: ts)
  | _ => true

/-- `name ( … ) ( … )`: one Name token, then one or more parenthesis groups and nothing else -/
def headerShape : List Tok → Bool
  | n :: o :: g => n.isName && isOpen o && groupsOnly g 1
  | _ => false

/-- a canonical header: `name ( … ) ( … )` in which no Name token after the first token is directly
followed by `(` -/
def headerOK (h : List Tok) : Bool := headerShape h && noCall h.tail

/-- `afterRun rest d`: the siblings `rest` are read inside `d` parentheses that were opened in this
sibling list; the result is the list of siblings that remain where the maximal run of parenthesis
groups stops.  Inside parentheses every item is skipped (brace groups and functions as a whole);
outside (`d = 0`) the run goes on with a `(` only.  (`nil` when the sibling list ends first.) -/
def Prog.afterRun : Prog Tok → Nat → Prog Tok
  | .nil, _ => .nil
  | .leaf t rest, d =>
    if isOpen t then afterRun rest (d + 1)
    else match d with
      | 0 => .leaf t rest
      | d' + 1 => if isClose t then afterRun rest d' else afterRun rest (d' + 1)
  | .group op cl items rest, d =>
    match d with
    | 0 => .group op cl items rest
    | d' + 1 => afterRun rest (d' + 1)
  | .fn hdr k gap op cl body rest, d =>
    match d with
    | 0 => .fn hdr k gap op cl body rest
    | d' + 1 => afterRun rest (d' + 1)

/-- the first item is a function -/
def Prog.startsWithFn {α : Type} : Prog α → Bool
  | .fn .. => true
  | _ => false

/-- the language-specific tests of the canonical fragment -/
structure CanonCfg where
  /-- the token sequence of a function header and the index of its name token -/
  hdrOK : List Tok → Nat → Bool
  /-- the tokens between a function header and the opening brace of the body -/
  gapOK : List Tok → Bool
  /-- the siblings that remain after `Name ( … )+` look like the start of a function body -/
  follows : Prog Tok → Bool
  /-- a token after which `Name ( … )+` is never reported (Java: the keywords `new`, `record`) -/
  exempt : Tok → Bool
  /-- a token that, directly in front of `Name ( … )+`, is reported as part of the header
  (JavaScript, TypeScript: the keyword `function`); it must not stand in front of a function node
  (it belongs INTO the header of the node) -/
  joins : Tok → Bool

/-- the siblings `rest` follow a Name token: they start with `(`, and what remains after the run of
parenthesis groups that starts there looks like the start of a function body (so Name token +
groups look like a function header).  The fragment forbids this for Name tokens that are not the
name of a `fn` node: such a token run must BE a function node (see the module doc: this part of
"reports nothing that is not a function definition" is a demand on the labelling of the tree). -/
def Prog.falseHeaderAfter (C : CanonCfg) : Prog Tok → Bool
  | .leaf o rest => isOpen o && C.follows (rest.afterRun 1)
  | _ => false

/-- **the canonical fragment, relative to the tests `C`** (decidable, tree only); `ex` says
whether the token directly in front of the siblings is `C.exempt`:

* a Name token that is not part of a function header, and does not follow an exempting token,
  starts no false header; a joining token does not stand directly in front of a function node;
* the token sequence between the braces of every brace group and of every function body has
  balanced parentheses;
* every function node: it does not follow an exempting token, its header tokens and name index
  satisfy `C.hdrOK`, the tokens between header and opening brace satisfy `C.gapOK`.

(Brace groups inside a header are not inspected separately: `C.hdrOK` sees the header's whole
token sequence.) -/
def Prog.canonWith (C : CanonCfg) : Bool → Prog Tok → Bool
  | _, .nil => true
  | ex, .leaf t rest =>
    !(t.isName && !ex && rest.falseHeaderAfter C) && !(C.joins t && rest.startsWithFn)
      && canonWith C (C.exempt t) rest
  | _, .group _ _ items rest =>
    parenBal items.flat 0 && canonWith C false items && canonWith C false rest
  | ex, .fn hdr k gap _ _ body rest =>
    !ex && C.hdrOK hdr.flat k && C.gapOK gap && parenBal body.flat 0
      && canonWith C false body && canonWith C false rest

/-! ## C, C++, C# -/

/-- a canonical header whose name is its first token -/
def headerOK0 (h : List Tok) (k : Nat) : Bool := headerOK h && k == 0

/-- C, C++, C#: canonical headers named by their first token, nothing between header and `{`, a
function body starts with a brace group, no exempting and no joining tokens -/
def cfgC : CanonCfg :=
  ⟨headerOK0, List.isEmpty, Prog.startsWithGroup, fun _ => false, fun _ => false⟩

/-- **the canonical fragment of the C family** (C, C++, C#):

* every function node has a header `name ( … ) ( … )` without a call-shaped group (`headerOK`),
  its name is the first header token, and the header is directly followed by the opening brace;
* wherever a Name token outside the headers is directly followed by `(`, the maximal run of
  parenthesis groups that starts there does not end directly in front of a brace group of the
  same sibling list;
* the token sequence of the file, of every brace group and of every function body has balanced
  parentheses. -/
def Prog.Canon (p : Prog Tok) : Bool := parenBal p.flat 0 && p.canonWith cfgC false

/-! ## Java -/

/-- the token is the keyword `s` -/
def Tok.isKw (t : Tok) (s : Str) : Bool := t.isKeyword && t.val == s

/-- `throws` -/
def kwThrows : Str := [116, 104, 114, 111, 119, 115]
/-- `new` -/
def kwNew : Str := [110, 101, 119]
/-- `record` -/
def kwRecord : Str := [114, 101, 99, 111, 114, 100]

/-- a token of a `throws` clause: no parenthesis token, and its text is neither `;` nor `{` -/
def Tok.gapTok (t : Tok) : Bool := t.noParen && !(t.val == [59]) && !(t.val == [123])

/-- Java: nothing, or the keyword `throws` followed by tokens without parentheses, `;` and `{` -/
def javaGapOK : List Tok → Bool
  | [] => true
  | t :: ts => t.isKw kwThrows && ts.all Tok.gapTok

/-- reading the siblings, no token with the text `;` or `{` comes before the first item that is not
a token (or before the end of the siblings) -/
def Prog.noSemiAhead : Prog Tok → Bool
  | .leaf t rest => !(t.val == [59] || t.val == [123]) && noSemiAhead rest
  | _ => true

/-- Java: the siblings start with a brace group, or with the keyword `throws` after which no `;`
comes before the next brace group, function or end of the siblings (an abstract method
`void m ( ) throws E ;` is fine: the `;` comes first) -/
def Prog.javaFollows : Prog Tok → Bool
  | .group .. => true
  | .leaf t rest => t.isKw kwThrows && rest.noSemiAhead
  | _ => false

/-- Java's `filter_headers`: the keywords `record` and `new` -/
def javaExempt (t : Tok) : Bool := t.isKw kwRecord || t.isKw kwNew

/-- Java: canonical headers named by their first token; the gap is empty or a `throws` clause; a
function body starts with a brace group or `throws … {`; `Name ( … )+` after `new` / `record` is
never reported; no joining tokens -/
def cfgJava : CanonCfg :=
  ⟨headerOK0, javaGapOK, Prog.javaFollows, javaExempt, fun _ => false⟩

/-- **the canonical fragment of Java**:

* every function node has a header `name ( … ) ( … )` without a call-shaped group, its name is the
  first header token, it does not directly follow the keyword `new` or `record`, and between the
  header and the opening brace there is nothing or a clause `throws …` (tokens without
  parentheses, `;`, `{`);
* wherever a Name token outside the headers that does not directly follow `new` / `record` (an
  anonymous class `new T ( ) { … }` is a plain brace group) is directly followed by `(`, the
  maximal run of parenthesis groups that starts there ends neither directly in front of a brace
  group nor in front of `throws` not followed by a `;` within the tokens that follow it in the
  sibling list;
* the token sequence of the file, of every brace group and of every function body has balanced
  parentheses. -/
def Prog.CanonJava (p : Prog Tok) : Bool := parenBal p.flat 0 && p.canonWith cfgJava false

/-! ## JavaScript and TypeScript: the `function` / method pattern -/

/-- `function` -/
def kwFunctionS : Str := [102, 117, 110, 99, 116, 105, 111, 110]
/-- `async` -/
def kwAsyncS : Str := [97, 115, 121, 110, 99]

/-- `name ( … )+` named by its first token (a method), or the keyword `function` followed by
`name ( … )+` and named by its second token -/
def funHeaderOK (h : List Tok) (k : Nat) : Bool :=
  (k == 0 && headerOK h) ||
    (k == 1 && match h with
      | f :: h' => f.isKw kwFunctionS && headerOK h'
      | [] => false)

/-- JavaScript: `[function] name ( … )+` directly followed by the opening brace; the keyword
`function` in front of `Name ( … )+` is part of the reported header -/
def cfgJs : CanonCfg :=
  ⟨funHeaderOK, List.isEmpty, Prog.startsWithGroup, fun _ => false, fun t => t.isKw kwFunctionS⟩

/-- TypeScript: nothing, or the operator `:` followed by tokens without parentheses, `;` and `{`
(a return type annotation) -/
def tsGapOK : List Tok → Bool
  | [] => true
  | t :: ts => t.isOperator [58] && ts.all Tok.gapTok

/-- TypeScript: the siblings start with a brace group, or with the operator `:` after which no `;`
comes before the next brace group, function or end of the siblings -/
def Prog.tsFollows : Prog Tok → Bool
  | .group .. => true
  | .leaf t rest => t.isOperator [58] && rest.noSemiAhead
  | _ => false

/-- TypeScript: as JavaScript, with a return type annotation between header and body -/
def cfgTs : CanonCfg :=
  ⟨funHeaderOK, tsGapOK, Prog.tsFollows, fun _ => false, fun t => t.isKw kwFunctionS⟩

/-- the tokens start with the symbols `=>` and `{` -/
def startsArrowBody : List Tok → Bool
  | a :: b :: _ => a.isSymbol [61, 62] && b.isSymbol [123]
  | _ => false

/-- the tokens `l` start with `(`, and the maximal run of parenthesis groups that starts there is
directly followed by the symbols `=>` and `{`: the parameter list and the beginning of the body of
an arrow function `( … ) => {` -/
def arrowBodyAfterRun (l : List Tok) : Bool :=
  l.head?.any isOpen && startsArrowBody (l.drop (Syn.groupsLen l 0))

/-- the tokens `ts` (they follow an operator `=`) are `( … ) => {` or `async ( … ) => {` -/
def arrowAfterAssign (ts : List Tok) : Bool :=
  arrowBodyAfterRun ts ||
    match ts with
    | u :: r => u.isKw kwAsyncS && arrowBodyAfterRun r
    | [] => false

/-- no operator token `=` is directly followed by `[async] ( … ) => {`: no arrow function with a
parameter list in parentheses and a block body is the right-hand side of an assignment or
initialisation (the second header pattern of JavaScript / TypeScript,
`[const] Name = [async] ( … )+` followed by `=> {`, then finds nothing).  Arrow functions elsewhere
(`arr.map ( ( y ) => { … } )`, `y => { … }`) and `x = ( a ) => a` are not restricted. -/
def noAssignedArrow : List Tok → Bool
  | [] => true
  | t :: ts => !(t.isOperator [61] && arrowAfterAssign ts) && noAssignedArrow ts

/-- **the canonical fragment of JavaScript WITHOUT assigned arrow functions**:

* every function node has the header `[function] name ( … ) ( … )` without a call-shaped group,
  named by the Name token, directly followed by the opening brace; the keyword `function` does not
  stand directly in front of a function node (it is part of the node's header);
* no false header, balanced parentheses (as for the C family);
* no operator `=` is directly followed by `[async] ( … ) => {` (`noAssignedArrow`): the restriction
  that keeps the arrow-function pattern silent. -/
def Prog.CanonJs (p : Prog Tok) : Bool :=
  parenBal p.flat 0 && p.canonWith cfgJs false && noAssignedArrow p.flat

/-- **the canonical fragment of TypeScript WITHOUT assigned arrow functions**: as `CanonJs`, with an optional
return type annotation `: T …` (tokens without parentheses, `;`, `{`) between header and body; a
false header is `Name ( … )+` in front of a brace group or in front of `:` not followed by a `;`
within the tokens that follow it in the sibling list (e.g. `c ? f ( x ) : { … }`). -/
def Prog.CanonTs (p : Prog Tok) : Bool :=
  parenBal p.flat 0 && p.canonWith cfgTs false && noAssignedArrow p.flat

end CL
