import CodeLimit.Model.Report
import CodeLimit.Spec.Json
/-!
# The JSON value of a report (specification side)

`toJson d` is the value the report document stands for; `toJsonDict d` is the same with the three
`dict`s rebuilt by insertion (what `json.loads` returns when keys repeat: first position, last
value).  For pairwise distinct keys - always the case for Python `dict`s - they coincide.
-/
namespace CL.Json

def optJson : Option Str → JVal
  | none => .null
  | some s => .str s

def measJson (m : Meas) : JVal :=
  .obj [(cp! "unit_name", .str m.unitName),
        (cp! "start", .obj [(cp! "line", .num m.sl), (cp! "column", .num m.sc)]),
        (cp! "end", .obj [(cp! "line", .num m.el), (cp! "column", .num m.ec)]),
        (cp! "value", .num m.value)]

def fileJson (f : FileData) : JVal :=
  .obj [(cp! "checksum", .str f.checksum), (cp! "language", .str f.language), (cp! "loc", .num f.loc),
        (cp! "profile", .arr (f.profile.map .num)),
        (cp! "measurements", .arr (f.measurements.map measJson))]

def totalsJson (t : Totals) : JVal :=
  .obj [(cp! "files", .num t.files), (cp! "lines_of_code", .num t.loc), (cp! "functions", .num t.functions),
        (cp! "hard_to_maintain", .num t.hard), (cp! "unmaintainable", .num t.unmaintainable)]

def folderJson (f : Folder) : JVal :=
  .obj [(cp! "entries", .arr (f.entries.map .str)), (cp! "profile", .arr (f.profile.map .num))]

def repoJson (r : Repo) : JVal :=
  .obj [(cp! "owner", .str r.owner), (cp! "name", .str r.name), (cp! "branch", optJson r.branch)]

/-- the document's value, given how the three `dict`s are represented -/
def toJsonWith (mk : List (Str × JVal) → List (Str × JVal)) (d : ReportData) : JVal :=
  .obj ([(cp! "version", optJson d.version), (cp! "uuid", .str d.uuid), (cp! "timestamp", .str d.timestamp),
         (cp! "root", .str d.root)] ++
        (match d.repository with
         | some r => [(cp! "repository", repoJson r)]
         | none => []) ++
        [(cp! "codebase", .obj [
          (cp! "totals", .obj (mk (d.totals.map fun kv => (kv.1, totalsJson kv.2)))),
          (cp! "tree", .obj (mk (d.tree.map fun kv => (kv.1, folderJson kv.2)))),
          (cp! "files", .obj (mk (d.files.map fun kv => (kv.1, fileJson kv.2))))])])

def toJson (d : ReportData) : JVal := toJsonWith id d

def toJsonDict (d : ReportData) : JVal := toJsonWith dictOfPairs d

/-- every string of the report is a Python string without an adjacent surrogate pair -/
structure GoodReport (d : ReportData) : Prop where
  version : GoodOpt d.version
  uuid : GoodStr d.uuid
  timestamp : GoodStr d.timestamp
  root : GoodStr d.root
  repository : ∀ r, d.repository = some r → GoodStr r.owner ∧ GoodStr r.name ∧ GoodOpt r.branch
  totals : ∀ kv ∈ d.totals, GoodStr kv.1
  tree : ∀ kv ∈ d.tree, GoodStr kv.1 ∧ ∀ e ∈ kv.2.entries, GoodStr e
  files : ∀ kv ∈ d.files, GoodStr kv.1 ∧ GoodStr kv.2.checksum ∧ GoodStr kv.2.language ∧
    ∀ m ∈ kv.2.measurements, GoodStr m.unitName

/-- the keys of the three `dict`s are pairwise distinct (they are Python `dict`s) -/
structure DistinctKeys (d : ReportData) : Prop where
  totals : (d.totals.map (·.1)).Nodup
  tree : (d.tree.map (·.1)).Nodup
  files : (d.files.map (·.1)).Nodup

end CL.Json
