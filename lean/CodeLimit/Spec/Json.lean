import CodeLimit.Model.Json
/-!
# Specification vocabulary for JSON texts and Python strings
-/
namespace CL.Json

/-- every element is a Unicode code point (a Python `str` cannot hold anything else) -/
def PyStr (s : Str) : Prop := ∀ c ∈ s, c < 1114112

/-- no high surrogate (U+D800..U+DBFF) is immediately followed by a low surrogate
(U+DC00..U+DFFF).  Every well-formed Unicode string satisfies this (it has no surrogates at
all), and so does every `surrogateescape`d file name (only lone low surrogates). -/
def NoSurrogatePair : Str → Prop
  | a :: b :: t => ¬ (isHigh a = true ∧ isLow b = true) ∧ NoSurrogatePair (b :: t)
  | _ => True

instance : (s : Str) → Decidable (NoSurrogatePair s)
  | [] => isTrue trivial
  | [_] => isTrue trivial
  | a :: b :: t =>
    have : Decidable (NoSurrogatePair (b :: t)) := instDecidableNoSurrogatePair (b :: t)
    if h : ¬ (isHigh a = true ∧ isLow b = true) ∧ NoSurrogatePair (b :: t) then isTrue h else isFalse h

instance (s : Str) : Decidable (PyStr s) := by unfold PyStr; infer_instance

/-- a Python string that `json.loads(json.dumps(s))` gives back -/
def GoodStr (s : Str) : Prop := PyStr s ∧ NoSurrogatePair s

instance (s : Str) : Decidable (GoodStr s) := by unfold GoodStr; infer_instance

def GoodOpt : Option Str → Prop
  | none => True
  | some s => GoodStr s

instance : (o : Option Str) → Decidable (GoodOpt o)
  | none => isTrue trivial
  | some s => inferInstanceAs (Decidable (GoodStr s))

/-- only blanks, tabs, line feeds, carriage returns -/
def AllWs (w : Str) : Prop := ∀ c ∈ w, isWs c = true

/-- `p` is a proper prefix of `s` -/
def ProperPrefix (p s : Str) : Prop := ∃ q, q ≠ [] ∧ s = p ++ q

theorem GoodStr.tail {c : Nat} {s : Str} (h : GoodStr (c :: s)) : GoodStr s := by
  refine ⟨fun x hx => h.1 x (List.mem_cons_of_mem _ hx), ?_⟩
  cases s with
  | nil => trivial
  | cons b t => exact h.2.2

theorem GoodStr.head {c : Nat} {s : Str} (h : GoodStr (c :: s)) : c < 1114112 :=
  h.1 c (List.mem_cons_self ..)

end CL.Json
