import CodeLimit.Spec.ProgTree
/-!
# Specification vocabulary for C01 + C04 + C17 on program TREES: comments and suppression markers

`Spec/ProgTree.lean` describes a file as a forest `Prog PTok` of items (token, brace group,
function) and defines the expected report `treeReport` on the tree.  The end-to-end theorems of
`Props/C01tree.lean` / `Props/C01full.lean` need forests WITHOUT comment tokens.  Here comments
(and whitespace tokens) may stand anywhere in the forest - as a `leaf` between statements, inside a
header, inside a brace group, as a token of the gap between header and body - and some of them may
be suppression markers (`nocl`, C17):

* `Prog.strip keep` / `Prog.stripComments` - the forest without the leaves and gap tokens that
  `filter_tokens` drops (comments, whitespace); the name index of every header is re-counted;
* `markedLines p` - the lines that carry a marker comment;
* `Prog.dissolve lines` - every function node whose NAME token stands on one of the `lines` is
  replaced by its ingredients: the header items, the gap tokens (as leaves) and a brace `group` with
  the body.  It is no longer a function; its tokens stay where they are;
* `markedReport p` / `markedReportFlat p` - the expected report of a forest with comments and
  markers: the tree report of the dissolved comment-free located forest.
-/
namespace CL

namespace Prog
variable {α : Type}

/-- the items of `p` followed by the forest `q` -/
def followedBy : Prog α → Prog α → Prog α
  | nil, q => q
  | leaf t rest, q => leaf t (followedBy rest q)
  | group op cl items rest, q => group op cl items (followedBy rest q)
  | fn hdr k gap op cl body rest, q => fn hdr k gap op cl body (followedBy rest q)

/-- **the forest without the tokens rejected by `keep`**: a `leaf` whose token is rejected
disappears, so does a rejected gap token; braces stay; the name index of a header becomes the
number of kept header tokens in front of the name token, i.e. the index of the same token among the
kept ones (`strip_name`).  Rejected tokens may stand anywhere: between items of any level, inside
headers, inside brace groups of headers, in gaps. -/
def strip (keep : α → Bool) : Prog α → Prog α
  | nil => nil
  | leaf t rest => if keep t then leaf t (strip keep rest) else strip keep rest
  | group op cl items rest => group op cl (strip keep items) (strip keep rest)
  | fn hdr k gap op cl body rest =>
    fn (strip keep hdr) ((hdr.flat.take k).filter keep).length (gap.filter keep) op cl
      (strip keep body) (strip keep rest)

end Prog

/-- **the comment-free forest**: what is left when the tokens that `filter_tokens` drops (comment
tokens and whitespace tokens) are removed from the forest -/
def Prog.stripComments (p : Prog Tok) : Prog Tok := p.strip Tok.isCode

/-- a comment token whose text is a suppression marker.  The text test is the MODEL's function
`isNoclText` (`Model/Lex.lean`, tied to `filter_nocl_comment_tokens`); what it accepts is stated
independently in `C17.marker_recognition` (optional leader `#` `;` `//` `/*`, blanks, `nocl` in any
letter case, anything), and `C01marks.marked_line_iff_text` restates `markedLines` with it -/
def Tok.isMarker (t : Tok) : Bool := t.isComment && isNoclText t.val

/-- **the marked lines** of a located forest: the lines of its marker comments -/
def markedLines (p : Prog Tok) : List Nat := (p.flat.filter Tok.isMarker).map (·.line)

/-- **dissolve the functions named on one of the `lines`**: such a function node
`header gap { body }` is replaced by the items of its header, the gap tokens as leaves and the
brace group `{ body }` (inside which the same is done); every other item stays what it is.  The
token sequence does not change (`flat_dissolve`); the function nodes of the result are the function
nodes of `p` named on other lines (`fnsOf_dissolve`); a function nested in a dissolved one is then
nested in the next enclosing function that is left (or in none). -/
def Prog.dissolve (lines : List Nat) : Prog Tok → Prog Tok
  | .nil => .nil
  | .leaf t rest => .leaf t (dissolve lines rest)
  | .group op cl items rest => .group op cl (dissolve lines items) (dissolve lines rest)
  | .fn hdr k gap op cl body rest =>
    if lines.contains (hdr.flat.getD k default).line then
      hdr.followedBy (Prog.toks gap (.group op cl (dissolve lines body) (dissolve lines rest)))
    else .fn hdr k gap op cl (dissolve lines body) (dissolve lines rest)

/-- the comment-free located forest of a file in which the marked functions are dissolved -/
def Prog.effective (p : Prog Tok) : Prog Tok := p.stripComments.dissolve (markedLines p)

/-- **the expected report of a forest with comments and markers, languages with nested
functions**: lay the forest out (`located`), drop comments and whitespace, dissolve the function
nodes named on a marked line, and take the tree report: every remaining function node, in preorder,
with the number of distinct lines of its own CODE tokens.  The code tokens of a dissolved function
are own tokens of the nearest enclosing function node that is left. -/
def markedReport (p : Prog PTok) : List Measurement := treeReport p.located.effective

/-- **the same for languages without nested functions**: the remaining function nodes that are not
inside another remaining function node, with the distinct lines of all their code tokens -/
def markedReportFlat (p : Prog PTok) : List Measurement := treeReportFlat p.located.effective

/-- **the discovery hypothesis** for a language `L` on a comment-free located forest `q`:
`extract_headers` succeeds on the token sequence of `q` and returns the headers (token range and
name token) of the function nodes of `q`, in any order.  It is discharged for the canonical
fragments by `C01full.discovery_of_canon…` (`C01marks.discovers_of_canon…`). -/
def Discovers (L : Language) (q : Prog Tok) : Prop :=
  ∃ hs, extractHeaders L q.flat = .ok hs ∧ hs.Perm (q.fns.map (·.hdr))

/-! ## vocabulary for the corollaries in the words of C17 and C04 -/

/-- the name tokens of the function nodes of a forest (at any depth), in preorder -/
def Prog.nameToks : Prog Tok → List Tok
  | .nil => []
  | .leaf _ rest => nameToks rest
  | .group _ _ items rest => nameToks items ++ nameToks rest
  | .fn hdr k _ _ _ body rest => hdr.flat.getD k default :: (nameToks body ++ nameToks rest)

/-- the tree report in which every entry is paired with the NAME TOKEN of its function node
(`treeReportNamed_snd`: the second components are `treeReport`) -/
def treeReportNamed : Prog Tok → List (Tok × Measurement)
  | .nil => []
  | .leaf _ rest => treeReportNamed rest
  | .group _ _ items rest => treeReportNamed items ++ treeReportNamed rest
  | .fn hdr k gap op cl body rest =>
    (hdr.flat.getD k default, nodeMeasurement hdr k cl (ownToks hdr gap op cl body))
      :: (treeReportNamed body ++ treeReportNamed rest)

/-- the same for languages without nested functions (`treeReportFlatNamed_snd`) -/
def treeReportFlatNamed : Prog Tok → List (Tok × Measurement)
  | .nil => []
  | .leaf _ rest => treeReportFlatNamed rest
  | .group _ _ items rest => treeReportFlatNamed items ++ treeReportFlatNamed rest
  | .fn hdr k gap op cl body rest =>
    (hdr.flat.getD k default, nodeMeasurement hdr k cl (allToks hdr gap op cl body))
      :: treeReportFlatNamed rest

/-- the name tokens of the OUTERMOST function nodes of a forest (those not inside another function
node), in source order -/
def Prog.outerNameToks : Prog Tok → List Tok
  | .nil => []
  | .leaf _ rest => outerNameToks rest
  | .group _ _ items rest => outerNameToks items ++ outerNameToks rest
  | .fn hdr k _ _ _ _ rest => hdr.flat.getD k default :: outerNameToks rest

/-- **the visible functions of a language WITHOUT nested reporting**, given the marked `lines`:
the name tokens of the function nodes that are named on an unmarked line and are not inside a
function node named on an unmarked line.  A function node named on a MARKED line is skipped and
the search goes on INSIDE its body (marking an enclosing function reveals the functions nested in
it); the body of an unmarked function node is not searched. -/
def Prog.visibleNameToks (lines : List Nat) : Prog Tok → List Tok
  | .nil => []
  | .leaf _ rest => visibleNameToks lines rest
  | .group _ _ items rest => visibleNameToks lines items ++ visibleNameToks lines rest
  | .fn hdr k _ _ _ body rest =>
    if lines.contains (hdr.flat.getD k default).line then
      visibleNameToks lines body ++ visibleNameToks lines rest
    else hdr.flat.getD k default :: visibleNameToks lines rest

/-- the report of language `L` on an effective forest, every entry paired with the name token of
its function node: all function nodes with own lines if `L` reports nested functions, otherwise
the outermost function nodes with all their lines -/
def langReportNamed (L : Language) (q : Prog Tok) : List (Tok × Measurement) :=
  if L.nested = true then treeReportNamed q else treeReportFlatNamed q

/-- **the functions a language is expected to report for a located forest with comments and
markers** (C17, "omitted exactly when"), as name tokens of function nodes of the comment-free
forest, in source order:

* `L` reports nested functions: exactly the function nodes whose NAME token stands on a line
  without marker comment;
* `L` does not: of those, the ones that are not inside another function node named on an unmarked
  line (`Prog.visibleNameToks`: a marked enclosing function does not hide them). -/
def expectedNames (L : Language) (p : Prog Tok) : List Tok :=
  if L.nested = true then
    p.stripComments.nameToks.filter (fun t => !(markedLines p).contains t.line)
  else p.stripComments.visibleNameToks (markedLines p)

/-- **the functions named on line `l` are independent**: every function node whose name token
stands on line `l` contains no function node, and no function node contains one of them
("neither encloses nor is nested in another function") -/
def Prog.indepOn (l : Nat) : Prog Tok → Bool
  | .nil => true
  | .leaf _ rest => indepOn l rest
  | .group _ _ items rest => indepOn l items && indepOn l rest
  | .fn hdr k _ _ _ body rest =>
    (if (hdr.flat.getD k default).line = l then body.noFn
      else !body.nameToks.any (fun t => t.line == l)) && indepOn l rest

/-- the half of independence that matters in a language WITH nested functions: no function named
on line `l` is inside another function node (it may contain functions) -/
def Prog.notNestedOn (l : Nat) : Prog Tok → Bool
  | .nil => true
  | .leaf _ rest => notNestedOn l rest
  | .group _ _ items rest => notNestedOn l items && notNestedOn l rest
  | .fn _ _ _ _ _ body rest => !body.nameToks.any (fun t => t.line == l) && notNestedOn l rest

/-- the half of independence that matters in a language WITHOUT nested functions: every outermost
function node named on line `l` contains no function node (functions named on line `l` that are
inside another function node are not reported anyway) -/
def Prog.outerLeafOn (l : Nat) : Prog Tok → Bool
  | .nil => true
  | .leaf _ rest => outerLeafOn l rest
  | .group _ _ items rest => outerLeafOn l items && outerLeafOn l rest
  | .fn hdr k _ _ _ body rest =>
    (if (hdr.flat.getD k default).line = l then body.noFn else true) && outerLeafOn l rest

/-- the condition of the toggle theorem for language `L` -/
def toggleOK (L : Language) (l : Nat) (q : Prog Tok) : Bool :=
  if L.nested = true then q.notNestedOn l else q.outerLeafOn l

/-- token `b` is token `a` moved: same kind and text, on line `φ a.line` (any column) -/
def Tok.movedBy (φ : Nat → Nat) (a b : Tok) : Bool :=
  a.kind == b.kind && a.val == b.val && b.line == φ a.line

/-- pointwise relation of two token lists -/
def Marks.listRel {α : Type} (R : α → α → Bool) : List α → List α → Bool
  | [], [] => true
  | a :: as, b :: bs => R a b && Marks.listRel R as bs
  | _, _ => false

/-- **two forests of the same shape whose tokens correspond under `R`** (same items in the same
order at every level, same name indices) -/
def Prog.sameUpTo (R : Tok → Tok → Bool) : Prog Tok → Prog Tok → Bool
  | .nil, .nil => true
  | .leaf a r, .leaf b r' => R a b && sameUpTo R r r'
  | .group op cl i r, .group op' cl' i' r' =>
    R op op' && R cl cl' && sameUpTo R i i' && sameUpTo R r r'
  | .fn h k g op cl b r, .fn h' k' g' op' cl' b' r' =>
    sameUpTo R h h' && k == k' && Marks.listRel R g g' && R op op' && R cl cl' && sameUpTo R b b'
      && sameUpTo R r r'
  | _, _ => false

/-- **the comment-free forest `q'` is the comment-free forest `q` with every line `l` moved to
line `φ l`**: what inserting / deleting comments and blank lines does to the code tokens of a file
(`φ l - l` lines were inserted above line `l`; columns may change when a comment is inserted in the
middle of a line) -/
def Prog.movedTo (φ : Nat → Nat) (q q' : Prog Tok) : Bool := q.sameUpTo (Tok.movedBy φ) q'

/-- a measurement and its counterpart after the lines moved by `φ`: same name, same length, start
and end line mapped by `φ` (columns are those of the moved tokens) -/
def Measurement.movedBy (φ : Nat → Nat) (m m' : Measurement) : Prop :=
  m'.name = m.name ∧ m'.len = m.len ∧ m'.sl = φ m.sl ∧ m'.el = φ m.el

/-- `φ` is strictly increasing on the lines `ls` (the lines that carry code: comment-only and blank
lines may appear and disappear between them) -/
def Marks.MonoOn (φ : Nat → Nat) (ls : List Nat) : Prop := ∀ a ∈ ls, ∀ b ∈ ls, a < b → φ a < φ b

instance (φ : Nat → Nat) (ls : List Nat) : Decidable (Marks.MonoOn φ ls) := by
  unfold Marks.MonoOn; infer_instance

/-- two lists of the same length whose entries correspond under `R`, position by position
(`forall2_iff_getElem`) -/
inductive Marks.Forall2 {α β : Type} (R : α → β → Prop) : List α → List β → Prop where
  | nil : Marks.Forall2 R [] []
  | cons {a : α} {b : β} {as : List α} {bs : List β} :
      R a b → Marks.Forall2 R as bs → Marks.Forall2 R (a :: as) (b :: bs)

end CL
