import CodeLimit.Model.Scopes
/-!
# Specification vocabulary for the scan pipeline (C03, C05)
-/
namespace CL

/-- where a token ends: same line + length, or (for a token containing newlines) its last line -/
def Tok.endPos (t : Tok) : Nat × Nat :=
  let info := lastLineInfo t.val
  if info.1 = 0 then (t.line, t.col + t.val.length) else (t.line + info.1, info.2 + 1)

/-- `a` lies strictly before `b` in the source: lexicographic order on `(line, column)` -/
def Tok.before (a b : Tok) : Prop := a.line < b.line ∨ (a.line = b.line ∧ a.col < b.col)

/-- strict lexicographic order on positions -/
def posLt (a b : Nat × Nat) : Prop := a.1 < b.1 ∨ (a.1 = b.1 ∧ a.2 < b.2)

/-- the tokens are listed in strictly increasing source position (what the lexer guarantees,
property C16) -/
def PosOrdered (toks : List Tok) : Prop := toks.Pairwise Tok.before

/-- the per-measurement clause of C05: the measurement starts at code token `i`, ends just past
code token `j`, is named after a name token `k` inside `[i, j]`, and its length is between 1 and
the number of distinct lines on which tokens `i..j` start -/
def MeasurementWF (code : List Tok) (m : Measurement) : Prop :=
  ∃ i j k, i ≤ k ∧ k ≤ j ∧ j < code.length ∧
    (∃ ti, code[i]? = some ti ∧ (m.sl, m.sc) = (ti.line, ti.col)) ∧
    (∃ tj, code[j]? = some tj ∧ (m.el, m.ec) = tj.endPos) ∧
    (∃ tk, code[k]? = some tk ∧ tk.isName = true ∧ m.name = tk.val) ∧
    1 ≤ m.len ∧ m.len ≤ countDistinct (((code.drop i).take (j + 1 - i)).map (·.line))

/-- a clause of the lexer contract beyond `RawOk`: no keyword (`kind = 1`) and no name token
(`kind = 2`) begins with a newline character.  True of every Pygments lexer (newlines are
`Text`/`Whitespace` tokens, or lie inside string and comment tokens); needed for "the start
column points at a character of its line" (`C05text.start_column_past_line` shows that the model
does not exclude such a token on its own). -/
def NamesStartInLine (raw : List RawTok) : Prop :=
  ∀ r ∈ raw, r.kind = 1 ∨ r.kind = 2 → r.val.head? ≠ some 10

instance (raw : List RawTok) : Decidable (NamesStartInLine raw) := by
  unfold NamesStartInLine; exact inferInstance

end CL
