import CodeLimit.Model.Entry
import CodeLimit.Spec.C12cwd
/-!
# Vocabulary for the entry functions (`Model/Entry.lean`, `Props/Entry.lean`)

Names for what a reader can check against `.codelimit.yml` / `.gitignore` and the command line:
which lines a call contributes, when `Configuration.load` does not raise, and the bridge to the
hand-checked specification of `Spec/C12cwd.lean` (`Readers`, `specLinesAt`, `scanCmd`, `checkCmd`).
-/
namespace CL.Entry

open CL CL.Sel

/-- the `exclude` list of the text of a `.codelimit.yml` (`[]` without that key, and for documents
that are no mapping) -/
def yamlExclude (S : Sys) (text : Str) : List Str :=
  match S.yaml text with
  | .mapping (some l) _ => l
  | _ => []

/-- the two file formats as `Spec/C12cwd.lean` wants them -/
def readers (S : Sys) : C12cwd.Readers := ⟨S.lines, yamlExclude S⟩

/-- **`Configuration.load(dir)` does not raise**: there is no `dir/.codelimit.yml`, or its document
is a mapping (with an iterable `exclude`, if any) or an inert scalar / list.  It raises for an
empty or comment-only file, a number, a document that contains the word `exclude` / `verbose`
without being a mapping, `exclude:` without a list, and text that is not YAML. -/
def LoadOk (S : Sys) (fs : Node) (dir : List Str) : Prop :=
  ∀ text, fileAt fs dir configName = some text → S.yaml text ≠ .raises

/-- the value of the key `verbose` in `dir/.codelimit.yml`, if the file is a mapping with that key -/
def configVerbose (S : Sys) (fs : Node) (dir : List Str) : Option Bool :=
  match fileAt fs dir configName with
  | none => none
  | some text =>
    match S.yaml text with
    | .mapping _ vb => vb
    | _ => none

/-- the lines of `dir/.gitignore` (none without such a file) -/
def gitLines (S : Sys) (fs : Node) (dir : List Str) : List Str :=
  (gitignoreAt S fs dir).getD []

/-- **the class attributes after the option handling and `Configuration.load(dir)`** of a call
with `--exclude` values `ex` and flag `--verbose` = `vb`, started with the attributes `p`:
the list is EXTENDED by the option values, then by the configured lines; `verbose` is the
configured value if the file has the key - even when `--verbose` was given - and otherwise stays
set once it was set -/
def configured (S : Sys) (fs : Node) (dir : List Str) (p : Proc) (ex : Option (List Str)) (vb : Bool) : Proc :=
  ⟨p.exclude ++ ex.getD [] ++ configLines S fs dir, (configVerbose S fs dir).getD (p.verbose || vb), p.repository⟩

/-- `configure_github_repository`: the attribute is assigned only when a repository is found -/
def withDetected (p : Proc) (detected : Option Json.Repo) : Proc :=
  { p with repository := match detected with | some r => some r | none => p.repository }

/-- the exclusion lines of a list of user lines: the built-in names first -/
def linesOf (user : List Str) : List Str := Gi.builtinNames ++ user

end CL.Entry
