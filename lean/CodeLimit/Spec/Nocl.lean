import CodeLimit.Model.Scopes
/-!
# Specification vocabulary for C17 (the `nocl` suppression marker)

Only notions that the property statements of `Props/C17.lean` are phrased in; the
decompositions of the model (`rawScopes`, `arrange`, `foldParS`, ...) stay in
`Lemmas/Nocl*.lean`.

* `Marked all ℓ` - line `ℓ` carries a suppression marker;
* `PosSorted toks` - token locations increase strictly along the list (a fact about the lexer
  output, property C16);
* `StartSorted sc`, `Independent sc x` - the scope-level reading of "strictly sorted by the
  start of the header" and of "`x` neither encloses nor is nested in another function";
* `posLe`, `Measurement.encloses`, `SpanIndependent` - the same independence read on the
  REPORTED spans (start line/column, end line/column of the measurements).
-/
namespace CL

/-- line `ℓ` carries a suppression marker: some comment token on that line has a marker text -/
def Marked (all : List Tok) (ℓ : Nat) : Prop :=
  ∃ t ∈ all, t.isComment = true ∧ isNoclText t.val = true ∧ t.line = ℓ

instance (all : List Tok) (ℓ : Nat) : Decidable (Marked all ℓ) := by
  unfold Marked; infer_instance

/-- token locations strictly increase along the token list -/
def PosSorted (toks : List Tok) : Prop :=
  toks.Pairwise (fun a b => a.line < b.line ∨ (a.line = b.line ∧ a.col < b.col))

/-- `x` neither encloses nor is nested in another scope of `sc` -/
def Independent (sc : List Scope) (x : Scope) : Prop :=
  ∀ y ∈ sc, y ≠ x → x.contains y = false ∧ y.contains x = false

/-- strictly sorted by header start -/
def StartSorted (sc : List Scope) : Prop :=
  sc.Pairwise (fun a b => a.hdr.rng.s < b.hdr.rng.s)

/-- position `a` is not after position `b`: lexicographic `≤` on `(line, column)` -/
def posLe (a b : Nat × Nat) : Prop := a.1 < b.1 ∨ (a.1 = b.1 ∧ a.2 ≤ b.2)

instance (a b : Nat × Nat) : Decidable (posLe a b) := by unfold posLe; infer_instance

/-- the reported span of `a` encloses the reported span of `b`: `a` starts no later and ends
no earlier than `b` -/
def Measurement.encloses (a b : Measurement) : Prop :=
  posLe (a.sl, a.sc) (b.sl, b.sc) ∧ posLe (b.el, b.ec) (a.el, a.ec)

instance (a b : Measurement) : Decidable (a.encloses b) := by
  unfold Measurement.encloses; infer_instance

/-- the `k`-th reported function neither encloses nor is enclosed by the span of any other
reported function -/
def SpanIndependent (ms : List Measurement) (k : Nat) : Prop :=
  ∀ (hk : k < ms.length) (j : Nat) (hj : j < ms.length), j ≠ k →
    ¬ ms[k].encloses ms[j] ∧ ¬ ms[j].encloses ms[k]

instance (ms : List Measurement) (k : Nat) : Decidable (SpanIndependent ms k) :=
  if hk : k < ms.length then
    decidable_of_iff (∀ (j : Nat) (hj : j < ms.length), j ≠ k →
      ¬ ms[k].encloses ms[j] ∧ ¬ ms[j].encloses ms[k]) ⟨fun h _ => h, fun h => h hk⟩
  else isTrue (fun hk' => absurd hk' hk)

end CL
