import CodeLimit.Model.Pattern
import CodeLimit.Spec.Regex
/-!
# Patterns over a family of stateless predicates (C13, general atoms)

The atoms of a pattern are *predicates*: objects with a method `accept(item) -> bool`
(`codelimit/common/gsm/predicate/Predicate.py`). `Identity` (accept by equality with a stored
item) is one instance; the theorems of `Props/C13.lean` sections 1-4 are stated for it. This file
gives the vocabulary for an arbitrary family of *stateless* predicates:

* `P : α → β → Bool` - atom `a : α` (a predicate object, compared with `==` when the automaton is
  built) accepts the item `x : β` iff `P a x = true`;
* `Rx.HasAtom a r` - the predicate `a` occurs in the pattern `r`;
* `DisjointOn P r` - the predicates occurring in `r` are pairwise disjoint: no item is accepted
  by two different predicates of `r`;
* `LangP P r w` - the language of `r` lifted to items: the items of `w` can be labelled, one by
  one, with predicates of `r` that accept them so that the labels spell a word of `Lang r`.

The second half holds the thin model definitions of the three matchers over such a family
(`Model/Pattern.lean` and `Model/Regex.lean` define them for `Identity` only and are not edited
here): they are the same functions with "`p == x`" replaced by "`P p x`".

Predicates with internal state (`Balanced`) are outside this file: see C14b / C14nest / C15.
-/
namespace CL

variable {α β : Type}

/-! ## vocabulary -/

/-- the predicate `a` occurs as an atom of the pattern `r` -/
def Rx.HasAtom (a : α) : Rx α → Prop
  | .atom b => a = b
  | .cat r s => Rx.HasAtom a r ∨ Rx.HasAtom a s
  | .alt r s => Rx.HasAtom a r ∨ Rx.HasAtom a s
  | .opt r => Rx.HasAtom a r
  | .star r => Rx.HasAtom a r
  | .plus r => Rx.HasAtom a r

instance Rx.decHasAtom [DecidableEq α] (a : α) : (r : Rx α) → Decidable (Rx.HasAtom a r)
  | .atom b => inferInstanceAs (Decidable (a = b))
  | .cat r s =>
    have := Rx.decHasAtom a r; have := Rx.decHasAtom a s
    inferInstanceAs (Decidable (Rx.HasAtom a r ∨ Rx.HasAtom a s))
  | .alt r s =>
    have := Rx.decHasAtom a r; have := Rx.decHasAtom a s
    inferInstanceAs (Decidable (Rx.HasAtom a r ∨ Rx.HasAtom a s))
  | .opt r => Rx.decHasAtom a r
  | .star r => Rx.decHasAtom a r
  | .plus r => Rx.decHasAtom a r

/-- the predicates occurring in `r` are pairwise disjoint: an item accepted by two atoms of `r`
is accepted by the same atom twice -/
def DisjointOn (P : α → β → Bool) (r : Rx α) : Prop :=
  ∀ a b x, Rx.HasAtom a r → Rx.HasAtom b r → P a x = true → P b x = true → a = b

/-- `Accepts P v w`: `v` and `w` have the same length and the `i`-th predicate of `v` accepts the
`i`-th item of `w` (core Lean has no `List.Forall₂`) -/
inductive Accepts (P : α → β → Bool) : List α → List β → Prop where
  | nil : Accepts P [] []
  | cons {a x v w} : P a x = true → Accepts P v w → Accepts P (a :: v) (x :: w)

/-- the regular language of `r` over items: `w` matches when its items can be labelled by atoms
accepting them, the labels spelling a word of `Lang r` -/
def LangP (P : α → β → Bool) (r : Rx α) (w : List β) : Prop :=
  ∃ v : List α, Lang r v ∧ Accepts P v w

/-! ## the matchers over a stateless predicate family (model definitions)

`predAcceptor P` plugs `P` into `Pattern.consume` (`Model/Pattern.lean`, `consume`): every
transition of the current state is evaluated with `P`, a second accepting transition raises
"Multiple transitions found!". There is no predicate state (`Unit`). -/

/-- stateless predicates: `accept` is `P`, nothing is remembered -/
def predAcceptor (P : α → β → Bool) : Acceptor α Unit β where
  init := ()
  accept := fun a _ x => (P a x, ())

/-- `matcher.match` with predicates `P` (compare `matchFull`) -/
def matchFullP [DecidableEq α] (P : α → β → Bool) (r : Rx α) (base : Nat) (ord : List α → List α)
    (w : List β) : Except Err (Option Nat) :=
  match nfaToDfa (compile r base) ord with
  | none => .error .fuel
  | some D => let A := dfaMachine D (predAcceptor P); matchM A A.init w 0

/-- `matcher.starts_with` with predicates `P` (compare `startsWith`) -/
def startsWithP [DecidableEq α] (P : α → β → Bool) (r : Rx α) (base : Nat) (ord : List α → List α)
    (w : List β) : Except Err (Option Nat) :=
  match nfaToDfa (compile r base) ord with
  | none => .error .fuel
  | some D => let A := dfaMachine D (predAcceptor P); startsWithM A A.init w 0

/-- the loop of `matcher.nfa_match` with predicates `P`: `transition[0].accept(item)` is
`P b x` (compare `nfaMatchLoop`, where it is `b = x`) -/
def nfaMatchLoopP (P : α → β → Bool) (N : Nfa α) : List Nat → List β → Bool
  | act, [] => act.contains N.acc
  | act, x :: xs =>
      let nxt := act.flatMap (fun q => (symOut N.edges q).flatMap
        (fun (b, r) => if P b x then closure N.edges [r] else []))
      if nxt.isEmpty then false else nfaMatchLoopP P N nxt xs

/-- `matcher.nfa_match` with predicates `P` (compare `nfaMatch`) -/
def nfaMatchP (P : α → β → Bool) (r : Rx α) (base : Nat) (w : List β) : Bool :=
  let N := compile r base
  nfaMatchLoopP P N (closure N.edges [N.start]) w

end CL
