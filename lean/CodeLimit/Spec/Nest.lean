import CodeLimit.Model.Token
/-!
# Vocabulary: the nesting profile of a token list (C14, last clause)

For an opener predicate `l` and a closer predicate `r` (the two arguments of
`Balanced(l, r)`, e.g. `Symbol "("` and `Symbol ")"`), both stateless and evaluated by
`Pred.eval` on single tokens:

* `nestDelta l r t` is the change of nesting caused by the token `t`: `+1` if `l` accepts `t`,
  `-1` if `r` but not `l` accepts `t`, `0` otherwise (`Balanced.accept` tests the opener first);
* `nest l r w` is the sum of `nestDelta` over the token list `w`, i.e. (number of tokens accepted
  by `l`) - (number of tokens accepted by `r` and not by `l`) (`nest_eq_count` in
  `Lemmas/BalancedExit.lean`).

Nothing here mentions a pattern, an automaton or a run: `nest` is a function of the tokens alone.
-/
namespace CL

/-- the change of nesting depth caused by one token -/
def nestDelta (l r : Pred) (t : Tok) : Int :=
  if l.eval t then 1 else if r.eval t then -1 else 0

/-- nesting profile: (number of openers) - (number of closers that are not openers) -/
def nest (l r : Pred) : List Tok → Int
  | [] => 0
  | t :: ts => nestDelta l r t + nest l r ts

end CL
