import CodeLimit.Spec.SynHeader
/-!
# A syntactic description of the function headers found by the Python header pattern

The Python language definition uses the header pattern
`[Keyword("def"), Name(), OneOrMore(Balanced("(", ")"))]` with NO follow-up pattern.  With the
vocabulary of `Spec/SynHeader.lean` (`groupsEnd toks i`: the index just past the maximal run of
consecutive parenthesis groups that starts at `i`):

* `DefHeader toks p f`: `toks[p]` is the keyword `def`, `toks[p + 1]` is a name token,
  `toks[p + 2]` is a punctuation token `(`, and `f` is `groupsEnd toks (p + 2)` (groups are
  delimited by the punctuation tokens `(` and `)`, see `Spec/SynHeader.lean`).
-/
namespace CL.Syn

/-- the text `def` -/
def defStr : Str := [100, 101, 102]

/-- the token is the keyword `def` -/
def isDefTok (t : Tok) : Bool := t.isKeyword && t.val == defStr

/-- the token range `[p, f)` is a Python function header: the keyword `def`, a name token, a
punctuation token `(`, and `f` is just past the maximal run of parenthesis groups that starts at
`p + 2` -/
def DefHeader (toks : List Tok) (p f : Nat) : Prop :=
  KeywordAt toks p defStr ∧ NameAt toks (p + 1) ∧ OpenAt toks (p + 2) ∧ f = groupsEnd toks (p + 2)

instance (toks : List Tok) (p f : Nat) : Decidable (DefHeader toks p f) := by
  unfold DefHeader; infer_instance

end CL.Syn
