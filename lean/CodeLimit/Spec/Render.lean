import CodeLimit.Model.Render
/-!
# Vocabulary of property C18 (what the rendered report must show)

Written from the property text, independently of how the model computes its cells.
-/
namespace CL.Render

/-- `s` is THE stable descending sort of `l` by `key`: a rearrangement of `l`, keys never
increase, and elements with equal keys stand in the order they have in `l`
(`stableSortedDesc_unique`: there is exactly one such list). -/
structure StableSortedDesc {α : Type} (key : α → Int) (s l : List α) : Prop where
  perm : s.Perm l
  sorted : s.Pairwise (fun a b => key a ≥ key b)
  stable : ∀ k : Int, s.filter (fun a => decide (key a = k)) = l.filter (fun a => decide (key a = k))

/-- a figure with its comparison: `cur` alone when equal to `prev`, else `cur (±(cur - prev))` -/
def annot (L : Locale) (cur prev : Int) : Str :=
  if cur = prev then L.n cur else L.n cur ++ str " (" ++ L.signed (cur - prev) ++ str ")"

/-- the five stored figures of a language, in column order -/
def figures (c : LangTotals) : List Int := [c.files, c.functions, c.loc, c.hard, c.unm]

/-- the five totals of a report, in column order -/
def sums (t : Totals) : List Int :=
  [(t.map (·.files)).sum, (t.map (·.functions)).sum, (t.map (·.loc)).sum, (t.map (·.hard)).sum,
   (t.map (·.unm)).sum]

/-- every function of the report in file order (dict order), then order within the file -/
def allUnits (files : Files) : List RUnit :=
  files.flatMap fun fm => fm.2.map fun m => ⟨fm.1, m⟩

/-- the functions longer than 30 lines -/
def longFunctions (files : Files) : List RUnit :=
  (allUnits files).filter fun u => decide (u.m.value > 30)

/-! ## what a findings row must show

Written from `utils.format_measurement`, `format_markdown._print_findings_without_repository`
and `format_markdown._print_findings_with_repository`, NOT from the model functions
`rowText / rowMarkdown / rowMarkdownRepo`. Two levels:

* the LINE that Python builds for a unit (`textLine`, `markdownLine`, `markdownRepoLine`): the
  f-strings of the source read as concatenations;
* the CELLS (the model observes cell strings, see the header of `Model/Render.lean`):
  `RowShowsText / RowShowsMarkdown / RowShowsMarkdownRepo` say which cell holds which stored
  figure, `layoutText / layoutMarkdown / layoutMarkdownRepo` say where the cells sit in the line.

`Props/C18.lean` proves that the rows of the model satisfy the cell relations one by one
(`findings_rows_*`), that the cell relations determine the row and are determined by exactly
the printed fields (`rowShows*_eq_iff`), and that cells laid out give the lines
(`findings_lines_*`). -/

/-- the sign before the name in the text listing (`utils.get_emoji_for_measurement`):
U+2716 above 60 lines, U+26A0 above 30, else U+2713 -/
def textMark (v : Int) : Str :=
  if v > 60 then str "\u2716" else if v > 30 then str "\u26A0" else str "\u2713"

/-- the sign before the name in both Markdown listings: U+274C above 60 lines, else U+26A0 -/
def markdownMark (v : Int) : Str :=
  if v > 60 then str "\u274C" else str "\u26A0"

/-- `format_measurement(unit.file, unit.measurement)`: `path:line:column: length mark name` -/
def textLine (u : RUnit) : Str :=
  u.file ++ str ":" ++ fmtD u.m.line ++ str ":" ++ fmtD u.m.col ++ str ": " ++ fmtD u.m.value ++ str " " ++
    textMark u.m.value ++ str " " ++ u.m.name

/-- `_print_findings_without_repository`: `| path | line | column | length | mark name |` -/
def markdownLine (u : RUnit) : Str :=
  str "| " ++ u.file ++ str " | " ++ fmtD u.m.line ++ str " | " ++ fmtD u.m.col ++ str " | " ++
    fmtD u.m.value ++ str " | " ++ markdownMark u.m.value ++ str " " ++ u.m.name ++ str " |"

/-- `_print_findings_with_repository` (what the console shows: the `\[` of the source is
rich's escape for a literal `[`):
`| mark [name](https://github.com/owner/repo/blob/branch/path#Lline-Lendline) | length | path |` -/
def markdownRepoLine (owner repo branch : Str) (u : RUnit) : Str :=
  str "| " ++ markdownMark u.m.value ++ str " [" ++ u.m.name ++ str "](https://github.com/" ++ owner ++ str "/" ++
    repo ++ str "/blob/" ++ branch ++ str "/" ++ u.file ++ str "#L" ++ fmtD u.m.line ++ str "-L" ++
    fmtD u.m.endLine ++ str ") | " ++ fmtD u.m.value ++ str " | " ++ u.file ++ str " |"

/-- A row of the TEXT findings listing shows the unit `u`: exactly six cells, in print order the
file path, the start line, the start column, the length, the sign for that length and the
name - each number in plain decimal (`str(...)`). The END line is not among them. -/
structure RowShowsText (row : List Str) (u : RUnit) : Prop where
  cells : row.length = 6
  file : row[0]? = some u.file
  line : row[1]? = some (fmtD u.m.line)
  column : row[2]? = some (fmtD u.m.col)
  length : row[3]? = some (fmtD u.m.value)
  mark : row[4]? = some (textMark u.m.value)
  name : row[5]? = some u.m.name

/-- A row of the Markdown listing WITHOUT repository shows `u`: the same six cells with the
Markdown sign. -/
structure RowShowsMarkdown (row : List Str) (u : RUnit) : Prop where
  cells : row.length = 6
  file : row[0]? = some u.file
  line : row[1]? = some (fmtD u.m.line)
  column : row[2]? = some (fmtD u.m.col)
  length : row[3]? = some (fmtD u.m.value)
  mark : row[4]? = some (markdownMark u.m.value)
  name : row[5]? = some u.m.name

/-- A row of the Markdown listing WITH repository shows `u`: seven cells, in print order the
sign, the name (link text), then inside the link the file path, the start line and the END
line, then the length and the file path again. The start COLUMN is not among them. -/
structure RowShowsMarkdownRepo (row : List Str) (u : RUnit) : Prop where
  cells : row.length = 7
  mark : row[0]? = some (markdownMark u.m.value)
  name : row[1]? = some u.m.name
  linkFile : row[2]? = some u.file
  linkLine : row[3]? = some (fmtD u.m.line)
  linkEndLine : row[4]? = some (fmtD u.m.endLine)
  length : row[5]? = some (fmtD u.m.value)
  file : row[6]? = some u.file

/-- where the six cells of a text row sit in the printed line -/
def layoutText : List Str → Option Str
  | [f, l, c, v, e, n] => some (f ++ str ":" ++ l ++ str ":" ++ c ++ str ": " ++ v ++ str " " ++ e ++ str " " ++ n)
  | _ => none

/-- where the six cells of a Markdown row (no repository) sit in the printed line -/
def layoutMarkdown : List Str → Option Str
  | [f, l, c, v, e, n] =>
    some (str "| " ++ f ++ str " | " ++ l ++ str " | " ++ c ++ str " | " ++ v ++ str " | " ++ e ++ str " " ++ n ++ str " |")
  | _ => none

/-- where the seven cells of a Markdown row (with repository) sit in the printed line -/
def layoutMarkdownRepo (owner repo branch : Str) : List Str → Option Str
  | [e, n, f, l, el, v, f'] =>
    some (str "| " ++ e ++ str " [" ++ n ++ str "](https://github.com/" ++ owner ++ str "/" ++ repo ++ str "/blob/" ++
      branch ++ str "/" ++ f ++ str "#L" ++ l ++ str "-L" ++ el ++ str ") | " ++ v ++ str " | " ++ f' ++ str " |")
  | _ => none

end CL.Render
