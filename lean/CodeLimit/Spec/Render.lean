import CodeLimit.Model.Render
/-!
# Vocabulary of property C18 (what the rendered report must show)

Written from the property text, independently of how the model computes its cells.
-/
namespace CL.Render

/-- `s` is THE stable descending sort of `l` by `key`: a rearrangement of `l`, keys never
increase, and elements with equal keys stand in the order they have in `l`
(`stableSortedDesc_unique`: there is exactly one such list). -/
structure StableSortedDesc {α : Type} (key : α → Int) (s l : List α) : Prop where
  perm : s.Perm l
  sorted : s.Pairwise (fun a b => key a ≥ key b)
  stable : ∀ k : Int, s.filter (fun a => decide (key a = k)) = l.filter (fun a => decide (key a = k))

/-- a figure with its comparison: `cur` alone when equal to `prev`, else `cur (±(cur - prev))` -/
def annot (L : Locale) (cur prev : Int) : Str :=
  if cur = prev then L.n cur else L.n cur ++ str " (" ++ L.signed (cur - prev) ++ str ")"

/-- the five stored figures of a language, in column order -/
def figures (c : LangTotals) : List Int := [c.files, c.functions, c.loc, c.hard, c.unm]

/-- the five totals of a report, in column order -/
def sums (t : Totals) : List Int :=
  [(t.map (·.files)).sum, (t.map (·.functions)).sum, (t.map (·.loc)).sum, (t.map (·.hard)).sum,
   (t.map (·.unm)).sum]

/-- every function of the report in file order (dict order), then order within the file -/
def allUnits (files : Files) : List RUnit :=
  files.flatMap fun fm => fm.2.map fun m => ⟨fm.1, m⟩

/-- the functions longer than 30 lines -/
def longFunctions (files : Files) : List RUnit :=
  (allUnits files).filter fun u => decide (u.m.value > 30)

end CL.Render
