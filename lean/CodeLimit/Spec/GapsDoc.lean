import CodeLimit.Model.CacheDoc
import CodeLimit.Spec.Report
/-!
# Vocabulary for the theorems about report / cache documents (Props/Gaps.lean, parts 1 and 2)

The dynamically typed image of a typed report (what Python holds after reading a document that
the writer wrote), the cache rows of a report, and a declarative description of the documents
`ReportReader.from_json` accepts.
-/
namespace CL.Json

def Meas.untyped (m : Meas) : UMeas :=
  ⟨.str m.unitName, .num m.sl, .num m.sc, .num m.el, .num m.ec, .num m.value⟩

def FileData.untyped (f : FileData) : UFile :=
  ⟨.str f.checksum, .str f.language, .num f.loc, f.measurements.map Meas.untyped⟩

/-- the repository as the reader builds it from a written document: no tag -/
def Repo.untyped (r : Repo) : URepo := ⟨.str r.owner, .str r.name, optJson r.branch, .null⟩

/-- the `Report` object Python holds after reading the document of `d` -/
def ReportData.untyped (d : ReportData) : UReport :=
  ⟨optJson d.version, .str d.uuid, .str d.root, d.repository.map Repo.untyped,
   d.files.map fun kv => (kv.1, kv.2.untyped)⟩

/-- the cache row `(path, checksum, (language, loc, measurements))` of a file of a report -/
def FileData.row (k : Str) (f : FileData) : Str × Str × CEntry :=
  (k, f.checksum, f.language, f.loc, f.measurements)

/-- the cache rows of a report, in document order -/
def ReportData.rows (d : ReportData) : List (Str × Str × CEntry) :=
  d.files.map fun kv => kv.2.row kv.1

/-- the cache rows of a dynamically typed report, when every entry is well-formed -/
def UReport.rows? (r : UReport) : Option (List (Str × Str × CEntry)) :=
  r.files.mapM fun kv => kv.2.row? kv.1

/-- the members of `codebase.files` of a document (`[]` when there is no such `dict`) -/
def docFiles (d : JVal) : List (Str × JVal) :=
  match (getKey (cp! "codebase") d >>= getKey (cp! "files")) >>= items with
  | .ok fs => fs
  | .error _ => []

/-! ## the shape of the documents the reader accepts -/

/-- `m` is a `dict` with members `start` and `end` (each a `dict` with `line` and `column`),
`unit_name` and `value`, the value being a number (`int`, `float` or `bool`) -/
def MeasShape (m : JVal) : Prop :=
  ∃ ms st en, m = .obj ms ∧ lookup (cp! "start") ms = some (.obj st) ∧ lookup (cp! "end") ms = some (.obj en) ∧
    (lookup (cp! "line") st).isSome ∧ (lookup (cp! "column") st).isSome ∧
    (lookup (cp! "line") en).isSome ∧ (lookup (cp! "column") en).isSome ∧
    (lookup (cp! "unit_name") ms).isSome ∧ ∃ v, lookup (cp! "value") ms = some v ∧ isNumber v = true

/-- `v` is a `dict` with members `measurements` (a list of measurement shapes), `checksum`,
`language` (hashable) and `loc` (a number) -/
def FileShape (v : JVal) : Prop :=
  ∃ ms items lang loc, v = .obj ms ∧ lookup (cp! "measurements") ms = some (.arr items) ∧ (∀ m ∈ items, MeasShape m) ∧
    (lookup (cp! "checksum") ms).isSome ∧ lookup (cp! "language") ms = some lang ∧ isHashable lang = true ∧
    lookup (cp! "loc") ms = some loc ∧ isNumber loc = true

/-- a `dict` with `owner` and `name` and no member besides `owner`, `name`, `branch`, `tag` -/
def RepoShape (v : JVal) : Prop :=
  ∃ ms, v = .obj ms ∧ (∀ kv ∈ ms, kv.1 = cp! "owner" ∨ kv.1 = cp! "name" ∨ kv.1 = cp! "branch" ∨ kv.1 = cp! "tag") ∧
    (lookup (cp! "owner") ms).isSome ∧ (lookup (cp! "name") ms).isSome

/-- the document is a `dict` with `root`, `uuid`, `codebase.files` (a `dict` of file shapes) and,
if present, a `repository` of the right shape; `fs` are the members of `codebase.files` -/
def DocShape (d : JVal) (fs : List (Str × JVal)) : Prop :=
  ∃ ms cb, d = .obj ms ∧ (lookup (cp! "root") ms).isSome ∧ (lookup (cp! "uuid") ms).isSome ∧
    (∀ r, lookup (cp! "repository") ms = some r → RepoShape r) ∧
    lookup (cp! "codebase") ms = some (.obj cb) ∧ lookup (cp! "files") cb = some (.obj fs) ∧
    ∀ kv ∈ fs, FileShape kv.2

end CL.Json
