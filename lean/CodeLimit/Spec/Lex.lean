import CodeLimit.Model.Lex
/-!
# Specification vocabulary for `lex` (C16)

A text is a `Str = List Nat` of code points; the newline character is `10`.
-/
namespace CL

/-- 1-based line of the character at offset `o`: one plus the number of newlines strictly
before it -/
def lineOf (code : Str) (o : Nat) : Nat := 1 + (code.take o).count 10

/-- 1-based column of the character at offset `o`: one plus the number of characters between
the last newline before `o` (or the start of the text) and `o` -/
def colOf (code : Str) (o : Nat) : Nat := ((code.take o).reverse.takeWhile (· ≠ 10)).length + 1

/-- The lexer contract (`get_tokens_unprocessed`): the raw tokens tile the text - the first
starts at offset `off`, each token's value is the text found at its offset, and the next token
starts where the previous one ends.  `rest` is the text from offset `off` on.

The empty token list is accepted whatever text is left (`True`): full coverage of the text is
NOT required, so every theorem below also holds for a lexer that stops early. -/
def RawOkFrom : Nat → Str → List RawTok → Prop
  | _, _, [] => True
  | off, rest, t :: ts =>
    t.off = off ∧ t.val = rest.take t.val.length ∧ t.val.length ≤ rest.length ∧
      RawOkFrom (off + t.val.length) (rest.drop t.val.length) ts

/-- the lexer contract for the whole text -/
def RawOk (code : Str) (raw : List RawTok) : Prop := RawOkFrom 0 code raw

instance RawOkFrom.dec : (off : Nat) → (rest : Str) → (raw : List RawTok) →
    Decidable (RawOkFrom off rest raw)
  | _, _, [] => isTrue trivial
  | off, rest, t :: ts =>
    have := RawOkFrom.dec (off + t.val.length) (rest.drop t.val.length) ts
    show Decidable (t.off = off ∧ t.val = rest.take t.val.length ∧ t.val.length ≤ rest.length ∧
      RawOkFrom (off + t.val.length) (rest.drop t.val.length) ts) from inferInstance

instance (code : Str) (raw : List RawTok) : Decidable (RawOk code raw) :=
  RawOkFrom.dec 0 code raw

/-- the token `lex` is expected to build from a raw token: same class, type and text, placed at
the line and column of its offset -/
def tokAt (code : Str) (t : RawTok) : Tok :=
  ⟨t.kind, t.ty, t.val, lineOf code t.off, colOf code t.off⟩

/-- source order on (line, column) positions: lexicographic, strict -/
def PosLt (l c l' c' : Nat) : Prop := l < l' ∨ (l = l' ∧ c < c')

/-- token `t` lies strictly before token `t'` in source order -/
def Tok.Before (t t' : Tok) : Prop := PosLt t.line t.col t'.line t'.col

/-- token `t` ends at or before the start of token `t'`, both located in `code` by
`location_to_index` applied to their (line, column) -/
def Tok.EndsBefore (code : Str) (t t' : Tok) : Prop :=
  ∃ o o', locationToIndex code t.line t.col = .ok o ∧ locationToIndex code t'.line t'.col = .ok o' ∧
    o + t.val.length ≤ o'

instance (l c l' c' : Nat) : Decidable (PosLt l c l' c') := by unfold PosLt; infer_instance
instance (t t' : Tok) : Decidable (Tok.Before t t') := by unfold Tok.Before; infer_instance

end CL
