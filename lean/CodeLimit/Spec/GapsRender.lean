import CodeLimit.Model.Report
import CodeLimit.Model.Render
/-!
# From the report object to what the renderers read (`report_command`, `findings_command`)

`print_report` reads `ScanTotals(report.codebase.totals)`; `print_findings` reads
`report.all_report_units_sorted_by_length_asc`, i.e. the measurements of `codebase.files`.  The
report model (`Model/Report.lean`) and the render model (`Model/Render.lean`) use different
records for the same Python objects; these are the conversions (field by field, nothing computed).
-/
namespace CL.Gaps

open CL CL.Json

/-- `codebase.totals` as `ScanTotals` sees it: one `LanguageTotals` per language, in dict order -/
def renderTotals (t : List (Str × Json.Totals)) : Render.Totals :=
  t.map fun kv => ⟨kv.1, kv.2.files, kv.2.functions, kv.2.loc, kv.2.hard, kv.2.unmaintainable⟩

/-- a stored measurement as `ReportUnit` carries it: name, start line / column, end line, length -/
def renderMeas (m : Json.Meas) : Render.Meas := ⟨m.unitName, m.sl, m.sc, m.el, m.value⟩

/-- `codebase.files` as the findings listing reads it: path and measurements, in dict order -/
def renderFiles (fs : List (Str × Json.FileData)) : Render.Files :=
  fs.map fun kv => (kv.1, kv.2.measurements.map renderMeas)

end CL.Gaps
