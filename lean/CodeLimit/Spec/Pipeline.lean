import CodeLimit.Model.Pipeline
import CodeLimit.Spec.Lex
import CodeLimit.Spec.Json
import CodeLimit.Spec.Tree
import CodeLimit.Spec.Codebase
/-!
# Vocabulary for the end-to-end properties of `scan` and `check`

Contracts of the parameters of `Model/Pipeline.lean` (each is a statement about a library or the
operating system that a reader can check against its documentation), and the cache files a scan
may find in place.
-/
namespace CL.Pipeline

open CL CL.Sel

/-- **the lexer contract** for the seven supported lexers: `get_tokens_unprocessed(text)` tiles
the text (`RawOk`, `Spec/Lex.lean`) and only `Text` / `Whitespace` tokens may be empty -/
structure LexerOk (E : Env) : Prop where
  tiles : ∀ i text, i < numLangs → RawOk text (E.lexOf i text)
  nonempty : ∀ i text, i < numLangs → ∀ t ∈ E.lexOf i text, t.kind ≠ 6 → t.val ≠ []

/-- **the environment contract**: the lexer contract; decoded text, checksums and the version are
Python strings without an adjacent (high, low) surrogate pair (decoding UTF-8 or Latin-1 yields no
surrogates at all; an MD5 hex digest is ASCII); MD5 has no collisions among the contents that
occur -/
structure EnvOk (E : Env) : Prop where
  lexer : LexerOk E
  decode : ∀ b, Json.GoodStr (E.decode b)
  checksum : ∀ b, Json.GoodStr (E.checksum b)
  version : Json.GoodStr E.version
  md5 : Function.Injective E.checksum

/-- the strings of a run (absolute root path, uuid, ISO timestamp, GitHub repository) are such
strings too -/
structure RunOk (R : Run) : Prop where
  root : Json.GoodStr R.root
  uuid : Json.GoodStr R.uuid
  now : Json.GoodStr R.now
  repository : ∀ r, R.repository = some r →
    Json.GoodStr r.owner ∧ Json.GoodStr r.name ∧ Json.GoodOpt r.branch

/-- **the tree contract**: a snapshot of a real directory (`wfDir`: names non-empty, without `/`,
unique within a directory) in which the names on the way to every non-hidden file are such strings
(`os.listdir` decodes names with `surrogateescape`, which produces lone low surrogates only) -/
structure TreeOk (ch : List Node) : Prop where
  wf : wfDir ch = true
  names : ∀ p c, FileAt ch p c → Visible p → ∀ x ∈ p, Json.GoodStr x

/-- the reader does not make a report document of the current version of these bytes: they are
not JSON, not a report document, a document with a path on which `add_file` / `aggregate` raise,
or a report document of ANOTHER version (with arbitrary, altered entries) -/
def Foreign (E : Env) (bytes : Str) : Prop :=
  ∀ es, readCache (some bytes) ≠ .doc (some E.version) es

/-- **the cache files a scan may find** (`.codelimit_cache/codelimit.json`): none; the file written
by an earlier scan of ANY tree under ANY exclusion lines and run parameters (which itself found
such a file); any prefix of such a file (an interrupted write, a truncation); any bytes that are
`Foreign`.  What is excluded is exactly a forged document of the current version. -/
inductive CacheOk (E : Env) : Option Str → Prop
  | missing : CacheOk E none
  | written {R : Run} {rn : Str} {ch : List Node} {prev : Option Str} {d : Json.ReportData} {bytes : Str} :
      CacheOk E prev → RunOk R → TreeOk ch → scan E R (.dir rn ch) prev = .ok (d, bytes) →
      CacheOk E (some bytes)
  | cut {R : Run} {rn : Str} {ch : List Node} {prev : Option Str} {d : Json.ReportData} {bytes p : Str} :
      CacheOk E prev → RunOk R → TreeOk ch → scan E R (.dir rn ch) prev = .ok (d, bytes) →
      p <+: bytes → CacheOk E (some p)
  | foreign {bytes : Str} : Foreign E bytes → CacheOk E (some bytes)

/-- the entry the report must hold for a file with bytes `c` whose name selects lexer `lang`
(language `x`), when `_analyze_file` returns `ms` -/
def entryFor (E : Env) (c : Str) (x : String × Language) (ms : List Measurement) : Json.FileData :=
  ⟨E.checksum c, Gi.str x.1, ((ms.map (·.len)).foldl (· + ·) 0 : Nat), profileOf (ms.map measOf), ms.map measOf⟩

/-- the totals the report must hold for language `L`, from the entries of the report: number of
files, sum of their line totals, number of functions, number of functions with 30 < length ≤ 60
and with length > 60 -/
def totalsFor (L : Str) (files : List (Str × Json.FileData)) : Json.Totals :=
  let mine := files.filter (fun kv => kv.2.language = L)
  { files := mine.length,
    loc := (mine.map (·.2.loc)).sum,
    functions := (mine.map (fun kv => (kv.2.measurements.length : Int))).sum,
    hard := (mine.map (fun kv => ((kv.2.measurements.filter (fun m => decide (30 < m.value ∧ m.value ≤ 60))).length : Int))).sum,
    unmaintainable := (mine.map (fun kv => ((kv.2.measurements.filter (fun m => decide (60 < m.value))).length : Int))).sum }

/-- all measurements of the report entries that lie beneath the folder with key `k` -/
def measurementsUnder (k : Str) (files : List (Str × Json.FileData)) : List Json.Meas :=
  (files.filter (fun kv => Codebase.under k kv.1)).flatMap (·.2.measurements)

/-- number of lines of a text: `len(text.split("\n"))` -/
def numLines (text : Str) : Nat := 1 + text.count 10

/-- a report measurement is well-formed for the text it was taken from: lines in range, the start
strictly before the end, columns from 1, at least one line, and the name is a slice of the text -/
def MeasWf (text : Str) (m : Json.Meas) : Prop :=
  1 ≤ m.sl ∧ m.sl ≤ m.el ∧ m.el ≤ numLines text ∧ (m.sl < m.el ∨ (m.sl = m.el ∧ m.sc < m.ec)) ∧
  1 ≤ m.sc ∧ 1 ≤ m.ec ∧ 1 ≤ m.value ∧
  ∃ o, o + m.unitName.length ≤ text.length ∧ (text.drop o).take m.unitName.length = m.unitName

/-- the functions of a report entry that `check` lists: longer than 30 lines, longest first,
functions of equal length in report order -/
def risksJ (ms : List Json.Meas) : List Json.Meas :=
  (ms.filter (fun m => decide (30 < m.value))).mergeSort (fun a b => decide (b.value ≤ a.value))

end CL.Pipeline
