import CodeLimit.Model.Pipeline
import CodeLimit.Spec.Lex
import CodeLimit.Spec.Json
import CodeLimit.Spec.Tree
import CodeLimit.Spec.Codebase
/-!
# Vocabulary for the end-to-end properties of `scan` and `check`

Contracts of the parameters of `Model/Pipeline.lean` (each is a statement about a library or the
operating system that a reader can check against its documentation), and the cache files a scan
may find in place.
-/
namespace CL.Pipeline

open CL CL.Sel

/-- **the lexer contract** for the seven supported lexers: `get_tokens_unprocessed(text)` tiles
the text (`RawOk`, `Spec/Lex.lean`) and only `Text` / `Whitespace` tokens may be empty -/
structure LexerOk (E : Env) : Prop where
  tiles : ∀ i text, i < numLangs → RawOk text (E.lexOf i text)
  nonempty : ∀ i text, i < numLangs → ∀ t ∈ E.lexOf i text, t.kind ≠ 6 → t.val ≠ []

/-- **the environment contract, without any assumption on MD5**: the lexer contract; decoded
text, checksums and the version are Python strings without an adjacent (high, low) surrogate pair
(decoding UTF-8 or Latin-1 yields no surrogates at all; an MD5 hex digest is ASCII) -/
structure EnvBase (E : Env) : Prop where
  lexer : LexerOk E
  decode : ∀ b, Json.GoodStr (E.decode b)
  checksum : ∀ b, Json.GoodStr (E.checksum b)
  version : Json.GoodStr E.version

/-- **MD5 has no collision among the byte strings in `U`.**  This is the form in which the
hypothesis of C09 is met by a real digest: `U` is the (finite) set of contents that occur in the
history under consideration (`CacheOkOn`, `ScannedIn`), not the set of all byte strings. -/
def CollisionFree (E : Env) (U : Str → Prop) : Prop :=
  ∀ c c', U c → U c' → E.checksum c = E.checksum c' → c = c'

/-- the IDEALISED environment contract: `EnvBase` plus GLOBAL injectivity of the checksum on all
byte strings.  No fixed-length digest satisfies `md5` (pigeonhole); it is met by toy codes such as
the unary code of `Props/Pipeline.lean`, `Ex.exE`.  The theorems of `Props/Pipeline.lean` do NOT
assume it: they are stated with `EnvBase` and `HistoryOk` (collision-freeness on the contents that
occur); `EnvOk` remains as the convenient special case `U = everything` (`HistoryOk.of_injective`)
and because `Props/C09sel.lean` and the `SelectCache*` lemmas are stated with it. -/
structure EnvOk (E : Env) : Prop extends EnvBase E where
  md5 : Function.Injective E.checksum

/-- the strings of a run (absolute root path, uuid, ISO timestamp, GitHub repository) are such
strings too -/
structure RunOk (R : Run) : Prop where
  root : Json.GoodStr R.root
  uuid : Json.GoodStr R.uuid
  now : Json.GoodStr R.now
  repository : ∀ r, R.repository = some r →
    Json.GoodStr r.owner ∧ Json.GoodStr r.name ∧ Json.GoodOpt r.branch

/-- **the tree contract**: a snapshot of a real directory (`wfDir`: names non-empty, without `/`,
unique within a directory) in which the names on the way to every non-hidden file are such strings
(`os.listdir` decodes names with `surrogateescape`, which produces lone low surrogates only) -/
structure TreeOk (ch : List Node) : Prop where
  wf : wfDir ch = true
  names : ∀ p c, FileAt ch p c → Visible p → ∀ x ∈ p, Json.GoodStr x

/-- the reader does not make a report document of the current version of these bytes: they are
not JSON, not a report document, a document with a path on which `add_file` / `aggregate` raise,
or a report document of ANOTHER version (with arbitrary, altered entries) -/
def Foreign (E : Env) (bytes : Str) : Prop :=
  ∀ es, readCache (some bytes) ≠ .doc (some E.version) es

/-- **the cache files a scan may find** (`.codelimit_cache/codelimit.json`): none; the file written
by an earlier scan of ANY tree under ANY exclusion lines and run parameters (which itself found
such a file); any prefix of such a file (an interrupted write, a truncation); any bytes that are
`Foreign`.  What is excluded is exactly a forged document of the current version. -/
inductive CacheOk (E : Env) : Option Str → Prop
  | missing : CacheOk E none
  | written {R : Run} {rn : Str} {ch : List Node} {prev : Option Str} {d : Json.ReportData} {bytes : Str} :
      CacheOk E prev → RunOk R → TreeOk ch → scan E R (.dir rn ch) prev = .ok (d, bytes) →
      CacheOk E (some bytes)
  | cut {R : Run} {rn : Str} {ch : List Node} {prev : Option Str} {d : Json.ReportData} {bytes p : Str} :
      CacheOk E prev → RunOk R → TreeOk ch → scan E R (.dir rn ch) prev = .ok (d, bytes) →
      p <+: bytes → CacheOk E (some p)
  | foreign {bytes : Str} : Foreign E bytes → CacheOk E (some bytes)

/-- **the contents a scan reads lie in `U`**: the bytes of every file the scan of the directory
with entries `ch` under the exclusion lines `pats` hands to `_scan_file` - the files it lists:
not hidden, not excluded, with a supported language (`Sel.Selected`) - belong to `U` -/
def ScannedIn (E : Env) (pats : List Gi.Pat) (ch : List Node) (U : Str → Prop) : Prop :=
  ∀ p c lang, Selected (oracles E pats) ch p c lang → U c

/-- `CacheOk` with the contents recorded: **the cache file was produced by a history of scans
all of whose scanned contents lie in `U`** (or is absent, or a prefix of such a file, or
`Foreign`).  `CacheOk E prev` is `CacheOkOn E (fun _ => True) prev` (`CacheOk.on`). -/
inductive CacheOkOn (E : Env) (U : Str → Prop) : Option Str → Prop
  | missing : CacheOkOn E U none
  | written {R : Run} {rn : Str} {ch : List Node} {prev : Option Str} {d : Json.ReportData} {bytes : Str} :
      CacheOkOn E U prev → RunOk R → TreeOk ch → ScannedIn E R.pats ch U →
      scan E R (.dir rn ch) prev = .ok (d, bytes) → CacheOkOn E U (some bytes)
  | cut {R : Run} {rn : Str} {ch : List Node} {prev : Option Str} {d : Json.ReportData} {bytes p : Str} :
      CacheOkOn E U prev → RunOk R → TreeOk ch → ScannedIn E R.pats ch U →
      scan E R (.dir rn ch) prev = .ok (d, bytes) → p <+: bytes → CacheOkOn E U (some p)
  | foreign {bytes : Str} : Foreign E bytes → CacheOkOn E U (some bytes)

/-- **what the end-to-end theorems assume about the cache file and MD5** for a scan of the
directory `ch` under the exclusion lines `pats` that finds the cache file `prev`: either there is
no cache file (then nothing is assumed: no checksum is ever compared), or there is a set `U` of
byte strings on which MD5 has no collision and which contains the contents of the files this
scan reads and of the files read by every scan of the history that produced `prev`.
For real MD5 this is the statement "no two of the finitely many file contents involved collide";
it does not require injectivity on all byte strings. -/
def HistoryOk (E : Env) (pats : List Gi.Pat) (ch : List Node) (prev : Option Str) : Prop :=
  prev = none ∨ ∃ U, CollisionFree E U ∧ ScannedIn E pats ch U ∧ CacheOkOn E U prev

/-- the entry the report must hold for a file with bytes `c` whose name selects lexer `lang`
(language `x`), when `_analyze_file` returns `ms` -/
def entryFor (E : Env) (c : Str) (x : String × Language) (ms : List Measurement) : Json.FileData :=
  ⟨E.checksum c, Gi.str x.1, ((ms.map (·.len)).foldl (· + ·) 0 : Nat), profileOf (ms.map measOf), ms.map measOf⟩

/-- the totals the report must hold for language `L`, from the entries of the report: number of
files, sum of their line totals, number of functions, number of functions with 30 < length ≤ 60
and with length > 60 -/
def totalsFor (L : Str) (files : List (Str × Json.FileData)) : Json.Totals :=
  let mine := files.filter (fun kv => kv.2.language = L)
  { files := mine.length,
    loc := (mine.map (·.2.loc)).sum,
    functions := (mine.map (fun kv => (kv.2.measurements.length : Int))).sum,
    hard := (mine.map (fun kv => ((kv.2.measurements.filter (fun m => decide (30 < m.value ∧ m.value ≤ 60))).length : Int))).sum,
    unmaintainable := (mine.map (fun kv => ((kv.2.measurements.filter (fun m => decide (60 < m.value))).length : Int))).sum }

/-- all measurements of the report entries that lie beneath the folder with key `k` -/
def measurementsUnder (k : Str) (files : List (Str × Json.FileData)) : List Json.Meas :=
  (files.filter (fun kv => Codebase.under k kv.1)).flatMap (·.2.measurements)

/-- number of lines of a text: `len(text.split("\n"))` -/
def numLines (text : Str) : Nat := 1 + text.count 10

/-- a raw lexer token counts as CODE: it is neither whitespace (a `Text` / `Whitespace` token
that is empty or blank) nor a comment - what `filter_tokens` keeps for `scan_file` -/
def isCodeTok (r : RawTok) : Bool :=
  !(r.kind == 6 && (r.val.isEmpty || strIsSpace r.val)) && !(r.kind == 5)

/-- the lines on which the code tokens of `raw` whose offset lies in `[a, b]` START (one entry per
token; `countDistinct` of it is the number of code-bearing lines of the span) -/
def codeLines (text : Str) (raw : List RawTok) (a b : Nat) : List Nat :=
  ((raw.filter isCodeTok).filter (fun r => decide (a ≤ r.off ∧ r.off ≤ b))).map (fun r => lineOf text r.off)

/-- **a report measurement is well-formed for the text it was taken from and the lexer's tokens
of that text** - the per-measurement clause of C05, on the report: there are code tokens `ri`
(first of the span), `rj` (last of the span) and a `Name` token `rk` of the lexer output with

* `ri.off ≤ rk.off`, the name token ends at or before the end of `rj`, which lies inside the text;
* the start `(sl, sc)` is the (line, column) of the offset of `ri`, the end `(el, ec)` is the
  (line, column) of the offset just past `rj` (so `1 ≤ sl ≤ el ≤` number of lines, columns from 1);
* the unit name is the text of `rk`, found in the text at the offset of `rk` - INSIDE the span;
* `1 ≤ value ≤` the number of distinct lines on which the code tokens lying in the span start
  (the code-bearing lines of the span; `MeasWf.value_le_lines`: hence `value ≤ el - sl + 1`). -/
def MeasWf (text : Str) (raw : List RawTok) (m : Json.Meas) : Prop :=
  1 ≤ m.sl ∧ m.sl ≤ m.el ∧ m.el ≤ numLines text ∧ (m.sl < m.el ∨ (m.sl = m.el ∧ m.sc < m.ec)) ∧
  1 ≤ m.sc ∧ 1 ≤ m.ec ∧
  ∃ ri rj rk, ri ∈ raw ∧ rj ∈ raw ∧ rk ∈ raw ∧
    isCodeTok ri = true ∧ isCodeTok rj = true ∧ isCodeTok rk = true ∧ rk.kind = 2 ∧
    ri.off ≤ rk.off ∧ rk.off + rk.val.length ≤ rj.off + rj.val.length ∧
    rj.off + rj.val.length ≤ text.length ∧
    m.sl = lineOf text ri.off ∧ m.sc = colOf text ri.off ∧
    m.el = lineOf text (rj.off + rj.val.length) ∧ m.ec = colOf text (rj.off + rj.val.length) ∧
    m.unitName = rk.val ∧ (text.drop rk.off).take rk.val.length = rk.val ∧
    1 ≤ m.value ∧ m.value ≤ countDistinct (codeLines text raw ri.off rj.off)

/-- the functions of a report entry that `check` lists: longer than 30 lines, longest first,
functions of equal length in report order -/
def risksJ (ms : List Json.Meas) : List Json.Meas :=
  (ms.filter (fun m => decide (30 < m.value))).mergeSort (fun a b => decide (b.value ≤ a.value))

end CL.Pipeline
