import CodeLimit.Spec.ProgTree
import CodeLimit.Spec.PyLayout
import CodeLimit.Spec.SynHeaderPy
/-!
# Specification vocabulary for C01 (Python, end to end): programs as INDENTATION TREES

`Spec/PyLayout.lean` describes a tokenised Python file by token indices.  Here a file is
described by a *tree*, the way a grammar of canonical Python programs produces it:

* `PyProg α` - a forest of statements over tokens of type `α`: a simple statement (`line`: its
  tokens), a compound statement that is not a function (`block`: a head line
  such as `if x :` / `class K :` and a suite) or a function definition (`defn`: the tokens before
  `def` on the same line such as `async`, the keyword `def`, the name, the parameter list, the
  tokens after the parameter list up to the end of the line such as `:` or `-> T :`, and a suite);
  every constructor carries the remaining siblings `rest`, so a forest is a plain inductive type
  and "every forest" means: any number and order of statements in every suite, any nesting depth
  of functions in classes / ifs / functions.  A decorator is a `line` in front of the `defn`.
* tokens without line numbers are the `PTok` of `Spec/ProgTree.lean`: `nl` = number of line breaks
  before the token (blank lines and comment lines are `nl > 1`), `col` = number of blank columns
  before it; after a line break the token stands in column `1 + col`, so the `col` of the first
  token of a line IS the indentation of the line.
* `PyNode`, `PyProg.ofNodes`, `PyProg.toNodes` - the same forests as lists of rose-tree nodes.
* `PyProg.locate`, `pyRender` - the renderer (line numbers strictly increase from line to line).
* `pyFnsOf` - the functions of the forest as token-index ranges, in source order (preorder);
  `pyTreeReport` - the expected report, read off the tree WITHOUT token indices.
* `PyProg.wfAt`, `PyProg.wf` - the (decidable) well-formedness conditions of the canonical
  fragment.
* `noclLines`, `PyProg.dissolve`, `pyMarkedReport`, `PyProg.nameToks`, `pyTreeReportNamed`,
  `PyProg.notNestedOn` - comments and suppression markers (C04 / C17): the marked lines of a token
  list, the forest with the marked `def` nodes dissolved, the expected report with markers.
* `PyT.nlAt`, `PyT.colAt` - line breaks / blank columns before the `j`-th token.

## what the tree grammar leaves out (the canonical fragment)

A statement, a head line or the parameter list of a `def` may span several physical lines
(brackets), provided every continuation line is indented deeper than the header line of the
innermost enclosing function.  Left out: backslash continuation, string literals whose text ends
in a line break (a multi-line docstring is ONE token and is inside the fragment), compound
statements on one line (`def f(): pass`), `def` not on the first physical line of its statement,
anything after the parameter list on a later line than its `)` (a return annotation over several
lines).  `Spec/PyLayout.lean` / `Props/C01py.lean` cover backslash continuation and multi-line
string literals at the level of token indices.
-/
namespace CL

/-- A forest of Python statements over tokens `α`.

* `nil` - no statements;
* `line toks rest` - a simple statement (also a decorator line): its tokens, followed by the
  statements `rest`;
* `block head suite rest` - a compound statement that is not a function: the tokens of its head
  line (`if x :`, `class K ( B ) :`, `else :`, `with a as b :`), its suite, then `rest`;
* `defn pre kw name params post suite rest` - a function definition: the tokens `pre` in front of
  `def` on the same line (`async`), the keyword `kw` (`def`), the `name`, the parameter list
  `params` (`( … )`, possibly over several physical lines), the tokens `post` after it up to the
  end of the line (`:`, `-> T :`), the `suite`, then `rest`. -/
inductive PyProg (α : Type) where
  | nil : PyProg α
  | line (toks : List α) (rest : PyProg α) : PyProg α
  | block (head : List α) (suite rest : PyProg α) : PyProg α
  | defn (pre : List α) (kw name : α) (params post : List α) (suite rest : PyProg α) : PyProg α
  deriving Repr

namespace PyProg
variable {α : Type}

/-- the token sequence of a forest -/
def flat : PyProg α → List α
  | nil => []
  | line toks rest => toks ++ flat rest
  | block head suite rest => head ++ (flat suite ++ flat rest)
  | defn pre kw name params post suite rest =>
    pre ++ (kw :: name :: (params ++ (post ++ (flat suite ++ flat rest))))

/-- the number of tokens of a forest (`PyProg.size_eq`: the length of `flat`) -/
def size : PyProg α → Nat
  | nil => 0
  | line toks rest => toks.length + size rest
  | block head suite rest => head.length + size suite + size rest
  | defn pre _ _ params post suite rest =>
    pre.length + 2 + params.length + post.length + size suite + size rest

/-- the forest has no statement -/
def isNil : PyProg α → Bool
  | nil => true
  | _ => false

/-- the tokens of a forest that are not inside a function of the forest; the tokens in front of
`def` on the header line (`async`) are outside the function: it starts at `def` -/
def own : PyProg α → List α
  | nil => []
  | line toks rest => toks ++ own rest
  | block head suite rest => head ++ (own suite ++ own rest)
  | defn pre _ _ _ _ _ rest => pre ++ own rest

/-- structural conditions used by the index arithmetic: a function has a non-empty parameter
list, at least one token after it and a non-empty suite -/
def shapeOK : PyProg α → Bool
  | nil => true
  | line _ rest => shapeOK rest
  | block _ suite rest => shapeOK suite && shapeOK rest
  | defn _ _ _ params post suite rest =>
    !params.isEmpty && !post.isEmpty && !suite.isNil && decide (0 < suite.size)
      && shapeOK suite && shapeOK rest

end PyProg

/-- The same forests as rose trees (`List (PyNode α)`): a simple statement, a compound statement
with the list of statements of its suite, a function definition with the list of statements of
its suite.  `PyProg.ofNodes` / `PyProg.toNodes` are mutually inverse (`PyProg.ofNodes_toNodes`,
`PyProg.toNodes_ofNodes`), so a statement about every `PyProg` is a statement about every list
of nodes. -/
inductive PyNode (α : Type) where
  | line (toks : List α) : PyNode α
  | block (head : List α) (suite : List (PyNode α)) : PyNode α
  | defn (pre : List α) (kw name : α) (params post : List α) (suite : List (PyNode α)) : PyNode α

mutual
/-- the statement `n` followed by the forest `rest` -/
def PyNode.toProg {α : Type} : PyNode α → PyProg α → PyProg α
  | .line toks, rest => .line toks rest
  | .block head suite, rest => .block head (PyProg.ofNodes suite) rest
  | .defn pre kw name params post suite, rest =>
    .defn pre kw name params post (PyProg.ofNodes suite) rest
/-- the forest of a list of statements -/
def PyProg.ofNodes {α : Type} : List (PyNode α) → PyProg α
  | [] => .nil
  | n :: ns => PyNode.toProg n (PyProg.ofNodes ns)
end

/-- the list of statements of a forest -/
def PyProg.toNodes {α : Type} : PyProg α → List (PyNode α)
  | .nil => []
  | .line toks rest => .line toks :: toNodes rest
  | .block head suite rest => .block head (toNodes suite) :: toNodes rest
  | .defn pre kw name params post suite rest =>
    .defn pre kw name params post (toNodes suite) :: toNodes rest

/-- the functions of a forest whose first token has index `i`, in source order (preorder): the
header is the token range `def name ( … )`, the body is the token range of the suite -/
def pyFnsOf : PyProg Tok → Nat → List Fn
  | .nil, _ => []
  | .line toks rest, i => pyFnsOf rest (i + toks.length)
  | .block head suite rest, i =>
    pyFnsOf suite (i + head.length) ++ pyFnsOf rest (i + head.length + suite.size)
  | .defn pre _ name params post suite rest, i =>
    ⟨⟨name, ⟨i + pre.length, i + pre.length + 2 + params.length⟩⟩,
      ⟨i + pre.length + 2 + params.length + post.length,
        i + pre.length + 2 + params.length + post.length + suite.size⟩⟩
    :: (pyFnsOf suite (i + pre.length + 2 + params.length + post.length)
        ++ pyFnsOf rest (i + pre.length + 2 + params.length + post.length + suite.size))

/-- the token ranges (header, suite) of the functions of a forest, for any token type -/
def pyRanges {α : Type} : PyProg α → Nat → List (Range × Range)
  | .nil, _ => []
  | .line toks rest, i => pyRanges rest (i + toks.length)
  | .block head suite rest, i =>
    pyRanges suite (i + head.length) ++ pyRanges rest (i + head.length + suite.size)
  | .defn pre _ _ params post suite rest, i =>
    (⟨i + pre.length, i + pre.length + 2 + params.length⟩,
      ⟨i + pre.length + 2 + params.length + post.length,
        i + pre.length + 2 + params.length + post.length + suite.size⟩)
    :: (pyRanges suite (i + pre.length + 2 + params.length + post.length)
        ++ pyRanges rest (i + pre.length + 2 + params.length + post.length + suite.size))

/-! ## the expected report, defined on the tree (no token indices) -/

/-- the tokens of a function itself: `def name ( … )`, the tokens after the parameter list, and
the tokens of the suite that are not inside a nested function -/
def pyOwnToks (kw name : Tok) (params post : List Tok) (suite : PyProg Tok) : List Tok :=
  kw :: name :: (params ++ (post ++ suite.own))

/-- **the expected report**: every function node, in preorder: the text of its name token, the
location of its `def` token (not of `async`, not of a decorator), the location just past the last
token of its suite, the number of distinct lines of its own tokens -/
def pyTreeReport : PyProg Tok → List Measurement
  | .nil => []
  | .line _ rest => pyTreeReport rest
  | .block _ suite rest => pyTreeReport suite ++ pyTreeReport rest
  | .defn _ kw name params post suite rest =>
    ⟨name.val, kw.line, kw.col, (Tok.endPos_L (suite.flat.getLastD default)).1,
      (Tok.endPos_L (suite.flat.getLastD default)).2,
      countDistinct ((pyOwnToks kw name params post suite).map (·.line))⟩
    :: (pyTreeReport suite ++ pyTreeReport rest)

/-! ## the renderer -/

/-- lay out a forest after a token at `s`, in the order of its token sequence
(`PyProg.flat_locate`: `(locate s p).flat = place s p.flat`) -/
def PyProg.locate : Nat × Nat → PyProg PTok → PyProg Tok
  | _, .nil => .nil
  | s, .line toks rest => .line (place s toks) (locate (advLoc s toks) rest)
  | s, .block head suite rest =>
    let s1 := advLoc s head
    .block (place s head) (locate s1 suite) (locate (advLoc s1 suite.flat) rest)
  | s, .defn pre kw name params post suite rest =>
    let s1 := advLoc s pre
    let s2 := (kw.put s1).loc
    let s3 := (name.put s2).loc
    let s4 := advLoc s3 params
    let s5 := advLoc s4 post
    .defn (place s pre) (kw.put s1) (name.put s2) (place s3 params) (place s4 post)
      (locate s5 suite) (locate (advLoc s5 suite.flat) rest)

/-- the located forest of a file: the first token (which follows at least one "line break", see
`PyProg.wfAt`) is on line `nl ≥ 1` -/
def PyProg.located (p : PyProg PTok) : PyProg Tok := p.locate (0, 0)

/-- **the rendering**: the token list of a forest of tokens without line numbers -/
def pyRender (p : PyProg PTok) : List Tok := p.located.flat

/-! ## well-formedness -/

/-- `groupsExact ts d`: read inside `d` open parentheses, the tokens `ts` are one or more
complete parenthesis groups and nothing else: every token is inside a group (outside all
parentheses only `(` may follow) and the depth is 0 at the end.  `(` and `)` are the PUNCTUATION
tokens with these texts (`Syn.isOpen` / `Syn.isClose`, i.e. `Token.is_symbol`): a token of another
type with the text `(` (the content of the string literal `'('` in a default value) is an ordinary
token inside a group -/
def groupsExact : List Tok → Nat → Bool
  | [], d => d == 0
  | t :: ts, d =>
    if Syn.isOpen t then groupsExact ts (d + 1)
    else match d with
      | 0 => false
      | d' + 1 => if Syn.isClose t then groupsExact ts d' else groupsExact ts (d' + 1)

/-- the tokens of one physical line indented by `c` blanks: not empty; the first token follows
a line break and `c` blank columns, the others stay on its line -/
def pyLineAt (c : Nat) : List PTok → Bool
  | [] => false
  | t :: ts => t.nl != 0 && t.col == c && ts.all (·.nl == 0)

/-- the tokens of one statement (or head line) indented by `c` blanks that may span several
physical lines (inside brackets): not empty; the first token follows a line break and `c` blank
columns; every other token stays on the line of its predecessor or begins a physical line that is
indented by at least `lim` blanks -/
def pyStmtAt (c lim : Nat) : List PTok → Bool
  | [] => false
  | t :: ts => t.nl != 0 && t.col == c && ts.all (fun u => u.nl == 0 || decide (lim ≤ u.col))

/-- no token is the keyword `def` -/
def pyNoDef (ts : List PTok) : Bool := ts.all (fun t => !Syn.isDefTok t.bare)

/-- the indentation of the first line of a forest -/
def PyProg.col : PyProg PTok → Nat
  | .nil => 0
  | .line toks _ => (toks.headD default).col
  | .block head _ _ => (head.headD default).col
  | .defn pre kw _ _ _ _ _ => ((pre ++ [kw]).headD default).col

/-- **Well-formed forests of the canonical fragment** (decidable).  `c` = the indentation of the
statements of this forest; `lim` = 1 + the indentation of the header line of the innermost
enclosing function (`0`: no enclosing function).

* all statements of a suite have the same indentation `c` (each begins on a new physical line),
  and the statements of a suite are indented deeper than the line that introduces the suite
  (this is what Python's tokenizer demands of INDENT / DEDENT, and it is what makes the tree
  recoverable from the columns);
* a simple statement or a head line may span several physical lines (inside brackets); a token
  that begins such a continuation line is indented deeper than the header line of the innermost
  ENCLOSING function (`lim ≤ col`; no condition at top level or inside classes only; the closing
  bracket of `x = g(` … `)` at the indentation of the statement is fine);
* a function definition is `pre def name ( … ) post` with `pre def` on one physical line, `def`
  the keyword, `name` a Name token, `params` one or more complete parenthesis groups (delimited
  by the punctuation tokens `(` / `)`); a token of
  `name ( … )` that begins a new physical line (multi-line header) is indented deeper than the
  header line of the innermost ENCLOSING function (no condition relative to the function's own
  line: `) -> T :` may stand at the column of `def`; see `C01py.shallow_header_line` for what
  happens otherwise); `post` is not empty (`:`), stays on the line of the closing parenthesis
  and does not begin with a punctuation token `(`; suites are not empty;
* the keyword `def` occurs only as the `kw` of a function definition. -/
def PyProg.wfAt (c lim : Nat) : PyProg PTok → Bool
  | .nil => true
  | .line toks rest => pyStmtAt c lim toks && pyNoDef toks && wfAt c lim rest
  | .block head suite rest =>
    pyStmtAt c lim head && pyNoDef head && !suite.isNil && decide (c < suite.col)
      && wfAt suite.col lim suite && wfAt c lim rest
  | .defn pre kw name params post suite rest =>
    pyLineAt c (pre ++ [kw]) && pyNoDef pre && Syn.isDefTok kw.bare && name.bare.isName
      && !params.isEmpty && groupsExact (params.map PTok.bare) 0
      && (name :: params).all (fun t => t.nl == 0 || decide (lim ≤ t.col))
      && pyNoDef (name :: params)
      && !post.isEmpty && post.all (·.nl == 0) && pyNoDef post
      && !Syn.isOpen (post.headD default).bare
      && !suite.isNil && decide (c < suite.col) && wfAt suite.col (c + 1) suite && wfAt c lim rest

/-- a token that is code (not whitespace, not a comment) and does not continue the logical
line: its text does not end in backslash-newline, and it is not a String token whose text ends
in a line break -/
def PTok.plain (t : PTok) : Bool := t.bare.isCode && !t.bare.continuesLine

/-- **a well-formed file**: the top-level statements have one indentation (Python demands 0;
nothing depends on it), there is no enclosing function, all tokens are plain code tokens -/
def PyProg.wf (p : PyProg PTok) : Bool := p.wfAt p.col 0 && p.flat.all PTok.plain

/-! ## comments and suppression markers (C04 / C17 for Python trees)

The tokens of a `PyProg` are code tokens; comments live in the token list `all` of the file, whose
code tokens (`filter_tokens`) are the rendering of the forest.  A `def` whose NAME token stands on a
line that carries a marker comment is suppressed: it becomes an ordinary compound statement. -/

/-- the lines of a token list that carry a suppression marker comment (`nocl`, C17) -/
def noclLines (all : List Tok) : List Nat := (noclTokens all).map (·.line)

/-- **dissolve the functions named on one of the `lines`**: such a function definition
`pre def name ( … ) post` + suite becomes a compound statement (`block`) with the same head line
and the same suite (inside which the same is done); every other statement stays what it is.  The
token sequence does not change (`PyT.flat_pyDissolve`); the function nodes of the result are the
function nodes named on other lines; a function nested in a dissolved one is then nested in the
next enclosing function that is left (or in none). -/
def PyProg.dissolve (lines : List Nat) : PyProg Tok → PyProg Tok
  | .nil => .nil
  | .line toks rest => .line toks (dissolve lines rest)
  | .block head suite rest => .block head (dissolve lines suite) (dissolve lines rest)
  | .defn pre kw name params post suite rest =>
    if lines.contains name.line then
      .block (pre ++ kw :: name :: (params ++ post)) (dissolve lines suite) (dissolve lines rest)
    else .defn pre kw name params post (dissolve lines suite) (dissolve lines rest)

/-- **the expected report of a Python file with comments and markers**: lay the forest out, dissolve
the function nodes named on a line of `all` that carries a marker comment, and take the tree
report: every remaining `def` node, in preorder, with the number of distinct lines of its own code
tokens.  The code tokens of a suppressed function are own tokens of the nearest enclosing `def`
that is left. -/
def pyMarkedReport (t : PyProg PTok) (all : List Tok) : List Measurement :=
  pyTreeReport (t.located.dissolve (noclLines all))

/-- the name tokens of the function nodes of a forest (at any depth), in preorder -/
def PyProg.nameToks : PyProg Tok → List Tok
  | .nil => []
  | .line _ rest => nameToks rest
  | .block _ suite rest => nameToks suite ++ nameToks rest
  | .defn _ _ name _ _ suite rest => name :: (nameToks suite ++ nameToks rest)

/-- the tree report, every entry paired with the NAME TOKEN of its function node -/
def pyTreeReportNamed : PyProg Tok → List (Tok × Measurement)
  | .nil => []
  | .line _ rest => pyTreeReportNamed rest
  | .block _ suite rest => pyTreeReportNamed suite ++ pyTreeReportNamed rest
  | .defn _ kw name params post suite rest =>
    (name, ⟨name.val, kw.line, kw.col, (Tok.endPos_L (suite.flat.getLastD default)).1,
      (Tok.endPos_L (suite.flat.getLastD default)).2,
      countDistinct ((pyOwnToks kw name params post suite).map (·.line))⟩)
    :: (pyTreeReportNamed suite ++ pyTreeReportNamed rest)

/-- no function node named on line `l` is inside another function node (it may contain functions) -/
def PyProg.notNestedOn (l : Nat) : PyProg Tok → Bool
  | .nil => true
  | .line _ rest => notNestedOn l rest
  | .block _ suite rest => notNestedOn l suite && notNestedOn l rest
  | .defn _ _ _ _ _ suite rest => !suite.nameToks.any (fun t => t.line == l) && notNestedOn l rest

namespace PyT

/-- the number of line breaks before token `j` of a token sequence without line numbers (0 when
there is no such token) -/
def nlAt (ps : List PTok) (j : Nat) : Nat := (ps[j]?.map (·.nl)).getD 0

/-- the number of blank columns before token `j` -/
def colAt (ps : List PTok) (j : Nat) : Nat := (ps[j]?.map (·.col)).getD 0

end PyT

end CL
