import CodeLimit.Model.Pattern
/-!
# Specification vocabulary for `find_all` (C14)
-/
namespace CL

variable {β σ : Type}

/-- deterministic run of a machine over a list of items; `none` when it gets stuck or a step
raises -/
def runM (A : Machine β σ) : σ → List β → Option σ
  | s, [] => some s
  | s, x :: xs =>
    match A.step s x with
    | .ok (some s') => runM A s' xs
    | _ => none

/-- the items of `xs` in positions `[s, e)` -/
def slice (xs : List β) (s e : Nat) : List β := (xs.drop s).take (e - s)

/-- greedy matching from position `p` succeeds and finishes at `f`: the machine runs from its
initial state over `xs[p..f)` into an accepting state `q` and cannot continue there (end of
input, no transition on `xs[f]`, or no transitions at all) -/
def GreedyAt (A : Machine β σ) (xs : List β) (p f : Nat) : Prop :=
  p < f ∧ f ≤ xs.length ∧ ∃ q, runM A A.init (slice xs p f) = some q ∧ A.acc q = true ∧
    (f = xs.length ∨ A.dead q = true ∨ ∃ x, xs[f]? = some x ∧ A.step q x = .ok none)

/-- the machine never reports a state with no transitions as able to step -/
def DeadStuck (A : Machine β σ) : Prop := ∀ q x, A.dead q = true → A.step q x = .ok none

end CL
