import CodeLimit.Model.Select
/-!
# Specification vocabulary for directory trees (C11, C12)
-/
namespace CL.Sel

/-- `FileAt ch p c`: in a directory with entries `ch`, the relative path with components `p`
leads to a regular file with bytes `c` -/
inductive FileAt : List Node → List Str → Str → Prop
  | here {ch : List Node} {n c : Str} : Node.file n c ∈ ch → FileAt ch [n] c
  | under {ch sub : List Node} {d : Str} {p : List Str} {c : Str} :
      Node.dir d sub ∈ ch → FileAt sub p c → FileAt ch (d :: p) c

/-- `DirAt ch p sub`: the relative path `p` (possibly empty) leads to a directory with entries `sub` -/
inductive DirAt : List Node → List Str → List Node → Prop
  | root {ch : List Node} : DirAt ch [] ch
  | under {ch sub sub' : List Node} {d : Str} {p : List Str} :
      Node.dir d sub ∈ ch → DirAt sub p sub' → DirAt ch (d :: p) sub'

/-- a name the operating system can return for a directory entry: non-empty, no `/` -/
def goodName (n : Str) : Bool := !n.isEmpty && !n.contains 47

mutual
/-- snapshot of a real directory entry: good names, unique within every directory -/
def Node.wf : Node → Bool
  | .file n _ => goodName n
  | .dir n ch => goodName n && wfDir ch
/-- the entries of one directory: each well-formed, names pairwise different -/
def wfDir : List Node → Bool
  | [] => true
  | c :: r => c.wf && r.all (fun x => x.name != c.name) && wfDir r
end

/-- no component starts with a dot -/
def Visible (p : List Str) : Prop := ∀ x ∈ p, isHidden x = false

instance (p : List Str) : Decidable (Visible p) := by unfold Visible; infer_instance

/-- base name of a path -/
def baseName (p : List Str) : Str := p.getLastD []

/-- the file at `p` (bytes `c`) qualifies for the scan, with language `lang`: it exists below
the root, no component of `p` (directories and the file name) starts with a dot, the
exclusion patterns do not match `p`, and its name maps to a supported language -/
def Selected (O : Oracles) (ch : List Node) (p : List Str) (c : Str) (lang : Nat) : Prop :=
  FileAt ch p c ∧ Visible p ∧ O.excluded p = false ∧ O.langOf (baseName p) = some lang

/-- the `SourceFileEntry` the scan must hold for a selected file whose analysis returns `ms` -/
def entryOf (O : Oracles) (p : List Str) (c : Str) (lang : Nat) (ms : List Measurement) : FileEntry :=
  ⟨joinPath p, O.checksum c, lang, (ms.map (·.len)).foldl (· + ·) 0, ms⟩

/-- the files a directory argument `d` of `check` (entries `sub`) hands to the analysis: below
`d`, no component *below `d`* hidden, the pattern test (on the root-relative path `p`) fails,
supported language -/
def ReachedThrough (O : Oracles) (d : List Str) (sub : List Node) (p : List Str) (c : Str) (lang : Nat) : Prop :=
  ∃ q, p = d ++ q ∧ FileAt sub q c ∧ Visible q ∧ O.excluded p = false ∧ O.langOf (baseName p) = some lang

end CL.Sel
