import CodeLimit.Spec.Layout
/-!
# Specification vocabulary for C01 (stage G): program TREES of brace languages

Stage A (`Spec/Layout.lean`) describes a file by token indices.  Here a file is described by a
*tree*, the way a grammar of canonical programs (or the Python generator used in differential
testing) produces it:

* `Prog α` - a forest of items over tokens of type `α`: a token, a brace group `{ items }`, or a
  function `header gap { body }`; every constructor carries the remaining siblings `rest`, so a
  forest is a plain (non-nested) inductive type and "every forest" means: any number and order of
  items at every level, any nesting depth;
* `Prog.flat` - the token sequence of a forest;
* `fnsOf`, `blocksOf` - the functions (header range, name token, body range) and ALL brace
  blocks of the forest as token-index ranges of `flat`, in source order (preorder);
* `Prog.wf` - the (decidable) well-formedness conditions of the canonical fragment, split into
  the structural part `Prog.wfCore` and the canonical-fragment restriction `Prog.noAdj`;
* `Node`, `Prog.ofNodes`, `Prog.toNodes` - the same forests as lists of rose-tree nodes;
* `PTok`, `locate`, `render` - tokens without locations (`nl` = line distance from the START line of
  the previous token, `col` = blank columns) and the renderer that assigns lines and columns;
* `treeReport`, `treeReportFlat`, `parentsOf` - the expected report and the nesting, defined on
  the tree WITHOUT token indices.
-/
namespace CL

/-- A forest of program items over tokens `α`.

* `nil` - no items;
* `leaf t rest` - the token `t`, followed by the items `rest`;
* `group op cl items rest` - a brace block that is not a function body (`op items cl`: a class
  body, a control block, an initialiser, a brace group in a parameter list), followed by `rest`;
* `fn hdr nameIdx gap op cl body rest` - a function: the header items `hdr` (tokens and brace
  groups such as the default value `{1, 2}`), the index `nameIdx` of the name token among the
  header's tokens, the tokens `gap` between the end of the header and the opening brace
  (`throws E`, `: T`, `=>`), the braces `op` / `cl` and the items `body` between them, followed
  by `rest`. -/
inductive Prog (α : Type) where
  | nil : Prog α
  | leaf (t : α) (rest : Prog α) : Prog α
  | group (op cl : α) (items rest : Prog α) : Prog α
  | fn (hdr : Prog α) (nameIdx : Nat) (gap : List α) (op cl : α) (body rest : Prog α) : Prog α
  deriving Repr

namespace Prog
variable {α : Type}

/-- the token sequence of a forest -/
def flat : Prog α → List α
  | nil => []
  | leaf t rest => t :: flat rest
  | group op cl items rest => op :: (flat items ++ cl :: flat rest)
  | fn hdr _ gap op cl body rest => flat hdr ++ (gap ++ op :: (flat body ++ cl :: flat rest))

/-- the tokens `ts` as leaves, followed by `rest` -/
def toks (ts : List α) (rest : Prog α) : Prog α := ts.foldr .leaf rest

/-- the number of tokens of a forest (`size_eq`: the length of `flat`) -/
def size : Prog α → Nat
  | nil => 0
  | leaf _ rest => size rest + 1
  | group _ _ items rest => size items + size rest + 2
  | fn hdr _ gap _ _ body rest => size hdr + gap.length + size body + size rest + 2

/-- the forest contains no function (required of headers) -/
def noFn : Prog α → Bool
  | nil => true
  | leaf _ rest => noFn rest
  | group _ _ items rest => noFn items && noFn rest
  | fn .. => false

/-- the first item is a token -/
def startsWithLeaf : Prog α → Bool
  | leaf .. => true
  | _ => false

/-- the first item is a brace group -/
def startsWithGroup : Prog α → Bool
  | group .. => true
  | _ => false

/-- the tokens of a forest that are not inside a function of the forest -/
def own : Prog α → List α
  | nil => []
  | leaf t rest => t :: own rest
  | group op cl items rest => op :: (own items ++ cl :: own rest)
  | fn _ _ _ _ _ _ rest => own rest

end Prog

/-- The same forests as rose trees (`List (Node α)`): a token, a brace group with its items,
a function with its header items, name index, gap tokens, braces and body items.
`Prog.ofNodes` / `Prog.toNodes` are mutually inverse (`Prog.ofNodes_toNodes`,
`Prog.toNodes_ofNodes`), so a statement about every `Prog` is a statement about every list of
nodes. -/
inductive Node (α : Type) where
  | leaf (t : α) : Node α
  | group (op cl : α) (items : List (Node α)) : Node α
  | fn (hdr : List (Node α)) (nameIdx : Nat) (gap : List α) (op cl : α)
      (body : List (Node α)) : Node α

mutual
/-- the node `n` followed by the forest `rest` -/
def Node.toProg {α : Type} : Node α → Prog α → Prog α
  | .leaf t, rest => .leaf t rest
  | .group op cl items, rest => .group op cl (Prog.ofNodes items) rest
  | .fn hdr k gap op cl body, rest =>
    .fn (Prog.ofNodes hdr) k gap op cl (Prog.ofNodes body) rest
/-- the forest of a list of nodes -/
def Prog.ofNodes {α : Type} : List (Node α) → Prog α
  | [] => .nil
  | n :: ns => Node.toProg n (Prog.ofNodes ns)
end

/-- the list of nodes of a forest -/
def Prog.toNodes {α : Type} : Prog α → List (Node α)
  | .nil => []
  | .leaf t rest => .leaf t :: toNodes rest
  | .group op cl items rest => .group op cl (toNodes items) :: toNodes rest
  | .fn hdr k gap op cl body rest => .fn (toNodes hdr) k gap op cl (toNodes body) :: toNodes rest

/-- the functions of a forest whose first token has index `i`, in source order (preorder): the
header is the token range of `hdr`, the name is the `nameIdx`-th header token, the body is the
token range from the opening to just past the closing brace -/
def fnsOf : Prog Tok → Nat → List Fn
  | .nil, _ => []
  | .leaf _ rest, i => fnsOf rest (i + 1)
  | .group _ _ items rest, i => fnsOf items (i + 1) ++ fnsOf rest (i + items.size + 2)
  | .fn hdr k gap _ _ body rest, i =>
    ⟨⟨hdr.flat.getD k default, ⟨i, i + hdr.size⟩⟩,
      ⟨i + hdr.size + gap.length, i + hdr.size + gap.length + body.size + 2⟩⟩
    :: (fnsOf body (i + hdr.size + gap.length + 1)
        ++ fnsOf rest (i + hdr.size + gap.length + body.size + 2))

/-- ALL brace blocks of a forest whose first token has index `i`, in source order: every group,
every function body, every group inside a header -/
def blocksOf {α : Type} : Prog α → Nat → List Range
  | .nil, _ => []
  | .leaf _ rest, i => blocksOf rest (i + 1)
  | .group _ _ items rest, i =>
    ⟨i, i + items.size + 2⟩ :: (blocksOf items (i + 1) ++ blocksOf rest (i + items.size + 2))
  | .fn hdr _ gap _ _ body rest, i =>
    blocksOf hdr i ++
      ⟨i + hdr.size + gap.length, i + hdr.size + gap.length + body.size + 2⟩
      :: (blocksOf body (i + hdr.size + gap.length + 1)
          ++ blocksOf rest (i + hdr.size + gap.length + body.size + 2))

/-- the functions of a whole file -/
abbrev Prog.fns (p : Prog Tok) : List Fn := fnsOf p 0
/-- the brace blocks of a whole file -/
abbrev Prog.blocks {α : Type} (p : Prog α) : List Range := blocksOf p 0

/-- the token is neither an opening nor a closing brace symbol -/
def Tok.noBrace (t : Tok) : Bool := !t.isSymbol [123] && !t.isSymbol [125]

/-- **Well-formed forests of the canonical fragment** (decidable):

* a `leaf` is not a `{` / `}` symbol; the `op` / `cl` of a group or function ARE those symbols;
* a header contains no function, starts with a token (not with a brace group) and its
  `nameIdx`-th token is a Name token; the gap contains no braces;
* the canonical-fragment restriction (`Layout.no_adjacent`, `C01.adjacent_block_is_merged`):
  the item following a function is not a brace group. -/
def Prog.wf : Prog Tok → Bool
  | .nil => true
  | .leaf t rest => t.noBrace && wf rest
  | .group op cl items rest => op.isSymbol [123] && cl.isSymbol [125] && wf items && wf rest
  | .fn hdr k gap op cl body rest =>
    hdr.startsWithLeaf && hdr.noFn && wf hdr && decide (k < hdr.size)
      && (hdr.flat.getD k default).isName && gap.all Tok.noBrace
      && op.isSymbol [123] && cl.isSymbol [125] && wf body
      && !rest.startsWithGroup && wf rest

/-- `Prog.wf` without the canonical-fragment restriction: the structural conditions only -/
def Prog.wfCore : Prog Tok → Bool
  | .nil => true
  | .leaf t rest => t.noBrace && wfCore rest
  | .group op cl items rest =>
    op.isSymbol [123] && cl.isSymbol [125] && wfCore items && wfCore rest
  | .fn hdr k gap op cl body rest =>
    hdr.startsWithLeaf && hdr.noFn && wfCore hdr && decide (k < hdr.size)
      && (hdr.flat.getD k default).isName && gap.all Tok.noBrace
      && op.isSymbol [123] && cl.isSymbol [125] && wfCore body && wfCore rest

/-- **the canonical-fragment restriction**, at every level of the forest: the item following a
function is not a brace group (`f() { } { }`; `Prog.wf_iff`: `wf` holds iff `wfCore` and `noAdj` do) -/
def Prog.noAdj {α : Type} : Prog α → Bool
  | .nil => true
  | .leaf _ rest => noAdj rest
  | .group _ _ items rest => noAdj items && noAdj rest
  | .fn hdr _ _ _ _ body rest => noAdj hdr && noAdj body && !rest.startsWithGroup && noAdj rest

/-- a code token (not whitespace, not a comment): `filter_tokens` keeps it -/
def Tok.isCode (t : Tok) : Bool := !t.isWhitespace && !t.isComment

/-- all tokens of the forest are code tokens -/
def Prog.allCode (p : Prog Tok) : Bool := p.flat.all Tok.isCode

/-! ## the renderer: tokens without locations -/

/-- a token without location: `nl` = the line on which the token starts MINUS the line on which the
PREVIOUS token STARTS (0 = it starts on the line on which the previous token starts; for a previous
token whose text contains no line break this is the number of line breaks between the two tokens);
`col` = the number of blank columns before it: for `nl ≠ 0` the token starts in column `1 + col`,
otherwise in column `c + 1 + col` where `c` is the column in which the previous token STARTS (so
`col + 1` must be at least the width of the previous token: `Prog.Spaced`).

A token whose own text contains line breaks (a block comment or a template literal over several
lines) is laid out like any other: its START is placed, and the next token must have `nl` at least
the number of line breaks inside it.  `render` then is what a lexer yields only if the layout is
consistent with the texts: `Prog.Spaced` (`Model/ProgText.lean`, brace languages: texts WITHOUT
line breaks) resp. `PyProg.Spaced` (`Model/PyTreeText.lean`: texts may contain line breaks).  The
token-level theorems (`scan_file (render p) = …`) hold for every `nl` / `col`. -/
structure PTok where
  kind : Nat
  ty : Nat
  val : Str
  nl : Nat
  col : Nat
  deriving Repr, DecidableEq, Inhabited

/-- the located token, given the location `(line, column)` of the previous token -/
def PTok.put (s : Nat × Nat) (t : PTok) : Tok :=
  if t.nl = 0 then ⟨t.kind, t.ty, t.val, s.1, s.2 + 1 + t.col⟩
  else ⟨t.kind, t.ty, t.val, s.1 + t.nl, 1 + t.col⟩

/-- the location of a token -/
def Tok.loc (t : Tok) : Nat × Nat := (t.line, t.col)

/-- the location of the last of the tokens `l` laid out after a token at `s` -/
def advLoc (s : Nat × Nat) (l : List PTok) : Nat × Nat := l.foldl (fun s t => (t.put s).loc) s

/-- lay out a token list after a token at `s` -/
def place : Nat × Nat → List PTok → List Tok
  | _, [] => []
  | s, t :: ts => t.put s :: place (t.put s).loc ts

/-- lay out a forest after a token at `s`, in the order of its token sequence
(`flat_locate`: `(locate s p).flat = place s p.flat`) -/
def locate : Nat × Nat → Prog PTok → Prog Tok
  | _, .nil => .nil
  | s, .leaf t rest => .leaf (t.put s) (locate (t.put s).loc rest)
  | s, .group op cl items rest =>
    let s1 := (op.put s).loc
    let s2 := advLoc s1 items.flat
    .group (op.put s) (cl.put s2) (locate s1 items) (locate (cl.put s2).loc rest)
  | s, .fn hdr k gap op cl body rest =>
    let s1 := advLoc s hdr.flat
    let s2 := advLoc s1 gap
    let s3 := (op.put s2).loc
    let s4 := advLoc s3 body.flat
    .fn (locate s hdr) k (place s1 gap) (op.put s2) (cl.put s4) (locate s3 body)
      (locate (cl.put s4).loc rest)

/-- apply `f` to every token of a forest -/
def Prog.map {α β : Type} (f : α → β) : Prog α → Prog β
  | .nil => .nil
  | .leaf t rest => .leaf (f t) (map f rest)
  | .group op cl items rest => .group (f op) (f cl) (map f items) (map f rest)
  | .fn hdr k gap op cl body rest =>
    .fn (map f hdr) k (gap.map f) (f op) (f cl) (map f body) (map f rest)

/-- the token at a fixed dummy location -/
def PTok.bare (t : PTok) : Tok := ⟨t.kind, t.ty, t.val, 1, 1⟩

/-- the forest with all tokens at a dummy location: used to state the well-formedness
conditions of a forest of tokens without locations (`wfCore_locate`, `allCode_locate`: they do
not depend on the locations) -/
def Prog.bare (p : Prog PTok) : Prog Tok := p.map PTok.bare

/-- the located forest of a file: the first token is on line 1 -/
def Prog.located (p : Prog PTok) : Prog Tok := locate (1, 0) p

/-- **the rendering**: the token list of a forest of tokens without locations -/
def render (p : Prog PTok) : List Tok := p.located.flat

/-! ## the expected report, defined on the tree (no token indices) -/

/-- the tokens of a function itself: header, gap, braces and the body tokens that are not
inside a nested function -/
def ownToks (hdr : Prog Tok) (gap : List Tok) (op cl : Tok) (body : Prog Tok) : List Tok :=
  hdr.flat ++ (gap ++ op :: (body.own ++ [cl]))

/-- all tokens of a function -/
def allToks (hdr : Prog Tok) (gap : List Tok) (op cl : Tok) (body : Prog Tok) : List Tok :=
  hdr.flat ++ (gap ++ op :: (body.flat ++ [cl]))

/-- the measurement of a function node whose own tokens are `toks`: its name token's text, the
location of the first header token, the location just past the closing brace, the number of
distinct lines of `toks` -/
def nodeMeasurement (hdr : Prog Tok) (k : Nat) (cl : Tok) (toks : List Tok) : Measurement :=
  ⟨(hdr.flat.getD k default).val, (hdr.flat.headD default).line, (hdr.flat.headD default).col,
    (Tok.endPos_L cl).1, (Tok.endPos_L cl).2, countDistinct (toks.map (·.line))⟩

/-- **the expected report of a language with nested functions**: every function node, in
preorder, with the number of distinct lines of its own tokens -/
def treeReport : Prog Tok → List Measurement
  | .nil => []
  | .leaf _ rest => treeReport rest
  | .group _ _ items rest => treeReport items ++ treeReport rest
  | .fn hdr k gap op cl body rest =>
    nodeMeasurement hdr k cl (ownToks hdr gap op cl body) :: (treeReport body ++ treeReport rest)

/-- **the expected report of a language without nested functions**: the function nodes that are
not inside another function node, with the number of distinct lines of ALL their tokens -/
def treeReportFlat : Prog Tok → List Measurement
  | .nil => []
  | .leaf _ rest => treeReportFlat rest
  | .group _ _ items rest => treeReportFlat items ++ treeReportFlat rest
  | .fn hdr k gap op cl body rest =>
    nodeMeasurement hdr k cl (allToks hdr gap op cl body) :: treeReportFlat rest

/-- the function record (as in `fnsOf`) of the innermost enclosing function NODE of every
function of the forest, in preorder; `par` = the function node around the whole forest -/
def parentsOf : Prog Tok → Nat → Option Fn → List (Option Fn)
  | .nil, _, _ => []
  | .leaf _ rest, i, par => parentsOf rest (i + 1) par
  | .group _ _ items rest, i, par =>
    parentsOf items (i + 1) par ++ parentsOf rest (i + items.size + 2) par
  | .fn hdr k gap _ _ body rest, i, par =>
    par :: (parentsOf body (i + hdr.size + gap.length + 1)
              (some ⟨⟨hdr.flat.getD k default, ⟨i, i + hdr.size⟩⟩,
                ⟨i + hdr.size + gap.length, i + hdr.size + gap.length + body.size + 2⟩⟩)
            ++ parentsOf rest (i + hdr.size + gap.length + body.size + 2) par)

/-- the functions of the forest that are not inside another function node, in source order -/
def topFnsOf : Prog Tok → Nat → List Fn
  | .nil, _ => []
  | .leaf _ rest, i => topFnsOf rest (i + 1)
  | .group _ _ items rest, i => topFnsOf items (i + 1) ++ topFnsOf rest (i + items.size + 2)
  | .fn hdr k gap _ _ body rest, i =>
    ⟨⟨hdr.flat.getD k default, ⟨i, i + hdr.size⟩⟩,
      ⟨i + hdr.size + gap.length, i + hdr.size + gap.length + body.size + 2⟩⟩
    :: topFnsOf rest (i + hdr.size + gap.length + body.size + 2)

end CL
