import CodeLimit.Spec.Tree
import CodeLimit.Spec.GapsPrint
import CodeLimit.Model.Pipeline
/-!
# Vocabulary for C12 / C03 "from any working directory"

`CL.Sel.checkPaths O fs cwd args` (`Model/Select.lean`) is `check_command` run in the working
directory with components `cwd` (from the base of the tree `fs`, i.e. from `/`).  Its parameter
`O.excluded` stands for the ONE `PathSpec` object `check_command` builds before its loop:

```
excludes_spec = generate_exclude_spec(Path.cwd())          # check.py line 17
```

so it is made of `DEFAULT_EXCLUDES`, `Configuration.exclude` (the `--exclude` options and, by
`__main__.check` line 100 `Configuration.load(Path('.'))`, the `exclude:` list of
`<cwd>/.codelimit.yml`) and the lines of `<cwd>/.gitignore` - whatever the arguments are.  It is
asked about `abs_path.relative_to(Path.cwd())`, and not at all when that raises `ValueError`
(the file is not below the working directory).  This file gives names to these facts.
-/
namespace CL.C12cwd

open CL CL.Sel

/-! ## the exclusion function seen from a working directory -/

/-- **what the spec generated in `cwd` decides about the file with ABSOLUTE components `a`**:
below the working directory the patterns are matched against the path relative to the working
directory; a file that is not below the working directory is never excluded (not even by the
built-in list) -/
def exclFrom (O : Oracles) (cwd : List Str) (a : List Str) : Bool :=
  match relTo cwd a with
  | some rel => O.excluded rel
  | none => false

/-- the same libraries, with the exclusion test of a run in `cwd` expressed on absolute paths
(so that a run in `cwd` becomes a run in `/`) -/
def absView (O : Oracles) (cwd : List Str) : Oracles :=
  { O with excluded := exclFrom O cwd }

/-- **the exclusion function of a `scan` of `root` that `check`, run in `cwd`, agrees with**:
the libraries of the run in `cwd`, asked about the root-relative path `p` of a file of the
scanned root (absolute components `root`) -/
def viewFrom (O : Oracles) (cwd root : List Str) : Oracles :=
  { O with excluded := fun p => exclFrom O cwd (root ++ p) }

/-! ## ways of naming -/

/-- `arg`, typed in the working directory `cwd`, names the DIRECTORY with absolute components `a`:
its absolute path, or a path relative to the working directory (the model has no `..`
components, so relative paths name entries below the working directory only) -/
def NamesDir (cwd a : List Str) (arg : CheckArg) : Prop :=
  arg = .absDir a ∨ ∃ q, arg = .relDir q ∧ a = cwd ++ q

/-- `arg`, typed in `cwd`, names the FILE with absolute components `a` -/
def NamesFile (cwd a : List Str) (arg : CheckArg) : Prop :=
  arg = .absFile a ∨ ∃ q, arg = .relFile q ∧ a = cwd ++ q

/-- the absolute components of the file a `Path` handed to `check_file` denotes in `cwd` -/
def absOf (cwd : List Str) (p : CPath) : List Str :=
  if p.abs then p.comps else cwd ++ p.comps

/-- the absolute components an argument denotes in `cwd` -/
def argAbs (cwd : List Str) (arg : CheckArg) : List Str :=
  if arg.isAbs then arg.comps else cwd ++ arg.comps

/-- **the files a directory argument hands to the analysis when `check` runs in `cwd`**: the
file with absolute components `p` and bytes `c` lies below the directory `a` (entries `sub`), no
component BELOW `a` starts with a dot, the spec of the working directory does not exclude it
(`exclFrom`), and its name has the supported language `lang` -/
def CheckedFrom (O : Oracles) (cwd a : List Str) (sub : List Node) (p : List Str) (c : Str) (lang : Nat) : Prop :=
  ∃ q, p = a ++ q ∧ FileAt sub q c ∧ Visible q ∧ exclFrom O cwd p = false ∧
    O.langOf (baseName p) = some lang

/-! ## where the exclusion lines come from -/

/-- the two file formats read, as functions of the file's text -/
structure Readers where
  /-- `Path.read_text().splitlines()` of a `.gitignore` -/
  lines : Str → List Str
  /-- the `exclude` list of a `.codelimit.yml` document (`yaml.load`; `[]` without that key) -/
  yamlExclude : Str → List Str

/-- `text.splitlines()` for a text whose only line break is `\n` (files are read with universal
newlines; the other separators of `splitlines` - form feed, `\x1c`-`\x1e`, `\x85`, `\u2028`, `\u2029` -
are left to the `Readers` parameter): the pieces between line feeds, ALL of them including empty
ones, without a last empty piece after a final line feed -/
def splitLines (s : Str) : List Str :=
  if s = [] then []
  else
    let parts := s.splitOn 10
    if parts.getLast? = some [] then parts.dropLast else parts

/-- the text of the regular file `name` in the directory `dir` of the tree, if there is one -/
def fileIn (fs : Node) (dir : List Str) (name : Str) : Option Str :=
  match getNode fs (dir ++ [name]) with
  | some (.file _ c) => some c
  | _ => none

def gitignoreName : Str := Gi.str ".gitignore"
def configName : Str := Gi.str ".codelimit.yml"

/-- `Scanner._read_gitignore(dir)` (`None` without such a file) -/
def gitignoreAt (R : Readers) (fs : Node) (dir : List Str) : Option (List Str) :=
  (fileIn fs dir gitignoreName).map R.lines

/-- `Configuration.exclude` after the `--exclude` options `opts` and `Configuration.load(dir)` -/
def configuredAt (R : Readers) (fs : Node) (opts : List Str) (dir : List Str) : List Str :=
  opts ++ (match fileIn fs dir configName with | some c => R.yamlExclude c | none => [])

/-- the lines `generate_exclude_spec(dir)` hands to `PathSpec.from_lines` -/
def specLinesAt (R : Readers) (fs : Node) (opts : List Str) (dir : List Str) : List Str :=
  Pipeline.excludeLines (configuredAt R fs opts dir) (gitignoreAt R fs dir)

/-- ... and the configured / `.gitignore` lines among them as patterns of the modelled classes -/
def userPatsAt (R : Readers) (fs : Node) (opts : List Str) (dir : List Str) : Option (List Gi.Pat) :=
  Pipeline.userPats (configuredAt R fs opts dir) (gitignoreAt R fs dir)

/-- the libraries `B` with the pattern test of the lines `pats` (`Pipeline.oracles E pats` is
`withPats (Pipeline.oracles E []) pats`) -/
def withPats (B : Oracles) (pats : List Gi.Pat) : Oracles :=
  { B with excluded := Gi.excludedWith pats }

/-- **`codelimit scan <root>`** (from any working directory): `Configuration.load(path)` and
`generate_exclude_spec(path)` read the files of the scanned ROOT.  `none`: a line outside the
modelled pattern classes (blank lines and `#` comments are NOT outside: `Gi.parseAll` skips them,
as pathspec does), or `root` is not a directory of the tree. -/
def scanCmd (B : Oracles) (R : Readers) (fs : Node) (opts : List Str) (root : List Str) : Option ScanOut :=
  match userPatsAt R fs opts root, getNode fs root with
  | some pats, some (.dir n ch) => some (scanPath (withPats B pats) (.dir n ch))
  | _, _ => none

/-- **`codelimit check <args>`** run in `cwd`: `Configuration.load(Path('.'))` and
`generate_exclude_spec(Path.cwd())` read the files of the WORKING DIRECTORY. -/
def checkCmd (B : Oracles) (R : Readers) (fs : Node) (opts : List Str) (cwd : List Str) (args : List CheckArg) :
    Option CheckOut :=
  (userPatsAt R fs opts cwd).map fun pats => checkPaths (withPats B pats) fs cwd args

end CL.C12cwd
