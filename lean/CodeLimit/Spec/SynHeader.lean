import CodeLimit.Model.Token
/-!
# A syntactic description of the function headers found by the C-family header pattern

The C, C++, C# and Java language definitions use the header pattern
`[Name(), OneOrMore(Balanced("(", ")"))]`.  This file says, by plain recursion on the token list
(no automata, no predicate state), which token ranges that pattern matches greedily:

* a *group* starts at a punctuation token `(` and ends just past the matching punctuation token
  `)`; matching is by depth counting on the PUNCTUATION tokens `(` and `)` (token type in
  `Punctuation` and text equal, `Token.is_symbol`), as `Balanced` does with `Symbol`; a token of
  any other type with the text `(` or `)` (e.g. the content of the string literal `'('`) is an
  ordinary token;
* `groupEnd toks i` is the index just past the group that starts at `i` (`none`: `toks[i]` is not
  a punctuation token `(`, or the group is not closed before the end of the input);
* `groupsEnd toks i` is the index just past the maximal run of consecutive groups that starts at
  `i`; a last group that is never closed extends to the end of the input;
* `SynHeader toks p f`: `toks[p]` is a name token, `toks[p + 1]` is a punctuation token `(`, and
  `f` is `groupsEnd toks (p + 1)`.

`groupsEnd` is defined by one left-to-right pass that counts the nesting depth;
`Props/C01syn.lean` (`groupsEnd_closed`, `groupsEnd_unclosed`, `groupsEnd_not_open`) shows that
it is the iteration of `groupEnd`.
-/
namespace CL.Syn

/-- the token is the punctuation token `(` (`Token.is_symbol("(")`: type in `Punctuation` and
text `(`) -/
def isOpen (t : Tok) : Bool := t.isSymbol [40]

/-- the token is the punctuation token `)` (`Token.is_symbol(")")`) -/
def isClose (t : Tok) : Bool := t.isSymbol [41]

/-- `closeLen ts d`: the tokens `ts` are read inside `d + 1` open parentheses; the result is the
number of tokens up to and including the `)` that closes the outermost of them, `none` when the
input ends first (`(` and `)` are punctuation tokens throughout) -/
def closeLen : List Tok → Nat → Option Nat
  | [], _ => none
  | t :: ts, d =>
    if isOpen t then (closeLen ts (d + 1)).map (· + 1)
    else if isClose t then
      (match d with
        | 0 => some 1
        | d' + 1 => (closeLen ts d').map (· + 1))
    else (closeLen ts d).map (· + 1)

/-- the index just past the punctuation token `)` that matches the punctuation token `(` at index
`i`; `none` when `toks[i]` is not a punctuation token `(` or when that parenthesis is not closed -/
def groupEnd (toks : List Tok) (i : Nat) : Option Nat :=
  match toks.drop i with
  | [] => none
  | t :: ts => if isOpen t then (closeLen ts 0).map (i + 1 + ·) else none

/-- `groupsLen ts d`: the tokens `ts` are read inside `d` open parentheses; the result is the
number of tokens read before the pass stops.  Outside all parentheses (`d = 0`) the pass goes on
only with a punctuation token `(`; inside parentheses it reads every token, the punctuation
tokens `(` and `)` changing the depth.  It stops at the end of the input at the latest. -/
def groupsLen : List Tok → Nat → Nat
  | [], _ => 0
  | t :: ts, d =>
    if isOpen t then groupsLen ts (d + 1) + 1
    else match d with
      | 0 => 0
      | d' + 1 => if isClose t then groupsLen ts d' + 1 else groupsLen ts (d' + 1) + 1

/-- the index just past the maximal run of consecutive parenthesis groups that starts at index
`i` (`i` itself when `toks[i]` is not a punctuation token `(`; the end of the input when the last
group is not closed) -/
def groupsEnd (toks : List Tok) (i : Nat) : Nat := i + groupsLen (toks.drop i) 0

/-- `toks[i]` exists and is a name token -/
def NameAt (toks : List Tok) (i : Nat) : Prop := ∃ t, toks[i]? = some t ∧ t.isName = true

/-- `toks[i]` exists and is the punctuation token `(` -/
def OpenAt (toks : List Tok) (i : Nat) : Prop := ∃ t, toks[i]? = some t ∧ isOpen t = true

/-- `toks[i]` exists and is the punctuation token with text `s` (`Token.is_symbol(s)`) -/
def SymbolAt (toks : List Tok) (i : Nat) (s : Str) : Prop :=
  ∃ t, toks[i]? = some t ∧ t.isSymbol s = true

/-- `toks[i]` exists and is the keyword `s` -/
def KeywordAt (toks : List Tok) (i : Nat) (s : Str) : Prop :=
  ∃ t, toks[i]? = some t ∧ (t.isKeyword && t.val == s) = true

instance (toks : List Tok) (i : Nat) : Decidable (NameAt toks i) :=
  decidable_of_iff ((toks[i]?.any Tok.isName) = true) (by
    unfold NameAt; cases toks[i]? <;> simp)

instance (toks : List Tok) (i : Nat) : Decidable (OpenAt toks i) :=
  decidable_of_iff ((toks[i]?.any isOpen) = true) (by
    unfold OpenAt; cases toks[i]? <;> simp)

instance (toks : List Tok) (i : Nat) (s : Str) : Decidable (SymbolAt toks i s) :=
  decidable_of_iff ((toks[i]?.any (·.isSymbol s)) = true) (by
    unfold SymbolAt; cases toks[i]? <;> simp)

instance (toks : List Tok) (i : Nat) (s : Str) : Decidable (KeywordAt toks i s) :=
  decidable_of_iff ((toks[i]?.any (fun t => t.isKeyword && t.val == s)) = true) (by
    unfold KeywordAt; cases toks[i]? <;> simp)

/-- the token range `[p, f)` is a C-family function header: a name token, directly followed by
a punctuation token `(`, and `f` is just past the maximal run of parenthesis groups that starts
there -/
def SynHeader (toks : List Tok) (p f : Nat) : Prop :=
  NameAt toks p ∧ OpenAt toks (p + 1) ∧ f = groupsEnd toks (p + 1)

instance (toks : List Tok) (p f : Nat) : Decidable (SynHeader toks p f) := by
  unfold SynHeader; infer_instance

/-! ## follow-ups and previous-token filters of Java, JavaScript and TypeScript -/

/-- `braceAhead ts`: reading `ts` from the left, a punctuation token `{` comes before any other
token whose text is `;` or `{` (what `ZeroOrMore(And(Not(";"), Not("{")))` followed by
`Symbol("{")` accepts as a prefix) -/
def braceAhead : List Tok → Bool
  | [] => false
  | t :: ts =>
    if t.isSymbol [123] then true
    else if t.val == [59] || t.val == [123] then false
    else braceAhead ts

/-- `toks[i]` exists and is the operator token with text `s` -/
def OperatorAt (toks : List Tok) (i : Nat) (s : Str) : Prop :=
  ∃ t, toks[i]? = some t ∧ t.isOperator s = true

instance (toks : List Tok) (i : Nat) (s : Str) : Decidable (OperatorAt toks i s) :=
  decidable_of_iff ((toks[i]?.any (·.isOperator s)) = true) (by
    unfold OperatorAt; cases toks[i]? <;> simp)

/-- Java's follow-up test at index `f`: the symbol `{`, or the keyword `throws` followed by
tokens none of which has the text `;` or `{` and then the symbol `{` -/
def JavaFollow (toks : List Tok) (f : Nat) : Prop :=
  SymbolAt toks f [123] ∨
    (KeywordAt toks f [116, 104, 114, 111, 119, 115] ∧ braceAhead (toks.drop (f + 1)) = true)

/-- TypeScript's follow-up test (function / method pattern) at index `f`: the symbol `{`, or the
operator `:` (a return type annotation) followed by tokens none of which has the text `;` or `{`
and then the symbol `{` -/
def TsFollow (toks : List Tok) (f : Nat) : Prop :=
  SymbolAt toks f [123] ∨ (OperatorAt toks f [58] ∧ braceAhead (toks.drop (f + 1)) = true)

instance (toks : List Tok) (f : Nat) : Decidable (JavaFollow toks f) := by
  unfold JavaFollow; infer_instance

instance (toks : List Tok) (f : Nat) : Decidable (TsFollow toks f) := by
  unfold TsFollow; infer_instance

/-- Java's `filter_headers`: the token before index `p` (if any) is neither the keyword `record`
nor the keyword `new` -/
def JavaPrevOk (toks : List Tok) (p : Nat) : Prop :=
  ¬ (0 < p ∧ (KeywordAt toks (p - 1) [114, 101, 99, 111, 114, 100] ∨
    KeywordAt toks (p - 1) [110, 101, 119]))

instance (toks : List Tok) (p : Nat) : Decidable (JavaPrevOk toks p) := by
  unfold JavaPrevOk; infer_instance

/-- the token range `[p, f)` is a JavaScript / TypeScript function or method header: a syntactic
header `Name ( ... )`, optionally preceded by the keyword `function` -/
def FunHeader (toks : List Tok) (p f : Nat) : Prop :=
  SynHeader toks p f ∨
    (KeywordAt toks p [102, 117, 110, 99, 116, 105, 111, 110] ∧ SynHeader toks (p + 1) f)

instance (toks : List Tok) (p f : Nat) : Decidable (FunHeader toks p f) := by
  unfold FunHeader; infer_instance

/-- the start of the reported range of a function / method header whose NAME token has index `n`:
the keyword `function` directly in front of the name belongs to the header -/
def funStart (toks : List Tok) (n : Nat) : Nat :=
  if 0 < n ∧ KeywordAt toks (n - 1) [102, 117, 110, 99, 116, 105, 111, 110] then n - 1 else n

/-! ## the arrow-function pattern of JavaScript and TypeScript

`[Optional(Keyword("const")), Name(), Operator("="), Optional(Keyword("async")),
OneOrMore(Balanced("(", ")"))]` with the follow-up `[Symbol("=>"), Symbol("{")]`. -/

/-- the token range `[p, f)` is an arrow-function header: `[const] Name = [async]`, then `f` is just
past the maximal run of parenthesis groups that starts at index `g` -/
def ArrowHeader (toks : List Tok) (p f : Nat) : Prop :=
  ∃ n g, (n = p ∨ (n = p + 1 ∧ KeywordAt toks p [99, 111, 110, 115, 116])) ∧ NameAt toks n ∧
    OperatorAt toks (n + 1) [61] ∧
    (g = n + 2 ∨ (g = n + 3 ∧ KeywordAt toks (n + 2) [97, 115, 121, 110, 99])) ∧
    OpenAt toks g ∧ f = groupsEnd toks g

/-- the index of the first parenthesis of an assigned arrow function whose NAME token has index
`n`: `n + 2` (`Name = (`), or `n + 3` when the keyword `async` stands at `n + 2` -/
def arrowOpen (toks : List Tok) (n : Nat) : Nat :=
  if KeywordAt toks (n + 2) [97, 115, 121, 110, 99] then n + 3 else n + 2

/-- `toks[n]` is a Name token directly followed by `= (` or `= async (`: the start shape of the arrow
pattern (after the optional `const`) -/
def ArrowStartAt (toks : List Tok) (n : Nat) : Prop :=
  NameAt toks n ∧ OperatorAt toks (n + 1) [61] ∧ OpenAt toks (arrowOpen toks n)

/-- an assigned arrow function whose NAME token has index `n`: `Name = [async] ( … )+`, `f` just past
the maximal run of parenthesis groups -/
def ArrowHeaderAt (toks : List Tok) (n f : Nat) : Prop :=
  ArrowStartAt toks n ∧ f = groupsEnd toks (arrowOpen toks n)

/-- the follow-up test of the arrow pattern at index `f`: the symbol `=>` directly followed by the
symbol `{` -/
def ArrowFollow (toks : List Tok) (f : Nat) : Prop :=
  SymbolAt toks f [61, 62] ∧ SymbolAt toks (f + 1) [123]

/-- the start of the reported range of an arrow header whose NAME token has index `n`: the keyword
`const` directly in front of the name belongs to the header -/
def constStart (toks : List Tok) (n : Nat) : Nat :=
  if 0 < n ∧ KeywordAt toks (n - 1) [99, 111, 110, 115, 116] then n - 1 else n

instance (toks : List Tok) (n : Nat) : Decidable (ArrowStartAt toks n) := by
  unfold ArrowStartAt; infer_instance

instance (toks : List Tok) (n f : Nat) : Decidable (ArrowHeaderAt toks n f) := by
  unfold ArrowHeaderAt; infer_instance

instance (toks : List Tok) (f : Nat) : Decidable (ArrowFollow toks f) := by
  unfold ArrowFollow; infer_instance

end CL.Syn
