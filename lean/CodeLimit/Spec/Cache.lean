import CodeLimit.Model.Cache
/-!
# Specification vocabulary for the cache properties (C09, C10)
-/
namespace CL
namespace Cache

section
variable {Path Content Hash Entry Excl Version : Type}
variable [DecidableEq Path] [DecidableEq Hash] [DecidableEq Version]

/-- every row is the analysis of *some* content with that checksum, stored under its own path -/
def HonestRows (P : Params Path Content Hash Entry Excl Version)
    (es : List (Path × Hash × Entry)) : Prop :=
  ∀ r ∈ es, ∃ c : Content, r.2.1 = P.hash c ∧ r.2.2 = P.analyze r.1 c

/-- a cache file is honest when, if it is a document at all, all its rows are honest -/
def Honest (P : Params Path Content Hash Entry Excl Version)
    (c : CacheFile Path Hash Entry Version) : Prop :=
  ∀ v es, c = .doc v es → HonestRows P es

/-- a scan will use the cache file: it is a document of the current version -/
def Usable (P : Params Path Content Hash Entry Excl Version)
    (c : CacheFile Path Hash Entry Version) : Prop :=
  ∃ es, c = .doc P.cur es

/-- the invariant of all reachable states -/
def Inv (P : Params Path Content Hash Entry Excl Version)
    (s : State Path Content Hash Entry Excl Version) : Prop :=
  Honest P s.cache ∨ ¬ Usable P s.cache

/-- the side condition on what the environment may put in place of the cache file: nothing, junk,
a document of ANOTHER version with arbitrary (altered) entries, or an honest document of the
current version (an older cache, a cache copied from another checkout, ...).  All other
operations are unconstrained. -/
def Op.Allowed (P : Params Path Content Hash Entry Excl Version) :
    Op Path Content Hash Entry Excl Version → Prop
  | .replaceCache c =>
      c = .missing ∨ (∃ k, c = .junk k) ∨ (∃ v es, c = .doc v es ∧ v ≠ P.cur) ∨
      (∃ es, c = .doc P.cur es ∧ HonestRows P es)
  | _ => True

/-- the operation is a scan -/
def Op.isScan : Op Path Content Hash Entry Excl Version → Bool
  | .scan => true
  | _ => false

/-- the file-system part of the state is a map: no path occurs twice -/
def FsWF (s : State Path Content Hash Entry Excl Version) : Prop :=
  (s.fs.map (·.1)).Nodup

/-- faults of C10: everything that damages or removes the cache without forging a current one -/
def Op.Fault (P : Params Path Content Hash Entry Excl Version) :
    Op Path Content Hash Entry Excl Version → Prop
  | .replaceCache c => c = .missing ∨ (∃ k, c = .junk k) ∨ (∃ v es, c = .doc v es ∧ v ≠ P.cur)
  | .truncate _ => True
  | .removeCacheDir => True
  | .removeMarkers => True
  | _ => False

/-- The contract that ties the abstract cache file to bytes, for the reports in `Good` (the
reports a scan can write: the real writer is not injective on ALL row lists - duplicate keys,
strings with a surrogate pair, rows that hold an exception - so the contract must not quantify
over all of them).  `readCache` is what `_read_cached_report`/`ReportReader` make of the bytes of
an existing file, `writeReport` is `ReportWriter(report).to_json()` encoded as UTF-8.  (a) and (b)
are the statements of C08 / `C10_truncation` about the JSON model; (c) says that the only cuts
that do not matter remove trailing whitespace.  The instance for the real reader and writer
(`Model/Pipeline.lean`) with `Good` = "written by a scan" is `C10real.real_contract`; all three
clauses are also checked on the real reader and writer at every byte offset by the
correspondence run of C10. -/
structure ByteContract (P : Params Path Content Hash Entry Excl Version) (Byte : Type)
    (isWs : Byte → Bool)
    (readCache : List Byte → CacheFile Path Hash Entry Version)
    (writeReport : Report Path Hash Entry → List Byte)
    (Good : Report Path Hash Entry → Prop) : Prop where
  /-- (a) reading back a written report gives that report, at the current version -/
  roundtrip : ∀ r, Good r → readCache (writeReport r) = .doc P.cur r
  /-- (b) a prefix that lacks a non-whitespace byte is unreadable -/
  prefix_junk : ∀ r p, Good r → p <+: writeReport r →
    (∃ b ∈ (writeReport r).drop p.length, isWs b = false) → readCache p = .junk .unreadable
  /-- (c) a prefix that lacks only whitespace reads like the whole -/
  ws_cut : ∀ r p, Good r → p <+: writeReport r →
    (∀ b ∈ (writeReport r).drop p.length, isWs b = true) → readCache p = readCache (writeReport r)

end
end Cache
end CL
