import CodeLimit.Model.SelectCache
import CodeLimit.Spec.Tree
import CodeLimit.Spec.Pipeline
/-!
# Vocabulary for `scan_path(path, cached_report)` on trees (C09 at the level of `Model/Select.lean`)

Part 1 (namespace `CL.Sel`): what it means that a cached report is *honest* for the libraries `O`
(every entry is the analysis of some earlier content, stored under the path it was computed for),
on which contents the checksum must be collision-free, and histories of scans of arbitrary trees.

Part 2 (namespace `CL.Pipeline`): the adapter from the rows of a report document
(`Model/Pipeline.lean`: language NAME, `Int` fields, `Json.Meas`) to the `SourceFileEntry` of
`Model/Select.lean` (language NUMBER, `Nat` fields, `Measurement`), and the `dict`
`cached_report.codebase.files` the reader builds from the rows.
-/
namespace CL.Sel

/-- the same libraries under other exclusion lines (`Configuration.exclude`, `.gitignore`) -/
def Oracles.withExcluded (O : Oracles) (ex : List Str → Bool) : Oracles := { O with excluded := ex }

/-- `e` is what `_analyze_file` returns, under the libraries `O`, for a file with the printed
relative path `k` and bytes `c`: `k` is the rendering of a path of real names (non-empty, no `/`)
whose last component selects a supported lexer `lang`, and `e` is the `SourceFileEntry` built from
`k`, the checksum of `c`, `lang` and the measurements of the decoded bytes.  (The exclusion lines
play no role.) -/
def EntryOf (O : Oracles) (k c : Str) (e : FileEntry) : Prop :=
  ∃ p lang, p ≠ [] ∧ (∀ x ∈ p, goodName x = true) ∧ k = joinPath p ∧ O.langOf (baseName p) = some lang ∧
    analyzeFile O k (O.checksum c) lang c = .ok e

/-- **the invariant of C09 on a cached report**: every entry of `cached_report.codebase.files` is the
analysis of SOME content from `S` (the bytes the file had when the entry was computed), stored under
the path it was computed for.  `S` names the contents involved. -/
def HonestCache (O : Oracles) (S : Str → Prop) (cached : Option CachedFiles) : Prop :=
  ∀ files, cached = some files → ∀ kv ∈ files, ∃ c, S c ∧ EntryOf O kv.1 c kv.2

/-- `calculate_checksum` (MD5) has no collision among the contents `S` -/
def ChecksumInjOn (O : Oracles) (S : Str → Prop) : Prop :=
  ∀ a b, S a → S b → O.checksum a = O.checksum b → a = b

/-- the selected file with components `p` and bytes `c` is served from the cache: the cached report
exists and holds, UNDER THE PRINTED PATH OF `p`, an entry whose checksum is the checksum of `c` -/
def Served (O : Oracles) (cached : Option CachedFiles) (p : List Str) (c : Str) : Prop :=
  ∃ files ce, cached = some files ∧ dictGet files (joinPath p) = some ce ∧ ce.checksum = O.checksum c

/-! ## histories of scans -/

/-- one run of `codelimit scan`: the exclusion lines in force and the directory as it is then -/
structure Visit where
  excluded : List Str → Bool
  rootName : Str
  entries : List Node

def Visit.root (v : Visit) : Node := .dir v.rootName v.entries

/-- the cached report the NEXT scan finds: `scan_command` writes the report only when `scan_path`
returns; when an analysis raises, the old cache file stays -/
def nextCache (cached : Option CachedFiles) (out : ScanOut) : Option CachedFiles :=
  match out.result with
  | .ok files => some files
  | .error _ => cached

/-- the cached report after a sequence of scans (between which the directory and the exclusion
lines change arbitrarily), each scan using the report of the last completed one -/
def cacheAfter (O : Oracles) : Option CachedFiles → List Visit → Option CachedFiles
  | cached, [] => cached
  | cached, v :: vs =>
    cacheAfter O (nextCache cached (scanPathCached (O.withExcluded v.excluded) cached v.root)) vs

end CL.Sel

namespace CL.Pipeline

open CL CL.Sel

/-! ## from the rows of a report document to `SourceFileEntry`s -/

/-- the lexer number of a language name (`Languages.by_name`); a name that is not a supported
language gets the number `numLangs`, whose name is the empty string -/
def langNum (s : Str) : Nat :=
  ((List.range numLangs).find? (fun i => langName i == s)).getD numLangs

/-- a report measurement with natural-number fields -/
def measBack (m : Json.Meas) : Measurement :=
  ⟨m.unitName, m.sl.toNat, m.sc.toNat, m.el.toNat, m.ec.toNat, m.value.toNat⟩

/-- the `SourceFileEntry` for a row of the document -/
def selOfRow (key checksum : Str) (r : Row) : FileEntry :=
  ⟨key, checksum, langNum r.language, r.loc.toNat, r.measurements.map measBack⟩

def entryOfRow (r : CacheRow) : FileEntry :=
  match r.2.2 with
  | .ok row => selOfRow r.1 r.2.1 row
  | .error _ => selOfRow r.1 r.2.1 default

/-- a row that `Model/Select.lean` can express: the language is a supported one (or the empty
name), the numbers are natural numbers.  (Rows written by a scan are; a hand-made document may hold
negative numbers or an unknown language name.) -/
def RowOk (r : CacheRow) : Prop :=
  ∃ row, r.2.2 = .ok row ∧ rowOfSel (selOfRow r.1 r.2.1 row) = row

/-- `RowOk` as a test -/
def rowOkB (r : CacheRow) : Bool :=
  match r.2.2 with
  | .ok row => decide (rowOfSel (selOfRow r.1 r.2.1 row) = row)
  | .error _ => false

theorem rowOkB_iff (r : CacheRow) : rowOkB r = true ↔ RowOk r := by
  obtain ⟨k, h, e⟩ := r
  cases e with
  | error e => simp [rowOkB, RowOk]
  | ok row => simp [rowOkB, RowOk]

instance (r : CacheRow) : Decidable (RowOk r) := decidable_of_iff _ (rowOkB_iff r)

/-- `ReportReader.from_json`: `codebase.add_file(SourceFileEntry(k, …))` for the entries in
document order, i.e. `files[k] = entry` on an insertion-ordered `dict` (a repeated key keeps its
place and takes the later value) -/
def dictOfRows (es : List CacheRow) : CachedFiles :=
  es.foldl (fun d r => dictSet d r.1 (entryOfRow r)) []

/-- the `cached_report` argument of `scan_path` for an abstract cache file: `None` unless it is a
document of the current version (`_read_cached_report`) -/
def cacheOfFile (E : Env) (cf : CacheFileT) : Option CachedFiles :=
  (Cache.readCachedReport (cacheParams E) cf).map dictOfRows

/-- … and for the bytes of `.codelimit_cache/codelimit.json` (`none`: no such file) -/
def cacheOf (E : Env) (prev : Option Str) : Option CachedFiles := cacheOfFile E (readCache prev)

/-- every row a scan would look at can be expressed in `Model/Select.lean` -/
def FileOk (E : Env) (cf : CacheFileT) : Prop :=
  ∀ es, Cache.readCachedReport (cacheParams E) cf = some es → ∀ r ∈ es, RowOk r

end CL.Pipeline
