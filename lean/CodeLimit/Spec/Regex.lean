import CodeLimit.Model.Regex
/-!
# Specification vocabulary for the pattern engine (C13, C14, C06)

`Lang r w` is the regular language of a pattern (the semantics the property refers to);
`Path E p w q` says the NFA with edge list `E` can go from state `p` to state `q` reading `w`.
These are the only definitions the property theorems share with the helper lemmas.
-/
namespace CL

variable {α : Type}

/-- the regular language of a pattern -/
inductive Lang : Rx α → List α → Prop where
  | atom (a : α) : Lang (.atom a) [a]
  | cat {r s u v} : Lang r u → Lang s v → Lang (.cat r s) (u ++ v)
  | altL {r s u} : Lang r u → Lang (.alt r s) u
  | altR {r s u} : Lang s u → Lang (.alt r s) u
  | optNil {r} : Lang (.opt r) []
  | optSome {r u} : Lang r u → Lang (.opt r) u
  | starNil {r} : Lang (.star r) []
  | starCons {r u v} : Lang r u → Lang (.star r) v → Lang (.star r) (u ++ v)
  | plusOne {r u} : Lang r u → Lang (.plus r) u
  | plusCons {r u v} : Lang r u → Lang (.plus r) v → Lang (.plus r) (u ++ v)

/-- runs of an NFA given by its edge list -/
inductive Path (E : List (Edge α)) : Nat → List α → Nat → Prop where
  | nil (q) : Path E q [] q
  | eps {p q r w} : Edge.eps p q ∈ E → Path E q w r → Path E p w r
  | sym {p q r a w} : Edge.sym p a q ∈ E → Path E q w r → Path E p (a :: w) r

/-- ε-reachability -/
abbrev EpsReach (E : List (Edge α)) (p q : Nat) : Prop := Path E p [] q

/-- a set-iteration order: yields every element exactly once, in some order -/
def IsOrder (ord : List α → List α) : Prop := ∀ l, (ord l).Perm l

end CL
