import CodeLimit.Model.Decode
/-!
# Vocabulary for the theorems about `_read_file` (Props/Gaps.lean, part 4)
-/
namespace CL.Decode

/-- a Unicode scalar value: a code point below U+110000 that is not a surrogate -/
def isScalar (c : Nat) : Bool := c < 1114112 && !(55296 ≤ c && c ≤ 57343)

/-- every element is a byte -/
def IsBytes (bs : Bytes) : Prop := ∀ b ∈ bs, b < 256

instance (bs : Bytes) : Decidable (IsBytes bs) := by unfold IsBytes; infer_instance

end CL.Decode
