import CodeLimit.Model.Token
import CodeLimit.Gen.Excludes
/-!
# Exclusion patterns: six classes of `gitignore` lines, as pathspec 0.12.1 reads them

`Scanner.generate_exclude_spec(root)` builds

```
PathSpec.from_lines("gitignore", DEFAULT_EXCLUDES + Configuration.exclude + <lines of root/.gitignore>)
```

and `Scanner.is_excluded(path, spec)` is `spec.match_file(path)` for the root-relative path of a
FILE (`scan_path`, `check_command`: directories are never asked; `os.walk` only prunes hidden
directories). `"gitignore"` is pathspec's `GitWildMatchPattern`: every line is translated to one
regular expression (`pattern_to_regex`) that is matched against the path written with `/`
(`util.normalize_file`); a path is excluded when the last line that matches is not a negation,
which - without negations - is: when some line matches.

This file models that decision for the lines of six classes (everything else is outside the
fragment: `Pat.parse` answers `none`), plus the lines pathspec ignores (blank lines and `#`
comments: `ignoredLine`, skipped by `parseAll`):

| class      | text      | pathspec's normalised segments | regular expression               |
|------------|-----------|--------------------------------|----------------------------------|
| `name x`   | `x`       | `**`, `x`                      | `^(?:.+/)?x(?:/.*)?$`            |
| `dirOnly d`| `d/`      | `**`, `d`, `**`                | `^(?:.+/)?d/.*$`                 |
| `ext e`    | `*e`      | `**`, `*e`                     | `^(?:.+/)?[^/]*e(?:/.*)?$`       |
| `rel ps`   | `a/b[/c]` | `a`, `b`, ...                  | `^a/b(?:/.*)?$`                  |
| `under a`  | `a/*`     | `a`, `*`                       | `^a/[^/]+(?:/.*)?$`              |
| `rooted ps`| `/a[/b]`  | `a`, ...                       | `^a(?:/.*)?$`                    |

(`x`, `d`, `a`, `b` plain names, `e` a dot followed by plain characters). The translation has two
steps, as in `pattern_to_regex`: `Pat.norm` is the normalisation (a line without `/` other than
a trailing one floats: `**` is prepended; a trailing `/` asks for something below: `**` is
appended; any other `/` anchors the line at the root), `Norm.matches` is the meaning of the
regular expression on the components of the path.

Contract for paths: the components of a root-relative path as `os.walk` produces them - non-empty,
without `/`, without line breaks, neither `.` nor `..`. A path is the list of its components.
-/
namespace CL.Gi

abbrev Path := List Str

/-- the code points of a string literal -/
def str (s : String) : Str := s.toList.map Char.toNat

/-! ## texts -/

/-- a character that stands for itself in a gitignore line: printable ASCII other than
`/` `*` `?` `[` `]` `\` (blanks, control characters and non-ASCII characters are outside the
fragment) -/
def plainChar (c : Nat) : Bool :=
  decide (33 ≤ c) && decide (c ≤ 126) && !(c == 47 || c == 42 || c == 63 || c == 91 || c == 93 || c == 92)

/-- a plain name: non-empty, plain characters only, not `.` or `..` -/
def plainName (x : Str) : Bool :=
  !x.isEmpty && x.all plainChar && x != [46] && x != [46, 46]

/-- the part after `*` in `*.ext`: a dot followed by plain characters -/
def isExt (e : Str) : Bool :=
  match e with
  | 46 :: r => r.all plainChar
  | _ => false

/-- `s.split("/")` -/
def splitSlash : Str → List Str
  | [] => [[]]
  | c :: r =>
    if c = 47 then [] :: splitSlash r
    else
      match splitSlash r with
      | [] => [[c]]
      | s :: ss => (c :: s) :: ss

/-- `"/".join(segments)` -/
def joinSlash : List Str → Str
  | [] => []
  | [s] => s
  | s :: r => s ++ 47 :: joinSlash r

/-- a line of the exclusion list, one of six classes -/
inductive Pat where
  /-- `x` -/
  | name (x : Str)
  /-- `d/` -/
  | dirOnly (d : Str)
  /-- `*e` where `e` is `.ext` -/
  | ext (e : Str)
  /-- `a/b`, `a/b/c`, ... (two or more names) -/
  | rel (ps : List Str)
  /-- `a/*` -/
  | under (a : Str)
  /-- `/a`, `/a/b`, ... (one or more names) -/
  | rooted (ps : List Str)
  deriving Repr, DecidableEq, Inhabited

/-- the line as it is written -/
def Pat.text : Pat → Str
  | .name x => x
  | .dirOnly d => d ++ [47]
  | .ext e => 42 :: e
  | .rel ps => joinSlash ps
  | .under a => a ++ [47, 42]
  | .rooted ps => 47 :: joinSlash ps

/-- the segments of a line, classified; `segs = s.split("/")` -/
def classify (segs : List Str) : Option Pat :=
  match segs with
  | [] => none
  | [x] =>
    if plainName x then some (.name x)
    else
      match x with
      | 42 :: e => if isExt e then some (.ext e) else none
      | _ => none
  | x :: y :: r =>
    if x = [] then (if (y :: r).all plainName then some (.rooted (y :: r)) else none)
    else if r = [] ∧ y = [] then (if plainName x then some (.dirOnly x) else none)
    else if r = [] ∧ y = [42] then (if plainName x then some (.under x) else none)
    else if (x :: y :: r).all plainName then some (.rel (x :: y :: r)) else none

/-- **which texts belong to which class.** `none`: the line is outside the modelled fragment
(blank, comment `#`, negation `!`, `**`, `?`, character classes, escapes, blanks anywhere,
`.`/`..` segments, empty segments, mixed forms such as `a/b/`, `/a/`, `/a/*`, `a/*.c`) -/
def Pat.parse (s : Str) : Option Pat :=
  match s with
  | [] => none
  | c :: _ => if c = 33 ∨ c = 35 then none else classify (splitSlash s)

/-- the names of a line are as its class demands -/
def Pat.wfNames : Pat → Bool
  | .name x => plainName x
  | .dirOnly d => plainName d
  | .ext e => isExt e
  | .rel ps => decide (2 ≤ ps.length) && ps.all plainName
  | .under a => plainName a
  | .rooted ps => !ps.isEmpty && ps.all plainName

/-- the lines of the fragment, said directly (what `parse` accepts: `C11pat.parse_iff`): names as
the class demands, and the line starts neither with `!` (negation) nor with `#` (comment) -/
def Pat.wf (q : Pat) : Bool :=
  q.wfNames && q.text.head? != some 33 && q.text.head? != some 35

/-! ## meaning -/

/-- one segment of a normalised line -/
inductive Seg where
  /-- a plain name: `re.escape(name)` -/
  | lit (x : Str)
  /-- `*e`: `[^/]*` followed by `re.escape(e)` -/
  | suffix (e : Str)
  /-- `*` alone: `[^/]+` -/
  | any
  deriving Repr, DecidableEq

/-- a path component against one segment -/
def Seg.matches : Seg → Str → Bool
  | .lit x, c => c == x
  | .suffix e, c => e.isSuffixOf c
  | .any, c => !c.isEmpty

/-- a line after the normalisation of `pattern_to_regex` -/
structure Norm where
  /-- `**` was prepended: the regular expression starts with `(?:.+/)?`, so the segments may start
  at any component; otherwise they start at the first component -/
  floating : Bool
  segs : List Seg
  /-- the line ended in `/`: the regular expression ends in `/.*$` (something must follow the
  segments); otherwise in `(?:/.*)?$` (anything or nothing may follow) -/
  dirOnly : Bool
  deriving Repr, DecidableEq

/-- the segments, component by component from the start of `p`, then the tail rule -/
def matchFrom (dirOnly : Bool) : List Seg → Path → Bool
  | [], rest => !dirOnly || !rest.isEmpty
  | _ :: _, [] => false
  | s :: ss, c :: cs => s.matches c && matchFrom dirOnly ss cs

/-- the segments starting at some component of `p` -/
def matchAny (dirOnly : Bool) (segs : List Seg) : Path → Bool
  | [] => matchFrom dirOnly segs []
  | c :: cs => matchFrom dirOnly segs (c :: cs) || matchAny dirOnly segs cs

def Norm.matches (n : Norm) (p : Path) : Bool :=
  if n.floating then matchAny n.dirOnly n.segs p else matchFrom n.dirOnly n.segs p

/-- pathspec's normalisation of the six classes -/
def Pat.norm : Pat → Norm
  | .name x => ⟨true, [.lit x], false⟩
  | .dirOnly d => ⟨true, [.lit d], true⟩
  | .ext e => ⟨true, [.suffix e], false⟩
  | .rel ps => ⟨false, ps.map .lit, false⟩
  | .under a => ⟨false, [.lit a, .any], false⟩
  | .rooted ps => ⟨false, ps.map .lit, false⟩

/-- `GitWildMatchPattern(line).match_file(path)` is a match, for the root-relative path of a file -/
def Pat.matches (q : Pat) (p : Path) : Bool := q.norm.matches p

/-- `PathSpec(lines).match_file(path)` for lines without negation: some line matches -/
def excludedBy (pats : List Pat) (p : Path) : Bool := pats.any (fun q => q.matches p)

/-! ## the built-in list -/

/-- the names of `Scanner.DEFAULT_EXCLUDES` (generated: `Gen/Excludes.lean`) -/
def builtinNames : List Str := Gen.Excludes.defaultExcludes.map str

/-- `DEFAULT_EXCLUDES` as patterns: all of class `name` (theorem `C11pat.builtin_parse`) -/
def builtin : List Pat := builtinNames.map .name

/-- the decision of `generate_exclude_spec`: built-in list, then the configured lines
(`--exclude`, `.codelimit.yml`), then the lines of the root `.gitignore`; `user` holds the last
two, in any order -/
def excludedWith (user : List Pat) (p : Path) : Bool := excludedBy (builtin ++ user) p

/-- **a line pathspec ignores**: `GitWildMatchPattern.pattern_to_regex` strips the line and returns
the null pattern (regex `None`, matches nothing, decides nothing) when the rest is empty or starts
with `#` - blank lines and comments, as in git.  (Blank = space or tab here; Python's `strip()`
removes more kinds of white space: lines made of those are simply outside the fragment.) -/
def ignoredLine (s : Str) : Bool :=
  match s.dropWhile (fun c => c == 32 || c == 9) with
  | [] => true
  | c :: _ => c == 35

/-- all lines of a list parsed, **blank lines and `#` comment lines skipped** (`ignoredLine`: they
contribute no pattern, as in pathspec and git); `none` when one of the other lines is outside the
fragment.  `_read_gitignore` hands over ALL lines of the file (`read_text().splitlines()`), so
this is what makes the result `some` on ordinary `.gitignore` files. -/
def parseAll : List Str → Option (List Pat)
  | [] => some []
  | s :: r =>
    if ignoredLine s then parseAll r
    else
      match Pat.parse s, parseAll r with
      | some q, some qs => some (q :: qs)
      | _, _ => none

end CL.Gi
