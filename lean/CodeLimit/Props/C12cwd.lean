import CodeLimit.Lemmas.C12cwdRun
import CodeLimit.Lemmas.PipelineScan
import CodeLimit.Props.C12
import CodeLimit.Props.Gaps
/-!
# C12 / C03 from ANY working directory

`Props/C12.lean` states C12 with the working directory at the root of the scanned tree
(`checkPaths O root [] args`).  Here the tree `fs = Node.dir bn base` starts at `/`, the working
directory `cwd` and the checked directory `a` are arbitrary absolute component lists (`cwd`
inside, above, below or beside `a`), and a directory is named by its absolute path or relative to
`cwd` (`NamesDir cwd a arg`; the model has no `..` components).

The oracle `O` of `checkPaths O fs cwd args` is the ONE spec `check_command` builds from the
working directory (`generate_exclude_spec(Path.cwd())`, check.py line 17; `Configuration.load(Path('.'))`,
`__main__.py` line 100).  What it decides about a file at absolute path `p` is
`exclFrom O cwd p` (`Spec/C12cwd.lean`): the patterns are matched against the path RELATIVE TO
`cwd`, and a file that is not below `cwd` is never excluded - not even by the built-in list.

Results:
0. `run_in_cwd_is_run_at_base`: a run in `cwd` is a run in `/` with the exclusion function
   `exclFrom O cwd` (so every theorem of `Props/C12.lean` transfers).
1. `check_dir_agrees_with_scan_view`: `check` of a directory `a` from `cwd` agrees - same files,
   same order, same error, risks of the scan's measurements - with `scan a` under the exclusion
   function `viewFrom O cwd a`, which is the scan's own only when `cwd = a` (`view_from_root`,
   `check_from_root_agrees_with_scan`, `location_of_root_irrelevant`) and otherwise is NOT
   (`view_from_above`, `view_from_below`, `view_from_elsewhere`, `excluded_from_cwd_iff`).
   Sources (`exclusion_lines_read`, `checkCmd_agrees_with_scan_under_cwd_sources`,
   `checkCmd_from_root_agrees_with_scanCmd`): `check` reads `.codelimit.yml` / `.gitignore` of the
   working directory, `scan` those of the root.  Kernel-checked witnesses, all reproduced on the
   real code: `check_below_root_differs_from_scan`, `check_root_from_below_witness`,
   `builtin_exclusions_depend_on_cwd`.
2. `checked_files_any_cwd`, `same_outcome_however_named`, `same_files_as_from_root_under_view`,
   `listed_functions_any_cwd`, `named_file_any_cwd`, `named_absolute_file_any_cwd`,
   `listed_entries_denote_files`, `analysed_entries_are_files`, `printed_form_any_cwd`.
3. `visible_below_argument_is_checked` (nothing is asked of the components of `cwd` and `a`),
   `hidden_below_argument_skipped_any_cwd`, `hidden_file_named_from_cwd_is_checked`,
   `hidden_root_examples`.
4. `check_error_only_from_analysis`, `exit_status_zero_or_one`, `check_total_any_cwd`,
   `check_total_pipeline_any_cwd`, `check_several_arguments`.

Not covered (the model has no `..` components, `Model/Select.lean`): on the real code a directory
named with `..` (`check ..`) is walked under the non-normalised path `<cwd>/..`, so
`relative_to(cwd)` succeeds lexically and the patterns of `cwd` ARE applied, to `../x/f.py` -
a different file set than for the same directory named absolutely.
-/
namespace CL.C12cwd

open CL CL.Sel CL.C11 CL.C12

variable (O : Oracles) (bn : Str) (base : List Node) (cwd : List Str)

/-! ## (0) a run in `cwd` is a run in `/` with another exclusion function -/

/-- **Reduction.**  `check <directory>` run in the working directory `cwd` - the directory named
absolutely or relative to `cwd` - is `check <absolute path>` run in `/` by a tool whose exclusion
test is `exclFrom O cwd`: match the path relative to `cwd` if the file is below `cwd`, exclude
nothing otherwise.  (All of `Props/C12.lean` applies to the right-hand side.) -/
theorem run_in_cwd_is_run_at_base (hwf : wfDir base = true) {a : List Str} {sub : List Node}
    (hd : DirAt base a sub) {arg : CheckArg} (harg : NamesDir cwd a arg) :
    checkPaths O (.dir bn base) cwd [arg] = checkPaths (absView O cwd) (.dir bn base) [] [.absDir a] := by
  rw [checkPaths_items, checkPaths_items]
  simp only [List.flatMap_cons, List.flatMap_nil, List.append_nil]
  rw [argItems_dir hwf hd harg, argItems_dir hwf hd (.inl rfl)]
  simp only [dirItems, absView_nil]
  rw [runItems_congr (O := O) (O' := absView O cwd) rfl rfl]

/-- the outcome in terms of the sequential check of `Lemmas/SelectCheck.lean` -/
theorem checkCommand_dir_cwd (hwf : wfDir base = true) {a : List Str} {sub : List Node}
    (hd : DirAt base a sub) {arg : CheckArg} (harg : NamesDir cwd a arg) :
    checkPaths O (.dir bn base) cwd [arg] =
      ⟨(runCheck (absView O cwd) true ((cands a sub).filterMap (passes (absView O cwd)))).1,
       (runCheck (absView O cwd) true ((cands a sub).filterMap (passes (absView O cwd)))).2⟩ := by
  rw [run_in_cwd_is_run_at_base O bn base cwd hwf hd harg]
  exact checkCommand_dir (absView O cwd) bn base sub a (.absDir a) (.inr rfl) hwf hd

/-! ## (1) the exclusion function a run in `cwd` applies to the files of a root `a` -/

/-- **working directory = root**: the scan's own exclusion function (the situation of
`Props/C12.lean`, wherever the root lies in the file system) -/
theorem view_from_root (root : List Str) : viewFrom O root root = O := viewFrom_self O root

/-- **working directory ABOVE the root** (`check src` in the project directory): the spec of
the working directory, matched against the path from the working directory - the components `s`
between `cwd` and the root take part in the match -/
theorem view_from_above (s p : List Str) :
    (viewFrom O cwd (cwd ++ s)).excluded p = O.excluded (s ++ p) := by
  rw [viewFrom_excluded, List.append_assoc, exclFrom_below]

/-- **working directory BELOW the root** (in `root/s`, checking `root` by its absolute path):
a file below the working directory is matched by its path from the working directory; every
other file of the root is kept, whatever the patterns say -/
theorem view_from_below (root s p : List Str) :
    (viewFrom O (root ++ s) root).excluded p =
      (match relTo s p with
       | some r => O.excluded r
       | none => false) ∧
    (∀ r, (viewFrom O (root ++ s) root).excluded (s ++ r) = O.excluded r) ∧
    (¬ s <+: p → (viewFrom O (root ++ s) root).excluded p = false) := by
  refine ⟨?_, fun r => ?_, fun h => ?_⟩
  · simp only [viewFrom_excluded, exclFrom, relTo_append_left]
    cases relTo s p <;> rfl
  · rw [viewFrom_excluded, ← List.append_assoc, exclFrom_below]
  · rw [viewFrom_excluded]
    apply exclFrom_outside
    rintro ⟨t, ht⟩
    exact h ⟨t, List.append_cancel_left (by rw [← List.append_assoc]; exact ht)⟩

/-- **working directory BESIDE the root** (neither contains the other): nothing is excluded -/
theorem view_from_elsewhere {root : List Str} (h1 : ¬ cwd <+: root) (h2 : ¬ root <+: cwd) (p : List Str) :
    (viewFrom O cwd root).excluded p = false := by
  rw [viewFrom_excluded]
  apply exclFrom_outside
  intro hp
  rcases List.prefix_or_prefix_of_prefix hp (List.prefix_append root p) with h | h
  · exact h1 h
  · exact h2 h

/-- **`check` of a directory from any working directory agrees with `scan` of that directory
under the exclusion function seen from the working directory.**  For the directory `a` of the
tree, named absolutely or relatively in `cwd`: `check` analyses the files that
`scan a` analyses when its exclusion test is `viewFrom O cwd a`, in the same order (the paths
handed to `check_file` are absolute: `a` followed by the scan's root-relative path); it fails
when that scan fails, with the same exception; otherwise it lists, file by file, the risks of
that scan's measurements. -/
theorem check_dir_agrees_with_scan_view (hwf : wfDir base = true) {a : List Str} {sub : List Node}
    (hd : DirAt base a sub) {arg : CheckArg} (harg : NamesDir cwd a arg) (n : Str) :
    let C := checkPaths O (.dir bn base) cwd [arg]
    let S := scanPath (viewFrom O cwd a) (.dir n sub)
    C.analysed.map (fun cp => joinPath (cp.comps.drop a.length)) = S.analysed ∧
    (∀ cp ∈ C.analysed, cp.abs = true ∧ a <+: cp.comps) ∧
    (∀ e, S.result = .error e → C.result = .error e) ∧
    (∀ files, S.result = .ok files →
      ∃ fl, C.result = .ok fl ∧ (∀ pr ∈ fl, pr.1.abs = true ∧ a <+: pr.1.comps) ∧
        fl.map (fun pr => (joinPath (pr.1.comps.drop a.length), pr.2)) =
          files.map (fun ke => (ke.1, risksOf ke.2.ms))) := by
  intro C S
  have hsub : wfDir sub = true := hd.wf hwf
  have hC : C = ⟨(runCheck (absView O cwd) true ((cands a sub).filterMap (passes (absView O cwd)))).1,
       (runCheck (absView O cwd) true ((cands a sub).filterMap (passes (absView O cwd)))).2⟩ :=
    checkCommand_dir_cwd O bn base cwd hwf hd harg
  have hS : S = _ := scanPath_eq (viewFrom O cwd a) n sub hsub
  obtain ⟨s1, s2⟩ := runCheck_shift (viewFrom O cwd a) (absView O cwd) true a rfl rfl
    (selection (viewFrom O cwd a) sub)
  rw [← selection_shift] at s1 s2
  have hv := runCheck_vs_runSel (viewFrom O cwd a) true (selection (viewFrom O cwd a) sub)
  have hdrop : ∀ (cp : CPath), ((shiftPath a cp).comps.drop a.length) = cp.comps := by
    intro cp; simp [shiftPath]
  rw [hC, hS]
  simp only [s1, s2]
  refine ⟨?_, ?_, ?_, ?_⟩
  · rw [List.map_map, ← hv.1]
    apply List.map_congr_left
    intro cp _
    simp [Function.comp, hdrop]
  · intro cp hcp
    obtain ⟨cp', hcp', rfl⟩ := List.mem_map.1 hcp
    obtain ⟨x, _, rfl⟩ := runCheck_analysed_subset _ true _ cp' hcp'
    exact ⟨rfl, List.prefix_append _ _⟩
  · intro e he
    rcases hr : (runSel (viewFrom O cwd a) (selection (viewFrom O cwd a) sub)).2 with e' | es
    · simp only [hr, Except.error.injEq] at he
      subst he
      have := hv.2
      simp only [hr] at this
      rw [this]
    · simp [hr] at he
  · intro files hfiles
    rcases hr : (runSel (viewFrom O cwd a) (selection (viewFrom O cwd a) sub)).2 with e' | es
    · simp [hr] at hfiles
    · simp only [hr, Except.ok.injEq] at hfiles
      subst hfiles
      have := hv.2
      simp only [hr] at this
      obtain ⟨fl, h1, h2, h3⟩ := this
      rw [h1]
      refine ⟨_, rfl, ?_, ?_⟩
      · intro pr hpr
        obtain ⟨pr', hpr', rfl⟩ := List.mem_map.1 hpr
        have : pr'.1 ∈ fl.map (·.1) := List.mem_map.2 ⟨pr', hpr', rfl⟩
        rw [h3] at this
        obtain ⟨x, _, hx⟩ := List.mem_map.1 this
        simp only [shiftPath, ← hx]
        exact ⟨trivial, List.prefix_append _ _⟩
      · have h2' : fl.map (fun pr => (joinPath pr.1.comps, pr.2)) =
            (asDict es).map (fun ke => (ke.1, risksOf ke.2.ms)) := by
          rw [h2]; simp [asDict, List.map_map, Function.comp_def]
        rw [← h2', List.map_map]
        apply List.map_congr_left
        intro pr _
        simp [hdrop]

/-- **Working directory = root: `check` agrees with `scan`** - `C12.check_root_agrees_with_scan`
for a root anywhere in the file system (`.` or the root's absolute path). -/
theorem check_from_root_agrees_with_scan (hwf : wfDir base = true) {root : List Str} {sub : List Node}
    (hd : DirAt base root sub) {arg : CheckArg} (harg : arg = .relDir [] ∨ arg = .absDir root) (n : Str) :
    let C := checkPaths O (.dir bn base) root [arg]
    let S := scanPath O (.dir n sub)
    C.analysed.map (fun cp => joinPath (cp.comps.drop root.length)) = S.analysed ∧
    (∀ e, S.result = .error e → C.result = .error e) ∧
    (∀ files, S.result = .ok files →
      ∃ fl, C.result = .ok fl ∧
        fl.map (fun pr => (joinPath (pr.1.comps.drop root.length), pr.2)) =
          files.map (fun ke => (ke.1, risksOf ke.2.ms))) := by
  have hn : NamesDir root root arg := by
    rcases harg with rfl | rfl
    · exact .inr ⟨[], rfl, by simp⟩
    · exact .inl rfl
  have h := check_dir_agrees_with_scan_view O bn base root hwf hd hn n
  rw [view_from_root] at h
  obtain ⟨h1, _, h3, h4⟩ := h
  refine ⟨h1, h3, fun files hf => ?_⟩
  obtain ⟨fl, hfl, _, hmap⟩ := h4 files hf
  exact ⟨fl, hfl, hmap⟩

/-! ## (2) the files checked and the functions listed, from any working directory -/

/-- **The files checked through a directory, from any working directory.**  For the directory
`a` (entries `sub`), named absolutely or relatively in `cwd`: only files `CheckedFrom O cwd a sub`
are analysed (whether or not the run completes); when the run completes the list holds exactly
those files, each once, under its absolute path, with the risks of its measurements.
`CheckedFrom`: below `a`, no component below `a` hidden, not excluded by the spec of `cwd`
(`exclFrom`), supported language. -/
theorem checked_files_any_cwd (hwf : wfDir base = true) {a : List Str} {sub : List Node}
    (hd : DirAt base a sub) {arg : CheckArg} (harg : NamesDir cwd a arg) :
    (∀ cp ∈ (checkPaths O (.dir bn base) cwd [arg]).analysed,
      cp.abs = true ∧ ∃ c lang, CheckedFrom O cwd a sub cp.comps c lang) ∧
    (∀ fl, (checkPaths O (.dir bn base) cwd [arg]).result = .ok fl →
      (fl.map (·.1)).Nodup ∧
      ∀ cp r, (cp, r) ∈ fl ↔ cp.abs = true ∧ ∃ c lang ms, CheckedFrom O cwd a sub cp.comps c lang ∧
        O.analyze lang (O.decode c) = .ok ms ∧ r = risksOf ms) := by
  rw [run_in_cwd_is_run_at_base O bn base cwd hwf hd harg]
  exact directory_argument (absView O cwd) bn base hwf hd (.absDir a) (.inr rfl)

/-- **However the directory is named - absolutely or relative to the working directory - the
outcome is the same**, including the paths handed to `check_file` (always absolute) and hence
the lines printed. -/
theorem same_outcome_however_named (hwf : wfDir base = true) {a : List Str} {sub : List Node}
    (hd : DirAt base a sub) {arg arg' : CheckArg} (harg : NamesDir cwd a arg) (harg' : NamesDir cwd a arg') :
    checkPaths O (.dir bn base) cwd [arg] = checkPaths O (.dir bn base) cwd [arg'] := by
  rw [run_in_cwd_is_run_at_base O bn base cwd hwf hd harg, run_in_cwd_is_run_at_base O bn base cwd hwf hd harg']

/-- **The same files and functions as from the root.**  `check` of the directory `a` from `cwd`
analyses and lists what `check .` run IN `a` (the directory as the root of its own tree) analyses
and lists when its exclusion function is `viewFrom O cwd a` - file by file, in the same order,
with the same error; only the paths handed to `check_file` differ by the leading `a`. -/
theorem same_files_as_from_root_under_view (hwf : wfDir base = true) {a : List Str} {sub : List Node}
    (hd : DirAt base a sub) {arg : CheckArg} (harg : NamesDir cwd a arg) (n : Str) :
    let C := checkPaths O (.dir bn base) cwd [arg]
    let R := checkPaths (viewFrom O cwd a) (.dir n sub) [] [.relDir []]
    C.analysed = R.analysed.map (shiftPath a) ∧
    C.result = (match R.result with
      | .ok fl => .ok (fl.map (fun pr => (shiftPath a pr.1, pr.2)))
      | .error e => .error e) := by
  intro C R
  have hC : C = _ := checkCommand_dir_cwd O bn base cwd hwf hd harg
  have hR : R = _ := checkCommand_dir (viewFrom O cwd a) n sub sub [] (.relDir []) (.inl rfl) (hd.wf hwf) .root
  obtain ⟨s1, s2⟩ := runCheck_shift (viewFrom O cwd a) (absView O cwd) true a rfl rfl
    (selection (viewFrom O cwd a) sub)
  rw [← selection_shift] at s1 s2
  rw [hC, hR]
  exact ⟨s1, s2⟩

/-- **Where the root lies does not matter** (`cwd = root`): `check .` (or the root's absolute
path) run in a root with absolute components `root` analyses and lists exactly what it analyses
and lists when that directory is itself the base of the tree - the components of `root`, hidden
or not, only appear in front of the paths. -/
theorem location_of_root_irrelevant (hwf : wfDir base = true) {root : List Str} {sub : List Node}
    (hd : DirAt base root sub) {arg : CheckArg} (harg : arg = .relDir [] ∨ arg = .absDir root) (n : Str) :
    let C := checkPaths O (.dir bn base) root [arg]
    let R := checkPaths O (.dir n sub) [] [.relDir []]
    C.analysed = R.analysed.map (shiftPath root) ∧
    C.result = (match R.result with
      | .ok fl => .ok (fl.map (fun pr => (shiftPath root pr.1, pr.2)))
      | .error e => .error e) := by
  have hn : NamesDir root root arg := by
    rcases harg with rfl | rfl
    · exact .inr ⟨[], rfl, by simp⟩
    · exact .inl rfl
  have h := same_files_as_from_root_under_view O bn base root hwf hd hn n
  rw [view_from_root] at h
  exact h

/-- **The functions listed for a file are the risks of the scan's measurements**, from any working
directory: if `scan a` under the exclusion function seen from `cwd` holds the entry `e` for the
file with root-relative path `p`, then `check` of `a` from `cwd` lists that file, under the
absolute path `a ++ p`, with exactly `risksOf e.ms` - the measured functions longer than 30
lines, longest first, ties in scan order (`C12.listed_iff`, `listed_sorted`, `listed_stable`). -/
theorem listed_functions_any_cwd (hwf : wfDir base = true) {a : List Str} {sub : List Node}
    (hd : DirAt base a sub) {arg : CheckArg} (harg : NamesDir cwd a arg) (n : Str)
    {p : List Str} {c : Str} {lang : Nat} (hs : Selected (viewFrom O cwd a) sub p c lang)
    {files : List (Str × FileEntry)} (hscan : (scanPath (viewFrom O cwd a) (.dir n sub)).result = .ok files)
    {e : FileEntry} (he : (joinPath p, e) ∈ files) :
    ∃ fl, (checkPaths O (.dir bn base) cwd [arg]).result = .ok fl ∧ (⟨true, a ++ p⟩, risksOf e.ms) ∈ fl ∧
      ∀ r, (⟨true, a ++ p⟩, r) ∈ fl → r = risksOf e.ms := by
  have hsub : wfDir sub = true := hd.wf hwf
  obtain ⟨fl0, h0, h1, h2⟩ := scanned_file_checked_through_directory (viewFrom O cwd a) n sub hsub hs hscan he
    .root (List.nil_prefix) (.relDir []) (.inl rfl)
  have hsame := same_files_as_from_root_under_view O bn base cwd hwf hd harg n
  simp only [h0] at hsame
  refine ⟨_, hsame.2, ?_, ?_⟩
  · exact List.mem_map.2 ⟨_, h1, rfl⟩
  · intro r hr
    obtain ⟨⟨cp, r'⟩, hm, heq⟩ := List.mem_map.1 hr
    simp only [shiftPath, Prod.mk.injEq, CPath.mk.injEq] at heq
    obtain ⟨⟨habs, hcomps⟩, rfl⟩ := heq
    have : cp = ⟨true, p⟩ := by
      cases cp
      simp only [CPath.mk.injEq]
      exact ⟨habs, List.append_cancel_left hcomps⟩
    subst this
    exact h2 _ hm

/-! ## files named directly, from any working directory -/

/-- **a file named relative to the working directory** (`cwd ++ q` is a file of the tree): the
spec of the working directory is asked about `q`, the path as typed; hidden components are not
tested; `check_file` receives the path as typed -/
theorem named_file_any_cwd (hwf : wfDir base = true) {q : List Str} {c : Str} (hf : FileAt base (cwd ++ q) c) :
    checkPaths O (.dir bn base) cwd [.relFile q] =
      if O.excluded q then ⟨[], .ok []⟩
      else match O.langOf (baseName q) with
        | none => ⟨[], .ok []⟩
        | some lang =>
          match O.analyze lang (O.decode c) with
          | .error e => ⟨[⟨false, q⟩], .error e⟩
          | .ok ms => ⟨[⟨false, q⟩], .ok [(⟨false, q⟩, risksOf ms)]⟩ := by
  rw [checkPaths_items]
  simp only [List.flatMap_cons, List.flatMap_nil, List.append_nil]
  rw [argItems_file hwf hf (.inr ⟨q, rfl, rfl⟩)]
  simp only [fileItems, CheckArg.isAbs, CheckArg.comps, Bool.not_false, Bool.true_and]
  by_cases hx : O.excluded q = true
  · simp [hx, runItems]
  · simp only [hx, Bool.false_eq_true, if_false]
    rcases hl : O.langOf (baseName q) with _ | l
    · simp [runItems]
    · simp only [runItems]
      rcases ha : O.analyze l (O.decode c) with e | ms <;> simp

/-- **a file named by its absolute path is never tested against the patterns**, wherever the
working directory is (outside the property's quantifier, recorded as in `Props/C12.lean`) -/
theorem named_absolute_file_any_cwd (hwf : wfDir base = true) {a : List Str} {c : Str} (hf : FileAt base a c) :
    checkPaths O (.dir bn base) cwd [.absFile a] =
      match O.langOf (baseName a) with
      | none => ⟨[], .ok []⟩
      | some lang =>
        match O.analyze lang (O.decode c) with
        | .error e => ⟨[⟨true, a⟩], .error e⟩
        | .ok ms => ⟨[⟨true, a⟩], .ok [(⟨true, a⟩, risksOf ms)]⟩ := by
  rw [checkPaths_items]
  simp only [List.flatMap_cons, List.flatMap_nil, List.append_nil]
  rw [argItems_file hwf hf (.inl rfl)]
  simp only [fileItems, CheckArg.isAbs, CheckArg.comps, Bool.not_true, Bool.false_and, Bool.false_eq_true,
    if_false]
  rcases hl : O.langOf (baseName a) with _ | l
  · simp [runItems]
  · simp only [runItems]
    rcases ha : O.analyze l (O.decode c) with e | ms <;> simp

/-! ## every listed entry is a file of the tree, and its printed path denotes it -/

/-- **Whatever the arguments and the working directory, every entry of the file list is a
regular file of the tree**: the `Path` handed to `check_file`, interpreted in `cwd`, leads to a
file whose bytes are the bytes that were analysed, with the language of its name, and the list
holds the risks of that analysis.  **The path printed for it denotes that file**
(`Gaps.printed_path_denotes`): when the working directory and the file's path contain no `.` /
`..` components (directory listings never do), the printed path - relative below the working
directory, absolute elsewhere - resolves in `cwd` to the file's absolute path. -/
theorem listed_entries_denote_files (args : List CheckArg) {fl : List (CPath × List Measurement)}
    (h : (checkPaths O (.dir bn base) cwd args).result = .ok fl) :
    ∀ pr ∈ fl, ∃ c lang ms, FileAt base (absOf cwd pr.1) c ∧ O.langOf (baseName pr.1.comps) = some lang ∧
      O.analyze lang (O.decode c) = .ok ms ∧ pr.2 = risksOf ms ∧
      (Print.Normal cwd → Print.Normal (absOf cwd pr.1) →
        Print.resolve cwd (Print.printedPath cwd pr.1) = absOf cwd pr.1) := by
  rw [checkPaths_items] at h
  intro pr hpr
  obtain ⟨x, hx, ms, hms, rfl⟩ := ((runItems_ok h).2.2 pr).1 hpr
  obtain ⟨arg, _, hxa⟩ := List.mem_flatMap.1 hx
  obtain ⟨hf, hl⟩ := argItems_sound hxa
  refine ⟨x.2.2, x.2.1, ms, hf, hl, hms, rfl, fun hc hn => ?_⟩
  rw [Gaps.printed_path_denotes cwd hc]
  have : Print.resolve cwd x.1 = Print.normComps (absOf cwd x.1) := rfl
  rw [this, Print.normComps_plain hn]

/-- the same for the files handed to the analysis when the run does not complete -/
theorem analysed_entries_are_files (args : List CheckArg) :
    ∀ cp ∈ (checkPaths O (.dir bn base) cwd args).analysed,
      ∃ c lang, FileAt base (absOf cwd cp) c ∧ O.langOf (baseName cp.comps) = some lang := by
  rw [checkPaths_items]
  intro cp hcp
  obtain ⟨x, hx, rfl⟩ := runItems_analysed_subset O _ cp hcp
  obtain ⟨arg, _, hxa⟩ := List.mem_flatMap.1 hx
  obtain ⟨hf, hl⟩ := argItems_sound hxa
  exact ⟨x.2.2, x.2.1, hf, hl⟩

/-- **The form of the printed path for a directory argument**: a file below the working
directory is printed relative to it (the components after `cwd`, joined by `/`); a file that is
not below the working directory is printed with its absolute path - no `relpath` / `relative_to`
error in either case (defect F15). -/
theorem printed_form_any_cwd (hc : Print.Normal cwd) :
    (∀ rest, Print.Normal rest → rest ≠ [] → Print.printedPathStr cwd ⟨true, cwd ++ rest⟩ = joinPath rest) ∧
    (∀ p, ¬ cwd <+: p → Print.printedPathStr cwd ⟨true, p⟩ = 47 :: joinPath p) :=
  ⟨fun rest hr hne => Gaps.printed_relative_below_cwd cwd rest hc hr hne,
   fun p hp => by rw [Gaps.printed_as_given cwd ⟨true, p⟩ (.inr (.inl hp))]; rfl⟩

/-! ## (3) hidden components: above the argument they do not matter, below it they do -/

/-- **Nothing is asked of the components of the working directory or of the argument.**  A file
below the checked directory `a` with no hidden component BELOW `a`, not excluded by the spec of
the working directory, with a supported language, is analysed and listed (when the run completes)
- whether or not `cwd` or `a` have components that start with a dot (the working directory itself
hidden, the root inside a hidden directory).  Such components can matter only as TEXT for the
patterns, through `exclFrom` (e.g. the built-in pattern `.venv` when `.venv` lies between `cwd`
and the file: example `hidden_root_examples`). -/
theorem visible_below_argument_is_checked (hwf : wfDir base = true) {a : List Str} {sub : List Node}
    (hd : DirAt base a sub) {arg : CheckArg} (harg : NamesDir cwd a arg)
    {q : List Str} {c : Str} {lang : Nat} (hf : FileAt sub q c) (hv : Visible q)
    (hx : exclFrom O cwd (a ++ q) = false) (hl : O.langOf (baseName (a ++ q)) = some lang)
    {fl : List (CPath × List Measurement)} (hfl : (checkPaths O (.dir bn base) cwd [arg]).result = .ok fl) :
    ∃ ms, O.analyze lang (O.decode c) = .ok ms ∧ (⟨true, a ++ q⟩, risksOf ms) ∈ fl := by
  have hchk : CheckedFrom O cwd a sub (a ++ q) c lang := ⟨q, rfl, hf, hv, hx, hl⟩
  have hC := checkCommand_dir_cwd O bn base cwd hwf hd harg
  rw [hC] at hfl
  obtain ⟨_, h2⟩ := runCheck_ok hfl
  have hm : checkItem (absView O cwd) true (a ++ q, lang, c) ∈ fl.map Except.ok := by
    rw [← h2]
    exact List.mem_map.2 ⟨_, mem_dir_selection.2 hchk, rfl⟩
  obtain ⟨pr, hpr, he⟩ := List.mem_map.1 hm
  simp only [checkItem, absView_analyze, absView_decode] at he
  rcases ha : O.analyze lang (O.decode c) with e | ms
  · simp [ha] at he
  · simp only [ha, Except.ok.injEq] at he
    exact ⟨ms, rfl, he ▸ hpr⟩

/-- **A hidden component BELOW the directory given does matter**, from any working directory:
such a file (a hidden directory on the way from `a`, or a hidden file name) is neither analysed
nor listed when reached through `a` -/
theorem hidden_below_argument_skipped_any_cwd (hwf : wfDir base = true) {a q : List Str} {sub : List Node}
    (hd : DirAt base a sub) (hq : ¬ Visible q) {arg : CheckArg} (harg : NamesDir cwd a arg) :
    (∀ cp ∈ (checkPaths O (.dir bn base) cwd [arg]).analysed, cp.comps ≠ a ++ q) ∧
    (∀ fl, (checkPaths O (.dir bn base) cwd [arg]).result = .ok fl → ∀ pr ∈ fl, pr.1.comps ≠ a ++ q) := by
  rw [run_in_cwd_is_run_at_base O bn base cwd hwf hd harg]
  exact hidden_file_skipped_through_directory (absView O cwd) bn base hwf hd hq (.absDir a) (.inr rfl)

/-- ... while the same file named directly (relative to the working directory) is checked:
`_handle_file_path` has no dot test -/
theorem hidden_file_named_from_cwd_is_checked (hwf : wfDir base = true) {q : List Str} {c : Str}
    (hf : FileAt base (cwd ++ q) c) (hx : O.excluded q = false) {lang : Nat}
    (hl : O.langOf (baseName q) = some lang) {ms : List Measurement}
    (hms : O.analyze lang (O.decode c) = .ok ms) :
    checkPaths O (.dir bn base) cwd [.relFile q] = ⟨[⟨false, q⟩], .ok [(⟨false, q⟩, risksOf ms)]⟩ := by
  rw [named_file_any_cwd O bn base cwd hwf hf]
  simp [hx, hl, hms]

/-! ## (4) C03: no path-arithmetic error, from any working directory, for any arguments -/

/-- **The only exception `check` can raise comes from the analysis of a file of the tree.**  For
every tree, every working directory (inside or outside any argument, existing or not) and every
list of arguments (relative, absolute, files, directories, missing entries): if the run fails
with `e`, then `e` was raised by `lex` / `scan_file` on the decoded bytes of a regular file that
an argument reached.  In particular `relative_to` (`relTo = none`, `ValueError`) never escapes:
defect F15.  (What is proved: nothing ELSE in the model raises.  That `relative_to`'s `ValueError`
is caught is the transcription `| none => checkFile …` of `except ValueError: pass`
(`Model/Select.lean`), tied by correspondence.  Errors of the operating system - an unreadable
file, an argument that is neither file nor directory - are outside the model.) -/
theorem check_error_only_from_analysis (args : List CheckArg) {e : Err}
    (h : (checkPaths O (.dir bn base) cwd args).result = .error e) :
    ∃ arg ∈ args, ∃ cp lang c, FileAt base (absOf cwd cp) c ∧ O.langOf (baseName cp.comps) = some lang ∧
      O.analyze lang (O.decode c) = .error e := by
  rw [checkPaths_items] at h
  obtain ⟨x, hx, he⟩ := runItems_error h
  obtain ⟨arg, harg, hxa⟩ := List.mem_flatMap.1 hx
  obtain ⟨hf, hl⟩ := argItems_sound hxa
  exact ⟨arg, harg, x.1, x.2.1, x.2.2, hf, hl, he⟩

/-- **the exit status computed at the end of `check_command`, for every file list**: 1 exactly
when some listed function of some checked file is longer than 60 lines, 0 otherwise (the counters
of `CheckResult.add` summed over the whole run; C02's `exit_code_iff` on what `check` really
collected, from any working directory) -/
theorem exit_status_iff (quiet : Bool) (fl : List (CPath × List Measurement)) :
    ((Print.checkOutput quiet cwd fl).exitCode = 1 ↔ ∃ fm ∈ fl, ∃ m ∈ fm.2, 60 < m.len) ∧
    ((Print.checkOutput quiet cwd fl).exitCode = 0 ↔ ∀ fm ∈ fl, ∀ m ∈ fm.2, m.len ≤ 60) := by
  have hpos : (0 < (Print.counters fl).2) ↔ ∃ fm ∈ fl, ∃ m ∈ fm.2, 60 < m.len := by
    rw [Print.counters_eq]
    simp only [Int.natCast_pos, List.length_pos_iff, ne_eq, List.filter_eq_nil_iff, List.mem_flatMap,
      decide_eq_true_eq, not_forall, Gen.Logic.check_counts_unmaintainable]
    constructor
    · rintro ⟨m, ⟨fm, hfm, hm⟩, hlen⟩
      exact ⟨fm, hfm, m, hm, by omega⟩
    · rintro ⟨fm, hfm, m, hm, hlen⟩
      exact ⟨m, ⟨fm, hfm, hm⟩, by omega⟩
  simp only [Print.checkOutput, Gen.Logic.check_exit_code]
  constructor
  · rw [← hpos]
    split <;> simp_all
  · have : (∀ fm ∈ fl, ∀ m ∈ fm.2, m.len ≤ 60) ↔ ¬ ∃ fm ∈ fl, ∃ m ∈ fm.2, 60 < m.len := by
      constructor
      · rintro h ⟨fm, hfm, m, hm, hlt⟩
        have := h fm hfm m hm
        omega
      · intro h fm hfm m hm
        by_contra hc
        exact h ⟨fm, hfm, m, hm, by omega⟩
    rw [this, ← hpos]
    split <;> simp_all

/-- hence the exit status is 0 or 1 (definitional: `check_exit_code` is an `if`; the content is
`exit_status_iff` and that the end of `check_command` is REACHED, `check_total_any_cwd`) -/
theorem exit_status_zero_or_one (quiet : Bool) (fl : List (CPath × List Measurement)) :
    (Print.checkOutput quiet cwd fl).exitCode = 0 ∨ (Print.checkOutput quiet cwd fl).exitCode = 1 := by
  simp only [Print.checkOutput, Gen.Logic.check_exit_code]
  split
  · exact .inr rfl
  · exact .inl rfl

/-- **Totality.**  If the analysis of a text never raises (C03's `analyze_total`, here the
hypothesis on the oracle), then `check` with ANY arguments from ANY working directory completes:
`check_command` reaches its end with a file list, prints what `Print.checkOutput` says (the
printed path of every entry is defined: `relpath` is applied only below the working directory)
and exits with status 0 or 1. -/
theorem check_total_any_cwd (htotal : ∀ lang text, ∃ ms, O.analyze lang text = .ok ms)
    (args : List CheckArg) (quiet : Bool) :
    ∃ fl, (checkPaths O (.dir bn base) cwd args).result = .ok fl ∧
      ((Print.checkOutput quiet cwd fl).exitCode = 0 ∨ (Print.checkOutput quiet cwd fl).exitCode = 1) := by
  rw [checkPaths_items]
  obtain ⟨fl, hfl⟩ := runItems_total (O := O) (items := args.flatMap (argItems O (.dir bn base) cwd))
    (fun x _ => htotal _ _)
  exact ⟨fl, hfl, exit_status_zero_or_one cwd quiet fl⟩

/-- **Totality of the composed model** (`Model/Pipeline.lean`: the analysis is `lex` +
`scan_file` of the shipped languages, the pattern test is the pattern model): for EVERY
environment (every lexer output, every decoder), every exclusion list, every tree, working
directory and argument list, `check` completes with exit status 0 or 1. -/
theorem check_total_pipeline_any_cwd (E : Pipeline.Env) (pats : List Gi.Pat) (args : List CheckArg) (quiet : Bool) :
    ∃ fl, (checkPaths (Pipeline.oracles E pats) (.dir bn base) cwd args).result = .ok fl ∧
      ((Print.checkOutput quiet cwd fl).exitCode = 0 ∨ (Print.checkOutput quiet cwd fl).exitCode = 1) :=
  check_total_any_cwd (Pipeline.oracles E pats) bn base cwd (fun lang text => Pipeline.analyzeText_total E lang text)
    args quiet

/-- **Several arguments**: the run on `args₁ ++ args₂` is the run on `args₁` followed, if it
completes, by the run on `args₂` (analysed paths and file lists are concatenated; the first
exception ends the run).  So the single-argument theorems describe every run. -/
theorem check_several_arguments (fs : Node) (args₁ args₂ : List CheckArg) :
    checkPaths O fs cwd (args₁ ++ args₂) =
      match (checkPaths O fs cwd args₁).result with
      | .error e => ⟨(checkPaths O fs cwd args₁).analysed, .error e⟩
      | .ok fl => ⟨(checkPaths O fs cwd args₁).analysed ++ (checkPaths O fs cwd args₂).analysed,
          match (checkPaths O fs cwd args₂).result with
          | .ok fl' => .ok (fl ++ fl')
          | .error e => .error e⟩ := by
  simp only [checkPaths_items, List.flatMap_append, runItems_append]
  rcases (runItems O (args₁.flatMap (argItems O fs cwd))).2 with e | fl <;> rfl

/-! ## (1, continued) which files supply the exclusion lines -/

/-- **exactly which files the spec of the working directory excludes**: those BELOW the working
directory whose path relative to it matches -/
theorem excluded_from_cwd_iff (p : List Str) :
    exclFrom O cwd p = true ↔ ∃ rel, p = cwd ++ rel ∧ O.excluded rel = true := by
  constructor
  · intro h
    rcases hr : relTo cwd p with _ | rel
    · rw [exclFrom_none O hr] at h; cases h
    · rw [exclFrom_some O hr] at h
      exact ⟨rel, relTo_eq_some.1 hr, h⟩
  · rintro ⟨rel, rfl, h⟩
    rw [exclFrom_below]; exact h

section Sources

variable (B : Oracles) (R : Readers) (opts : List Str)

/-- **`check` reads `.codelimit.yml` and `.gitignore` of the WORKING DIRECTORY, whatever its
arguments** (`Configuration.load(Path('.'))`, `generate_exclude_spec(Path.cwd())`), **`scan` those
of the scanned ROOT** (`Configuration.load(path)`, `generate_exclude_spec(path)`): the lines handed
to pathspec, spelled out.  No other file of the tree (a `.gitignore` of the root when `cwd` is
below it, of a sub-directory, of the argument) is read. -/
theorem exclusion_lines_read (fs : Node) (dir : List Str) :
    specLinesAt R fs opts dir =
      Gi.builtinNames ++
      (opts ++ (match fileIn fs dir configName with | some c => R.yamlExclude c | none => [])) ++
      (match fileIn fs dir gitignoreName with | some c => R.lines c | none => []) := by
  simp only [specLinesAt, Pipeline.excludeLines, configuredAt, gitignoreAt]
  cases fileIn fs dir gitignoreName <;> rfl

/-- **`check` from any working directory agrees with a scan of the checked directory whose
exclusion sources are those visible from the working directory**: the built-in list, the
`--exclude` options, `<cwd>/.codelimit.yml` and `<cwd>/.gitignore` (lines `pats`), matched against
paths relative to `cwd`, for files below `cwd` only (`viewFrom`, `excluded_from_cwd_iff`).
Hypothesis `hp`: the `--exclude` options, the `exclude` entries of `.codelimit.yml` and the lines of
`.gitignore` are blank lines, `#` comments (both skipped, as pathspec does: `C11pat.parseAll_iff`)
or lines of the six modelled classes; the witness files below contain all three kinds. -/
theorem checkCmd_agrees_with_scan_under_cwd_sources (hwf : wfDir base = true) {a : List Str} {sub : List Node}
    (hd : DirAt base a sub) {arg : CheckArg} (harg : NamesDir cwd a arg) (n : Str)
    {pats : List Gi.Pat} (hp : userPatsAt R (.dir bn base) opts cwd = some pats) :
    ∃ C, checkCmd B R (.dir bn base) opts cwd [arg] = some C ∧
      let S := scanPath (viewFrom (withPats B pats) cwd a) (.dir n sub)
      C.analysed.map (fun cp => joinPath (cp.comps.drop a.length)) = S.analysed ∧
      (∀ e, S.result = .error e → C.result = .error e) ∧
      (∀ files, S.result = .ok files →
        ∃ fl, C.result = .ok fl ∧
          fl.map (fun pr => (joinPath (pr.1.comps.drop a.length), pr.2)) =
            files.map (fun ke => (ke.1, risksOf ke.2.ms))) := by
  refine ⟨checkPaths (withPats B pats) (.dir bn base) cwd [arg], by simp only [checkCmd, hp, Option.map_some], ?_⟩
  obtain ⟨h1, _, h3, h4⟩ := check_dir_agrees_with_scan_view (withPats B pats) bn base cwd hwf hd harg n
  refine ⟨h1, h3, fun files hf => ?_⟩
  obtain ⟨fl, hfl, _, hmap⟩ := h4 files hf
  exact ⟨fl, hfl, hmap⟩

/-- **From the root, `check .` and `scan` read the same files and agree** (the existing C12
theorem with the sources made explicit): same analysed files in the same order, same error, the
risks of the scan's measurements. -/
theorem checkCmd_from_root_agrees_with_scanCmd (hwf : wfDir base = true) {root : List Str} {sub : List Node}
    (hd : DirAt base root sub) {arg : CheckArg} (harg : arg = .relDir [] ∨ arg = .absDir root)
    {pats : List Gi.Pat} (hp : userPatsAt R (.dir bn base) opts root = some pats) :
    ∃ C S, checkCmd B R (.dir bn base) opts root [arg] = some C ∧ scanCmd B R (.dir bn base) opts root = some S ∧
      C.analysed.map (fun cp => joinPath (cp.comps.drop root.length)) = S.analysed ∧
      (∀ e, S.result = .error e → C.result = .error e) ∧
      (∀ files, S.result = .ok files →
        ∃ fl, C.result = .ok fl ∧
          fl.map (fun pr => (joinPath (pr.1.comps.drop root.length), pr.2)) =
            files.map (fun ke => (ke.1, risksOf ke.2.ms))) := by
  obtain ⟨n, hn⟩ := getNode_dirAt hd bn hwf
  refine ⟨checkPaths (withPats B pats) (.dir bn base) root [arg], scanPath (withPats B pats) (.dir n sub),
    by simp only [checkCmd, hp, Option.map_some], by simp only [scanCmd, hp, hn], ?_⟩
  exact check_from_root_agrees_with_scan (withPats B pats) bn base hwf hd harg n

end Sources

/-! ## Witnesses and non-vacuity: one file system, several working directories

```
/w/root/.gitignore        (1)               /w/tests/proj/a.py
/w/root/top.py                              /w/.hid/proj/h.py
/w/root/build/b.py                          /w/.hid/proj/.dot/z.py
/w/root/sub/.gitignore    (2)               /w/.venv/proj/v.py
/w/root/sub/gen.py
/w/root/sub/keep.py
```
(1) = a comment line, a blank line, `gen.py`; (2) = `keep.py`, a blank line, an indented comment
without final newline.  Every `.py` file holds one function of 41 lines named like the file's text.  The same tree was
built on disk and the real `check_command` / `scan` were run from the same working directories:
the real code gives the same file sets (see the report of task P29). -/

section Witness

def wstr (s : String) : Str := s.toList.map Char.toNat

/-- `.py` is language 0; the analysis returns one function of 41 lines named like the text; the
exclusion field is a placeholder (`withPats` replaces it) -/
def wB : Oracles where
  excluded _ := false
  langOf n := if (wstr ".py").isSuffixOf n then some 0 else none
  checksum c := c
  decode c := c
  analyze _ t := .ok [⟨t, 1, 1, 41, 2, 41⟩]

/-- the lines of a text as `splitlines()` gives them - blank lines and comments included -; no
`.codelimit.yml` content is read in the examples -/
def wR : Readers where
  lines := splitLines
  yamlExclude _ := []

example : splitLines (wstr "# c\n\ngen.py\n") = [wstr "# c", [], wstr "gen.py"] ∧ splitLines [] = [] ∧
    splitLines (wstr "\n") = [[]] ∧ splitLines (wstr "a\n\nb") = [wstr "a", [], wstr "b"] := by decide +kernel

/-- the entries of `/w/root` -/
def wRootCh : List Node :=
  [.file (wstr ".gitignore") (wstr "# generated files\n\ngen.py\n"),
   .file (wstr "top.py") (wstr "t"),
   .dir (wstr "build") [.file (wstr "b.py") (wstr "b")],
   .dir (wstr "sub")
     [.file (wstr ".gitignore") (wstr "keep.py\n\n  # trailing comment"),
      .file (wstr "gen.py") (wstr "g"),
      .file (wstr "keep.py") (wstr "k")]]

/-- the entries of `/` -/
def wBase : List Node :=
  [.dir (wstr "w")
    [.dir (wstr "root") wRootCh,
     .dir (wstr "tests") [.dir (wstr "proj") [.file (wstr "a.py") (wstr "a")]],
     .dir (wstr ".hid") [.dir (wstr "proj") [.file (wstr "h.py") (wstr "h"),
                                             .dir (wstr ".dot") [.file (wstr "z.py") (wstr "z")]]],
     .dir (wstr ".venv") [.dir (wstr "proj") [.file (wstr "v.py") (wstr "v")]]]]

def wFs : Node := .dir [] wBase

def wRoot : List Str := [wstr "w", wstr "root"]
def wSub : List Str := [wstr "w", wstr "root", wstr "sub"]

theorem wBase_wf : wfDir wBase = true := by decide +kernel

/-- the lines read: at the root a comment, a blank line and `gen.py`, in `sub` `keep.py`, a blank
line and an indented comment, in `/w` none; the patterns are `gen.py` resp. `keep.py` (blank lines
and comments are skipped, as pathspec does) -/
example : gitignoreAt wR wFs wRoot = some [wstr "# generated files", [], wstr "gen.py"] ∧
    gitignoreAt wR wFs wSub = some [wstr "keep.py", [], wstr "  # trailing comment"] ∧
    gitignoreAt wR wFs [wstr "w"] = none ∧
    userPatsAt wR wFs [] wRoot = some [.name (wstr "gen.py")] ∧
    userPatsAt wR wFs [] wSub = some [.name (wstr "keep.py")] := by
  refine ⟨?_, ?_, ?_, ?_, ?_⟩ <;> decide +kernel

/-- the paths handed to the analysis, as absolute path strings -/
def shown (o : Option CheckOut) : Option (List Str) := o.map fun c => c.analysed.map Print.pathStr

/-- `scan /w/root` (from anywhere) analyses `top.py` and `sub/keep.py`: `gen.py` is excluded by the
root's `.gitignore`, `build/b.py` by the built-in list; `sub/.gitignore` is not read -/
theorem scan_root_witness :
    (scanCmd wB wR wFs [] wRoot).map (·.analysed) = some [wstr "top.py", wstr "sub/keep.py"] := by
  decide +kernel

/-- `check .` run in `/w/root` analyses the same two files (`checkCmd_from_root_agrees_with_scanCmd`) -/
theorem check_from_root_witness :
    shown (checkCmd wB wR wFs [] wRoot [.relDir []]) = some [wstr "/w/root/top.py", wstr "/w/root/sub/keep.py"] := by
  decide +kernel

/-- **Witness: `check` run below the root differs from `scan root`, in both directions.**
`check .` run in `/w/root/sub` analyses `gen.py` - which `scan /w/root` excludes, because the
root's `.gitignore` is not read from `sub` - and skips `keep.py` - which `scan /w/root` analyses,
because `sub/.gitignore` is read as if `sub` were a root. -/
theorem check_below_root_differs_from_scan :
    shown (checkCmd wB wR wFs [] wSub [.relDir []]) = some [wstr "/w/root/sub/gen.py"] ∧
    (scanCmd wB wR wFs [] wRoot).map (·.analysed) = some [wstr "top.py", wstr "sub/keep.py"] := by
  constructor <;> decide +kernel

/-- **Witness: the root named absolutely from the sub-directory.**  `check /w/root` run in
`/w/root/sub`: `build/b.py` is analysed although `build` is a built-in exclusion (the file is not
below the working directory, so nothing is asked), `sub/gen.py` is analysed (the root's
`.gitignore` is not read), `sub/keep.py` is skipped (`sub/.gitignore`). -/
theorem check_root_from_below_witness :
    shown (checkCmd wB wR wFs [] wSub [.absDir wRoot]) =
      some [wstr "/w/root/top.py", wstr "/w/root/build/b.py", wstr "/w/root/sub/gen.py"] := by
  decide +kernel

/-- **Witness: the built-in exclusions depend on the working directory.**  `check tests/proj` run
in `/w` skips `a.py` (the component `tests` between the working directory and the argument matches
the built-in pattern `tests`); `check .` run in `/w/tests/proj`, and `scan /w/tests/proj`, analyse it. -/
theorem builtin_exclusions_depend_on_cwd :
    shown (checkCmd wB wR wFs [] [wstr "w"] [.relDir [wstr "tests", wstr "proj"]]) = some [] ∧
    shown (checkCmd wB wR wFs [] [wstr "w", wstr "tests", wstr "proj"] [.relDir []]) =
      some [wstr "/w/tests/proj/a.py"] ∧
    (scanCmd wB wR wFs [] [wstr "w", wstr "tests", wstr "proj"]).map (·.analysed) = some [wstr "a.py"] := by
  refine ⟨?_, ?_, ?_⟩ <;> decide +kernel

/-- **Hidden components above the argument.**  The root inside the hidden directory `.hid`:
checked from `/w` (`check .hid/proj`), from inside (`check .` with a hidden component in the
working directory) and from the unrelated `/w/root/sub` by its absolute path - always `h.py`, never
`.dot/z.py` (hidden BELOW the argument).  The root inside `.venv`: skipped from `/w` - by the
built-in PATTERN `.venv`, not by the dot test - and checked from inside. -/
theorem hidden_root_examples :
    shown (checkCmd wB wR wFs [] [wstr "w"] [.relDir [wstr ".hid", wstr "proj"]]) = some [wstr "/w/.hid/proj/h.py"] ∧
    shown (checkCmd wB wR wFs [] [wstr "w", wstr ".hid", wstr "proj"] [.relDir []]) = some [wstr "/w/.hid/proj/h.py"] ∧
    shown (checkCmd wB wR wFs [] wSub [.absDir [wstr "w", wstr ".hid", wstr "proj"]]) = some [wstr "/w/.hid/proj/h.py"] ∧
    shown (checkCmd wB wR wFs [] [wstr "w"] [.relDir [wstr ".venv", wstr "proj"]]) = some [] ∧
    shown (checkCmd wB wR wFs [] [wstr "w", wstr ".venv", wstr "proj"] [.relDir []]) = some [wstr "/w/.venv/proj/v.py"] := by
  refine ⟨?_, ?_, ?_, ?_, ?_⟩ <;> decide +kernel

/-- files named directly from `/w/root/sub`: `gen.py` is checked, `keep.py` (relative) is skipped
by `sub/.gitignore`, `keep.py` by its absolute path is checked; a hidden file named from `/w` is
checked -/
example :
    shown (checkCmd wB wR wFs [] wSub [.relFile [wstr "gen.py"], .relFile [wstr "keep.py"]]) = some [wstr "gen.py"] ∧
    shown (checkCmd wB wR wFs [] wSub [.absFile (wSub ++ [wstr "keep.py"])]) = some [wstr "/w/root/sub/keep.py"] ∧
    shown (checkCmd wB wR wFs [] [wstr "w"] [.relFile [wstr ".hid", wstr "proj", wstr ".dot", wstr "z.py"]]) =
      some [wstr ".hid/proj/.dot/z.py"] := by
  refine ⟨?_, ?_, ?_⟩ <;> decide +kernel

/-! ### the theorems applied to the example -/

theorem wRoot_dirAt : DirAt wBase wRoot wRootCh :=
  .under (d := wstr "w") (List.mem_cons_self ..) (.under (d := wstr "root") (List.mem_cons_self ..) .root)

def keepPat : List Gi.Pat := [.name (wstr "keep.py")]

/-- `check_dir_agrees_with_scan_view` with the working directory BELOW the root (hypotheses:
`wBase_wf`, `wRoot_dirAt`, the absolute name): what `check /w/root` analyses in `/w/root/sub` is
what the scan of `/w/root` analyses under the exclusion function seen from `/w/root/sub` - and
the kernel evaluates that scan to three files, one more than `scan_root_witness` and a different
one in `sub` -/
example :
    (checkPaths (withPats wB keepPat) wFs wSub [.absDir wRoot]).analysed.map
        (fun cp => joinPath (cp.comps.drop wRoot.length)) =
      [wstr "top.py", wstr "build/b.py", wstr "sub/gen.py"] := by
  have h := (check_dir_agrees_with_scan_view (withPats wB keepPat) [] wBase wSub wBase_wf wRoot_dirAt
    (arg := .absDir wRoot) (.inl rfl) []).1
  exact h.trans (by decide +kernel)

/-- `listed_functions_any_cwd`: `sub/gen.py`, selected by that scan, is listed by `check /w/root`
from `/w/root/sub` under its absolute path with its one long function -/
example : ∃ fl, (checkPaths (withPats wB keepPat) wFs wSub [.absDir wRoot]).result = .ok fl ∧
    (⟨true, wRoot ++ [wstr "sub", wstr "gen.py"]⟩, [⟨wstr "g", 1, 1, 41, 2, 41⟩]) ∈ fl := by
  have hsel : Selected (viewFrom (withPats wB keepPat) wSub wRoot) wRootCh [wstr "sub", wstr "gen.py"] (wstr "g") 0 :=
    ⟨.under (d := wstr "sub") (sub := [.file (wstr ".gitignore") (wstr "keep.py\n\n  # trailing comment"),
        .file (wstr "gen.py") (wstr "g"), .file (wstr "keep.py") (wstr "k")]) (by simp [wRootCh])
        (.here (by simp)), by decide +kernel, by decide +kernel, by decide +kernel⟩
  have hscan : (scanPath (viewFrom (withPats wB keepPat) wSub wRoot) (.dir [] wRootCh)).result =
      .ok [(wstr "top.py", ⟨wstr "top.py", wstr "t", 0, 41, [⟨wstr "t", 1, 1, 41, 2, 41⟩]⟩),
           (wstr "build/b.py", ⟨wstr "build/b.py", wstr "b", 0, 41, [⟨wstr "b", 1, 1, 41, 2, 41⟩]⟩),
           (wstr "sub/gen.py", ⟨wstr "sub/gen.py", wstr "g", 0, 41, [⟨wstr "g", 1, 1, 41, 2, 41⟩]⟩)] := by
    decide +kernel
  obtain ⟨fl, h1, h2, _⟩ := listed_functions_any_cwd (withPats wB keepPat) [] wBase wSub wBase_wf wRoot_dirAt
    (arg := .absDir wRoot) (.inl rfl) [] hsel hscan
    (e := ⟨wstr "sub/gen.py", wstr "g", 0, 41, [⟨wstr "g", 1, 1, 41, 2, 41⟩]⟩) (by decide +kernel)
  refine ⟨fl, h1, ?_⟩
  have hr : risksOf [(⟨wstr "g", 1, 1, 41, 2, 41⟩ : Measurement)] = [⟨wstr "g", 1, 1, 41, 2, 41⟩] := by
    simp [risksOf]
  rw [← hr]
  exact h2

/-- `check_total_any_cwd` / `exit_status_zero_or_one`: the run from `/w/root/sub` on an absolute
directory outside it, a relative file, a missing entry and an absolute file completes, exit 0;
and the printed paths: relative below the working directory, absolute elsewhere -/
example :
    ∃ fl, (checkPaths (withPats wB keepPat) wFs wSub
        [.absDir [wstr "w", wstr "tests"], .relFile [wstr "gen.py"], .relFile [wstr "nothing.py"],
         .absFile (wRoot ++ [wstr "top.py"])]).result = .ok fl ∧
      (Print.checkOutput false wSub fl).exitCode = 0 ∧
      (Print.listedLines wSub fl).map (·.path) = [wstr "/w/tests/proj/a.py", wstr "gen.py", wstr "/w/root/top.py"] := by
  refine ⟨_, rfl, ?_, ?_⟩ <;> decide +kernel

/-- `listed_entries_denote_files` / `printed_form_any_cwd`: hypotheses `Normal` hold here, and a
directory argument below the working directory prints relative paths -/
example : Print.Normal wSub ∧ Print.printedPathStr wRoot ⟨true, wRoot ++ [wstr "sub", wstr "gen.py"]⟩ = wstr "sub/gen.py" ∧
    Print.printedPathStr wSub ⟨true, wRoot ++ [wstr "top.py"]⟩ = wstr "/w/root/top.py" := by
  refine ⟨by decide, ?_, ?_⟩
  · exact (printed_form_any_cwd wRoot (by decide)).1 _ (by decide) (by simp)
  · exact (printed_form_any_cwd wSub (by decide)).2 _ (by decide)

/-- the way of naming: `root` relative to `/w`, and absolutely -/
theorem wNames : NamesDir [wstr "w"] wRoot (.relDir [wstr "root"]) ∧ NamesDir [wstr "w"] wRoot (.absDir wRoot) :=
  ⟨.inr ⟨[wstr "root"], rfl, rfl⟩, .inl rfl⟩

/-- `same_outcome_however_named`, `checked_files_any_cwd` with the working directory ABOVE the root
(`/w`, no exclusion files there): `sub/gen.py` and `sub/keep.py` are both `CheckedFrom`, `build/b.py`
is not (built-in pattern on the path `root/build/b.py`) -/
example :
    checkPaths (withPats wB []) wFs [wstr "w"] [.relDir [wstr "root"]] =
      checkPaths (withPats wB []) wFs [wstr "w"] [.absDir wRoot] ∧
    ((checkPaths (withPats wB []) wFs [wstr "w"] [.relDir [wstr "root"]]).analysed.map Print.pathStr =
      [wstr "/w/root/top.py", wstr "/w/root/sub/gen.py", wstr "/w/root/sub/keep.py"]) ∧
    (∀ cp ∈ (checkPaths (withPats wB []) wFs [wstr "w"] [.relDir [wstr "root"]]).analysed,
      ∃ c lang, CheckedFrom (withPats wB []) [wstr "w"] wRoot wRootCh cp.comps c lang) :=
  ⟨same_outcome_however_named _ [] wBase _ wBase_wf wRoot_dirAt wNames.1 wNames.2, by decide +kernel,
   fun cp hcp => ((checked_files_any_cwd _ [] wBase _ wBase_wf wRoot_dirAt wNames.1).1 cp hcp).2⟩

theorem wGen_fileAt : FileAt wRootCh [wstr "sub", wstr "gen.py"] (wstr "g") :=
  .under (d := wstr "sub") (sub := [.file (wstr ".gitignore") (wstr "keep.py\n\n  # trailing comment"),
    .file (wstr "gen.py") (wstr "g"), .file (wstr "keep.py") (wstr "k")]) (by simp [wRootCh]) (.here (by simp))

/-- `named_file_any_cwd` in `/w/root` with the root's pattern `gen.py`: `sub/gen.py` named relative
to the working directory is skipped; `visible_below_argument_is_checked` /
`hidden_below_argument_skipped_any_cwd` in the hidden root `/w/.hid/proj` -/
example :
    checkPaths (withPats wB [.name (wstr "gen.py")]) wFs wRoot [.relFile [wstr "sub", wstr "gen.py"]] = ⟨[], .ok []⟩ := by
  show checkPaths _ (.dir [] wBase) _ _ = _
  rw [named_file_any_cwd _ [] wBase wRoot wBase_wf (q := [wstr "sub", wstr "gen.py"]) (wRoot_dirAt.fileAt wGen_fileAt)]
  decide +kernel

def wHid : List Str := [wstr "w", wstr ".hid", wstr "proj"]
def wHidCh : List Node := [.file (wstr "h.py") (wstr "h"), .dir (wstr ".dot") [.file (wstr "z.py") (wstr "z")]]

theorem wHid_dirAt : DirAt wBase wHid wHidCh :=
  .under (d := wstr "w") (List.mem_cons_self ..)
    (.under (d := wstr ".hid") (sub := [.dir (wstr "proj") wHidCh])
      (List.mem_cons_of_mem _ (List.mem_cons_of_mem _ (List.mem_cons_self ..)))
      (.under (d := wstr "proj") (List.mem_cons_self ..) .root))

example : ¬ Visible wHid ∧
    (∃ fl, (checkPaths (withPats wB []) wFs wHid [.relDir []]).result = .ok fl ∧
      (⟨true, wHid ++ [wstr "h.py"]⟩, [⟨wstr "h", 1, 1, 41, 2, 41⟩]) ∈ fl ∧
      ∀ pr ∈ fl, pr.1.comps ≠ wHid ++ [wstr ".dot", wstr "z.py"]) := by
  refine ⟨by decide +kernel, ?_⟩
  have hn : NamesDir wHid wHid (.relDir []) := .inr ⟨[], rfl, by simp⟩
  obtain ⟨fl, hfl, _⟩ := check_total_any_cwd (withPats wB []) [] wBase wHid (fun _ t => ⟨_, rfl⟩) [.relDir []] false
  obtain ⟨ms, hms, hmem⟩ := visible_below_argument_is_checked (withPats wB []) [] wBase wHid wBase_wf wHid_dirAt hn
    (q := [wstr "h.py"]) (c := wstr "h") (lang := 0) (.here (by simp [wHidCh])) (by decide +kernel) (by decide +kernel)
    (by decide +kernel) hfl
  refine ⟨fl, hfl, ?_, (hidden_below_argument_skipped_any_cwd (withPats wB []) [] wBase wHid wBase_wf wHid_dirAt
    (q := [wstr ".dot", wstr "z.py"]) (by decide +kernel) hn).2 fl hfl⟩
  have : ms = [⟨wstr "h", 1, 1, 41, 2, 41⟩] := by
    have : (withPats wB []).analyze 0 ((withPats wB []).decode (wstr "h")) = .ok [⟨wstr "h", 1, 1, 41, 2, 41⟩] := rfl
    rw [this] at hms
    cases hms; rfl
  subst this
  have hr : risksOf [(⟨wstr "h", 1, 1, 41, 2, 41⟩ : Measurement)] = [⟨wstr "h", 1, 1, 41, 2, 41⟩] := by
    simp [risksOf]
  rw [← hr]
  exact hmem

/-- `check_error_only_from_analysis`: with an analysis that raises on the text `g`, `check /w/root`
from `/w/root/sub` fails with that exception after two files - and the exception is the one the
analysis of a file of the tree raised -/
def wBerr : Oracles := { wB with analyze := fun l t => if t = wstr "g" then .error .index else wB.analyze l t }

example : (checkPaths (withPats wBerr keepPat) wFs wSub [.absDir wRoot]).result = .error .index ∧
    ∃ cp lang c, FileAt wBase (absOf wSub cp) c ∧ wBerr.analyze lang (wBerr.decode c) = .error .index := by
  have h : (checkPaths (withPats wBerr keepPat) wFs wSub [.absDir wRoot]).result = .error .index := by decide +kernel
  obtain ⟨_, _, cp, lang, c, h1, _, h3⟩ := check_error_only_from_analysis (withPats wBerr keepPat) [] wBase wSub _ h
  exact ⟨h, cp, lang, c, h1, h3⟩

end Witness

end CL.C12cwd
