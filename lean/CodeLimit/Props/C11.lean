import CodeLimit.Lemmas.SelectScan
import CodeLimit.Lemmas.ExceptDec
import CodeLimit.Gen.Excludes
import CodeLimit.Model.Pipeline
/-!
# C11 - exactly the non-hidden, non-excluded files of supported languages are analysed

The model is `CL.Sel.scanPath` (`Model/Select.lean`), a transcription of `Scanner.scan_path`
over directory trees, with the libraries as parameters `O : Oracles` (`excluded` = pathspec on
DEFAULT_EXCLUDES + configured + root `.gitignore` patterns, `langOf` = Pygments lexer for the
file name restricted to `Languages.by_name`, `checksum`, `decode`, `analyze`).

All theorems are for every well-formed tree (`wfDir ch`: names non-empty, without `/`, unique
within a directory - what a real directory listing guarantees) and every `O`. The root is
`Node.dir rn ch`; its own name `rn` plays no role.

`Selected O ch p c lang` (`Spec/Tree.lean`) is the property's qualification: `p` is the path of a
file with bytes `c` below the root, no component of `p` - directory or file name - starts with a
dot, `O.excluded p = false`, and `O.langOf (baseName p) = some lang`.

A scan can also be aborted by an exception raised while analysing a file (`result = .error e`);
the theorems say what happens in both cases. The instrumented field `analysed` lists the paths
handed to `_analyze_file` whether or not the scan completes.
-/
namespace CL.C11

open CL.Sel

variable (O : Oracles) (rn : Str) (ch : List Node)

/-- **however the root is named** - relative, absolute, with `..` segments - the scan is the same:
the model's root is the directory the path RESOLVES to, its own name (`rn`) is never looked at, and
every key of the result is relative to it (`scanned_keys_exact`).  The spelling of the root enters
the report in one place only, the string `root` (`str(path.resolve().absolute())`, the same for
all spellings): `C06scan.two_scans_same_tree` (two scans with different `R.root` give reports that
differ in that field, the identifier and the timestamp only).  That `scan_path` resolves the
spellings to the same directory is the operating system's part (correspondence run: root given as
relative / absolute / with `..`). -/
theorem root_name_irrelevant (rn' : Str) : scanPath O (.dir rn ch) = scanPath O (.dir rn' ch) := rfl

/-- **C11 (1): the scanned key set.** When the scan completes, the keys of the result are exactly
the root-relative paths (components joined with `/`) of the qualifying files. -/
theorem scanned_keys_exact (hwf : wfDir ch = true) {files : List (Str × FileEntry)}
    (h : (scanPath O (.dir rn ch)).result = .ok files) (k : Str) :
    k ∈ files.map (·.1) ↔ ∃ p c lang, Selected O ch p c lang ∧ k = joinPath p := by
  obtain ⟨es, rfl, hr⟩ := entries_of_ok O rn ch hwf h
  have hk : (asDict es).map (·.1) = (selection O ch).map keyOf := by
    rw [← (runSel_ok hr).2.2]; simp [asDict]
  rw [hk, List.mem_map]
  constructor
  · rintro ⟨⟨p, lang, c⟩, hm, rfl⟩
    exact ⟨p, c, lang, mem_selection.1 hm, rfl⟩
  · rintro ⟨p, c, lang, hs, rfl⟩
    exact ⟨(p, lang, c), mem_selection.2 hs, rfl⟩

/-- **C11 (2): each qualifying file appears exactly once, with its language and checksum.**
When the scan completes, the keys are pairwise different, and `(k, e)` is in the result exactly
when `k` is the path of a qualifying file and `e` is the entry built from that file: its path,
the checksum of its bytes, its language, and the measurements (and their sum) that the analysis
of its decoded bytes returns. -/
theorem scanned_entries_exact (hwf : wfDir ch = true) {files : List (Str × FileEntry)}
    (h : (scanPath O (.dir rn ch)).result = .ok files) :
    (files.map (·.1)).Nodup ∧
    ∀ k e, (k, e) ∈ files ↔ ∃ p c lang ms, Selected O ch p c lang ∧
      O.analyze lang (O.decode c) = .ok ms ∧ k = joinPath p ∧ e = entryOf O p c lang ms := by
  obtain ⟨es, rfl, hr⟩ := entries_of_ok O rn ch hwf h
  obtain ⟨_, h2, h3⟩ := runSel_ok hr
  refine ⟨?_, fun k e => ?_⟩
  · have : (asDict es).map (·.1) = (selection O ch).map keyOf := by rw [← h3]; simp [asDict]
    rw [this]; exact nodup_keys_selection hwf
  · simp only [asDict, List.mem_map, Prod.mk.injEq]
    constructor
    · rintro ⟨e', hm, rfl, rfl⟩
      obtain ⟨⟨p, lang, c⟩, hx, ha⟩ := (mem_of_map_ok h2 e').1 hm
      obtain ⟨ms, hms, rfl⟩ := analysisOf_ok.1 ha
      exact ⟨p, c, lang, ms, mem_selection.1 hx, hms, rfl, rfl⟩
    · rintro ⟨p, c, lang, ms, hs, hms, rfl, rfl⟩
      refine ⟨entryOf O p c lang ms, ?_, rfl, rfl⟩
      exact (mem_of_map_ok h2 _).2 ⟨(p, lang, c), mem_selection.2 hs, analysisOf_ok.2 ⟨ms, hms, rfl⟩⟩

/-- a key determines the qualifying file: two qualifying files with the same printed path are
the same path, with the same bytes and language -/
theorem selected_unique (hwf : wfDir ch = true) {p p' : List Str} {c c' : Str} {lang lang' : Nat}
    (h : Selected O ch p c lang) (h' : Selected O ch p' c' lang') (e : joinPath p = joinPath p') :
    p = p' ∧ c = c' ∧ lang = lang' := by
  have hp := joinPath_inj p p' (h.1.goodNames hwf) (h'.1.goodNames hwf) e
  subst hp
  refine ⟨rfl, fileAt_functional hwf h.1 h'.1, ?_⟩
  have := h.2.2.2.symm.trans h'.2.2.2
  simpa using this

/-- **C11 (3): only qualifying files are analysed**, whether or not the scan completes: every
path handed to `_analyze_file` is the path of a qualifying file, none is handed over twice,
and when the scan completes these are exactly the keys of the result, in the same order. -/
theorem analysed_only_selected (hwf : wfDir ch = true) :
    (∀ k ∈ (scanPath O (.dir rn ch)).analysed, ∃ p c lang, Selected O ch p c lang ∧ k = joinPath p) ∧
    (scanPath O (.dir rn ch)).analysed.Nodup ∧
    (∀ files, (scanPath O (.dir rn ch)).result = .ok files →
      (scanPath O (.dir rn ch)).analysed = files.map (·.1)) := by
  have hpre := runSel_analysed_prefix O (selection O ch)
  refine ⟨?_, ?_, ?_⟩
  · intro k hk
    rw [scanPath_eq O rn ch hwf] at hk
    obtain ⟨⟨p, lang, c⟩, hm, rfl⟩ := List.mem_map.1 (hpre.subset hk)
    exact ⟨p, c, lang, mem_selection.1 hm, rfl⟩
  · rw [scanPath_eq O rn ch hwf]
    exact (nodup_keys_selection (O := O) hwf).sublist hpre.sublist
  · intro files h
    obtain ⟨es, rfl, hr⟩ := entries_of_ok O rn ch hwf h
    rw [scanPath_eq O rn ch hwf]
    obtain ⟨h1, _, h3⟩ := runSel_ok hr
    simp only [h1, ← h3, asDict, List.map_map]
    rfl

/-- **when does a scan complete**: exactly when the analysis of every qualifying file returns;
otherwise the exception reported is one raised by the analysis of a qualifying file -/
theorem scan_completes_iff (hwf : wfDir ch = true) :
    ((∃ files, (scanPath O (.dir rn ch)).result = .ok files) ↔
      ∀ p c lang, Selected O ch p c lang → ∃ ms, O.analyze lang (O.decode c) = .ok ms) ∧
    (∀ e, (scanPath O (.dir rn ch)).result = .error e →
      ∃ p c lang, Selected O ch p c lang ∧ O.analyze lang (O.decode c) = .error e) := by
  refine ⟨⟨?_, ?_⟩, ?_⟩
  · rintro ⟨files, h⟩ p c lang hs
    obtain ⟨es, _, hr⟩ := entries_of_ok O rn ch hwf h
    have h2 := (runSel_ok hr).2.1
    have hm : analysisOf O (p, lang, c) ∈ (selection O ch).map (analysisOf O) :=
      List.mem_map.2 ⟨_, mem_selection.2 hs, rfl⟩
    rw [h2] at hm
    obtain ⟨e, _, he⟩ := List.mem_map.1 hm
    obtain ⟨ms, hms, _⟩ := analysisOf_ok.1 he.symm
    exact ⟨ms, hms⟩
  · intro hall
    have : ∀ x ∈ selection O ch, ∃ en, analysisOf O x = .ok en := by
      rintro ⟨p, lang, c⟩ hx
      obtain ⟨ms, hms⟩ := hall p c lang (mem_selection.1 hx)
      exact ⟨_, analysisOf_ok.2 ⟨ms, hms, rfl⟩⟩
    obtain ⟨es, hes⟩ := runSel_total this
    exact ⟨asDict es, by rw [scanPath_eq O rn ch hwf]; simp [hes]⟩
  · intro e h
    rw [scanPath_eq O rn ch hwf] at h
    rcases hr : (runSel O (selection O ch)).2 with e' | es
    · simp only [hr, Except.error.injEq] at h
      subst h
      obtain ⟨pre, ⟨p, lang, c⟩, post, hsel, _, hx, _⟩ := runSel_error hr
      exact ⟨p, c, lang, mem_selection.1 (by rw [hsel]; simp), analysisOf_error.1 hx⟩
    · simp [hr] at h

/-- **C11 (4): files that do not qualify never influence the result.** Two well-formed trees with
the same qualifying files (same paths, bytes and languages) - whatever else they contain, in
whatever listing order - either both abort, or both complete with the same entries under the same
keys (as dictionaries: equal up to the order of insertion). -/
theorem unselected_files_irrelevant (rn' : Str) (ch' : List Node)
    (hwf : wfDir ch = true) (hwf' : wfDir ch' = true)
    (hsame : ∀ p c lang, Selected O ch p c lang ↔ Selected O ch' p c lang) :
    ((∃ files, (scanPath O (.dir rn ch)).result = .ok files) ↔
      (∃ files, (scanPath O (.dir rn' ch')).result = .ok files)) ∧
    (∀ files files', (scanPath O (.dir rn ch)).result = .ok files →
      (scanPath O (.dir rn' ch')).result = .ok files' → files.Perm files') := by
  refine ⟨?_, ?_⟩
  · rw [(scan_completes_iff O rn ch hwf).1, (scan_completes_iff O rn' ch' hwf').1]
    constructor
    · intro h p c lang hs; exact h p c lang ((hsame p c lang).2 hs)
    · intro h p c lang hs; exact h p c lang ((hsame p c lang).1 hs)
  · intro files files' h h'
    obtain ⟨n1, m1⟩ := scanned_entries_exact O rn ch hwf h
    obtain ⟨n2, m2⟩ := scanned_entries_exact O rn' ch' hwf' h'
    have nd : ∀ {l : List (Str × FileEntry)}, (l.map (·.1)).Nodup → l.Nodup := by
      intro l hl
      induction l with
      | nil => simp
      | cons x r ih =>
        simp only [List.map_cons, List.nodup_cons, List.mem_map, not_exists, not_and] at hl ⊢
        exact ⟨fun hx => hl.1 x hx rfl, ih hl.2⟩
    rw [List.perm_ext_iff_of_nodup (nd n1) (nd n2)]
    rintro ⟨k, e⟩
    rw [m1, m2]
    constructor
    · rintro ⟨p, c, lang, ms, hs, r⟩; exact ⟨p, c, lang, ms, (hsame p c lang).1 hs, r⟩
    · rintro ⟨p, c, lang, ms, hs, r⟩; exact ⟨p, c, lang, ms, (hsame p c lang).2 hs, r⟩

/-- **the result does not depend on the order of directory listings** (nor on anything but the
set of files): two well-formed trees with the same files give the same dictionary -/
theorem listing_order_irrelevant (rn' : Str) (ch' : List Node)
    (hwf : wfDir ch = true) (hwf' : wfDir ch' = true)
    (hsame : ∀ p c, FileAt ch p c ↔ FileAt ch' p c) :
    ((∃ files, (scanPath O (.dir rn ch)).result = .ok files) ↔
      (∃ files, (scanPath O (.dir rn' ch')).result = .ok files)) ∧
    (∀ files files', (scanPath O (.dir rn ch)).result = .ok files →
      (scanPath O (.dir rn' ch')).result = .ok files' → files.Perm files') :=
  unselected_files_irrelevant O rn ch rn' ch' hwf hwf'
    (fun p c lang => by simp only [Selected, hsame])

/-! ## the built-in exclusions (generated from `Scanner.DEFAULT_EXCLUDES` on every run) -/

/-- **pinning theorem**: the built-in exclusion list is the 26 patterns of the pinned commit.
A change of the default exclusions breaks this theorem on purpose. -/
theorem default_excludes_pinned :
    Gen.Excludes.defaultExcludes =
      [".bzr", ".direnv", ".eggs", ".git", ".git-rewrite", ".hg", ".ipynb_checkpoints",
       ".mypy_cache", ".nox", ".pants.d", ".pytest_cache", ".pytype", ".ruff_cache", ".svn", ".tox",
       ".venv", ".vscode", "__pypackages__", "_build", "buck-out", "build", "dist", "node_modules",
       "venv", "test", "tests"] ∧ Gen.Excludes.defaultExcludes.length = 26 := by
  decide

/-- a gitignore pattern that is a plain name: no separator, wildcard, class, negation, comment,
escape or blank - it matches exactly the paths that have a component equal to it -/
def plainName (s : String) : Bool :=
  s ≠ "" && s.toList.all (fun c => !(c ∈ ['/', '*', '?', '[', ']', '!', '#', '\\', ' ', '\n', '\r', '\t']))

/-- every built-in pattern is a plain name, and they are pairwise different -/
theorem default_excludes_plain_names :
    Gen.Excludes.defaultExcludes.all plainName = true ∧ Gen.Excludes.defaultExcludes.Nodup := by
  decide

/-- the pattern list is built-in ++ configured ++ root `.gitignore`, read as `gitignore` patterns:
the two generated constants (`translator/excludes.py` OBSERVES them: the real
`generate_exclude_spec` is run with marker lines as configured and `.gitignore` lines, and the
position of the marker groups in the recorded call of `PathSpec.from_lines` gives `sources`, its
first argument gives `patternStyle`).  On their own these are equalities of strings; what they
mean for the model is `exclude_lines_follow_sources`. -/
theorem exclude_sources_pinned :
    Gen.Excludes.patternStyle = "gitignore" ∧
    Gen.Excludes.sources = ["builtin", "configured", "gitignore"] := by
  decide

/-- the lines a source of `Gen.Excludes.sources` stands for: the built-in names (the generated
list `DEFAULT_EXCLUDES`), the configured lines, the lines of the root `.gitignore` -/
def sourceLines (configured : List Str) (gitignore : Option (List Str)) (source : String) : List Str :=
  if source = "builtin" then Gen.Excludes.defaultExcludes.map Gi.str
  else if source = "configured" then configured
  else if source = "gitignore" then (match gitignore with | some ls => ls | none => [])
  else []

/-- **the model's exclusion lines are assembled in the observed order from the observed parts**:
`Pipeline.excludeLines` (the list every end-to-end theorem hands to the pattern model, written by
hand in `Model/Pipeline.lean`) is the concatenation, in the order of the GENERATED constant
`Gen.Excludes.sources`, of the lines each source stands for, the built-in part being the GENERATED
`DEFAULT_EXCLUDES`.  If the code assembled the list in another order, from other parts, or with
another built-in list, the regenerated constants would change and this theorem would fail. -/
theorem exclude_lines_follow_sources (configured : List Str) (gitignore : Option (List Str)) :
    Pipeline.excludeLines configured gitignore =
      Gen.Excludes.sources.flatMap (sourceLines configured gitignore) := by
  cases gitignore <;>
    simp [Pipeline.excludeLines, Gen.Excludes.sources, sourceLines, Gi.builtinNames]

/-! ## non-vacuity: a concrete tree -/

section Example

deriving instance DecidableEq for ScanOut

def str (s : String) : Str := s.toList.map Char.toNat

/-- `.py` files are language 0, `.js` files language 1 -/
def exLang (n : Str) : Option Nat :=
  if (str ".py").isSuffixOf n then some 0 else if (str ".js").isSuffixOf n then some 1 else none

/-- paths with a component `tests`, and `*.min.js`, are excluded; analysis of `bad.py` raises -/
def exO : Oracles where
  excluded p := p.contains (str "tests") || (str ".min.js").isSuffixOf (baseName p)
  langOf := exLang
  checksum c := c.reverse
  decode c := c
  analyze l t := if t = str "raise" then .error .index else .ok [⟨str "f", 1, 1, l + 1, 2, t.length⟩]

/--
```
.git/config.py   .hidden.py   README.md   a.py   x.min.js
src/b.js  src/.cache/c.py  src/notes.txt
tests/t.py
```
-/
def exTree : List Node :=
  [.dir (str ".git") [.file (str "config.py") (str "1")],
   .file (str ".hidden.py") (str "2"),
   .file (str "README.md") (str "3"),
   .file (str "a.py") (str "4444"),
   .file (str "x.min.js") (str "5"),
   .dir (str "src") [.file (str "b.js") (str "66"), .dir (str ".cache") [.file (str "c.py") (str "7")],
                     .file (str "notes.txt") (str "8")],
   .dir (str "tests") [.file (str "t.py") (str "9")]]

example : wfDir exTree = true := by decide +kernel

/-- the scan of the example tree holds `a.py` and `src/b.js` and analysed nothing else -/
example : scanPath exO (.dir [] exTree) =
    ⟨[str "a.py", str "src/b.js"],
     .ok [(str "a.py", ⟨str "a.py", str "4444", 0, 4, [⟨str "f", 1, 1, 1, 2, 4⟩]⟩),
          (str "src/b.js", ⟨str "src/b.js", str "66", 1, 2, [⟨str "f", 1, 1, 2, 2, 2⟩]⟩)]⟩ := by
  decide +kernel

example : Selected exO exTree [str "src", str "b.js"] (str "66") 1 :=
  ⟨.under (d := str "src") (sub := [.file (str "b.js") (str "66"),
      .dir (str ".cache") [.file (str "c.py") (str "7")], .file (str "notes.txt") (str "8")])
    (by simp [exTree]) (.here (by simp)), by decide +kernel,
   by decide +kernel, by decide +kernel⟩

/-- an aborted scan: the exception of the first failing qualifying file; the files after it
were not analysed -/
example : scanPath exO (.dir [] [.file (str "a.py") (str "ok"), .file (str "bad.py") (str "raise"),
      .file (str "c.py") (str "ok")]) = ⟨[str "a.py", str "bad.py"], .error .index⟩ := by
  decide +kernel

/-! ### non-vacuity of `unselected_files_irrelevant`: two different trees with the same qualifying files -/

def exA : List Node := [.file (str "a.py") (str "4444")]

/-- `exA` plus a hidden file and a file of an unsupported language, in another listing order -/
def exB : List Node :=
  [.file (str ".h.py") (str "2"), .file (str "a.py") (str "4444"), .file (str "README.md") (str "3")]

theorem fileAt_single {n c : Str} {p : List Str} {c' : Str} (h : FileAt [.file n c] p c') : p = [n] ∧ c' = c := by
  cases h with
  | here hm =>
    simp only [List.mem_singleton, Node.file.injEq] at hm
    exact ⟨by rw [hm.1], hm.2⟩
  | under hm _ => simp at hm

/-- the hypothesis `hsame` of `unselected_files_irrelevant` holds for `exA` and `exB` (they differ
in a hidden file and an unsupported file), both trees are well-formed, so the theorem applies:
both scans give the same dictionary -/
theorem exA_exB_same : ∀ p c lang, Selected exO exA p c lang ↔ Selected exO exB p c lang := by
  have hA : Selected exO exA [str "a.py"] (str "4444") 0 :=
    ⟨.here (by simp [exA]), by decide +kernel, by decide +kernel, by decide +kernel⟩
  have hB : Selected exO exB [str "a.py"] (str "4444") 0 :=
    ⟨.here (by simp [exB]), by decide +kernel, by decide +kernel, by decide +kernel⟩
  intro p c lang
  constructor
  · rintro ⟨hf, hv, he, hl⟩
    obtain ⟨rfl, rfl⟩ := fileAt_single hf
    have : lang = 0 := by
      have h0 : exO.langOf (baseName [str "a.py"]) = some 0 := by decide +kernel
      rw [h0] at hl
      exact (Option.some.inj hl).symm
    subst this
    exact hB
  · rintro ⟨hf, hv, he, hl⟩
    cases hf with
    | under hm _ => simp [exB] at hm
    | here hm =>
      simp only [exB, List.mem_cons, Node.file.injEq, List.not_mem_nil, or_false] at hm
      rcases hm with ⟨rfl, rfl⟩ | ⟨rfl, rfl⟩ | ⟨rfl, rfl⟩
      · exact absurd hv (by decide +kernel)
      · have : lang = 0 := by
          have h0 : exO.langOf (baseName [str "a.py"]) = some 0 := by decide +kernel
          rw [h0] at hl
          exact (Option.some.inj hl).symm
        subst this
        exact hA
      · have h0 : exO.langOf (baseName [str "README.md"]) = none := by decide +kernel
        rw [h0] at hl
        cases hl

example : wfDir exA = true ∧ wfDir exB = true ∧ exA.length ≠ exB.length ∧
    (scanPath exO (.dir [] exA)).result = (scanPath exO (.dir (str "r") exB)).result := by
  refine ⟨?_, ?_, ?_, ?_⟩ <;> decide +kernel

example : ∀ files files', (scanPath exO (.dir [] exA)).result = .ok files →
    (scanPath exO (.dir (str "r") exB)).result = .ok files' → files.Perm files' :=
  (unselected_files_irrelevant exO [] exA (str "r") exB (by decide +kernel) (by decide +kernel) exA_exB_same).2

end Example

end CL.C11
