import CodeLimit.Lemmas.SelectCheck
import CodeLimit.Props.C11
/-!
# C12 - `check` and `scan` agree on every file

Models: `CL.Sel.checkPaths` (`commands/check.py: check_command`, `_handle_file_path`,
`check_file`, up to the report) and `CL.Sel.scanPath` (`Scanner.scan_path`), over the same tree
`Node.dir rn ch` and the same oracles `O` - in particular the same `decode` (`_read_file`) and
`analyze`. The working directory is the root of the tree (`cwd = []`), as the property demands.

"The same text decoding" is therefore BY CONSTRUCTION in this file: both models apply the one
field `O.decode`.  That the code's two readers - `Scanner._read_file` (scan) and `check_file`'s
reading (check) - are the same function of the bytes is not proved here but in
`Gaps.scan_check_same_text` (with `Gaps.read_file_total`: UTF-8, else Latin-1, universal
newlines, for every byte string) and checked by the correspondence run on non-UTF-8 files.

Ways of reaching a file with root-relative path `p`:
* `CheckArg.relFile p` - the relative file path;
* `CheckArg.relDir d` / `CheckArg.absDir d` for any directory `d` of the tree above the file
  (`DirAt ch d sub`, `d <+: p`): `d = p.dropLast` is the parent directory, `d = []` the root,
  `absDir` the same directory written as an absolute path.

`check_file` is handed an absolute `Path` in the directory branch and the path as typed in the
file branch (`CPath.abs`). What `check` lists for a file are its `risks` (`risksOf`); the
threshold is the generated `CL.Gen.Logic.check_lists`.

Interpretation (DESIGN.md, Appendix A): directories passed to `check` have no hidden component of
their own (hidden components of the *argument* are never tested by `check_command`; the theorems
below make this visible: only the components below `d` are tested); absolute *file* paths are
outside the property's quantifier (`named_absolute_file_not_filtered` records what happens).
-/
namespace CL.C12

open CL.Sel CL.C11

variable (O : Oracles) (rn : Str) (ch : List Node)

/-! ## (4) what is listed for a checked file -/

/-- the listed functions are exactly the measured functions longer than 30 lines -/
theorem listed_iff (ms : List Measurement) (m : Measurement) :
    m ∈ risksOf ms ↔ m ∈ ms ∧ 30 < m.len := mem_risksOf

/-- ... each as often as it was measured (a permutation of the filtered measurements) -/
theorem listed_perm (ms : List Measurement) :
    (risksOf ms).Perm (ms.filter (fun m => decide (30 < m.len))) := by
  have : (fun m : Measurement => decide (Gen.Logic.check_lists (m.len : Int))) = fun m => decide (30 < m.len) := by
    funext m
    rw [Bool.eq_iff_iff, check_lists_iff]; simp
  simp only [risksOf, this]
  exact List.mergeSort_perm _ _

/-- ... longest first -/
theorem listed_sorted (ms : List Measurement) :
    (risksOf ms).Pairwise (fun a b => b.len ≤ a.len) := by
  have := List.pairwise_mergeSort (le := fun (a b : Measurement) => decide (b.len ≤ a.len))
    (fun a b c h1 h2 => by simp only [decide_eq_true_eq] at *; omega)
    (fun a b => by simp only [Bool.or_eq_true, decide_eq_true_eq]; omega)
    (ms.filter (fun m => decide (Gen.Logic.check_lists (m.len : Int))))
  simpa [risksOf] using this

/-- ... and functions of equal length keep the order in which `scan` measures them (Python's
`sorted(..., reverse=True)` is stable) -/
theorem listed_stable (ms : List Measurement) (a b : Measurement) (hlen : a.len = b.len)
    (h : [a, b].Sublist (ms.filter (fun m => decide (30 < m.len)))) : [a, b].Sublist (risksOf ms) := by
  have hf : (fun m : Measurement => decide (Gen.Logic.check_lists (m.len : Int))) = fun m => decide (30 < m.len) := by
    funext m
    rw [Bool.eq_iff_iff, check_lists_iff]; simp
  simp only [risksOf, hf]
  refine List.sublist_mergeSort (le := fun (a b : Measurement) => decide (b.len ≤ a.len))
    (fun a b c h1 h2 => by simp only [decide_eq_true_eq] at *; omega)
    (fun a b => by simp only [Bool.or_eq_true, decide_eq_true_eq]; omega) ?_ h
  simp [hlen]

/-! ## the relative file path -/

/-- **a file named by its relative path**: skipped when the exclusion patterns match the path;
skipped silently when its name has no supported language; otherwise analysed - whether or not
a component of the path is hidden - and listed with the risks of its measurements. -/
theorem named_file (hwf : wfDir ch = true) {p : List Str} {c : Str} (hf : FileAt ch p c) :
    checkPaths O (.dir rn ch) [] [.relFile p] =
      if O.excluded p then ⟨[], .ok []⟩
      else match O.langOf (baseName p) with
        | none => ⟨[], .ok []⟩
        | some lang =>
          match O.analyze lang (O.decode c) with
          | .error e => ⟨[⟨false, p⟩], .error e⟩
          | .ok ms => ⟨[⟨false, p⟩], .ok [(⟨false, p⟩, risksOf ms)]⟩ := by
  have hg := getNode_fileAt hf rn hwf
  simp only [checkPaths, forE, checkArgBody, CheckArg.isAbs, CheckArg.comps, List.nil_append, hg,
    relTo_nil, Bool.false_eq_true, if_false]
  by_cases hx : O.excluded p = true
  · simp [hx]
  · simp only [hx, checkFile, baseName]
    rcases hl : O.langOf (p.getLastD []) with _ | l
    · simp
    · simp only []
      rcases ha : O.analyze l (O.decode c) with e | ms <;> simp

/-- recorded, outside the property's quantifier: a file named by its **absolute** path is not
tested against the exclusion patterns -/
theorem named_absolute_file_not_filtered (hwf : wfDir ch = true) {p : List Str} {c : Str}
    (hf : FileAt ch p c) :
    checkPaths O (.dir rn ch) [] [.absFile p] =
      match O.langOf (baseName p) with
      | none => ⟨[], .ok []⟩
      | some lang =>
        match O.analyze lang (O.decode c) with
        | .error e => ⟨[⟨true, p⟩], .error e⟩
        | .ok ms => ⟨[⟨true, p⟩], .ok [(⟨true, p⟩, risksOf ms)]⟩ := by
  have hg := getNode_fileAt hf rn hwf
  simp only [checkPaths, forE, checkArgBody, CheckArg.isAbs, CheckArg.comps, hg, if_true, checkFile,
    baseName]
  rcases hl : O.langOf (p.getLastD []) with _ | l
  · simp
  · simp only []
    rcases ha : O.analyze l (O.decode c) with e | ms <;> simp

/-! ## directories -/

/-- **a directory argument** (relative or absolute, any directory of the tree): only files
reached through it are analysed (whether or not the run completes); when the run completes the
list holds exactly those files, each once, under its absolute path, with the risks of its
measurements. -/
theorem directory_argument (hwf : wfDir ch = true) {d : List Str} {sub : List Node} (hd : DirAt ch d sub)
    (arg : CheckArg) (harg : arg = .relDir d ∨ arg = .absDir d) :
    (∀ cp ∈ (checkPaths O (.dir rn ch) [] [arg]).analysed,
      cp.abs = true ∧ ∃ c lang, ReachedThrough O d sub cp.comps c lang) ∧
    (∀ fl, (checkPaths O (.dir rn ch) [] [arg]).result = .ok fl →
      (fl.map (·.1)).Nodup ∧
      ∀ cp r, (cp, r) ∈ fl ↔ cp.abs = true ∧ ∃ c lang ms, ReachedThrough O d sub cp.comps c lang ∧
        O.analyze lang (O.decode c) = .ok ms ∧ r = risksOf ms) := by
  rw [checkCommand_dir O rn ch sub d arg harg hwf hd]
  refine ⟨?_, ?_⟩
  · intro cp hcp
    obtain ⟨⟨p, lang, c⟩, hx, rfl⟩ := runCheck_analysed_subset O true _ cp hcp
    exact ⟨rfl, c, lang, mem_dir_selection.1 hx⟩
  · intro fl hfl
    obtain ⟨_, h2⟩ := runCheck_ok hfl
    have hpaths : fl.map (·.1) = ((cands d sub).filterMap (passes O)).map (fun x => (⟨true, x.1⟩ : CPath)) := by
      have h3 := congrArg (List.map (fun r : Except Err (CPath × List Measurement) =>
        match r with | .ok pr => pr.1 | .error _ => ⟨true, []⟩)) h2
      simp only [List.map_map] at h3
      have e1 : ((fun r : Except Err (CPath × List Measurement) =>
          match r with | .ok pr => pr.1 | .error _ => ⟨true, []⟩) ∘ Except.ok) = (·.1) := rfl
      rw [e1] at h3
      rw [← h3]
      apply List.map_congr_left
      intro x hx
      have hm : checkItem O true x ∈ fl.map Except.ok := h2 ▸ List.mem_map.2 ⟨x, hx, rfl⟩
      obtain ⟨pr, _, hpr⟩ := List.mem_map.1 hm
      simp only [Function.comp]
      rw [← hpr]
      simp only [checkItem] at hpr
      rcases ha : O.analyze x.2.1 (O.decode x.2.2) with e | ms
      · simp [ha] at hpr
      · simp only [ha, Except.ok.injEq] at hpr
        rw [hpr]
    refine ⟨?_, fun cp r => ?_⟩
    · rw [hpaths]
      have hn : NodupKeys ((cands d sub).filterMap (passes O)) := nodupKeys_passes (nodupKeys_cands (hd.wf hwf))
      have : ((cands d sub).filterMap (passes O)).map (fun x => (⟨true, x.1⟩ : CPath)) =
          (((cands d sub).filterMap (passes O)).map (·.1)).map (fun p => (⟨true, p⟩ : CPath)) := by
        simp [List.map_map]
      rw [this]
      revert hn
      unfold NodupKeys
      generalize ((cands d sub).filterMap (passes O)).map (·.1) = l
      intro hn
      induction l with
      | nil => simp
      | cons a t ih =>
        simp only [List.map_cons, List.nodup_cons, List.mem_map, CPath.mk.injEq, true_and, not_exists,
          not_and] at hn ⊢
        exact ⟨fun y hy e => hn.1 (e ▸ hy), ih hn.2⟩
    · rw [mem_of_map_checkItem h2]
      constructor
      · rintro ⟨⟨p, lang, c⟩, hx, ms, hms, he⟩
        simp only [Prod.mk.injEq] at he
        obtain ⟨rfl, rfl⟩ := he
        exact ⟨rfl, c, lang, ms, mem_dir_selection.1 hx, hms, rfl⟩
      · rintro ⟨habs, c, lang, ms, hr, hms, rfl⟩
        refine ⟨(cp.comps, lang, c), mem_dir_selection.2 hr, ms, hms, ?_⟩
        cases cp
        simp_all

/-! ## (1) every file `scan` analyses is checked, with `scan`'s measurements -/

/-- the entry `scan` holds for a qualifying file is the analysis of that file -/
theorem scan_entry_of_selected (hwf : wfDir ch = true) {p : List Str} {c : Str} {lang : Nat}
    (hs : Selected O ch p c lang) {files : List (Str × FileEntry)}
    (hscan : (scanPath O (.dir rn ch)).result = .ok files) :
    ∃ ms, O.analyze lang (O.decode c) = .ok ms ∧ (joinPath p, entryOf O p c lang ms) ∈ files ∧
      ∀ e, (joinPath p, e) ∈ files → e = entryOf O p c lang ms := by
  obtain ⟨ms, hms⟩ := ((scan_completes_iff O rn ch hwf).1.1 ⟨files, hscan⟩) p c lang hs
  have hex := (scanned_entries_exact O rn ch hwf hscan).2
  refine ⟨ms, hms, (hex _ _).2 ⟨p, c, lang, ms, hs, hms, rfl, rfl⟩, ?_⟩
  intro e he
  obtain ⟨p', c', lang', ms', hs', hms', hk, rfl⟩ := (hex _ _).1 he
  obtain ⟨rfl, rfl, rfl⟩ := selected_unique O ch hwf hs hs' hk
  rw [hms] at hms'
  cases hms'
  rfl

/-- **(1, 4) through the relative file path**: a file that `scan` analyses is checked when named
by its relative path, and the functions listed are the risks of the measurements `scan` holds
for it -/
theorem scanned_file_checked_by_path (hwf : wfDir ch = true) {p : List Str} {c : Str} {lang : Nat}
    (hs : Selected O ch p c lang) {files : List (Str × FileEntry)}
    (hscan : (scanPath O (.dir rn ch)).result = .ok files) {e : FileEntry}
    (he : (joinPath p, e) ∈ files) :
    checkPaths O (.dir rn ch) [] [.relFile p] =
      ⟨[⟨false, p⟩], .ok [(⟨false, p⟩, risksOf e.ms)]⟩ := by
  obtain ⟨ms, hms, _, huniq⟩ := scan_entry_of_selected O rn ch hwf hs hscan
  rw [huniq e he, named_file O rn ch hwf hs.1]
  simp [hs.2.2.1, hs.2.2.2, hms, entryOf]

/-- **(1, 4) through a directory**: a file that `scan` analyses is checked when any directory of
the tree above it - its parent, the root, written relatively or absolutely - is given, and the
functions listed for it are the risks of the measurements `scan` holds for it. When `scan`
completes, so does this `check`. -/
theorem scanned_file_checked_through_directory (hwf : wfDir ch = true) {p : List Str} {c : Str} {lang : Nat}
    (hs : Selected O ch p c lang) {files : List (Str × FileEntry)}
    (hscan : (scanPath O (.dir rn ch)).result = .ok files) {e : FileEntry}
    (he : (joinPath p, e) ∈ files)
    {d : List Str} {sub : List Node} (hd : DirAt ch d sub) (hpre : d <+: p)
    (arg : CheckArg) (harg : arg = .relDir d ∨ arg = .absDir d) :
    ∃ fl, (checkPaths O (.dir rn ch) [] [arg]).result = .ok fl ∧ (⟨true, p⟩, risksOf e.ms) ∈ fl ∧
      ∀ r, (⟨true, p⟩, r) ∈ fl → r = risksOf e.ms := by
  obtain ⟨ms, hms, _, huniq⟩ := scan_entry_of_selected O rn ch hwf hs hscan
  obtain ⟨q, rfl⟩ := hpre
  have hvis := visible_append.1 hs.2.1
  have hq : FileAt sub q c := hd.fileAt_inv hwf hs.1
  have hreach : ReachedThrough O d sub (d ++ q) c lang := ⟨q, rfl, hq, hvis.2, hs.2.2.1, hs.2.2.2⟩
  -- everything the directory reaches is a qualifying file, so its analysis returns
  have hall : ∀ x ∈ (cands d sub).filterMap (passes O), ∃ ms, O.analyze x.2.1 (O.decode x.2.2) = .ok ms := by
    rintro ⟨p', l', c'⟩ hx
    obtain ⟨q', rfl, h1, h2, h3, h4⟩ := mem_dir_selection.1 hx
    exact ((scan_completes_iff O rn ch hwf).1.1 ⟨files, hscan⟩) (d ++ q') c' l'
      ⟨hd.fileAt h1, visible_append.2 ⟨hvis.1, h2⟩, h3, h4⟩
  obtain ⟨fl, hfl⟩ := runCheck_total (abs := true) hall
  have hres : (checkPaths O (.dir rn ch) [] [arg]).result = .ok fl := by
    rw [checkCommand_dir O rn ch sub d arg harg hwf hd]; exact hfl
  have hchar := ((directory_argument O rn ch hwf hd arg harg).2 fl hres).2
  refine ⟨fl, hres, ?_, ?_⟩
  · rw [huniq e he]
    exact (hchar _ _).2 ⟨rfl, c, lang, ms, hreach, hms, rfl⟩
  · intro r hr
    obtain ⟨_, c', lang', ms', ⟨q', hq', h1, _, _, h4⟩, hms', rfl⟩ := (hchar _ _).1 hr
    have : q = q' := List.append_cancel_left hq'
    subst this
    have hc : c = c' := fileAt_functional (hd.wf hwf) hq h1
    subst hc
    have hl : lang = lang' := by
      have := hs.2.2.2.symm.trans h4
      simpa using this
    subst hl
    rw [hms] at hms'
    cases hms'
    rw [huniq e he]
    rfl

/-- **(1) for the root directory, in full**: `check .` (or the root's absolute path) analyses the
same files as `scan`, in the same order, fails when `scan` fails with the same exception, and
otherwise lists, file by file, the risks of `scan`'s measurements. -/
theorem check_root_agrees_with_scan (hwf : wfDir ch = true) (arg : CheckArg)
    (harg : arg = .relDir [] ∨ arg = .absDir []) :
    (checkPaths O (.dir rn ch) [] [arg]).analysed.map (fun cp => joinPath cp.comps)
      = (scanPath O (.dir rn ch)).analysed ∧
    (∀ cp ∈ (checkPaths O (.dir rn ch) [] [arg]).analysed, cp.abs = true) ∧
    (∀ e, (scanPath O (.dir rn ch)).result = .error e →
      (checkPaths O (.dir rn ch) [] [arg]).result = .error e) ∧
    (∀ files, (scanPath O (.dir rn ch)).result = .ok files →
      ∃ fl, (checkPaths O (.dir rn ch) [] [arg]).result = .ok fl ∧
        fl.map (fun pr => (joinPath pr.1.comps, pr.2)) = files.map (fun ke => (ke.1, risksOf ke.2.ms))) := by
  have hv := runCheck_vs_runSel O true (selection O ch)
  rw [checkCommand_dir O rn ch ch [] arg harg hwf .root, scanPath_eq O rn ch hwf]
  refine ⟨hv.1, ?_, ?_, ?_⟩
  · intro cp hcp
    obtain ⟨x, _, rfl⟩ := runCheck_analysed_subset O true _ cp hcp
    rfl
  · intro e he
    rcases hr : (runSel O (selection O ch)).2 with e' | es
    · simp only [hr, Except.error.injEq] at he
      subst he
      have := hv.2
      simp only [hr] at this
      exact this
    · simp [hr] at he
  · intro files hfiles
    rcases hr : (runSel O (selection O ch)).2 with e' | es
    · simp [hr] at hfiles
    · simp only [hr, Except.ok.injEq] at hfiles
      subst hfiles
      have := hv.2
      simp only [hr] at this
      obtain ⟨fl, h1, h2, _⟩ := this
      exact ⟨fl, h1, by simp [h2, asDict, List.map_map, Function.comp_def]⟩

/-! ## (2) excluded files are skipped however they are reached -/

/-- **(2)**: a file whose path the exclusion patterns match is not analysed and not listed,
whether it is named by its relative path or reached through any directory of the tree, relative
or absolute (whatever else happens in the run) -/
theorem excluded_file_skipped (hwf : wfDir ch = true) {p : List Str} {c : Str} (hf : FileAt ch p c)
    (hx : O.excluded p = true) :
    checkPaths O (.dir rn ch) [] [.relFile p] = ⟨[], .ok []⟩ ∧
    ∀ (d : List Str) (sub : List Node), DirAt ch d sub → ∀ arg, (arg = .relDir d ∨ arg = .absDir d) →
      (∀ cp ∈ (checkPaths O (.dir rn ch) [] [arg]).analysed, cp.comps ≠ p) ∧
      (∀ fl, (checkPaths O (.dir rn ch) [] [arg]).result = .ok fl → ∀ pr ∈ fl, pr.1.comps ≠ p) := by
  refine ⟨by rw [named_file O rn ch hwf hf]; simp [hx], ?_⟩
  intro d sub hd arg harg
  obtain ⟨h1, h2⟩ := directory_argument O rn ch hwf hd arg harg
  refine ⟨?_, ?_⟩
  · intro cp hcp e
    obtain ⟨_, c', lang, q, _, _, _, h4, _⟩ := h1 cp hcp
    rw [e, hx] at h4
    cases h4
  · intro fl hfl pr hpr e
    obtain ⟨_, c', lang, ms, ⟨q, _, _, _, h4, _⟩, _⟩ := ((h2 fl hfl).2 pr.1 pr.2).1 hpr
    rw [e, hx] at h4
    cases h4

/-! ## (3) hidden files -/

/-- **(3)**: a file with a hidden component *below the directory given* (a hidden directory on
the way, or a hidden file name) is not analysed and not listed when reached through that
directory -/
theorem hidden_file_skipped_through_directory (hwf : wfDir ch = true) {d q : List Str} {sub : List Node}
    (hd : DirAt ch d sub) (hq : ¬ Visible q) (arg : CheckArg) (harg : arg = .relDir d ∨ arg = .absDir d) :
    (∀ cp ∈ (checkPaths O (.dir rn ch) [] [arg]).analysed, cp.comps ≠ d ++ q) ∧
    (∀ fl, (checkPaths O (.dir rn ch) [] [arg]).result = .ok fl → ∀ pr ∈ fl, pr.1.comps ≠ d ++ q) := by
  obtain ⟨h1, h2⟩ := directory_argument O rn ch hwf hd arg harg
  refine ⟨?_, ?_⟩
  · intro cp hcp e
    obtain ⟨_, c', lang, q', hq', _, hv, _⟩ := h1 cp hcp
    rw [e] at hq'
    exact hq (List.append_cancel_left hq' ▸ hv)
  · intro fl hfl pr hpr e
    obtain ⟨_, c', lang, ms, ⟨q', hq', _, hv, _⟩, _⟩ := ((h2 fl hfl).2 pr.1 pr.2).1 hpr
    rw [e] at hq'
    exact hq (List.append_cancel_left hq' ▸ hv)

/-- a file named by its relative path that passes the pattern test and the language test is
analysed and listed - nothing else is asked of it -/
theorem named_file_checked (hwf : wfDir ch = true) {p : List Str} {c : Str}
    (hf : FileAt ch p c) (hx : O.excluded p = false) {lang : Nat}
    (hl : O.langOf (baseName p) = some lang) {ms : List Measurement}
    (hms : O.analyze lang (O.decode c) = .ok ms) :
    checkPaths O (.dir rn ch) [] [.relFile p] = ⟨[⟨false, p⟩], .ok [(⟨false, p⟩, risksOf ms)]⟩ := by
  rw [named_file O rn ch hwf hf]
  simp [hx, hl, hms]

/-- ... **so a hidden file named explicitly is checked** (`_handle_file_path` has no dot test):
if the patterns do not match it and its name has a supported language, it is analysed and
listed although a component of its path starts with a dot. `scan` never analyses such a file
(`C11.analysed_only_selected`), and `check` on a directory above the hidden component skips it
(`hidden_file_skipped_through_directory`). -/
theorem hidden_file_named_explicitly_is_checked (hwf : wfDir ch = true) {p : List Str} {c : Str}
    (hf : FileAt ch p c) (hidden : ¬ Visible p) (hx : O.excluded p = false) {lang : Nat}
    (hl : O.langOf (baseName p) = some lang) {ms : List Measurement}
    (hms : O.analyze lang (O.decode c) = .ok ms) :
    checkPaths O (.dir rn ch) [] [.relFile p] = ⟨[⟨false, p⟩], .ok [(⟨false, p⟩, risksOf ms)]⟩ ∧
    (∀ lang', ¬ Selected O ch p c lang') ∧ joinPath p ∉ (scanPath O (.dir rn ch)).analysed := by
  refine ⟨named_file_checked O rn ch hwf hf hx hl hms, fun lang' hs => hidden hs.2.1, ?_⟩
  intro hmem
  obtain ⟨p', c', lang', hs', hk⟩ := (analysed_only_selected O rn ch hwf).1 _ hmem
  have := joinPath_inj p p' (hf.goodNames hwf) (hs'.1.goodNames hwf) hk
  exact hidden (this ▸ hs'.2.1)

/-- a file whose name has no supported language is skipped silently, however it is reached -/
theorem unsupported_file_skipped (hwf : wfDir ch = true) {p : List Str} {c : Str} (hf : FileAt ch p c)
    (hl : O.langOf (baseName p) = none) :
    checkPaths O (.dir rn ch) [] [.relFile p] = ⟨[], .ok []⟩ ∧
    ∀ (d : List Str) (sub : List Node), DirAt ch d sub → ∀ arg, (arg = .relDir d ∨ arg = .absDir d) →
      ∀ cp ∈ (checkPaths O (.dir rn ch) [] [arg]).analysed, cp.comps ≠ p := by
  refine ⟨by rw [named_file O rn ch hwf hf]; simp [hl], ?_⟩
  intro d sub hd arg harg cp hcp e
  obtain ⟨_, c', lang, q, _, _, _, _, h5⟩ := (directory_argument O rn ch hwf hd arg harg).1 cp hcp
  rw [e, hl] at h5
  cases h5

/-! ## non-vacuity -/

section Example

deriving instance DecidableEq for CheckOut

def long (n : Nat) (name : String) : Measurement := ⟨str name, 1, 1, n, 2, n⟩

/-- like `C11.exO`, but `.py` text `L` analyses to functions of lengths 30, 31, 61, 31 -/
def exO2 : Oracles :=
  { exO with analyze := fun l t =>
      if t = str "L" then .ok [long 30 "a", long 31 "b", long 61 "c", long 31 "d"] else exO.analyze l t }

def exTree2 : List Node :=
  [.file (str ".hidden.py") (str "L"),
   .dir (str "src") [.file (str "big.py") (str "L"), .file (str "notes.txt") (str "8")],
   .dir (str "tests") [.file (str "t.py") (str "L")]]

example : wfDir exTree2 = true := by decide +kernel

private theorem ex_risks : risksOf [long 30 "a", long 31 "b", long 61 "c", long 31 "d"] =
    [long 61 "c", long 31 "b", long 31 "d"] := by
  simp [risksOf, long, List.mergeSort, List.MergeSort.Internal.splitInTwo]

def bigPy : List Str := [str "src", str "big.py"]

private theorem ex_fileAt : FileAt exTree2 bigPy (str "L") :=
  .under (d := str "src") (sub := [.file (str "big.py") (str "L"), .file (str "notes.txt") (str "8")])
    (by simp [exTree2]) (.here (by simp))

private theorem ex_selected : Selected exO2 exTree2 bigPy (str "L") 0 :=
  ⟨ex_fileAt, by decide +kernel, by decide +kernel, by decide +kernel⟩

def exEntry : FileEntry :=
  ⟨str "src/big.py", str "L", 0, 153, [long 30 "a", long 31 "b", long 61 "c", long 31 "d"]⟩

/-- `scan` on the example holds `src/big.py` only, with four functions -/
private theorem ex_scan : (scanPath exO2 (.dir [] exTree2)).result = .ok [(str "src/big.py", exEntry)] := by
  decide +kernel

private theorem ex_mem : (joinPath bigPy, exEntry) ∈ [(str "src/big.py", exEntry)] := by decide +kernel

/-- named by its path: `c` (61) first, then `b` and `d` (31) in scan order; `a` (30) is not listed -/
example : checkPaths exO2 (.dir [] exTree2) [] [.relFile bigPy] =
    ⟨[⟨false, bigPy⟩], .ok [(⟨false, bigPy⟩, [long 61 "c", long 31 "b", long 31 "d"])]⟩ := by
  rw [scanned_file_checked_by_path exO2 [] exTree2 (by decide +kernel) ex_selected ex_scan ex_mem]
  exact congrArg (fun r => (⟨[⟨false, bigPy⟩], .ok [(⟨false, bigPy⟩, r)]⟩ : CheckOut)) ex_risks

/-- through the parent directory, the root, and their absolute forms -/
example : ∀ arg ∈ [CheckArg.relDir [str "src"], .absDir [str "src"]],
    ∃ fl, (checkPaths exO2 (.dir [] exTree2) [] [arg]).result = .ok fl ∧
      (⟨true, bigPy⟩, [long 61 "c", long 31 "b", long 31 "d"]) ∈ fl := by
  intro arg harg
  have hd : DirAt exTree2 [str "src"] [.file (str "big.py") (str "L"), .file (str "notes.txt") (str "8")] :=
    .under (by simp [exTree2]) .root
  obtain ⟨fl, h1, h2, _⟩ := scanned_file_checked_through_directory exO2 [] exTree2 (by decide +kernel)
    ex_selected ex_scan ex_mem hd ⟨[str "big.py"], rfl⟩ arg (by simpa using harg)
  exact ⟨fl, h1, ex_risks ▸ h2⟩

example : ∀ arg ∈ [CheckArg.relDir [], .absDir []],
    ∃ fl, (checkPaths exO2 (.dir [] exTree2) [] [arg]).result = .ok fl ∧
      fl.map (fun pr => (joinPath pr.1.comps, pr.2)) =
        [(str "src/big.py", [long 61 "c", long 31 "b", long 31 "d"])] := by
  intro arg harg
  obtain ⟨fl, h1, h2⟩ := (check_root_agrees_with_scan exO2 [] exTree2 (by decide +kernel) arg
    (by simpa using harg)).2.2.2 _ ex_scan
  exact ⟨fl, h1, by rw [h2]; simp [exEntry, ex_risks]⟩

/-- the excluded `tests/t.py` is skipped even when named -/
example : checkPaths exO2 (.dir [] exTree2) [] [.relFile [str "tests", str "t.py"]] = ⟨[], .ok []⟩ :=
  (excluded_file_skipped exO2 [] exTree2 (by decide +kernel) (c := str "L")
    (.under (d := str "tests") (sub := [.file (str "t.py") (str "L")]) (by simp [exTree2]) (.here (by simp)))
    (by decide +kernel)).1

/-- the hidden `.hidden.py` is checked when named ... -/
example : checkPaths exO2 (.dir [] exTree2) [] [.relFile [str ".hidden.py"]] =
    ⟨[⟨false, [str ".hidden.py"]⟩],
     .ok [(⟨false, [str ".hidden.py"]⟩, [long 61 "c", long 31 "b", long 31 "d"])]⟩ := by
  rw [(hidden_file_named_explicitly_is_checked exO2 [] exTree2 (by decide +kernel) (c := str "L")
    (.here (by simp [exTree2])) (by decide +kernel) (by decide +kernel) (lang := 0) (by decide +kernel)
    (ms := [long 30 "a", long 31 "b", long 61 "c", long 31 "d"]) (by decide +kernel)).1, ex_risks]

/-- ... and neither scanned nor reached through the root -/
example : (scanPath exO2 (.dir [] exTree2)).analysed = [str "src/big.py"] := by decide +kernel

end Example

end CL.C12
