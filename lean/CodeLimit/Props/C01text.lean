import CodeLimit.Props.C01tree
import CodeLimit.Props.C16
import CodeLimit.Lemmas.ProgText
import CodeLimit.Model.ProgTreeOps
import CodeLimit.Lemmas.ScanEval
import CodeLimit.Lemmas.Compose
/-!
# C01, stage T: from a program tree to source TEXT, the lexer contract and `_analyze_file`

`Props/C01tree.lean` goes from a forest `p : Prog PTok` of a canonical program to the report of
`scan_file` on the located tokens `render p`.  This file adds the step below it
(`CodeLimit/Model/ProgText.lean`):

* `textOf p` - the source text of the forest: every token's text at the (line, column) that
  `render` assigns to it, blanks (32) and newlines (10) in between, one trailing newline;
* `rawOf p` - the raw token stream a lexer is assumed to produce for that text: the tokens at
  their offsets and one whitespace token (kind 6) per gap;
* `Prog.Spaced p` (decidable) - token texts are non-empty and contain no newline; a token that
  stays on the line of its predecessor has `col + 1 ≥` the length of the predecessor's text, i.e.
  tokens on a line do not overlap.

Results, for EVERY forest:

* T1 `rawOk_text`, `text_is_raw_values`, `raw_values_nonempty` - the raw stream satisfies the
  lexer contract of C16 on the text (and covers all of it);
* T2 `lex_of_tree_text` - `lex` on (text, raw stream) returns exactly the rendering: same kind,
  type, text, line and column for every token; `text_at_rendered_location`,
  `text_nonblank`, `text_ends_with_newline` describe the text without reference to `lex`;
* T3 `analyze_of_tree_text_partial` - with stage G: `_analyze_file` on the text returns the tree
  report and its total (`_partial`: conditional on header discovery; unconditional for the canonical
  fragments in `Props/C01marktext.lean`: `analyze_of_fragment_tree_text`);
* `lex_of_tiling` - T2 for ANY raw stream that tiles the text and has the same non-whitespace
  tokens (the result does not depend on how the lexer splits the gaps);
  `end_location_is_text_end` - the END location of the specification (`Tok.endPos_L`) is the
  (line, column) of the text offset just past the token;
* T4 `treeOp_sound` - the driver operation `tree` (`Model/ProgTreeOps.lean`): if the five flags
  it reports are all true, `_analyze_file` on the returned text and raw stream returns the
  returned report.

`spaced_needed`, `noWs_needed`: the two side conditions of T2 cannot be dropped.

`Obs.F25_fixed_paren_literal_in_default`, `Obs.F25_fixed_paren_literal_in_condition` (regression
checks for defect F25, found with the forest stream and reproduced on the real code): the C / C++
/ Java lexers split a string or character literal into quote, content, quote String tokens, and
the `Balanced` predicate of the header pattern used to compare token VALUES only, so the literal
`'('` as a default value unbalanced the parameter list and the function was not reported, and
`if (match('(')) {` invented a function `match`.  `Balanced` now matches the PUNCTUATION tokens
`(` / `)` (`Symbol`): on the same forests header discovery succeeds and `_analyze_file` returns
the tree report.
-/
namespace CL.C01text

open CL.TreeOps

/-- the file total of `_analyze_file`: the sum of the lengths -/
def totalOf (ms : List Measurement) : Nat := (ms.map (·.len)).foldl (· + ·) 0

/-! ## T1: the lexer contract -/

/-- **T1.  The raw stream satisfies the lexer contract** (`RawOk`, C16) on the text of the
forest: the first raw token starts at offset 0, every raw token's value is the text found at
its offset, and each token starts where the previous one ends.  No side condition. -/
theorem rawOk_text (p : Prog PTok) : RawOk (textOf p) (rawOf p) :=
  rawOk_rawFrom p.flat 0 (1, 0) 1

/-- ... and the raw tokens cover the WHOLE text: it is the concatenation of their values -/
theorem text_is_raw_values (p : Prog PTok) : textOf p = (rawOf p).flatMap (·.val) :=
  textFrom_eq_join p.flat 0 (1, 0) 1

theorem rawFrom_nonempty : ∀ (l : List PTok) (off : Nat) (s : Nat × Nat) (e w : Nat),
    spacedAfter w l = true → ∀ t ∈ rawFrom off s e l, t.val ≠ []
  | [], _, _, _, _, _, t, ht => by
    simp only [rawFrom, List.mem_singleton] at ht
    subst ht; simp
  | a :: as, off, s, e, w, hsp, t, ht => by
    simp only [spacedAfter, Bool.and_eq_true, Bool.not_eq_true'] at hsp
    obtain ⟨⟨⟨hne, _⟩, _⟩, hsp'⟩ := hsp
    simp only [rawFrom, List.mem_append, List.mem_cons] at ht
    rcases ht with ht | rfl | ht
    · unfold wsTok at ht
      split at ht
      · cases ht
      · rename_i hg
        simp only [List.mem_singleton] at ht
        subst ht
        intro h; exact hg (by simpa using h)
    · intro h
      have : a.val = [] := h
      rw [this] at hne; cases hne
    · exact rawFrom_nonempty as _ _ _ _ hsp' t ht

/-- no raw token is empty (the second clause of the lexer contract recorded for Pygments:
"no empty non-`Text` token", needed by `C16.kept_strictly_increasing`) -/
theorem raw_values_nonempty {p : Prog PTok} (hs : p.Spaced = true) :
    ∀ t ∈ rawOf p, t.val ≠ [] :=
  rawFrom_nonempty p.flat 0 (1, 0) 1 0 hs

/-! ## T2: `lex` recovers the rendering -/

/-- **T2.  `lex` on the text returns the rendering.**  For every forest whose layout is
`Spaced` and that contains no whitespace token, `lexer_utils.lex` applied to the text and the
raw stream returns exactly `render p`: the tokens of the forest, in order, each with its kind,
type and text and the line and column the renderer assigns to it.  (`filter_comments = False`,
as in `_analyze_file`: comment tokens of the forest, if any, are kept.) -/
theorem lex_of_tree_text {p : Prog PTok} (hs : p.Spaced = true) (hw : p.noWs = true) :
    lex (textOf p) (rawOf p) false = render p := by
  have hpos : lexAll (textOf p) (rawOf p) = (rawOf p).map (tokAt (textOf p)) :=
    C16.lexAll_positions (rawOk_text p)
  unfold lex
  rw [filterTokens_eq, hpos, render_eq]
  exact lex_rawFrom p.flat [] (1, 0) 1 0 0 (textOf p) true rfl rfl rfl rfl (Or.inr (Nat.le_refl _))
    hs hw (fun _ _ _ => rfl)

/-- a raw token that `lex` drops: a `Text` / `Whitespace` token that is empty or blank -/
def _root_.CL.RawTok.isWs (r : RawTok) : Bool := r.kind == 6 && (r.val.isEmpty || strIsSpace r.val)

/-- `lex` keeps exactly the raw tokens that are not whitespace, each at the line and column of its
offset - for EVERY raw stream that tiles the text -/
theorem lex_eq_nonWs {code : Str} {raw : List RawTok} (h : RawOk code raw) :
    lex code raw false = (raw.filter (fun r => !r.isWs)).map (tokAt code) := by
  unfold lex
  rw [filterTokens_eq, C16.lexAll_positions h, List.filter_map]
  congr 1
  apply List.filter_congr
  intro r _
  simp only [keepTok, Function.comp, Tok.isWhitespace, CL.RawTok.isWs, Bool.not_false]
  by_cases hws : (r.kind == 6 && (r.val.isEmpty || strIsSpace r.val)) = true
  · rw [if_pos hws, hws]; rfl
  · rw [if_neg hws]
    simp only [Bool.not_eq_true] at hws
    rw [hws]
    split <;> rfl

/-- **T2 does not depend on how the lexer splits the gaps.**  `rawOf p` has ONE whitespace token per
gap; a real lexer emits a newline token, an indentation token, ...  Let `raw` be ANY raw stream that
tiles the text of the forest (`RawOk`) and has the same non-whitespace tokens as `rawOf p` (same
offsets, kinds, types, texts, in the same order).  Then `lex` on it returns the rendering, too. -/
theorem lex_of_tiling {p : Prog PTok} (hs : p.Spaced = true) (hw : p.noWs = true)
    {raw : List RawTok} (hraw : RawOk (textOf p) raw)
    (hsame : raw.filter (fun r => !r.isWs) = (rawOf p).filter (fun r => !r.isWs)) :
    lex (textOf p) raw false = render p := by
  rw [lex_eq_nonWs hraw, hsame, ← lex_eq_nonWs (rawOk_text p), lex_of_tree_text hs hw]

/-- non-vacuity of `lex_of_tiling`: the text `a⏎  b⏎`; `rawOf` has ONE whitespace token `⏎··` for
the gap, the stream below splits it into a newline token and an indentation token (as Pygments
does); it tiles the text, has the same non-whitespace tokens, and `lex` returns the rendering -/
example :
    let p : Prog PTok := .leaf ⟨2, 2, [97], 0, 0⟩ (.leaf ⟨2, 2, [98], 1, 2⟩ .nil)
    let raw : List RawTok :=
      [⟨0, 2, 2, [97]⟩, ⟨1, 6, 0, [10]⟩, ⟨2, 6, 0, [32, 32]⟩, ⟨4, 2, 2, [98]⟩, ⟨5, 6, 0, [10]⟩]
    textOf p = [97, 10, 32, 32, 98, 10] ∧ raw ≠ rawOf p ∧ RawOk (textOf p) raw ∧
      lex (textOf p) raw false = render p := by
  intro p raw
  refine ⟨by decide, by decide, by decide, ?_⟩
  exact lex_of_tiling (p := p) (by decide) (by decide) (by decide) (by decide)

/-- the same with `filter_comments = True`, for forests of code tokens -/
theorem lex_of_tree_text_code {p : Prog PTok} (hs : p.Spaced = true)
    (hc : p.bare.allCode = true) (fc : Bool) :
    lex (textOf p) (rawOf p) fc = render p := by
  have hpos : lexAll (textOf p) (rawOf p) = (rawOf p).map (tokAt (textOf p)) :=
    C16.lexAll_positions (rawOk_text p)
  have hall : ∀ t ∈ p.flat, t.bare.isWhitespace = false ∧ t.bare.isComment = false := by
    intro t ht
    have h := List.all_eq_true.mp hc t.bare (by
      rw [Prog.bare, flat_map]; exact List.mem_map.2 ⟨t, ht, rfl⟩)
    simpa [Tok.isCode] using h
  unfold lex
  rw [filterTokens_eq, hpos, render_eq]
  refine lex_rawFrom p.flat [] (1, 0) 1 0 0 (textOf p) (!fc) rfl rfl rfl rfl
    (Or.inr (Nat.le_refl _)) hs ?_ ?_
  · exact List.all_eq_true.2 (fun t ht => by simp [(hall t ht).1])
  · intro t ht h; rw [(hall t ht).2] at h; cases h

/-- a forest of code tokens contains no whitespace token -/
theorem noWs_of_allCode {p : Prog PTok} (hc : p.bare.allCode = true) : p.noWs = true := by
  apply List.all_eq_true.2
  intro t ht
  have h := List.all_eq_true.mp hc t.bare (by
    rw [Prog.bare, flat_map]; exact List.mem_map.2 ⟨t, ht, rfl⟩)
  simp only [Tok.isCode, Bool.and_eq_true] at h
  exact h.1

/-- **The text carries every token at its rendered location** (a description of `textOf` that
does not mention `lex`): for every token of the rendering, `location_to_index` maps its
(line, column) to an offset inside the text, and the text found there is the token's text. -/
theorem text_at_rendered_location {p : Prog PTok} (hs : p.Spaced = true) (hw : p.noWs = true) :
    ∀ t ∈ render p, ∃ o, locationToIndex (textOf p) t.line t.col = .ok o ∧
      o + t.val.length ≤ (textOf p).length ∧ ((textOf p).drop o).take t.val.length = t.val := by
  intro t ht
  rw [← lex_of_tree_text hs hw] at ht
  obtain ⟨r, _, _, h1, h2, h3⟩ := C16.kept_text_at_location (rawOk_text p) false t ht
  exact ⟨r.off, h1, h2, h3⟩

theorem textFrom_nonblank : ∀ (l : List PTok) (s : Nat × Nat) (e : Nat),
    (textFrom s e l).filter (fun c => c != 32 && c != 10)
      = (l.flatMap (·.val)).filter (fun c => c != 32 && c != 10)
  | [], _, _ => by simp [textFrom]
  | t :: ts, s, e => by
    have hg : (t.gapText s.2 e).filter (fun c => c != 32 && c != 10) = [] := by
      rw [List.filter_eq_nil_iff]
      intro c hc
      unfold PTok.gapText at hc
      split at hc
      · simp only [blanks, List.mem_replicate] at hc; simp [hc.2]
      · simp only [blanks, lineBreaks, List.mem_append, List.mem_replicate] at hc
        rcases hc with hc | hc <;> simp [hc.2]
    rw [textFrom, List.filter_append, hg, List.nil_append, List.filter_append,
      textFrom_nonblank ts, List.flatMap_cons, List.filter_append]

/-- **Everything between the tokens is blank**: deleting blanks and newlines from the text
leaves the token texts (with their blanks deleted), in order.  No side condition. -/
theorem text_nonblank (p : Prog PTok) :
    (textOf p).filter (fun c => c != 32 && c != 10)
      = (p.flat.flatMap (·.val)).filter (fun c => c != 32 && c != 10) :=
  textFrom_nonblank p.flat (1, 0) 1

theorem textFrom_getLast : ∀ (l : List PTok) (s : Nat × Nat) (e : Nat),
    (textFrom s e l).getLast? = some 10
  | [], _, _ => rfl
  | t :: ts, s, e => by
    have hne : textFrom (t.put s).loc ((t.put s).col + t.val.length) ts ≠ [] := by
      intro h
      have := textFrom_getLast ts (t.put s).loc ((t.put s).col + t.val.length)
      rw [h] at this; cases this
    rw [textFrom, List.getLast?_append, List.getLast?_append, textFrom_getLast ts]
    rfl

/-- the text ends with a newline -/
theorem text_ends_with_newline (p : Prog PTok) : (textOf p).getLast? = some 10 :=
  textFrom_getLast p.flat (1, 0) 1

/-- **The expected END location of the specification is the end of the token in the TEXT.**
`Tok.endPos_L` (`Spec/Layout.lean`, used by `expected` / `treeReport`) is defined on the token's own
text (its line, its column, the line breaks inside it).  For a token that `lex` places (`tokAt`) from
a raw token of a stream tiling the text, it is the (line, column) of the offset just past the token
(`lineOf` / `colOf` of `Spec/Lex.lean`, which count newlines in the text), and `location_to_index`
maps it back to that offset - also for tokens over several lines. -/
theorem end_location_is_text_end {code : Str} {raw : List RawTok} (h : RawOk code raw) :
    ∀ r ∈ raw, r.off + r.val.length ≤ code.length ∧
      Tok.endPos_L (tokAt code r)
        = (lineOf code (r.off + r.val.length), colOf code (r.off + r.val.length)) ∧
      locationToIndex code (Tok.endPos_L (tokAt code r)).1 (Tok.endPos_L (tokAt code r)).2
        = .ok (r.off + r.val.length) := by
  intro r hr
  obtain ⟨_, hb, ht⟩ := RawOkFrom.text (pre := []) h rfl r hr
  simp only [List.nil_append] at hb ht
  have he : Tok.endPos_L (tokAt code r)
      = (lineOf code (r.off + r.val.length), colOf code (r.off + r.val.length)) :=
    Compose.endPos_tokAt code r ht
  refine ⟨hb, he, ?_⟩
  rw [he]
  exact locationToIndex_lineOf_colOf code _ hb

/-- the two definitions of "just past the end of a token" (`Spec/Layout.lean`, `Spec/Scan.lean`)
are the same function -/
theorem endPos_L_eq_endPos (t : Tok) : Tok.endPos_L t = t.endPos := rfl

/-! ## T3: `_analyze_file` on the text -/

/-- **T3 (`_partial`: conditional on header discovery `hh` / `hperm`, as stage G; needs `noAdj`).**
The unconditional versions for the canonical fragments: `C01marktext.analyze_of_fragment_tree_text`,
`C01marktext.analyze_of_canon_tree_text`.  Let `p` be a forest of tokens without
locations that is structurally well-formed (`wfCore`), has no function directly followed by a
brace group (`noAdj`), consists of code tokens (`allCode`) and whose layout is `Spaced`.  If the
header extraction of a brace-block language `L` finds the headers of the function nodes in the
rendering, then the whole pipeline `_analyze_file` (`lex`, `scan_file`, total) applied to the
source text `textOf p` and the raw token stream `rawOf p` returns exactly the tree report and
the sum of its lengths. -/
theorem analyze_of_tree_text_partial {L : Language} {p : Prog PTok}
    (hpy : L.python = false) (hw : p.bare.wfCore = true) (ha : p.noAdj = true)
    (hc : p.bare.allCode = true) (hs : p.Spaced = true)
    {hs' : List Header} (hh : extractHeaders L (render p) = .ok hs')
    (hperm : hs'.Perm (p.located.fns.map (·.hdr))) :
    analyze L (textOf p) (rawOf p) = .ok (reportOf L p, totalOf (reportOf L p)) := by
  unfold analyze
  rw [lex_of_tree_text hs (noWs_of_allCode hc),
    C01tree.scan_of_rendered_tree_partial hpy hw ha hc hh hperm]
  rfl

/-- the full statement of T3 (without `noAdj`) is false, already at token level:
`C01tree.scan_of_tree_full_false` -/
example := @C01tree.scan_of_tree_full_false

/-! ## T4: the driver operation -/

theorem discovery_iff {L : Language} {p : Prog PTok} :
    discovery L p = true ↔
      ∃ hs, extractHeaders L (render p) = .ok hs ∧ hs.Perm (p.located.fns.map (·.hdr)) := by
  unfold discovery
  cases h : extractHeaders L (render p) with
  | error e => simp
  | ok hs => simp [List.isPerm_iff]

/-- **T4.  The `tree` operation of the driver is sound.**  If the five flags of the reply are
all true (the forest is well-formed, has no adjacent block, consists of code tokens, is spaced,
and header discovery finds the function nodes), then `_analyze_file` of the model, applied to
the text and the raw stream of the reply, returns the report of the reply (which was read off
the tree) and its total.  The fifth flag is the discovery hypothesis of
`analyze_of_tree_text_partial`, EVALUATED by the driver on this forest (so the statement is
conditional on a computed intermediate result); the operation `marktree`
(`C01marktext.markOp_sound`) has no such flag: its flags are conditions on the tree only. -/
theorem treeOp_sound {L : Language} {p : Prog PTok} (hpy : L.python = false)
    (hg : (treeOp L p).good = true) :
    analyze L (treeOp L p).text (treeOp L p).raw
      = .ok ((treeOp L p).report, totalOf (treeOp L p).report) := by
  simp only [TreeReply.good, treeOp, Bool.and_eq_true] at hg
  obtain ⟨⟨⟨⟨h1, h2⟩, h3⟩, h4⟩, h5⟩ := hg
  obtain ⟨hs, hh, hperm⟩ := discovery_iff.1 h5
  exact analyze_of_tree_text_partial hpy h1 h2 h3 h4 hh hperm

/-! ## the side conditions of T2 are needed -/

/-- **`Spaced` is needed.**  Two tokens `ab` and `c` with `c` placed (by `col = 0`) in the column
right after the START of `ab`: the rendering puts `c` at column 2, inside `ab`; the text is
`abc`, where `c` sits at column 3.  The forest has no whitespace token and `lex` does not
return the rendering. -/
theorem spaced_needed :
    let p : Prog PTok := .leaf ⟨2, 2, [97, 98], 0, 0⟩ (.leaf ⟨2, 2, [99], 0, 0⟩ .nil)
    p.Spaced = false ∧ p.noWs = true ∧ lex (textOf p) (rawOf p) false ≠ render p := by
  decide

/-- **`noWs` is needed**: a forest containing a blank `Text` token is spaced, but `lex` drops
that token. -/
theorem noWs_needed :
    let p : Prog PTok := .leaf ⟨2, 2, [97], 0, 0⟩ (.leaf ⟨6, 6, [32], 0, 1⟩ .nil)
    p.Spaced = true ∧ p.noWs = false ∧ lex (textOf p) (rawOf p) false ≠ render p := by
  decide

/-! ## non-vacuity: the concrete forests of `Props/C01tree.lean` -/

namespace Ex
open C01tree.Ex

/-- code points of a string literal -/
def cp (s : String) : Str := s.toList.map Char.toNat

/-- **the text of `cppTree` is the expected C++ source** (the file shown in `Props/C01tree.lean`) -/
theorem cpp_text : textOf cppTree = cp "int a [ ] = { 1 , 2 } ;
class A {
  m1 ( ) { x ; }
  m2 ( int v = { 1 } ) { y ; }
} ;
f ( ) {
  g ( ) {
    h ( ) { z ; }
    q ;
  }
  if ( x ) { w ; }
  k ( ) { u ; } r ;
}
" := by decide +kernel

theorem cpp_spaced : cppTree.Spaced = true := by decide +kernel

/-- the raw stream: 72 code tokens, 71 gaps and the trailing newline; it tiles the text -/
example : (rawOf cppTree).length = 144 ∧ RawOk (textOf cppTree) (rawOf cppTree) :=
  ⟨by decide +kernel, rawOk_text _⟩

/-- the first raw tokens: `int`, a blank, `a`, ... -/
example : (rawOf cppTree).take 3 = [⟨0, 1, 1, [105, 110, 116]⟩, ⟨3, 6, 0, [32]⟩, ⟨4, 2, 2, [97]⟩] := by
  decide +kernel

/-- T2 on the example: `lex` returns the hand-written token list of stage A -/
example : lex (textOf cppTree) (rawOf cppTree) false = C01Ex.code :=
  (lex_of_tree_text cpp_spaced (noWs_of_allCode cpp_wf.2.2)).trans cpp_render

/-- T3 applies to C++: `_analyze_file` on the source text returns the six functions, total 11 -/
theorem cpp_analyze : analyze Gen.cpp (textOf cppTree) (rawOf cppTree)
    = .ok ([⟨[109, 49], 3, 3, 3, 17, 1⟩, ⟨[109, 50], 4, 3, 4, 31, 1⟩, ⟨[102], 6, 1, 13, 2, 4⟩,
            ⟨[103], 7, 3, 10, 4, 3⟩, ⟨[104], 8, 5, 8, 18, 1⟩, ⟨[107], 12, 3, 12, 16, 1⟩], 11) := by
  have h := analyze_of_tree_text_partial (L := Gen.cpp) (by decide) cpp_wf.1 cpp_wf.2.1 cpp_wf.2.2
    cpp_spaced cpp_headers (List.Perm.refl _)
  rw [h]
  have : reportOf Gen.cpp cppTree = treeReport cppTree.located := rfl
  rw [this, cpp_treeReport]; rfl

/-- ... and to C (no nested functions): three functions, total 10 -/
theorem c_analyze : analyze Gen.c (textOf cppTree) (rawOf cppTree)
    = .ok ([⟨[109, 49], 3, 3, 3, 17, 1⟩, ⟨[109, 50], 4, 3, 4, 31, 1⟩, ⟨[102], 6, 1, 13, 2, 8⟩],
           10) := by
  have h := analyze_of_tree_text_partial (L := Gen.c) (by decide) cpp_wf.1 cpp_wf.2.1 cpp_wf.2.2
    cpp_spaced c_headers (List.Perm.refl _)
  rw [h]
  have : reportOf Gen.c cppTree = treeReportFlat cppTree.located := rfl
  rw [this, cpp_treeReportFlat]; rfl

/-- T4 on the example: all flags of the driver operation are true for C++ -/
theorem cpp_treeOp_good : (treeOp Gen.cpp cppTree).good = true := by decide +kernel

example : analyze Gen.cpp (treeOp Gen.cpp cppTree).text (treeOp Gen.cpp cppTree).raw
    = .ok ((treeOp Gen.cpp cppTree).report, totalOf (treeOp Gen.cpp cppTree).report) :=
  treeOp_sound (by decide) cpp_treeOp_good

/-- **the text of `jsTree`** (arrow function with the gap token `=>`) -/
theorem js_text : textOf jsTree = cp "class A {
  m1 ( ) { x ; }
  m2 ( v = { 1 } ) { y ; }
}
const a = ( x ) => {
  function g ( ) {
    function h ( ) { z ; }
    q ;
  }
  if ( x ) { w ; }
  function k ( ) { u ; } r ;
}
" := by decide +kernel

theorem js_spaced : jsTree.Spaced = true := by decide +kernel

theorem js_analyze : analyze Gen.javascript (textOf jsTree) (rawOf jsTree)
    = .ok (treeReport jsTree.located, 11) := by
  have h := analyze_of_tree_text_partial (L := Gen.javascript) (by decide) js_wf.1 js_wf.2.1
    js_wf.2.2 js_spaced js_headers js_perm
  rw [h]
  have : reportOf Gen.javascript jsTree = treeReport jsTree.located := rfl
  rw [this, js_treeReport]; rfl

/-- **the text of `javaTree`** (`throws` clause between header and body) -/
theorem java_text : textOf javaTree = cp "class A {
  m ( int v ) throws E , F {
    if ( v ) { w ; }
    x ;
  }
}
" := by decide +kernel

theorem java_spaced : javaTree.Spaced = true := by decide +kernel

theorem java_analyze : analyze Gen.java (textOf javaTree) (rawOf javaTree)
    = .ok ([⟨[109], 2, 3, 5, 4, 4⟩], 4) := by
  have h := analyze_of_tree_text_partial (L := Gen.java) (by decide) java_wf.1 java_wf.2.1
    java_wf.2.2 java_spaced java_headers (List.Perm.refl _)
  rw [h]
  have : reportOf Gen.java javaTree = treeReport javaTree.located := rfl
  rw [this, java_treeReport]; rfl

/-- a layout with blank lines, deeper indentation and tokens that touch (`f(` `)`): the text
of a small forest, and what `lex` returns for it -/
def tight : Prog PTok :=
  .leaf (pt 1 [105, 110, 116] 2 0) <|
  .fn (.toks [pt 2 [102] 0 3, pt 3 [40] 0 0, pt 3 [41] 0 0] .nil) 0 [] (pt 3 [123] 1 0)
      (pt 3 [125] 2 0) (.toks [pt 2 [120] 1 4, pt 3 [59] 0 0] .nil) <|
  .nil

example : textOf tight = cp "\n\nint f()\n{\n    x;\n\n}\n" := by decide +kernel

example : tight.Spaced = true ∧ lex (textOf tight) (rawOf tight) false = render tight ∧
    render tight = [⟨1, 1, [105, 110, 116], 3, 1⟩, ⟨2, 2, [102], 3, 5⟩, ⟨3, 3, [40], 3, 6⟩,
      ⟨3, 3, [41], 3, 7⟩, ⟨3, 3, [123], 4, 1⟩, ⟨2, 2, [120], 5, 5⟩, ⟨3, 3, [59], 5, 6⟩,
      ⟨3, 3, [125], 7, 1⟩] := by
  refine ⟨by decide +kernel, ?_, by decide +kernel⟩
  exact lex_of_tree_text (by decide +kernel) (by decide +kernel)

end Ex
/-! ## regression checks for defect F25 (found with the forest stream) -/

namespace Obs
open C01tree.Ex CL.C01text.Ex

/-- `void f(char c = '(') { x; }` as the C-family lexers tokenise it: the character literal is
three String tokens `'`, `(`, `'` -/
def parenLit : Prog PTok :=
  .leaf (pt 1 [118, 111, 105, 100] 0 0) <|
  .fn (.toks [pt 2 [102] 0 4, pt 3 [40] 0 0, pt 1 [99, 104, 97, 114] 0 0, pt 2 [99] 0 4,
        pt 4 [61] 0 1, pt 7 [39] 0 1, pt 7 [40] 0 0, pt 7 [39] 0 0, pt 3 [41] 0 0] .nil) 0 []
      (pt 3 [123] 0 1) (pt 3 [125] 1 0) (.toks [pt 2 [120] 1 2, pt 3 [59] 0 0] .nil) <|
  .nil

/-- **F25 fixed: a parenthesis inside a literal no longer hides the function.**  The forest of
`void f(char c = '(') { x; }` satisfies every hypothesis of T3.  The `Balanced` predicate of the
header pattern opens a group only at a PUNCTUATION token `(` (`Symbol("(")`), so the String token
`(` (index 7 of the rendering, kind 7) is an ordinary token of the parameter list, the list closes
at the punctuation token `)`, header discovery succeeds, all five flags of the `tree` operation
are true, and `_analyze_file` returns the tree report: `f`, lines 1-3.  (Before the repair -
`Balanced` compared token texts - discovery failed and `_analyze_file` reported nothing.) -/
theorem F25_fixed_paren_literal_in_default :
    parenLit.bare.wfCore = true ∧ parenLit.noAdj = true ∧ parenLit.bare.allCode = true ∧
    parenLit.Spaced = true ∧
    textOf parenLit = cp "void f(char c = '(') {\n  x;\n}\n" ∧
    (render parenLit)[7]? = some ⟨7, 7, [40], 1, 18⟩ ∧
    discovery Gen.cpp parenLit = true ∧
    (treeOp Gen.cpp parenLit).good = true ∧
    analyze Gen.cpp (textOf parenLit) (rawOf parenLit) = .ok ([⟨[102], 1, 6, 3, 2, 3⟩], 3) ∧
    reportOf Gen.cpp parenLit = [⟨[102], 1, 6, 3, 2, 3⟩] := by
  have hrep : reportOf Gen.cpp parenLit = [⟨[102], 1, 6, 3, 2, 3⟩] := by decide +kernel
  have hdisc : discovery Gen.cpp parenLit = true := by decide +kernel
  refine ⟨by decide +kernel, by decide +kernel, by decide +kernel, by decide +kernel,
    by decide +kernel, by decide +kernel, hdisc, by decide +kernel, ?_, hrep⟩
  obtain ⟨hs, hh, hperm⟩ := discovery_iff.1 hdisc
  rw [analyze_of_tree_text_partial (by decide) (by decide +kernel) (by decide +kernel)
    (by decide +kernel) (by decide +kernel) hh hperm, hrep]
  rfl

/-- `void f() { if (match('(')) { x; } y; }`: ordinary parser code -/
def callLit : Prog PTok :=
  .leaf (pt 1 [118, 111, 105, 100] 0 0) <|
  .fn (.toks [pt 2 [102] 0 4, pt 3 [40] 0 0, pt 3 [41] 0 0] .nil) 0 []
      (pt 3 [123] 0 1) (pt 3 [125] 1 0)
      (.toks [pt 1 [105, 102] 1 2, pt 3 [40] 0 2, pt 2 [109, 97, 116, 99, 104] 0 0, pt 3 [40] 0 4,
              pt 7 [39] 0 0, pt 7 [40] 0 0, pt 7 [39] 0 0, pt 3 [41] 0 0, pt 3 [41] 0 0] <|
       .group (pt 3 [123] 0 1) (pt 3 [125] 1 2) (.toks [pt 2 [120] 1 4, pt 3 [59] 0 0] .nil) <|
       .toks [pt 2 [121] 1 2, pt 3 [59] 0 0] .nil) <|
  .nil

/-- **F25 fixed: a parenthesis inside a literal no longer invents a function.**  In
`if (match('(')) {` the String token `(` (index 10 of the rendering, kind 7) is an ordinary token
inside the call `match(...)`: the attempt from `match` closes at the first punctuation token `)`
and is followed by `)`, not by `{`, so no function `match` is reported; header discovery succeeds
and `_analyze_file` returns the tree report: `f` alone, lines 1-6, 6 lines.  All hypotheses of T3
hold.  (Before the repair `match` was reported as a function on lines 2-4 and `f` was measured
with 4 lines.) -/
theorem F25_fixed_paren_literal_in_condition :
    callLit.bare.wfCore = true ∧ callLit.noAdj = true ∧ callLit.bare.allCode = true ∧
    callLit.Spaced = true ∧
    textOf callLit = cp "void f() {\n  if (match('(')) {\n    x;\n  }\n  y;\n}\n" ∧
    (render callLit)[10]? = some ⟨7, 7, [40], 2, 14⟩ ∧
    discovery Gen.cpp callLit = true ∧
    (treeOp Gen.cpp callLit).good = true ∧
    analyze Gen.cpp (textOf callLit) (rawOf callLit) = .ok ([⟨[102], 1, 6, 6, 2, 6⟩], 6) ∧
    reportOf Gen.cpp callLit = [⟨[102], 1, 6, 6, 2, 6⟩] := by
  have hrep : reportOf Gen.cpp callLit = [⟨[102], 1, 6, 6, 2, 6⟩] := by decide +kernel
  have hdisc : discovery Gen.cpp callLit = true := by decide +kernel
  refine ⟨by decide +kernel, by decide +kernel, by decide +kernel, by decide +kernel,
    by decide +kernel, by decide +kernel, hdisc, by decide +kernel, ?_, hrep⟩
  obtain ⟨hs, hh, hperm⟩ := discovery_iff.1 hdisc
  rw [analyze_of_tree_text_partial (by decide) (by decide +kernel) (by decide +kernel)
    (by decide +kernel) (by decide +kernel) hh hperm, hrep]
  rfl

end Obs

end CL.C01text
