import CodeLimit.Lemmas.Cache
/-!
# C09 - cache-assisted scans equal fresh scans over any edit history

Model: `Model/Cache.lean` (`scan_command`, `_read_cached_report`, `scan_path`, `_scan_file`,
`read_report`).  Assumption that appears as a hypothesis: `Function.Injective P.hash` (md5 has no
collisions among the contents that ever occur).  Side condition on the environment:
`Op.Allowed` - a cache file put in place from outside is absent, junk, of ANOTHER version (with
arbitrary, altered entries) or an honest document of the current version.
-/
set_option linter.unusedSectionVars false

namespace CL.C09
open CL.Cache

section
variable {Path Content Hash Entry Excl Version : Type}
variable [DecidableEq Path] [DecidableEq Hash] [DecidableEq Version]
variable (P : Params Path Content Hash Entry Excl Version)

/-! ## C09.1 the invariant and its consequence -/

/-- A tree that has never been scanned satisfies the invariant (there is no cache). -/
theorem inv_init (fs : List (Path × Content)) (e : Excl) :
    Inv P (init fs e : State Path Content Hash Entry Excl Version) :=
  Or.inr (by rintro ⟨es, h⟩; cases h)

/-- Every operation - file edits, exclusion changes, allowed cache replacements, truncation,
removal of the cache directory or its marker files, and a scan - preserves the invariant
"the cache is honest or will not be used". -/
theorem inv_step (s : State Path Content Hash Entry Excl Version)
    (op : Op Path Content Hash Entry Excl Version) (hop : Op.Allowed P op) (h : Inv P s) :
    Inv P (step P s op) := by
  cases op with
  | write p c => exact h
  | delete p => exact h
  | rename a b => exact h
  | touch p => exact h
  | swap a b => exact h
  | setExcl e => exact h
  | removeMarkers => exact h
  | removeCacheDir => exact Or.inr (by rintro ⟨es, h⟩; cases h)
  | scan => exact Or.inl (honest_doc_cur P (report_honest P h))
  | truncate ws =>
    show Honest P (truncateCache ws s.cache) ∨ ¬ Usable P (truncateCache ws s.cache)
    cases hc : s.cache with
    | missing => exact Or.inr (by rintro ⟨es, h⟩; cases h)
    | junk k => cases ws <;> exact Or.inr (by rintro ⟨es, h⟩; simp [truncateCache] at h)
    | doc v es =>
      cases ws
      · exact Or.inr (by rintro ⟨es, h⟩; simp [truncateCache] at h)
      · have h' : Honest P s.cache ∨ ¬ Usable P s.cache := h
        rw [hc] at h'
        exact h'
  | replaceCache c =>
    show Honest P c ∨ ¬ Usable P c
    rcases hop with rfl | ⟨k, rfl⟩ | ⟨v, es, rfl, hv⟩ | ⟨es, rfl, hes⟩
    · exact Or.inr (by rintro ⟨es, h⟩; cases h)
    · exact Or.inr (by rintro ⟨es, h⟩; cases h)
    · exact Or.inr (by rintro ⟨es', h⟩; cases h; exact hv rfl)
    · exact Or.inl (honest_doc_cur P hes)

/-- The invariant holds after every finite history of allowed operations. -/
theorem inv_run (s : State Path Content Hash Entry Excl Version)
    (ops : List (Op Path Content Hash Entry Excl Version))
    (hops : ∀ op ∈ ops, Op.Allowed P op) (h : Inv P s) : Inv P (run P s ops) := by
  induction ops generalizing s with
  | nil => exact h
  | cons op ops ih =>
    exact ih (step P s op) (fun o ho => hops o (List.mem_cons_of_mem _ ho))
      (inv_step P s op (hops op List.mem_cons_self) h)

/-- In a state that satisfies the invariant a scan reports exactly what a from-scratch scan of
the same tree under the same exclusions reports (given a collision-free checksum). -/
theorem scan_eq_fresh_of_inv (hinj : Function.Injective P.hash)
    (s : State Path Content Hash Entry Excl Version) (h : Inv P s) :
    (scan P s).2 = fresh P s :=
  report_eq_fresh_of_inv P hinj h

/-- **C09.1** After ANY finite history of file writes, deletions, renames, touches, content
swaps, exclusion changes, allowed cache replacements, truncations, removals of the cache
directory or marker files, and scans - starting from an arbitrary tree without cache - the
report of a scan that uses the on-disk cache equals the report of a from-scratch scan of the
same tree.  (Every prefix of a history is a history, so this covers every scan inside it:
`observe_reports_fresh`.)  "Allowed" (`Op.Allowed`, Spec/Cache.lean) restricts ONE operation
only: a cache file put in place from outside may be absent, junk, a document of ANOTHER version
with arbitrary altered entries, or an honest document of the current version - not a forged
document of the current version (Appendix A; `allowed_needed` shows that the restriction cannot
be dropped). -/
theorem scan_eq_fresh (hinj : Function.Injective P.hash)
    (fs : List (Path × Content)) (e : Excl)
    (ops : List (Op Path Content Hash Entry Excl Version))
    (hops : ∀ op ∈ ops, Op.Allowed P op) :
    (scan P (run P (init fs e) ops)).2 = fresh P (run P (init fs e) ops) :=
  scan_eq_fresh_of_inv P hinj _ (inv_run P _ ops hops (inv_init P fs e))

/-- what `observe` records for a history that is cut in two: the records of the first part,
then the records of the second part started in the state the first part leads to -/
theorem observe_append (s : State Path Content Hash Entry Excl Version)
    (pre post : List (Op Path Content Hash Entry Excl Version)) :
    observe P s (pre ++ post) = observe P s pre ++ observe P (run P s pre) post := by
  induction pre generalizing s with
  | nil => rfl
  | cons op pre ih =>
    cases op <;> simp only [List.cons_append, observe, run, List.foldl_cons, step] <;>
      first
        | exact ih _
        | (congr 1; exact ih _)

/-- `observe` records one entry per scan of the history -/
theorem observe_length (s : State Path Content Hash Entry Excl Version)
    (ops : List (Op Path Content Hash Entry Excl Version)) :
    (observe P s ops).length = (ops.filter Op.isScan).length := by
  induction ops generalizing s with
  | nil => rfl
  | cons op ops ih =>
    cases op <;> simp [observe, Op.isScan, List.filter_cons, ih]

/-- **the `k`-th record of a history is the `k`-th scan, run in the state the history had reached
then** (no hypothesis): if `pre` is what happened before the `k`-th scan of `ops`, the record
holds the report, the reused and the analysed paths of `scan` in the state `run P s pre`. -/
theorem observe_getElem (s : State Path Content Hash Entry Excl Version)
    (pre post : List (Op Path Content Hash Entry Excl Version)) :
    (observe P s (pre ++ .scan :: post))[(pre.filter Op.isScan).length]? =
      some ((scan P (run P s pre)).2, (reusedFiles P (run P s pre)).map (·.1),
        (analysedFiles P (run P s pre)).map (·.1), (scan P (run P s pre)).1.dir) := by
  rw [observe_append, ← observe_length P s pre, List.getElem?_append_right (Nat.le_refl _)]
  simp [observe]

/-- **C09.1, for every scan inside a history**: the report recorded for the `k`-th scan of a
history of allowed operations is the from-scratch report OF THE STATE IN WHICH THAT SCAN RAN
(`run P s pre`, where `pre` is the part of the history before that scan), and that scan ran in a
state satisfying the invariant.  (Before the audit this theorem only said "the fresh report of
SOME invariant state".) -/
theorem observe_reports_fresh (hinj : Function.Injective P.hash)
    (s : State Path Content Hash Entry Excl Version)
    (ops : List (Op Path Content Hash Entry Excl Version))
    (hops : ∀ op ∈ ops, Op.Allowed P op) (h : Inv P s)
    (pre post : List (Op Path Content Hash Entry Excl Version)) (hsplit : ops = pre ++ .scan :: post) :
    ((observe P s ops)[(pre.filter Op.isScan).length]?).map (·.1) = some (fresh P (run P s pre)) ∧
    Inv P (run P s pre) ∧ HonestRows P (fresh P (run P s pre)) := by
  subst hsplit
  have hpre : ∀ op ∈ pre, Op.Allowed P op := fun op ho => hops op (List.mem_append_left _ ho)
  have hinv := inv_run P s pre hpre h
  rw [observe_getElem, Option.map_some]
  exact ⟨congrArg some (scan_eq_fresh_of_inv P hinj _ hinv), hinv, fresh_honest P _⟩

/-- every record of `observe` is the record of some scan of the history: the records are
exactly the scans, in order (`observe_length`, `observe_getElem`), so the statement above speaks
about ALL of them -/
theorem observe_mem (s : State Path Content Hash Entry Excl Version)
    (ops : List (Op Path Content Hash Entry Excl Version))
    (o : Report Path Hash Entry × List Path × List Path × DirState) (ho : o ∈ observe P s ops) :
    ∃ pre post, ops = pre ++ .scan :: post ∧
      o = ((scan P (run P s pre)).2, (reusedFiles P (run P s pre)).map (·.1),
        (analysedFiles P (run P s pre)).map (·.1), (scan P (run P s pre)).1.dir) := by
  induction ops generalizing s with
  | nil => simp [observe] at ho
  | cons op ops ih =>
    have hrec : o ∈ observe P (step P s op) ops → ∃ pre post, op :: ops = pre ++ .scan :: post ∧
        o = ((scan P (run P s pre)).2, (reusedFiles P (run P s pre)).map (·.1),
          (analysedFiles P (run P s pre)).map (·.1), (scan P (run P s pre)).1.dir) := by
      intro ho'
      obtain ⟨pre, post, rfl, he⟩ := ih _ ho'
      exact ⟨op :: pre, post, rfl, he⟩
    cases op with
    | scan =>
      simp only [observe, List.mem_cons] at ho
      rcases ho with rfl | ho
      · exact ⟨[], ops, rfl, rfl⟩
      · exact hrec ho
    | write p c => exact hrec (by simpa [observe] using ho)
    | delete p => exact hrec (by simpa [observe] using ho)
    | rename a b => exact hrec (by simpa [observe] using ho)
    | touch p => exact hrec (by simpa [observe] using ho)
    | swap a b => exact hrec (by simpa [observe] using ho)
    | setExcl e => exact hrec (by simpa [observe] using ho)
    | replaceCache c => exact hrec (by simpa [observe] using ho)
    | truncate w => exact hrec (by simpa [observe] using ho)
    | removeCacheDir => exact hrec (by simpa [observe] using ho)
    | removeMarkers => exact hrec (by simpa [observe] using ho)

/-! ## C09.2 when a cached entry is reused -/

/-- **C09.2a** In ANY state (no invariant needed) an entry is taken from the cache only for a
selected file of the tree, only when the cache file is a document of the CURRENT version, and
only when that document holds, under the same path, an entry whose checksum is the checksum of
the file's CURRENT content; the reported row is that cached row. -/
theorem reuse_only_if_unchanged (s : State Path Content Hash Entry Excl Version)
    (f : Path × Content) (hf : f ∈ reusedFiles P s) :
    f ∈ s.fs ∧ P.selected s.excl f.1 = true ∧
    ∃ es e, s.cache = .doc P.cur es ∧ (f.1, P.hash f.2, e) ∈ es ∧
      (f.1, P.hash f.2, e) ∈ report P s := by
  simp only [reusedFiles, walk, List.mem_filter, decide_eq_true_eq] at hf
  obtain ⟨⟨hfs, hsel⟩, hre⟩ := hf
  obtain ⟨es, e, hes, hl, hr⟩ := (scanFile_reused_iff P).1 hre
  refine ⟨hfs, hsel, es, e, (readCachedReport_eq_some P).1 hes, lookupLast_mem hl, ?_⟩
  simp only [report, scanLog, List.map_map, List.mem_map, Function.comp]
  exact ⟨f, by simp [walk, hfs, hsel], hr⟩

/-- **C09.2b** In a reachable state (invariant) with a collision-free checksum, the reused entry
is the analysis of the file's current content: the content has not changed since the entry was
computed.  (The last conjunct restates the hypothesis `hinj` at the file's content - "no other
content has this checksum" -; the conclusions with content are the first two.) -/
theorem reused_entry_is_current_analysis (hinj : Function.Injective P.hash)
    (s : State Path Content Hash Entry Excl Version) (h : Inv P s)
    (f : Path × Content) (hf : f ∈ reusedFiles P s) :
    (f.1, P.hash f.2, P.analyze f.1 f.2) ∈ report P s ∧
    ∃ es, s.cache = .doc P.cur es ∧ (f.1, P.hash f.2, P.analyze f.1 f.2) ∈ es ∧
      ∀ c, P.hash c = P.hash f.2 → c = f.2 := by
  obtain ⟨_, _, es, e, hc, hm, hr⟩ := reuse_only_if_unchanged P s f hf
  have hes : HonestRows P es := inv_cached P h es ((readCachedReport_eq_some P).2 hc)
  obtain ⟨c, h1, h2⟩ := hes _ hm
  simp only at h1 h2
  have : f.2 = c := hinj h1
  subst this
  subst h2
  exact ⟨hr, es, hc, hm, fun c hcc => hinj hcc⟩

/-- **C09.2c** Every file that is not reused is analysed, and its row is the analysis of its
current content. -/
theorem analysed_row (s : State Path Content Hash Entry Excl Version)
    (f : Path × Content) (hf : f ∈ analysedFiles P s) :
    f ∈ s.fs ∧ P.selected s.excl f.1 = true ∧
    (f.1, P.hash f.2, P.analyze f.1 f.2) ∈ report P s := by
  simp only [analysedFiles, walk, List.mem_filter, Bool.not_eq_true', decide_eq_false_iff_not] at hf
  obtain ⟨⟨hfs, hsel⟩, hre⟩ := hf
  refine ⟨hfs, hsel, ?_⟩
  simp only [report, scanLog, List.map_map, List.mem_map, Function.comp]
  exact ⟨f, by simp [walk, hfs, hsel], scanFile_analysed_row P hre⟩

/-- **C09.2d** Analysed and reused files together are exactly the selected files of the tree,
each once (as a permutation of the walk), and the report lists the walked paths in walk order. -/
theorem analysed_reused_partition (s : State Path Content Hash Entry Excl Version) :
    (reusedFiles P s ++ analysedFiles P s).Perm (walk P s) ∧
    (report P s).map (·.1) = (walk P s).map (·.1) ∧
    (∀ f, f ∈ walk P s ↔ f ∈ s.fs ∧ P.selected s.excl f.1 = true) := by
  refine ⟨List.filter_append_perm _ _, ?_, ?_⟩
  · simp only [report, scanLog, List.map_map]
    apply List.map_congr_left
    intro f _
    exact (scanFile_path P _ f).1
  · intro f; simp [walk]

/-- With a well-formed file system (no path twice) no path is analysed or reused twice, and none
is both analysed and reused. -/
theorem each_selected_path_once (s : State Path Content Hash Entry Excl Version) (hwf : FsWF s) :
    ((reusedFiles P s ++ analysedFiles P s).map (·.1)).Nodup := by
  have hperm := (analysed_reused_partition P s).1
  rw [(hperm.map _).nodup_iff]
  exact List.Nodup.sublist (List.Sublist.map _ List.filter_sublist) hwf

/-- Well-formedness of the file system is preserved by every operation. -/
theorem fsWF_step (s : State Path Content Hash Entry Excl Version)
    (op : Op Path Content Hash Entry Excl Version) (h : FsWF s) : FsWF (step P s op) := by
  cases op with
  | write p c => exact fsWrite_nodup h p c
  | delete p => exact fsDelete_nodup h p
  | rename a b => exact fsRename_nodup h a b
  | swap a b => exact fsSwap_nodup h a b
  | touch p => exact h
  | setExcl e => exact h
  | replaceCache c => exact h
  | truncate w => exact h
  | removeCacheDir => exact h
  | removeMarkers => exact h
  | scan => exact h

/-! ## C09.3 `report` and `findings` refuse a report of another version -/

/-- **C09.3** `read_report` answers "version mismatch" (exit code 1) for a report document iff
its version differs from the tool's; a document of the tool's version is shown.
(Definitional at this level: `readReport` IS this `if`.  The content of the clause is that the
real `read_report` computes the version it compares from the BYTES of the file and refuses:
`Gaps.read_report_abstract`, `Gaps.read_report_written`, `Gaps.foreign_version_refused_written`,
plus the correspondence run on the real function.) -/
theorem foreign_version_refused (v : Version) (es : List (Path × Hash × Entry)) :
    (readReport P (.doc v es) = .refuse ↔ v ≠ P.cur) ∧
    (readReport P (.doc v es) = .shown es ↔ v = P.cur) := by
  by_cases h : v = P.cur <;> simp [readReport, h]

end

/-! ## Non-vacuity: a concrete universe

paths and contents are numbers, `hash = id` (injective), `analyze p c = 10 * p + c`, exclusions
are a list of excluded paths, the current version is 1. -/

def exP : Params Nat Nat Nat Nat (List Nat) Nat :=
  { analyze := fun p c => 10 * p + c, hash := id, selected := fun e p => !e.contains p, cur := 1 }

theorem exP_injective : Function.Injective exP.hash := fun _ _ h => h

/-- a history with a reuse: scan, change file 0, scan - file 1 is reused, file 0 analysed; a
scan after deleting 1 and excluding nothing reports only file 0 (reused). -/
example :
    observe exP (init [(0, 0), (1, 1)] []) [.scan, .write 0 1, .scan, .delete 1, .touch 0, .scan] =
      [ ([(0, 0, 0), (1, 1, 11)], [], [0, 1], .present true),
        ([(0, 1, 1), (1, 1, 11)], [1], [0], .present true),
        ([(0, 1, 1)], [0], [], .present true) ] := by decide

/-- swapping the contents of two files forces both to be analysed again -/
example :
    observe exP (init [(0, 0), (1, 1)] []) [.scan, .swap 0 1, .scan] =
      [ ([(0, 0, 0), (1, 1, 11)], [], [0, 1], .present true),
        ([(0, 1, 1), (1, 0, 10)], [], [0, 1], .present true) ] := by decide

/-- a cache of another version with an altered entry (999 under a matching checksum) is not
used: everything is analysed, the report is the fresh one; the operation is allowed -/
example :
    let forged : CacheFile Nat Nat Nat Nat := .doc 2 [(0, 0, 999), (1, 1, 11)]
    Op.Allowed exP (.replaceCache forged : Op Nat Nat Nat Nat (List Nat) Nat) ∧
    observe exP (init [(0, 0), (1, 1)] []) [.scan, .replaceCache forged, .scan] =
      [ ([(0, 0, 0), (1, 1, 11)], [], [0, 1], .present true),
        ([(0, 0, 0), (1, 1, 11)], [], [0, 1], .present true) ] := by
  refine ⟨Or.inr (Or.inr (Or.inl ⟨2, _, rfl, by decide⟩)), by decide⟩

/-- **the side condition `Op.Allowed` is needed** (`scan_eq_fresh`, `inv_run`,
`C10.faults_interleaved_harmless` are false without it): a history with one operation that is not
allowed - putting a document of the CURRENT version with an altered entry (999 under a matching
path and checksum) in place of the cache - after which the scan reuses the altered entry and its
report differs from the fresh one.  Such a file is indistinguishable from an honest cache
(Appendix A: "altered entries" is read together with "another version"); the same holds of the
code (`Pipe.Ex.forged_cache_taints`, `C09sel.matching_entry_is_reused_unchecked`). -/
theorem allowed_needed :
    ∃ (fs : List (Nat × Nat)) (ops : List (Op Nat Nat Nat Nat (List Nat) Nat)),
      ¬ (∀ op ∈ ops, Op.Allowed exP op) ∧
      (scan exP (run exP (init fs []) ops)).2 ≠ fresh exP (run exP (init fs []) ops) ∧
      ¬ Inv exP (run exP (init fs []) ops) := by
  refine ⟨[(0, 0), (1, 1)], [.scan, .replaceCache (.doc 1 [(0, 0, 999), (1, 1, 11)])], ?_, by decide, ?_⟩
  · intro h
    rcases h _ (List.mem_cons_of_mem _ List.mem_cons_self) with h | ⟨k, h⟩ | ⟨v, es, h, hv⟩ | ⟨es, h, hes⟩
    · cases h
    · cases h
    · cases h; exact hv rfl
    · cases h
      obtain ⟨c, h1, h2⟩ := hes (0, 0, 999) List.mem_cons_self
      simp only [exP, id] at h1 h2
      omega
  · intro h
    have := scan_eq_fresh_of_inv exP exP_injective _ h
    revert this
    decide

/-- what that scan reports: the altered entry, where the fresh scan has the analysis -/
example :
    let forged : CacheFile Nat Nat Nat Nat := .doc 1 [(0, 0, 999), (1, 1, 11)]
    (scan exP (run exP (init [(0, 0), (1, 1)] []) [.scan, .replaceCache forged])).2
      = [(0, 0, 999), (1, 1, 11)] ∧
    fresh exP (run exP (init [(0, 0), (1, 1)] []) [.scan, .replaceCache forged])
      = [(0, 0, 0), (1, 1, 11)] := by decide

/-- `observe_reports_fresh` on a concrete history: the second record (`k = 1`, `pre` = scan,
write) is the fresh report of the state after `pre` -/
example :
    ((observe exP (init [(0, 0), (1, 1)] []) [.scan, .write 0 1, .scan, .delete 1, .scan])[1]?).map (·.1) =
      some (fresh exP (run exP (init [(0, 0), (1, 1)] []) [.scan, .write 0 1])) ∧
    fresh exP (run exP (init [(0, 0), (1, 1)] []) [.scan, .write 0 1]) = [(0, 1, 1), (1, 1, 11)] := by decide

/-- exclusions and renames: a renamed file is analysed under its new path (the cached entry of
the old path is not used), an excluded file drops out and comes back reused -/
example :
    observe exP (init [(0, 0), (1, 1)] []) [.scan, .rename 0 2, .setExcl [1], .scan, .setExcl [], .scan] =
      [ ([(0, 0, 0), (1, 1, 11)], [], [0, 1], .present true),
        ([(2, 0, 20)], [], [2], .present true),
        ([(1, 1, 11), (2, 0, 20)], [2], [1], .present true) ] := by decide

example : readReport exP (.doc 2 [(0, 0, 0)]) = .refuse ∧ readReport exP (.doc 1 [(0, 0, 0)]) = .shown [(0, 0, 0)] := by
  decide

end CL.C09
