import CodeLimit.Lemmas.Independence
import CodeLimit.Lemmas.IndependenceAcc
import CodeLimit.Lemmas.IndependenceTok
import CodeLimit.Lemmas.IndependenceFile
/-!
# C06 - results do not depend on set-iteration order, on the id counter, or on what was analysed before

Property theorems only (helper lemmas live in `CodeLimit/Lemmas/Independence.lean`,
`FindAllLang.lean`, `CoReach.lean`).

The pattern engine builds its automata from Python `set`s, whose iteration order depends on the
hash seed (model parameter `ord`, any `IsOrder ord`: every element exactly once, in some
order), and draws state ids from a global counter whose value depends on everything compiled
before (model parameter `base`). The compiled tables *do* depend on both (see the examples at
the end), the results of `match`, `starts_with`, `nfa_match` and `find_all` do not: for every
pattern `r` over `Identity` atoms, every input `w`, all orders and all counter values the
results - including error outcomes, of which there are none - are equal.

The last section lifts this from one pattern to the whole per-file analysis (`extract_headers`,
`scan_file`, `_analyze_file`: `analyze_indep`) and to a process that analyses many files in a row
(`analyse_many_isolated`).  "Two scans of the same tree" is `C06scan.two_scans_same_tree`
(Props/C06scan.lean, on the report of `Pipeline.scan`).
-/
namespace CL.C06

variable {α : Type} [DecidableEq α]

/-- `matcher.match` gives the same result under every set-iteration order and every value of
the id counter -/
theorem match_indep (r : Rx α) {base base' : Nat} {ord ord' : List α → List α}
    (hord : IsOrder ord) (hord' : IsOrder ord') (w : List α) :
    matchFull r base ord w = matchFull r base' ord' w :=
  matchFull_indep r hord hord' w

/-- `matcher.starts_with` gives the same result under every set-iteration order and every value
of the id counter -/
theorem starts_with_indep (r : Rx α) {base base' : Nat} {ord ord' : List α → List α}
    (hord : IsOrder ord) (hord' : IsOrder ord') (w : List α) :
    startsWith r base ord w = startsWith r base' ord' w :=
  startsWith_indep r hord hord' w

/-- `matcher.nfa_match` (which uses no set iteration) gives the same result under every value of
the id counter -/
theorem nfa_match_indep (r : Rx α) (base base' : Nat) (w : List α) :
    nfaMatch r base w = nfaMatch r base' w :=
  nfaMatch_indep r base base' w

/-- `matcher.find_all` reports the same list of matches (positions and recorded items, in the
same order) under every set-iteration order and every value of the id counter. No assumption
on the pattern: also for patterns that can match the empty sequence. -/
theorem find_all_indep (r : Rx α) {base base' : Nat} {ord ord' : List α → List α}
    (hord : IsOrder ord) (hord' : IsOrder ord') (w : List α) :
    findAllId r base ord w = findAllId r base' ord' w :=
  findAllId_indep r hord hord' w

/-- the reason: two tables compiled from the same pattern are bisimilar - the objects reached on
the same word agree on acceptance, on "has no transitions", and step (or fail to step)
together, never raising -/
theorem tables_bisimilar {r : Rx α} {base base' : Nat} {ord ord' : List α → List α}
    {D D' : Dfa α} (hord : IsOrder ord) (hord' : IsOrder ord')
    (hD : nfaToDfa (compile r base) ord = some D)
    (hD' : nfaToDfa (compile r base') ord' = some D') :
    Bisim (dfaMachine D idAcceptor) (dfaMachine D' idAcceptor) (DRel D D') :=
  dfa_bisim hord hord' hD hD'

/-- `find_all` only observes a machine up to bisimulation: bisimilar machines (of possibly
different state types) produce the same matches or the same error -/
theorem find_all_bisim {β σ σ' : Type} {A : Machine β σ} {A' : Machine β σ'}
    {R : σ → σ' → Prop} (hB : Bisim A A' R) (xs : List β) : findAll A xs = findAll A' xs :=
  findAll_bisim hB xs

/-- the `len(pattern.state.transition) == 0` shortcut in `find_all` is redundant when a state
without transitions cannot step -/
theorem find_all_dead_shortcut_redundant {β σ : Type} {A : Machine β σ} (hds : DeadStuck A)
    (xs : List β) : findAll A xs = findAll { A with dead := fun _ => false } xs :=
  findAll_dead_irrelevant hds xs

/-- the language of words on which a compiled table survives (prefixes of words of the
pattern's language) and the words it accepts do not depend on order or counter -/
theorem table_language_indep {r : Rx α} {base base' : Nat} {ord ord' : List α → List α}
    {D D' : Dfa α} (hord : IsOrder ord) (hord' : IsOrder ord')
    (hD : nfaToDfa (compile r base) ord = some D)
    (hD' : nfaToDfa (compile r base') ord' = some D') (u : List α) :
    ((∃ s, dfaRun D .start u = some s) ↔ (∃ s', dfaRun D' .start u = some s')) ∧
    (AccRun D .start u ↔ AccRun D' .start u) := by
  refine ⟨?_, ?_⟩
  · rw [dfaRun_isSome_iff hord hD, dfaRun_isSome_iff hord' hD']
  · rw [accRun_start_iff (compile_wf r base) hord hD, accRun_start_iff (compile_wf r base') hord' hD',
      thompson_correct, thompson_correct]

/-! ## non-vacuity -/

/-- `Union([a, OneOrMore(b)], [b, c])` with `a b c = 0 1 2` -/
def P : Rx Nat := .alt (.cat (.atom 0) (.plus (.atom 1))) (.cat (.atom 1) (.atom 2))

/-- the compiled tables really depend on the set order ... -/
example : (nfaToDfa (compile P 1) id).map (·.rows) ≠
    (nfaToDfa (compile P 1) List.reverse).map (·.rows) := by decide +kernel

/-- ... and on the id counter -/
example : (nfaToDfa (compile P 1) id).map (·.rows) ≠
    (nfaToDfa (compile P 40) id).map (·.rows) := by decide +kernel

/-- both sides of `find_all_indep` evaluated: two orders, two counter values, same matches -/
example :
    findAllId P 1 id [0, 1, 1, 2, 9, 1, 2, 0] = .ok [⟨0, 3, [0, 1, 1]⟩, ⟨5, 7, [1, 2]⟩] ∧
    findAllId P 40 List.reverse [0, 1, 1, 2, 9, 1, 2, 0]
      = .ok [⟨0, 3, [0, 1, 1]⟩, ⟨5, 7, [1, 2]⟩] := by
  constructor <;> decide +kernel

example : findAllId P 1 id [0, 1, 1, 2, 9, 1, 2, 0]
    = findAllId P 40 List.reverse [0, 1, 1, 2, 9, 1, 2, 0] :=
  find_all_indep P isOrder_id isOrder_reverse _

example : matchFull P 1 id [0, 1, 1] = .ok (some 3) ∧
    matchFull P 40 List.reverse [0, 1, 1] = .ok (some 3) := by
  constructor <;> decide +kernel

example : startsWith P 1 id [0, 1, 1] = .ok (some 2) ∧
    startsWith P 40 List.reverse [0, 1, 1] = .ok (some 2) := by
  constructor <;> decide +kernel

example : nfaMatch P 1 [1, 2] = true ∧ nfaMatch P 40 [1, 2] = true := by
  constructor <;> decide +kernel

/-- on a pattern that can match the empty sequence `find_all_indep` still applies -/
example : findAllId (.opt (.atom 1)) 0 id [2, 1] = findAllId (.opt (.atom 1)) 9 List.reverse [2, 1] :=
  find_all_indep _ isOrder_id isOrder_reverse _

/-! ## predicates with state (`Balanced`), `get_headers`

`Pattern.consume` evaluates every transition of the current state, in the iteration order of
the row, on the pattern's own copies of the predicates. The results are still independent of
that order provided evaluations of *different* predicates commute (`AccCompat`), which holds
for the token predicates (`tokAcceptor_compat`): every `Balanced` copy reads and writes only
its own depth. Without commutation the order matters (`order_matters_without_commutation`). -/

/-- two tables compiled from the same pattern are bisimilar as machines over any acceptor whose
predicate evaluations commute; related states = DFA objects reached on the same word of
predicates, with equivalent predicate states -/
theorem tables_bisimilar_acc {π β : Type} {C : Acceptor α π β} {E : π → π → Prop}
    (hC : AccCompat C E) {r : Rx α} {base base' : Nat} {ord ord' : List α → List α}
    {D D' : Dfa α} (hord : IsOrder ord) (hord' : IsOrder ord')
    (hD : nfaToDfa (compile r base) ord = some D)
    (hD' : nfaToDfa (compile r base') ord' = some D') :
    Bisim (dfaMachine D C) (dfaMachine D' C) (DRelAcc E D D') :=
  dfa_bisim_acc hC hord hord' hD hD'

/-- `find_all` with predicates that carry state reports the same matches (or raises the same
error, e.g. "Multiple transitions found!" for overlapping predicates) under every set-iteration
order and every value of the id counter -/
theorem find_all_indep_acc {π β : Type} {C : Acceptor α π β} {E : π → π → Prop}
    (hC : AccCompat C E) {r : Rx α} {base base' : Nat} {ord ord' : List α → List α}
    {D D' : Dfa α} (hord : IsOrder ord) (hord' : IsOrder ord')
    (hD : nfaToDfa (compile r base) ord = some D)
    (hD' : nfaToDfa (compile r base') ord' = some D') (xs : List β) :
    findAll (dfaMachine D C) xs = findAll (dfaMachine D' C) xs :=
  findAll_bisim (dfa_bisim_acc hC hord hord' hD hD') xs

/-- the same for `matcher.match` and `matcher.starts_with` -/
theorem match_starts_with_indep_acc {π β : Type} {C : Acceptor α π β} {E : π → π → Prop}
    (hC : AccCompat C E) {r : Rx α} {base base' : Nat} {ord ord' : List α → List α}
    {D D' : Dfa α} (hord : IsOrder ord) (hord' : IsOrder ord')
    (hD : nfaToDfa (compile r base) ord = some D)
    (hD' : nfaToDfa (compile r base') ord' = some D') (xs : List β) :
    matchM (dfaMachine D C) (dfaMachine D C).init xs 0
      = matchM (dfaMachine D' C) (dfaMachine D' C).init xs 0 ∧
    startsWithM (dfaMachine D C) (dfaMachine D C).init xs 0
      = startsWithM (dfaMachine D' C) (dfaMachine D' C).init xs 0 :=
  have hB := dfa_bisim_acc hC hord hord' hD hD'
  ⟨matchM_bisim hB xs 0 hB.init, startsWithM_bisim hB xs 0 hB.init⟩

/-- evaluations of different token predicates commute: a `Balanced` copy touches only its own
nesting depth, every other predicate is stateless -/
theorem token_predicates_commute : AccCompat tokAcceptor DepthEq := tokAcceptor_compat

/-- `get_headers` (header pattern + optional follow-up pattern over token predicates, including
`Balanced`) returns the same headers or raises the same exception under every set-iteration
order and every value of the id counter (`base` for the header pattern, `baseF` for the
follow-up pattern). The model's `getHeaders` is the instance `getHeadersWith 1 1 id`. -/
theorem get_headers_indep {base baseF base' baseF' : Nat} {ord ord' : List Pred → List Pred}
    (hord : IsOrder ord) (hord' : IsOrder ord') (hp : HeaderPat) (toks : List Tok) :
    getHeadersWith base baseF ord hp toks = getHeadersWith base' baseF' ord' hp toks :=
  getHeadersWith_indep hord hord' hp toks

/-- in particular every order and counter value gives the result of the model's `getHeaders` -/
theorem get_headers_indep_model {base baseF : Nat} {ord : List Pred → List Pred}
    (hord : IsOrder ord) (hp : HeaderPat) (toks : List Tok) :
    getHeadersWith base baseF ord hp toks = getHeaders hp toks := by
  rw [← getHeadersWith_default]
  exact getHeadersWith_indep hord isOrder_id hp toks

/-! ### non-vacuity for the token level -/

/-- Java-like header: `name Balanced("(", ")")+`, followed by `{` or `throws ... {`
(`throws` = keyword `[7]`) -/
def hpJ : HeaderPat :=
  ⟨.cat (.atom .name) (.plus (.atom (.balanced (.value [40]) (.value [41])))),
   some (.alt (.atom (.symbol [123]))
     (.cat (.cat (.atom (.keyword [7])) (.star (.atom (.and (.not (.value [59])) (.not (.value [123]))))))
       (.atom (.symbol [123]))))⟩

/-- `foo ( x ) throws E {` -/
def toksJ : List Tok :=
  [⟨2, 0, [1], 1, 0⟩, ⟨3, 0, [40], 1, 1⟩, ⟨2, 0, [2], 1, 2⟩, ⟨3, 0, [41], 1, 3⟩,
   ⟨1, 0, [7], 1, 4⟩, ⟨2, 0, [3], 1, 5⟩, ⟨3, 0, [123], 1, 6⟩]

example :
    getHeadersWith 1 1 id hpJ toksJ = .ok [⟨⟨2, 0, [1], 1, 0⟩, ⟨0, 4⟩⟩] ∧
    getHeadersWith 17 50 List.reverse hpJ toksJ = .ok [⟨⟨2, 0, [1], 1, 0⟩, ⟨0, 4⟩⟩] := by
  constructor <;> decide +kernel

/-- the table of (a part of) the follow-up pattern really depends on the order -/
example :
    (nfaToDfa (compile (.alt (.atom (Pred.symbol [123])) (.atom (.keyword [7]))) 1) id).map (·.rows) ≠
    (nfaToDfa (compile (.alt (.atom (Pred.symbol [123])) (.atom (.keyword [7]))) 1) List.reverse).map
      (·.rows) := by
  decide +kernel

/-! ### without commutation the order matters -/

/-- an acceptor whose predicates share one counter (what `Pattern.consume` would be if it did
not keep a separate copy per predicate): predicate `p` accepts iff the counter equals `p`, and
every evaluation increments the counter -/
def sharedCounter : Acceptor Nat Nat Unit where
  init := 0
  accept := fun p n _ => (p == n, n + 1)

/-- with the shared counter the pattern `Union(0, 1)` on a one-item input raises
"Multiple transitions found!" under one set order and reports no match under the other -/
theorem order_matters_without_commutation :
    (nfaToDfa (compile (.alt (.atom 0) (.atom 1)) 0) id).map
        (fun D => findAll (dfaMachine D sharedCounter) [()])
      ≠ (nfaToDfa (compile (.alt (.atom 0) (.atom 1)) 0) List.reverse).map
        (fun D => findAll (dfaMachine D sharedCounter) [()]) := by
  decide +kernel

/-! ## the whole per-file analysis

`Schedule` (`Lemmas/IndependenceFile.lean`): for the `i`-th header pattern of the language, the
value of the id counter when its header expression and its follow-up expression are compiled and
the set-iteration order used - the inputs of a call that are NOT its arguments.  `Schedule.Ok`:
every order enumerates each element exactly once. -/

/-- **`Language.extract_headers` depends on the language and the tokens only**: the headers of all
patterns of the language (concatenated in pattern order, Java's filter applied) are the same under
any two schedules - any counter values, any iteration orders, different ones for every pattern -/
theorem extract_headers_indep {sched sched' : Schedule} (h : sched.Ok) (h' : sched'.Ok)
    (L : Language) (toks : List Tok) :
    extractHeadersWith sched L toks = extractHeadersWith sched' L toks := by
  rw [extractHeadersWith_eq h, extractHeadersWith_eq h']

/-- **`scan_file` depends on the language and the token list only**: same measurements (names,
positions, lengths, order) or the same exception under any two schedules -/
theorem scan_file_indep {sched sched' : Schedule} (h : sched.Ok) (h' : sched'.Ok)
    (L : Language) (all : List Tok) : scanFileWith sched L all = scanFileWith sched' L all := by
  rw [scanFileWith_eq h, scanFileWith_eq h']

/-- **the measurements of a file depend only on its language and content** (`_analyze_file` on the
text and the lexer's output): same measurements and line total, or the same exception, under any
two schedules; in particular every schedule gives the result of the executable model `analyze`
(the schedule "counter 1, identity order", which the correspondence run ties to the code under
several hash seeds). -/
theorem analyze_indep {sched sched' : Schedule} (h : sched.Ok) (h' : sched'.Ok)
    (L : Language) (code : Str) (raw : List RawTok) :
    analyzeWith sched L code raw = analyzeWith sched' L code raw ∧
    analyzeWith sched L code raw = analyze L code raw := by
  rw [analyzeWith_eq h, analyzeWith_eq h']
  exact ⟨rfl, rfl⟩

/-- the executable model is the instance "counter 1, identity order" -/
theorem analyze_model (L : Language) (code : Str) (raw : List RawTok) :
    analyzeWith Schedule.model L code raw = analyze L code raw :=
  analyzeWith_eq Schedule.model_ok L code raw

/-- **Isolation per file, over histories.**  A process analyses files one after the other.  Between
two analyses it keeps a state `g` of any type, from which the hidden inputs of the next call
derive (`Pr.sched g`: the id counter is wherever the earlier compilations left it, the set orders
are whatever seed and history make them), and which every call changes in an arbitrary way that
may depend on its outcome (`Pr.next`: also for a file whose matching aborts midway with an
exception).  Then every file's result is the result of analysing that file alone in a fresh
process: the `k`-th result is `analyze` of the `k`-th file, whatever came before it.
(The model keeps NO other state between calls - in particular every `find_all` starts from fresh
copies of the predicates, `tokAcceptor.init`; that the code does so is the correspondence part, and
`fresh_predicate_copies_needed` shows that it matters.) -/
theorem analyse_many_isolated {γ : Type} (Pr : Proc γ) (hok : ∀ g, (Pr.sched g).Ok) (g : γ)
    (pre : List (Language × Str × List RawTok)) (x : Language × Str × List RawTok)
    (post : List (Language × Str × List RawTok)) :
    (analyseMany Pr g (pre ++ x :: post))[pre.length]? = some (analyze x.1 x.2.1 x.2.2) ∧
    analyseMany Pr g (pre ++ x :: post) = (pre ++ x :: post).map (fun y => analyze y.1 y.2.1 y.2.2) := by
  have h := analyseMany_eq Pr hok g (pre ++ x :: post)
  refine ⟨?_, h⟩
  rw [h, List.map_append, List.getElem?_append_right (by simp)]
  simp

/-! ### non-vacuity and the witness for fresh predicate copies -/

/-- a one-pattern brace language with the Java-like header of `hpJ` -/
def LJ : Language := ⟨[hpJ], false, false, none⟩

/-- `foo ( x ) throws E {` `}` on two lines -/
def toksJ2 : List Tok := toksJ ++ [⟨3, 0, [125], 2, 0⟩]

/-- a schedule unlike the model's: counters 17 / 50 and reversed sets for the first pattern,
other values for the rest -/
def schedJ : Schedule := fun i => if i = 0 then (17, 50, List.reverse) else (3 * i, 7, id)

theorem schedJ_ok : schedJ.Ok := by
  intro i
  unfold schedJ
  split
  · exact isOrder_reverse
  · exact isOrder_id

/-- both sides of `scan_file_indep` evaluated -/
example : scanFileWith schedJ LJ toksJ2 = .ok [⟨[1], 1, 0, 2, 1, 2⟩] ∧
    scanFileWith Schedule.model LJ toksJ2 = .ok [⟨[1], 1, 0, 2, 1, 2⟩] ∧
    scanFile LJ toksJ2 = .ok [⟨[1], 1, 0, 2, 1, 2⟩] := by
  refine ⟨?_, ?_, ?_⟩ <;> decide +kernel

/-- a process whose state is the id counter: every analysis advances it by an amount that depends
on the outcome (here: 100 after an exception, 10 per measurement otherwise) -/
def procJ : Proc Nat where
  sched g := fun i => (g + i, g + 2 * i + 1, if g % 2 = 0 then id else List.reverse)
  next g _ r := match r with | .error _ => g + 100 | .ok ms => g + 10 * ms.1.length + 1

theorem procJ_ok : ∀ g, (procJ.sched g).Ok := by
  intro g i
  show IsOrder (if g % 2 = 0 then id else List.reverse)
  split
  · exact isOrder_id
  · exact isOrder_reverse

/-- `analyse_many_isolated` with its hypothesis discharged: in the process `procJ`, started at
any counter value, a file analysed after ANY other files gets the result it gets alone -/
example (g : Nat) (pre : List (Language × Str × List RawTok)) (x : Language × Str × List RawTok) :
    (analyseMany procJ g (pre ++ [x]))[pre.length]? = some (analyze x.1 x.2.1 x.2.2) :=
  (analyse_many_isolated procJ procJ_ok g pre x []).1

/-- an acceptor whose `Balanced` copies are NOT fresh: the depths `d0` are left over from an
earlier use of the same predicate objects (what `Pattern.__init__` without the per-pattern
`deepcopy` would give after a match that was abandoned inside a parenthesis) -/
def leftoverDepths (d0 : Depths) : Acceptor Pred Depths Tok := { tokAcceptor with init := d0 }

/-- **fresh predicate copies are needed**: with a depth of 1 left in the `Balanced("(", ")")`
predicate, `find_all` of the header expression of `hpJ` on `foo ( x ) throws E {` reports `x )` and
`E {` (inside a parenthesis `Balanced` accepts every token), with fresh copies it reports
`foo ( x )` - the result of a file would depend on the file before it -/
theorem fresh_predicate_copies_needed :
    (compileTok hpJ.expr).map (fun D =>
        (findAll (dfaMachine D tokAcceptor) toksJ).map (·.map (fun m => (m.s, m.e))))
      = .ok (.ok [(0, 4)]) ∧
    (compileTok hpJ.expr).map (fun D =>
        (findAll (dfaMachine D (leftoverDepths [(.balanced (.value [40]) (.value [41]), 1)])) toksJ).map
          (·.map (fun m => (m.s, m.e))))
      = .ok (.ok [(2, 4), (5, 7)]) := by
  constructor <;> decide +kernel

end CL.C06
