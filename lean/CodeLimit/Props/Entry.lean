import CodeLimit.Lemmas.EntryLines
import CodeLimit.Lemmas.EntryEval
import CodeLimit.Props.C12cwd
import CodeLimit.Props.Pipeline
import CodeLimit.Props.Gaps
import CodeLimit.Props.C09
import CodeLimit.Props.C02
/-!
# The CLI entry functions (`__main__.py: scan, check, report, findings`) and the configuration they assemble

Model: `Model/Entry.lean` (state transformers on the process-level `Configuration` and the file
system); vocabulary: `Spec/Entry.lean`; executable by the driver operation `entry`
(`Model/EntryOps.lean`) and compared with the real functions by `harness/entry_stream.py`.

(a) which lines are in force
  * `scan_lines_in_force`, `check_lines_in_force`: the list handed to `PathSpec.from_lines` is the
    built-in names, what the process has accumulated, the call's `--exclude` values, the `exclude:` list of
    `<root>/.codelimit.yml` (`scan`) resp. `<cwd>/.codelimit.yml` (`check`), the lines of `<root>/.gitignore`
    resp. `<cwd>/.gitignore`; `entry_raises_iff`: when `Configuration.load` raises instead;
  * `scan_lines_refine_spec`, `entryCheck_refines_checkCmd`, `entryScan_refines_scanCmd`: the entry model
    refines the hand-checked specification of `Spec/C12cwd.lean` (`specLinesAt`, `checkCmd`, `scanCmd`): a call in a
    process that has accumulated the lines `acc` IS the specified command with `acc` in front of its own
    `--exclude` values; in a fresh process (`acc = []`) it is the specified command;
  * `scan_is_pipeline_scan`, `check_is_pipeline_check`: `Pipeline.Run.pats` instantiated; `scan_completes`.
(b) order, repetition, accumulation
  * `same_lines_same_result`: the commands depend on the SET of user lines only (six classes);
    `sources_commute`, `scan_result_depends_on_line_set`: which source a line comes from, where it stands and
    how often it occurs is irrelevant;
  * `exclude_after_history`, `nth_call_lines`: the exact content of `Configuration.exclude` after a history and
    the lines in force at the n-th call; `report_and_findings_contribute`;
  * kernel-checked witnesses, all reproduced on the real code: `second_scan_sees_first_options`,
    `second_scan_drops_a_file` (a second `scan` in the same interpreter drops a file because of the FIRST call's
    `--exclude`), `check_after_scan_witness`, `repository_is_sticky`, `empty_config_raises`,
    `config_overrides_and_report_contributes`.
(c) `report` / `findings`: `display_iff`, `exit_status`, `headline_cases`, `written_report_displayed`,
    `missing_report_refused`, `scan_then_report_shows`, `foreign_version_refused_by_entry`,
    `display_agrees_with_C09`, `diff_needs_both`, `report_never_writes`, `scan_report_findings_witness`.
(d) `--quiet` / `--verbose`: `check_quiet_passthrough`, `verbose_irrelevant_for_results`,
    `config_verbose_beats_option` (observation: `verbose: false` in `.codelimit.yml` silently overrides `-v`).

Observations about the real code recorded by the model (none is a defect of one CLI invocation, which
runs one entry function per process - except the first):
  * an EMPTY (or comment-only) `.codelimit.yml` makes `scan`, `check`, `report` and `findings` raise `TypeError`
    (`"exclude" in None`); so do a scalar document, `exclude:` without a value, and a list / string document that
    contains the word `exclude` or `verbose` (`ConfigDoc.raises`, `empty_config_raises`);
  * `exclude: abc` (a plain string) appends the CHARACTERS `a`, `b`, `c` as three patterns;
  * `Configuration.exclude` and `Configuration.repository` are class attributes that are only ever extended /
    overwritten: a second entry call in the same interpreter inherits the first call's `--exclude` values,
    configured lines and repository;
  * `report` and `findings` load the configuration although they never use it.
-/
namespace CL.Entry

open CL CL.Sel

variable (S : Sys)

/-! # (a) the exclusion lines in force -/

/-- **`scan`: the lines handed to `PathSpec.from_lines`**, when `Configuration.load(path)` does not
raise: the built-in names; then `Configuration.exclude`, which by now holds what earlier calls of
this interpreter left there (`st.proc.exclude`: nothing in a fresh process), this call's
`--exclude` values, and the `exclude:` list of `<root>/.codelimit.yml`; then the lines of
`<root>/.gitignore`.  No other file is read. -/
theorem scan_lines_in_force {st : State} {root : List Str} (h : LoadOk S st.fs root) (ex : Option (List Str)) (vb : Bool)
    (det : Option Json.Repo) (uuid now : Str) :
    ∃ c, (entryScan S st root ex vb det uuid now).2 = some c ∧
      c.lines = Gi.builtinNames ++ (st.proc.exclude ++ ex.getD [] ++ configLines S st.fs root) ++ gitLines S st.fs root := by
  rw [entryScan_of_ok S h]
  refine ⟨_, rfl, ?_⟩
  simp only [specLines, Pipeline.excludeLines, withDetected, configured, gitLines]
  cases gitignoreAt S st.fs root <;> rfl

/-- **`check`: the same with the WORKING DIRECTORY in place of the root** (`Configuration.load(Path('.'))`,
`generate_exclude_spec(Path.cwd())`), whatever the arguments are -/
theorem check_lines_in_force {st : State} {cwd : List Str} (h : LoadOk S st.fs cwd) (args : List CheckArg)
    (ex : Option (List Str)) (q vb : Bool) :
    ∃ c, (entryCheck S st cwd args ex q vb).2 = some c ∧
      c.lines = Gi.builtinNames ++ (st.proc.exclude ++ ex.getD [] ++ configLines S st.fs cwd) ++ gitLines S st.fs cwd := by
  rw [entryCheck_of_ok S h]
  refine ⟨_, rfl, ?_⟩
  simp only [specLines, Pipeline.excludeLines, configured, gitLines]
  cases gitignoreAt S st.fs cwd <;> rfl

/-- **when an entry function raises before its command runs**: exactly when the `.codelimit.yml` it
loads exists and `Configuration.load` cannot digest it (`LoadOk`) - for all four functions; `scan`
and `check` have then already stored their option values in the process-level configuration. -/
theorem entry_raises_iff (st : State) (dir : List Str) (args : List CheckArg) (ex : Option (List Str)) (q vb full : Bool)
    (det : Option Json.Repo) (uuid now : Str) (fmt : Fmt) (diff : Option (Option Str)) :
    ((entryScan S st dir ex vb det uuid now).2 = none ↔ ¬ LoadOk S st.fs dir) ∧
    ((entryCheck S st dir args ex q vb).2 = none ↔ ¬ LoadOk S st.fs dir) ∧
    ((entryReport S st dir fmt diff).2 = none ↔ ¬ LoadOk S st.fs dir) ∧
    ((entryFindings S st dir full fmt).2 = none ↔ ¬ LoadOk S st.fs dir) ∧
    (¬ LoadOk S st.fs dir →
      (entryScan S st dir ex vb det uuid now).1.proc = addOptions st.proc ex vb ∧
      (entryCheck S st dir args ex q vb).1.proc = addOptions st.proc ex vb ∧
      (entryReport S st dir fmt diff).1.proc = st.proc ∧ (entryFindings S st dir full fmt).1.proc = st.proc) := by
  by_cases h : LoadOk S st.fs dir
  · simp [entryScan_of_ok S h, entryCheck_of_ok S h, entryReport_of_ok S h, entryFindings_of_ok S h, h]
  · simp [entryScan_of_not_ok S h, entryCheck_of_not_ok S h, entryReport_of_not_ok S h, entryFindings_of_not_ok S h, h]

/-! ## the entry model refines `Spec/C12cwd.lean` -/

theorem specLines_configured (fs : Sel.Node) (dir : List Str) (p : Proc) (ex : Option (List Str)) (vb : Bool)
    (det : Option Json.Repo) :
    specLines S fs (withDetected (configured S fs dir p ex vb) det) dir =
      C12cwd.specLinesAt (readers S) fs (p.exclude ++ ex.getD []) dir ∧
    specPats S fs (withDetected (configured S fs dir p ex vb) det) dir =
      C12cwd.userPatsAt (readers S) fs (p.exclude ++ ex.getD []) dir := by
  simp only [specLines, specPats, C12cwd.specLinesAt, C12cwd.userPatsAt, configuredAt_eq, gitignoreAt_eq, withDetected,
    configured, and_self]

/-- **The lines of a call are the lines `Spec/C12cwd.lean` specifies** for the directory the call
loads, with the accumulated list in front of the call's own `--exclude` values.  In a fresh process
(`st.proc = Proc.fresh`) that is `specLinesAt R fs opts dir`: the specification, checked by hand
against `__main__.py`, of which files are read. -/
theorem scan_lines_refine_spec {st : State} {root : List Str} (h : LoadOk S st.fs root) (ex : Option (List Str)) (vb : Bool)
    (det : Option Json.Repo) (uuid now : Str) :
    ∃ c, (entryScan S st root ex vb det uuid now).2 = some c ∧
      c.lines = C12cwd.specLinesAt (readers S) st.fs (st.proc.exclude ++ ex.getD []) root ∧
      (st.proc = Proc.fresh → c.lines = C12cwd.specLinesAt (readers S) st.fs (ex.getD []) root) := by
  rw [entryScan_of_ok S h]
  refine ⟨_, rfl, (specLines_configured S st.fs root st.proc ex vb det).1, fun hf => ?_⟩
  simp only
  rw [(specLines_configured S st.fs root st.proc ex vb det).1, hf]
  rfl

/-- **`check` refines `checkCmd`.**  The entry function run in `cwd` hands to pathspec the lines
`specLinesAt … cwd` and returns what the specified command `C12cwd.checkCmd` returns for the same
tree, working directory and arguments - its file list, or its exception - together with the exit
status and the printing decision of `CL.checkCommand` (C02) for the `--quiet` value given.  Outside
the pattern fragment both have no answer. -/
theorem entryCheck_refines_checkCmd {st : State} {cwd : List Str} (h : LoadOk S st.fs cwd) (args : List CheckArg)
    (ex : Option (List Str)) (q vb : Bool) :
    ∃ c, (entryCheck S st cwd args ex q vb).2 = some c ∧
      c.lines = C12cwd.specLinesAt (readers S) st.fs (st.proc.exclude ++ ex.getD []) cwd ∧
      c.result =
        (C12cwd.checkCmd (Pipeline.oracles S.env []) (readers S) st.fs (st.proc.exclude ++ ex.getD []) cwd args).map
          (fun o => match o.result with
            | .error e => .error e
            | .ok fl => .ok ⟨fl, CL.checkCommand q (fl.map fun x => x.2.map fun m => (m.len : Int))⟩) := by
  rw [entryCheck_of_ok S h]
  refine ⟨_, rfl, (specLines_configured S st.fs cwd st.proc ex vb none).1, ?_⟩
  simp only
  have := (specLines_configured S st.fs cwd st.proc ex vb none).2
  simp only [withDetected] at this
  rw [this, C12cwd.checkCmd, Option.map_map]
  rfl

/-- **`scan` refines `scanCmd`.**  For a cache file that is absent, written by earlier scans, cut, or
foreign (`CacheOk`), and the lexer / MD5 contract (`EnvOk`): the entry function hands to pathspec
the lines `specLinesAt … root`; it has an answer exactly when the specified command has; and the
files of the report it writes are the files `C12cwd.scanCmd` returns (adapter `fileOfSel`), the text of
the cache file being `ReportWriter` of that report. -/
theorem entryScan_refines_scanCmd {st : State} {root : List Str} (h : LoadOk S st.fs root)
    (hE : Pipeline.EnvOk S.env) (hprev : Pipeline.CacheOk S.env (st.cache root))
    (hwf : ∀ n ch, getNode st.fs root = some (.dir n ch) → wfDir ch = true)
    (ex : Option (List Str)) (vb : Bool) (det : Option Json.Repo) (uuid now : Str) :
    ∃ c, (entryScan S st root ex vb det uuid now).2 = some c ∧
      c.lines = C12cwd.specLinesAt (readers S) st.fs (st.proc.exclude ++ ex.getD []) root ∧
      (c.result = none ↔
        C12cwd.scanCmd (Pipeline.oracles S.env []) (readers S) st.fs (st.proc.exclude ++ ex.getD []) root = none) ∧
      (∀ d text, c.result = some (.ok (d, text)) →
        ∃ o sfiles, C12cwd.scanCmd (Pipeline.oracles S.env []) (readers S) st.fs (st.proc.exclude ++ ex.getD []) root = some o ∧
          o.result = .ok sfiles ∧ d.files = sfiles.map (fun kv => Pipeline.fileOfSel kv.2) ∧ text = Json.write true d) := by
  rw [entryScan_of_ok S h]
  refine ⟨_, rfl, (specLines_configured S st.fs root st.proc ex vb det).1, ?_, ?_⟩
  · simp only
    rw [(specLines_configured S st.fs root st.proc ex vb det).2, C12cwd.scanCmd]
    cases C12cwd.userPatsAt (readers S) st.fs (st.proc.exclude ++ ex.getD []) root with
    | none => simp
    | some pats =>
      cases hn : getNode st.fs root with
      | none => simp
      | some nd => cases nd <;> simp
  · intro d text
    simp only
    rw [(specLines_configured S st.fs root st.proc ex vb det).2, C12cwd.scanCmd]
    cases C12cwd.userPatsAt (readers S) st.fs (st.proc.exclude ++ ex.getD []) root with
    | none => simp
    | some pats =>
      cases hn : getNode st.fs root with
      | none => simp
      | some nd =>
        cases nd with
        | file n c => simp
        | dir n ch =>
          simp only [Option.some.injEq]
          intro hs
          rw [Pipe.scan_with_cache_eq_fresh_of_injective hE hprev] at hs
          obtain ⟨sfiles, cb, h1, _, h3, h4⟩ := Pipe.fresh_scan_is_scanPath (hwf n ch hn) hs
          refine ⟨_, sfiles, rfl, h1, ?_, h4⟩
          rw [h3]; rfl

/-! ## `Pipeline.Run.pats` instantiated -/

/-- **`scan` is `Pipeline.scan` with `Run.pats` := the user lines in force, parsed.**  If the lines
after the built-in ones (accumulated, `--exclude`, configured, `.gitignore`) lie in the six classes
(`Gi.parseAll … = some pats`) and the root is a directory of the tree, the call returns
`Pipeline.scan` for the run with these patterns, the root's path string, the process-level
repository (as detected now or left by an earlier call) and the cache file of the root; all lines
handed to pathspec parse to `Gi.builtin ++ pats`, whose decision is the `excluded` oracle of that
scan. -/
theorem scan_is_pipeline_scan {st : State} {root : List Str} (h : LoadOk S st.fs root) (ex : Option (List Str)) (vb : Bool)
    (det : Option Json.Repo) (uuid now : Str) {pats : List Gi.Pat}
    (hp : Gi.parseAll (st.proc.exclude ++ ex.getD [] ++ configLines S st.fs root ++ gitLines S st.fs root) = some pats)
    {n : Str} {ch : List Sel.Node} (hn : getNode st.fs root = some (.dir n ch)) :
    ∃ c, (entryScan S st root ex vb det uuid now).2 = some c ∧
      c.result = some (Pipeline.scan S.env ⟨pats, rootStr root, uuid, now, c.repository⟩ (.dir n ch) (st.cache root)) ∧
      c.repository = (match det with | some r => some r | none => st.proc.repository) ∧
      Gi.parseAll c.lines = some (Gi.builtin ++ pats) ∧
      (Pipeline.oracles S.env pats).excluded = Gi.excludedBy (Gi.builtin ++ pats) := by
  rw [entryScan_of_ok S h]
  have hsp : specPats S st.fs (withDetected (configured S st.fs root st.proc ex vb) det) root = some pats := by
    simp only [specPats, Pipeline.userPats, withDetected, configured]
    simp only [gitLines] at hp
    cases hg : gitignoreAt S st.fs root with
    | none => simpa [hg] using hp
    | some ls => simpa [hg] using hp
  refine ⟨_, rfl, ?_, rfl, ?_, rfl⟩
  · simp only [hsp, hn]
  · exact (Pipe.exclusion_lines _ _ hsp).1

/-- the same for `check`: `Pipeline.check` with the patterns of the WORKING DIRECTORY's lines -/
theorem check_is_pipeline_check {st : State} {cwd : List Str} (h : LoadOk S st.fs cwd) (args : List CheckArg)
    (ex : Option (List Str)) (q vb : Bool) {pats : List Gi.Pat}
    (hp : Gi.parseAll (st.proc.exclude ++ ex.getD [] ++ configLines S st.fs cwd ++ gitLines S st.fs cwd) = some pats) :
    ∃ c, (entryCheck S st cwd args ex q vb).2 = some c ∧
      c.result = some (Pipeline.check S.env pats st.fs cwd args q) ∧ c.quiet = q ∧
      Gi.parseAll c.lines = some (Gi.builtin ++ pats) := by
  rw [entryCheck_of_ok S h]
  have hsp : specPats S st.fs (configured S st.fs cwd st.proc ex vb) cwd = some pats := by
    simp only [specPats, Pipeline.userPats, configured]
    simp only [gitLines] at hp
    cases hg : gitignoreAt S st.fs cwd with
    | none => simpa [hg] using hp
    | some ls => simpa [hg] using hp
  refine ⟨_, rfl, ?_, rfl, ?_⟩
  · simp only [hsp, Option.map_some]
  · exact (Pipe.exclusion_lines _ _ hsp).1

/-! # (b) order and repetition are irrelevant, but the lines ACCUMULATE in the process -/

/-- **The commands depend on the SET of user lines only.**  Two line lists with the same lines - in
any order, with any repetitions, whichever source (accumulated, `--exclude`, `.codelimit.yml`,
`.gitignore`) each line came from - of which one lies in the six pattern classes: the other does
too, pathspec decides the same about every path (`C11pat.excluded_order_irrelevant`), and
`scan_command` / `check_command` return the same. -/
theorem same_lines_same_result (E : Pipeline.Env) {l l' : List Str} (hl : ∀ x, x ∈ l ↔ x ∈ l') {ps : List Gi.Pat}
    (h : Gi.parseAll l = some ps) :
    ∃ ps', Gi.parseAll l' = some ps' ∧ Gi.excludedWith ps = Gi.excludedWith ps' ∧
      (∀ root uuid now repo node prev,
        Pipeline.scan E ⟨ps, root, uuid, now, repo⟩ node prev = Pipeline.scan E ⟨ps', root, uuid, now, repo⟩ node prev) ∧
      (∀ fs cwd args q, Pipeline.check E ps fs cwd args q = Pipeline.check E ps' fs cwd args q) := by
  obtain ⟨ps', h', hm⟩ := parseAll_of_same_lines hl h
  have hd := excludedWith_congr hm
  exact ⟨ps', h', hd, fun root uuid now repo node prev => scan_congr_decision E hd root uuid now repo node prev,
    fun fs cwd args q => check_congr_decision E hd fs cwd args q⟩

/-- in particular the three user sources commute, and a line given twice counts once -/
theorem sources_commute (opts cfg git : List Str) :
    (∀ x, x ∈ opts ++ cfg ++ git ↔ x ∈ git ++ opts ++ cfg) ∧ (∀ x, x ∈ opts ++ cfg ++ git ↔ x ∈ cfg ++ git ++ opts) ∧
    (∀ x, x ∈ opts ++ cfg ++ git ↔ x ∈ opts ++ opts ++ cfg ++ cfg ++ git) := by
  refine ⟨fun x => ?_, fun x => ?_, fun x => ?_⟩ <;> simp only [List.mem_append] <;> tauto

theorem scanResult_congr (E : Pipeline.Env) {l l' : List Str} (hl : ∀ x, x ∈ l ↔ x ∈ l') (node : Option Sel.Node)
    (root uuid now : Str) (repo : Option Json.Repo) (prev : Option Str) :
    (match Gi.parseAll l, node with
      | some pats, some (.dir n ch) => some (Pipeline.scan E ⟨pats, root, uuid, now, repo⟩ (.dir n ch) prev)
      | _, _ => none) =
    (match Gi.parseAll l', node with
      | some pats, some (.dir n ch) => some (Pipeline.scan E ⟨pats, root, uuid, now, repo⟩ (.dir n ch) prev)
      | _, _ => none) := by
  cases hp : Gi.parseAll l with
  | none =>
    cases hp' : Gi.parseAll l' with
    | none => rfl
    | some ps' =>
      obtain ⟨ps, hps, _⟩ := parseAll_of_same_lines (fun x => (hl x).symm) hp'
      rw [hp] at hps; cases hps
  | some ps =>
    obtain ⟨ps', hps', hm⟩ := parseAll_of_same_lines hl hp
    rw [hps']
    cases node with
    | none => rfl
    | some nd =>
      cases nd with
      | file n c => rfl
      | dir n ch =>
        simp only
        rw [scan_congr_decision E (excludedWith_congr hm)]

/-- **At the level of the entry function**: whether a line reaches `scan` through what the process
has accumulated or through this call's `--exclude`, in which order, how often - the result of
`scan_command` (the report, the text written, or the exception; or "outside the fragment") is the
same.  (Same tree, same cache file, same repository.) -/
theorem scan_result_depends_on_line_set {st st' : State} {root : List Str} (hfs : st'.fs = st.fs)
    (hcache : st'.cache root = st.cache root) (hrepo : st'.proc.repository = st.proc.repository)
    (h : LoadOk S st.fs root) (ex ex' : Option (List Str)) (vb vb' : Bool) (det : Option Json.Repo) (uuid now : Str)
    (hl : ∀ x, x ∈ st.proc.exclude ++ ex.getD [] ↔ x ∈ st'.proc.exclude ++ ex'.getD []) :
    (entryScan S st root ex vb det uuid now).2.map (·.result) = (entryScan S st' root ex' vb' det uuid now).2.map (·.result) := by
  have h' : LoadOk S st'.fs root := by rw [hfs]; exact h
  rw [entryScan_of_ok S h, entryScan_of_ok S h']
  simp only [Option.map_some, Option.some.injEq]
  simp only [specPats, Pipeline.userPats, withDetected, configured, hfs, hcache, hrepo]
  apply scanResult_congr
  intro x
  have := hl x
  simp only [List.mem_append] at this ⊢
  tauto

/-- **What a history leaves in `Configuration.exclude`**: every call appends its `--exclude` values
followed by the `exclude:` list of the `.codelimit.yml` it loads (`scan`, `report`, `findings`: of their
path; `check`: of the working directory) - nothing is ever removed, `report` and `findings` included, and a
call whose `load` raises still leaves its option values. -/
theorem exclude_after_history (st : State) (cs : List Call) :
    (run S st cs).1.proc.exclude = st.proc.exclude ++ cs.flatMap (contribution S st.fs) ∧ (run S st cs).1.fs = st.fs :=
  ⟨run_exclude S st cs, run_fs S st cs⟩

/-- a `scan` or `check` call (the calls that build a `PathSpec`) -/
def Call.buildsSpec : Call → Bool
  | .scan .. => true
  | .check .. => true
  | _ => false

/-- **The exact formula for the n-th call.**  After the calls `before` in the same interpreter
(started with `Configuration.exclude = st.proc.exclude`; `[]` for a fresh one), a `scan` / `check` call `c`
whose `load` does not raise hands to `PathSpec.from_lines`

  `DEFAULT_EXCLUDES ++ (initial ++ contribution(c₁) ++ … ++ contribution(cₙ₋₁) ++ contribution(c)) ++ gitignore(dir c)`

where `contribution(cᵢ)` = the `--exclude` values of call i followed by the configured lines of the
directory call i loaded.  Only the LAST call's `.gitignore` takes part; all earlier configured and
option lines do. -/
theorem nth_call_lines (st : State) (before : List Call) (c : Call) (hc : c.buildsSpec = true)
    (h : LoadOk S st.fs c.dir) :
    ∃ r, (run S st (before ++ [c])).2 = (run S st before).2 ++ [r] ∧
      r.lines = some (Gi.builtinNames ++
        (st.proc.exclude ++ before.flatMap (contribution S st.fs) ++ contribution S st.fs c) ++ gitLines S st.fs c.dir) := by
  refine ⟨(step S (run S st before).1 c).2, ?_, ?_⟩
  · rw [run_append]; rfl
  · have hfs := run_fs S st before
    have hex := run_exclude S st before
    have h' : LoadOk S (run S st before).1.fs c.dir := by rw [hfs]; exact h
    cases c with
    | scan root ex vb det uuid now =>
      obtain ⟨sc, h1, h2⟩ := scan_lines_in_force S h' ex vb det uuid now
      simp only [step, Call.dir] at h1 ⊢
      rw [h1]
      simp only [Reply.ofScan, Reply.lines, h2, hex, hfs, contribution, Call.options, Call.dir, List.append_assoc]
    | check cwd args ex q vb =>
      obtain ⟨sc, h1, h2⟩ := check_lines_in_force S h' args ex q vb
      simp only [step, Call.dir] at h1 ⊢
      rw [h1]
      simp only [Reply.ofCheck, Reply.lines, h2, hex, hfs, contribution, Call.options, Call.dir, List.append_assoc]
    | report root fmt diff => cases hc
    | findings root full fmt => cases hc

/-- `report` and `findings` build no spec but DO contribute: their `Configuration.load(path)` appends the
configured lines of `path`, which a later `scan` / `check` in the same interpreter then applies -/
theorem report_and_findings_contribute (fs : Sel.Node) (root : List Str) (fmt : Fmt) (diff : Option (Option Str)) (full : Bool) :
    contribution S fs (.report root fmt diff) = configLines S fs root ∧
    contribution S fs (.findings root full fmt) = configLines S fs root := ⟨rfl, rfl⟩

/-! # (c) `report` and `findings` -/

open Json in
/-- **When a report is displayed.**  `report` (without `--diff`) and `findings` hand a report to their
printer iff the cache file `<path>/.codelimit_cache/codelimit.json` exists, is JSON, carries the tool's
version (`get_report_version` returns a string equal to `Report.VERSION`) and `ReportReader.from_json`
succeeds on it; "No cached report found" iff the file does not exist; "Report version mismatch" iff it is
JSON on which `get_report_version` does not raise and returns anything else (another string, `None`
for a missing key, a number, ...). -/
theorem display_iff (cur : Str) (main : Option Str) :
    (reportCommand cur main none = .noReport ↔ main = none) ∧
    (reportCommand cur main none = .mismatch ↔
      ∃ text v ver, main = some text ∧ parseJson text = some v ∧ getReportVersion v = .ok ver ∧
        ver ≠ some (.str cur)) ∧
    (∀ r, reportCommand cur main none = .shown r none ↔
      ∃ text v, main = some text ∧ parseJson text = some v ∧ getReportVersion v = .ok (some (.str cur)) ∧
        fromJsonU buildOkModel v = .ok r) := by
  have hv : ∀ ver : Option JVal, versionOptIs cur ver = true ↔ ver = some (.str cur) := by
    intro ver
    cases ver with
    | none => simp [versionOptIs]
    | some v => cases v <;> simp [versionOptIs, versionIs]
  cases main with
  | none => simp [reportCommand, readReport, readReportDoc]
  | some text =>
    cases hp : parseJson text with
    | none => simp [reportCommand, readReport, readReportDoc, hp]
    | some v =>
      cases hg : getReportVersion v with
      | error e => simp [reportCommand, readReport, readReportDoc, hp, hg]
      | ok ver =>
        by_cases hb : versionOptIs cur ver = true
        · have hver := (hv ver).1 hb
          subst hver
          cases hf : fromJsonU buildOkModel v with
          | error e => simp [reportCommand, readReport, readReportDoc, hp, hg, hb, hf]
          | ok r =>
            simp only [reportCommand, readReport, readReportDoc, hp, hg, hb, hf, if_true]
            refine ⟨by simp, ⟨fun h => (by cases h), ?_⟩, fun r1 => ⟨fun h => ?_, ?_⟩⟩
            · rintro ⟨t, v', ver', ht, hv', hg', hne⟩
              cases ht; rw [hp] at hv'; cases hv'; rw [hg] at hg'; cases hg'; exact absurd rfl hne
            · cases h; exact ⟨text, v, rfl, hp, hg, hf⟩
            · rintro ⟨t, v', ht, hv', _, hf'⟩
              cases ht; rw [hp] at hv'; cases hv'; rw [hf] at hf'; cases hf'; rfl
        · have hne : ver ≠ some (.str cur) := fun h => hb ((hv ver).2 h)
          simp only [reportCommand, readReport, readReportDoc, hp, hg, hb, if_false, Bool.false_eq_true]
          refine ⟨by simp, ⟨fun _ => ⟨text, v, ver, rfl, hp, hg, hne⟩, fun _ => trivial⟩, fun r => ⟨fun h => (by cases h), ?_⟩⟩
          rintro ⟨t, v', ht, hv', hg', _⟩
          cases ht; rw [hp] at hv'; cases hv'; rw [hg] at hg'; cases hg'; exact absurd rfl hne

/-- **Exit statuses**: 1 with either message, 0 after a report was displayed; when the reader raises
(damaged file) the function has no exit status of its own - the exception escapes. -/
theorem exit_status (d : Display) :
    (d.exit = some 1 ↔ d = .noReport ∨ d = .mismatch) ∧ (d.exit = some 0 ↔ ∃ r diff, d = .shown r diff) ∧
    (d.exit = none ↔ ∃ e, d = .raises e) := by
  cases d <;> simp [Display.exit]

/-- **The first printed line** says which case it is: the two messages; `Overview` (text) / `### Overview`
(markdown) for `report`; the header row of the findings table for `findings --format markdown` (other
columns when the report carries a repository); for text findings the first finding or nothing. -/
theorem headline_cases (fmt : Fmt) (d : Display) :
    (d = .noReport → reportHeadline fmt d = .noReportMsg ∧ findingsHeadline fmt d = .noReportMsg) ∧
    (d = .mismatch → reportHeadline fmt d = .mismatchMsg ∧ findingsHeadline fmt d = .mismatchMsg) ∧
    (∀ r diff, d = .shown r diff →
      reportHeadline fmt d = (match fmt with | .text => .overviewText | .markdown => .overviewMarkdown) ∧
      findingsHeadline fmt d =
        (match fmt with | .text => .findingsRows | .markdown => .findingsTable r.repository.isSome)) := by
  refine ⟨?_, ?_, ?_⟩
  · rintro rfl; exact ⟨rfl, rfl⟩
  · rintro rfl; exact ⟨rfl, rfl⟩
  · rintro r diff rfl; exact ⟨rfl, rfl⟩

/-- **`report` and `findings` never write**: tree and cache files are unchanged - but the configured lines
of `<path>/.codelimit.yml` are appended to the process-level list (`report_and_findings_contribute`). -/
theorem report_never_writes (st : State) (root : List Str) (fmt : Fmt) (diff : Option (Option Str)) (full : Bool) :
    (entryReport S st root fmt diff).1.fs = st.fs ∧ (entryReport S st root fmt diff).1.cache = st.cache ∧
    (entryFindings S st root full fmt).1.fs = st.fs ∧ (entryFindings S st root full fmt).1.cache = st.cache := by
  by_cases h : LoadOk S st.fs root
  · simp [entryReport_of_ok S h, entryFindings_of_ok S h]
  · simp [entryReport_of_not_ok S h, entryFindings_of_not_ok S h]

/-- what `entryReport` / `entryFindings` answer, spelled out -/
theorem entryReport_display {st : State} {root : List Str} (h : LoadOk S st.fs root) (fmt : Fmt) (diff : Option (Option Str))
    (full : Bool) :
    (entryReport S st root fmt diff).2 =
      some ⟨reportCommand S.env.version (st.cache root) diff,
            reportHeadline fmt (reportCommand S.env.version (st.cache root) diff)⟩ ∧
    (entryFindings S st root full fmt).2 =
      some ⟨reportCommand S.env.version (st.cache root) none,
            findingsHeadline fmt (reportCommand S.env.version (st.cache root) none)⟩ := by
  rw [entryReport_of_ok S h, entryFindings_of_ok S h]
  exact ⟨rfl, rfl⟩

/-- **What is displayed for a cache file that some tool wrote** (`Gaps.read_report_written` at the
entry functions).  Let the cache file of `root` hold the text `ReportWriter` produces (pretty or
compact) for a report `d` whose strings are Python strings without adjacent surrogate pairs, with
distinct keys and paths not starting with `./` (every report a scan writes: `scan_then_report_shows`).
Then `report` and `findings`
* display exactly the content of `d` when `d.version` is the tool's version (exit status 0), and
* refuse with "Report version mismatch, run scan first" (exit status 1) when it is any other version. -/
theorem written_report_displayed {st : State} {root : List Str} (h : LoadOk S st.fs root) {d : Json.ReportData}
    (hd : Json.GoodReport d) (hk : Json.DistinctKeys d) (hp : ∀ kv ∈ d.files, Codebase.admissible kv.1 = true)
    {p : Bool} (hc : st.cache root = some (Json.write p d)) (fmt : Fmt) (full : Bool) :
    (d.version = some S.env.version →
      (entryReport S st root fmt none).2 = some ⟨.shown d.untyped none, reportHeadline fmt (.shown d.untyped none)⟩ ∧
      (entryFindings S st root full fmt).2 = some ⟨.shown d.untyped none, findingsHeadline fmt (.shown d.untyped none)⟩ ∧
      (Display.shown d.untyped none).exit = some 0) ∧
    (d.version ≠ some S.env.version →
      (entryReport S st root fmt none).2 = some ⟨.mismatch, .mismatchMsg⟩ ∧
      (entryFindings S st root full fmt).2 = some ⟨.mismatch, .mismatchMsg⟩ ∧ Display.mismatch.exit = some 1) := by
  obtain ⟨h1, h2⟩ := entryReport_display S h fmt none full
  have hb : Json.buildOkModel (d.files.map (·.1)) = true :=
    Gaps.buildOk_admissible _ (fun q hq => by obtain ⟨kv, hkv, rfl⟩ := List.mem_map.1 hq; exact hp kv hkv)
  obtain ⟨g1, g2⟩ := Gaps.read_report_written S.env.version Json.buildOkModel d hd p
  constructor
  · intro hv
    have : reportCommand S.env.version (st.cache root) none = .shown d.untyped none := by
      simp only [reportCommand, readReport, hc, g2 hv hk hb]
    rw [h1, h2, this]
    exact ⟨rfl, rfl, rfl⟩
  · intro hv
    have : reportCommand S.env.version (st.cache root) none = .mismatch := by
      simp only [reportCommand, readReport, hc, g1 hv]
    rw [h1, h2, this]
    exact ⟨rfl, rfl, rfl⟩

/-- a missing cache file: the message, exit status 1 -/
theorem missing_report_refused {st : State} {root : List Str} (h : LoadOk S st.fs root) (hc : st.cache root = none)
    (fmt : Fmt) (diff : Option (Option Str)) (full : Bool) :
    (entryReport S st root fmt diff).2 = some ⟨.noReport, .noReportMsg⟩ ∧
    (entryFindings S st root full fmt).2 = some ⟨.noReport, .noReportMsg⟩ ∧ Display.noReport.exit = some 1 := by
  obtain ⟨h1, h2⟩ := entryReport_display S h fmt diff full
  rw [h1, h2, hc]
  exact ⟨rfl, rfl, rfl⟩

/-- **`scan` then `report` / `findings`, end to end.**  Under the contracts of `Props/Pipeline.lean`
(`EnvOk`: lexer tiling, good strings, MD5 injective; the tree a snapshot of a real directory with
good names; the cache file absent / written earlier / cut / foreign; uuid, clock and repository
good strings), a `scan` of `root` that returns the report `d` leaves a cache file for which a later
`report` or `findings` of the same root in ANY state with that cache file displays exactly `d`
(exit status 0), and changes no other directory's cache file. -/
theorem scan_then_report_shows {st : State} {root : List Str} (h : LoadOk S st.fs root)
    (hE : Pipeline.EnvOk S.env) {n : Str} {ch : List Sel.Node} (hn : getNode st.fs root = some (.dir n ch))
    (hT : Pipeline.TreeOk ch) (hprev : Pipeline.CacheOk S.env (st.cache root))
    (ex : Option (List Str)) (vb : Bool) (det : Option Json.Repo) {uuid now : Str}
    (hu : Json.GoodStr uuid) (hnow : Json.GoodStr now) (hroot : Json.GoodStr (rootStr root))
    (hrepo : ∀ r, (withDetected st.proc det).repository = some r →
      Json.GoodStr r.owner ∧ Json.GoodStr r.name ∧ Json.GoodOpt r.branch)
    {c : ScanCall} (hc : (entryScan S st root ex vb det uuid now).2 = some c)
    {d : Json.ReportData} {text : Str} (hres : c.result = some (.ok (d, text))) :
    let st1 := (entryScan S st root ex vb det uuid now).1
    st1.cache root = some text ∧ (∀ r, r ≠ root → st1.cache r = st.cache r) ∧
    d.version = some S.env.version ∧ d.repository = c.repository ∧
    ∀ st2 : State, st2.cache root = some text → LoadOk S st2.fs root → ∀ fmt full,
      (entryReport S st2 root fmt none).2 = some ⟨.shown d.untyped none, reportHeadline fmt (.shown d.untyped none)⟩ ∧
      (entryFindings S st2 root full fmt).2 = some ⟨.shown d.untyped none, findingsHeadline fmt (.shown d.untyped none)⟩ := by
  rw [entryScan_of_ok S h] at hc ⊢
  simp only [Option.some.injEq] at hc
  subst hc
  simp only at hres ⊢
  rw [hres]
  cases hp : specPats S st.fs (withDetected (configured S st.fs root st.proc ex vb) det) root with
  | none => rw [hp] at hres; simp at hres
  | some pats =>
    rw [hp, hn] at hres
    simp only [Option.some.injEq] at hres
    have hR : Pipeline.RunOk ⟨pats, rootStr root, uuid, now, (withDetected (configured S st.fs root st.proc ex vb) det).repository⟩ :=
      ⟨hroot, hu, hnow, fun r hr => hrepo r hr⟩
    obtain ⟨hg, hk, _, htext, _⟩ := Pipeline.scan_report_facts hE hR hT hprev hres
    obtain ⟨cb, _, hadm, _, _⟩ := Pipe.report_is_built hT.wf hres
    obtain ⟨files, cb', _, _, hd, _⟩ := Pipeline.scan_ok_iff.1 hres
    have hver : d.version = some S.env.version := by rw [hd]; rfl
    have hrep : d.repository = (withDetected (configured S st.fs root st.proc ex vb) det).repository := by rw [hd]; rfl
    have hpaths : ∀ kv ∈ d.files, Codebase.admissible kv.1 = true := fun kv hkv =>
      hadm _ (List.mem_map.2 ⟨kv, hkv, rfl⟩)
    refine ⟨by simp [setCache], fun r hr => by simp [setCache, hr], hver, hrep, fun st2 hc2 hl2 fmt full => ?_⟩
    rw [htext] at hc2
    obtain ⟨g1, g2, _⟩ := (written_report_displayed S hl2 hg hk hpaths hc2 fmt full).1 hver
    exact ⟨g1, g2⟩

/-- **A report written by another version is refused by `report` and `findings`** - the C09 clause at the
entry functions: when the cache file holds the text a tool of version `v'` wrote for a report `d`
(hypotheses as `written_report_displayed`), both functions answer "Report version mismatch, run scan
first" with exit status 1 iff `v'` is not this tool's version; and this is what the abstract
`Cache.readReport` of C09 (`C09.foreign_version_refused`) says about the abstraction of that text. -/
theorem foreign_version_refused_by_entry {st : State} {root : List Str} (h : LoadOk S st.fs root) {d : Json.ReportData}
    (hd : Json.GoodReport d) (hk : Json.DistinctKeys d) (hp : ∀ kv ∈ d.files, Codebase.admissible kv.1 = true)
    {p : Bool} (hc : st.cache root = some (Json.write p d)) (fmt : Fmt) :
    ((entryReport S st root fmt none).2 = some ⟨.mismatch, .mismatchMsg⟩ ↔ d.version ≠ some S.env.version) ∧
    (Cache.readReport (Json.readParams S.env.version) (Json.abstractCache Json.buildOkModel (st.cache root)) = .refuse ↔
      d.version ≠ some S.env.version) := by
  have hb : Json.buildOkModel (d.files.map (·.1)) = true :=
    Gaps.buildOk_admissible _ (fun q hq => by obtain ⟨kv, hkv, rfl⟩ := List.mem_map.1 hq; exact hp kv hkv)
  refine ⟨?_, ?_⟩
  · constructor
    · intro he hv
      rw [((written_report_displayed S h hd hk hp hc fmt false).1 hv).1] at he
      simp only [Option.some.injEq] at he
      have : (ShowCall.mk (.shown d.untyped none) (reportHeadline fmt (.shown d.untyped none))).display = Display.mismatch := by
        rw [he]
      cases this
    · intro hv
      exact ((written_report_displayed S h hd hk hp hc fmt false).2 hv).1
  · rw [hc]
    exact (Gaps.foreign_version_refused_written S.env.version Json.buildOkModel d hd hk hb p).1

/-- **The entry functions agree with the abstract `read_report` of the cache model (C09 / C10)** on
every cache file the abstraction classifies as missing or as a document: missing - "no report";
a document of another version (`C09.foreign_version_refused`: `Cache.readReport = .refuse`) -
"mismatch"; a document of the tool's version - a report whose rows are the abstract document's rows
is displayed. -/
theorem display_agrees_with_C09 {st : State} {root : List Str} (h : LoadOk S st.fs root) (fmt : Fmt) :
    let file := st.cache root
    let abs := Json.abstractCache Json.buildOkModel file
    let P := Json.readParams S.env.version
    (abs = .missing → (entryReport S st root fmt none).2 = some ⟨.noReport, .noReportMsg⟩) ∧
    (∀ v es, abs = .doc v es →
      (Cache.readReport P abs = .refuse → (entryReport S st root fmt none).2 = some ⟨.mismatch, .mismatchMsg⟩) ∧
      (Cache.readReport P abs = .shown es →
        ∃ r, (entryReport S st root fmt none).2 = some ⟨.shown r none, reportHeadline fmt (.shown r none)⟩ ∧
          r.rows? = some es)) := by
  intro file abs P
  obtain ⟨h1, _⟩ := entryReport_display S h fmt none false
  obtain ⟨g1, g2⟩ := Gaps.read_report_abstract S.env.version Json.buildOkModel file
  refine ⟨fun ha => ?_, fun v es ha => ⟨fun hr => ?_, fun hr => ?_⟩⟩
  · rw [h1]
    have := g1 ha
    simp only [reportCommand, readReport]
    rw [this]; rfl
  · have hv : v ≠ some S.env.version := by
      rw [ha] at hr
      exact ((C09.foreign_version_refused P v es).1).1 hr
    rw [h1]
    have := (g2 v es ha).1 hv
    simp only [reportCommand, readReport]
    rw [this]; rfl
  · have hv : v = some S.env.version := by
      rw [ha] at hr
      exact ((C09.foreign_version_refused P v es).2).1 hr
    obtain ⟨r, hr1, hr2⟩ := (g2 v es ha).2 hv
    refine ⟨r, ?_, hr2⟩
    rw [h1]
    simp only [reportCommand, readReport]
    rw [hr1]

/-- **`--diff`**: the second file goes through the same `read_report`; a report is displayed only when BOTH
files pass (missing / mismatch / damaged second file: the same messages and statuses, nothing is
printed before) -/
theorem diff_needs_both (cur : Str) (main f : Option Str) (r r' : Json.UReport) :
    reportCommand cur main (some f) = .shown r (some r') ↔
      reportCommand cur main none = .shown r none ∧ reportCommand cur f none = .shown r' none := by
  simp only [reportCommand]
  cases readReport cur main <;> cases readReport cur f <;> simp

/-! # (d) `--quiet` and `--verbose` -/

/-- **`--quiet` is handed to `check_command` unchanged, and C02 applies to the entry function**: when
`check` completes with the file list `co.files`, its exit status, whether anything is printed, the
functions listed and the summary count are `CL.checkCommand quiet` of the lengths of the functions
found (`Props/C02.lean`); so nothing is printed iff `--quiet` was given and no function is longer
than 30 lines, and the status is 1 iff some function is longer than 60 lines - with or without
`--quiet`. -/
theorem check_quiet_passthrough {st : State} {cwd : List Str} (args : List CheckArg) (ex : Option (List Str)) (q vb : Bool)
    {c : CheckCall} (hc : (entryCheck S st cwd args ex q vb).2 = some c) {co : Pipeline.CheckOut}
    (hres : c.result = some (.ok co)) :
    c.quiet = q ∧
    co.out = CL.checkCommand q (co.files.map fun x => x.2.map fun m => (m.len : Int)) ∧
    (co.out.printed = false ↔ q = true ∧ co.out.listed.flatten = []) ∧
    (co.out.exitCode = 1 ↔ ∃ x ∈ co.files, ∃ m ∈ x.2, (m.len : Int) > 60) ∧
    (co.out.exitCode = 0 ∨ co.out.exitCode = 1) := by
  have hl : LoadOk S st.fs cwd := by
    by_contra hl
    rw [entryCheck_of_not_ok S hl] at hc
    cases hc
  rw [entryCheck_of_ok S hl] at hc
  simp only [Option.some.injEq] at hc
  subst hc
  simp only at hres ⊢
  cases hp : specPats S st.fs (configured S st.fs cwd st.proc ex vb) cwd with
  | none => rw [hp] at hres; cases hres
  | some pats =>
    rw [hp] at hres
    simp only [Option.map_some, Option.some.injEq, Pipeline.check] at hres
    cases hr : (checkPaths (Pipeline.oracles S.env pats) st.fs cwd args).result with
    | error e => rw [hr] at hres; cases hres
    | ok fl =>
      rw [hr] at hres
      simp only [Except.ok.injEq] at hres
      subst hres
      refine ⟨trivial, rfl, C02.quiet_iff q _, ?_, (C02.exit_code_iff q _).2⟩
      rw [(C02.exit_code_iff q _).1]
      constructor
      · rintro ⟨ms, hms, L, hL, h60⟩
        obtain ⟨x, hx, rfl⟩ := List.mem_map.1 hms
        obtain ⟨m, hm, rfl⟩ := List.mem_map.1 hL
        exact ⟨x, hx, m, hm, h60⟩
      · rintro ⟨x, hx, m, hm, h60⟩
        exact ⟨_, List.mem_map.2 ⟨x, hx, rfl⟩, _, List.mem_map.2 ⟨m, hm, rfl⟩, h60⟩

/-- **`--verbose` changes nothing but the flag**: lines, results and the accumulated list of `scan` and
`check` are the same with and without it (it only selects the log level and the plain progress
table). -/
theorem verbose_irrelevant_for_results (st : State) (dir : List Str) (args : List CheckArg) (ex : Option (List Str)) (q : Bool)
    (det : Option Json.Repo) (uuid now : Str) :
    (entryScan S st dir ex true det uuid now).2.map (fun c => (c.lines, c.result)) =
      (entryScan S st dir ex false det uuid now).2.map (fun c => (c.lines, c.result)) ∧
    (entryCheck S st dir args ex q true).2.map (fun c => (c.lines, c.result)) =
      (entryCheck S st dir args ex q false).2.map (fun c => (c.lines, c.result)) ∧
    (entryScan S st dir ex true det uuid now).1.proc.exclude = (entryScan S st dir ex false det uuid now).1.proc.exclude := by
  by_cases h : LoadOk S st.fs dir
  · simp only [entryScan_of_ok S h, entryCheck_of_ok S h]
    refine ⟨?_, ?_, ?_⟩ <;> trivial
  · simp only [entryScan_of_not_ok S h, entryCheck_of_not_ok S h]
    refine ⟨?_, ?_, ?_⟩ <;> trivial

/-- **Which `verbose` is in force.**  `Configuration.load` runs AFTER the option handling and assigns
`cls.verbose = d["verbose"]` whenever the file has the key: a `verbose: false` in `.codelimit.yml` silently
overrides `-v` on the command line (and resets a flag an earlier call had set); without the key the flag
is sticky - once set in an interpreter it stays set. -/
theorem config_verbose_beats_option {st : State} {dir : List Str} (h : LoadOk S st.fs dir) (args : List CheckArg)
    (ex : Option (List Str)) (q vb : Bool) (det : Option Json.Repo) (uuid now : Str) :
    ∃ cs cc, (entryScan S st dir ex vb det uuid now).2 = some cs ∧ (entryCheck S st dir args ex q vb).2 = some cc ∧
      cs.verbose = cc.verbose ∧
      (∀ b, configVerbose S st.fs dir = some b → cs.verbose = b) ∧
      (configVerbose S st.fs dir = none → cs.verbose = (st.proc.verbose || vb)) := by
  rw [entryScan_of_ok S h, entryCheck_of_ok S h]
  refine ⟨_, _, rfl, rfl, rfl, fun b hb => ?_, fun hn => ?_⟩
  · simp [withDetected, configured, hb]
  · simp [withDetected, configured, hn]

/-- **`scan` completes** (C03 at the entry function): when `Configuration.load` does not raise, the
user lines lie in the pattern fragment and the root is a directory of a well-formed tree, the
entry function returns a report and writes it - whatever the cache file holds. -/
theorem scan_completes {st : State} {root : List Str} (h : LoadOk S st.fs root) (ex : Option (List Str)) (vb : Bool)
    (det : Option Json.Repo) (uuid now : Str) {pats : List Gi.Pat}
    (hp : Gi.parseAll (st.proc.exclude ++ ex.getD [] ++ configLines S st.fs root ++ gitLines S st.fs root) = some pats)
    {n : Str} {ch : List Sel.Node} (hn : getNode st.fs root = some (.dir n ch)) (hwf : wfDir ch = true) :
    ∃ c d text, (entryScan S st root ex vb det uuid now).2 = some c ∧ c.result = some (.ok (d, text)) := by
  obtain ⟨c, hc, hr, _⟩ := scan_is_pipeline_scan S h ex vb det uuid now hp hn
  obtain ⟨d, text, hs⟩ := Pipeline.scan_total S.env ⟨pats, rootStr root, uuid, now, c.repository⟩ n hwf (st.cache root)
  exact ⟨c, d, text, hc, by rw [hr, hs]⟩

/-! # Witnesses and non-vacuity: one file system, several histories

```
/a/.codelimit.yml   exclude: [vendor], verbose: false        /b/.gitignore   skip.c
/a/main.c                                                    /b/main.c
/a/vendor/lib.c                                              /b/skip.c
/e/.codelimit.yml   (empty file)                             /b/util.py
/e/x.c
```
The environment is the one of `Props/Pipeline.lean` (`Pipe.Ex.exE`, for which `EnvOk` is proved); the
files hold one byte and no function.  The same tree was built on disk and the same histories were
run in one interpreter with the real functions: same lines, same files (`harness/entry_stream.py`
checks thousands of such histories). -/

section Witness

def w (s : String) : Str := Gi.str s

def wS : Sys where
  env := Pipe.Ex.exE
  lines s := (s.splitOn 10).filter (fun l => !l.isEmpty)
  yaml t := if t = w "A" then .mapping (some [w "vendor"]) (some false) else if t = [] then .raises else .inert

def wB : List Sel.Node :=
  [.file (w ".gitignore") (w "skip.c\n"), .file (w "main.c") [7], .file (w "skip.c") [7], .file (w "util.py") [8]]

def wFs : Sel.Node :=
  .dir [] [
    .dir (w "a") [.file (w ".codelimit.yml") (w "A"), .file (w "main.c") [7], .dir (w "vendor") [.file (w "lib.c") [7]]],
    .dir (w "b") wB,
    .dir (w "e") [.file (w ".codelimit.yml") [], .file (w "x.c") [7]]]

/-- a fresh interpreter, no cache files -/
def st0 : State := ⟨Proc.fresh, wFs, fun _ => none⟩

def scanA : Call := .scan [w "a"] (some [w "util.py"]) true none (w "u1") (w "2026-01-01T00:00:00+00:00")
def scanB : Call := .scan [w "b"] none false none (w "u2") (w "2026-01-01T00:00:01+00:00")

/-- the paths of the report a `scan` call wrote -/
def Reply.reportKeys : Reply → Option (List Str)
  | .scan c => match c.result with
    | some (.ok (d, _)) => some (d.files.map (·.1))
    | _ => none
  | _ => none

/-- what a `report` / `findings` call displayed: the paths of the report, the exit status, the first line -/
def Reply.displayed : Reply → Option (Option (List Str) × Option Nat × Headline)
  | .shown c => some ((match c.display with | .shown r _ => some (r.files.map (·.1)) | _ => none), c.display.exit, c.headline)
  | _ => none

/-- **Witness: the lines accumulate across calls in one interpreter.**  `scan /a --exclude util.py -v`
followed by `scan /b` (no option): the second call hands to pathspec the first call's option
`util.py` and the first root's configured line `vendor`, then its own `.gitignore` line. -/
theorem second_scan_sees_first_options :
    (run wS st0 [scanA, scanB]).2.map Reply.lines =
      [some (Gi.builtinNames ++ [w "util.py", w "vendor"]),
       some (Gi.builtinNames ++ [w "util.py", w "vendor", w "skip.c"])] := by
  rw [run_eq_K]; decide +kernel

/-- ... **and that changes the second report**: in the same interpreter the report of `/b` lacks
`util.py`; the same `scan /b` in a fresh interpreter lists it.  (One call per process, as the CLI does,
never shows this; any program that calls the entry functions twice does.) -/
theorem second_scan_drops_a_file :
    (run wS st0 [scanA, scanB]).2.map Reply.reportKeys = [some [w "main.c"], some [w "main.c"]] ∧
    (run wS st0 [scanB]).2.map Reply.reportKeys = [some [w "main.c", w "util.py"]] := by
  rw [run_eq_K, run_eq_K]; constructor <;> decide +kernel

/-- `nth_call_lines` applied to that history (its hypotheses hold: `LoadOk` for `/b`, which has no
`.codelimit.yml`) gives the same list without evaluation of the scan -/
example : ∃ r, (run wS st0 ([scanA] ++ [scanB])).2 = (run wS st0 [scanA]).2 ++ [r] ∧
    r.lines = some (Gi.builtinNames ++ [w "util.py", w "vendor", w "skip.c"]) := by
  have hl : LoadOk wS st0.fs scanB.dir := by
    intro text ht
    have : fileAt st0.fs scanB.dir configName = none := by decide +kernel
    rw [this] at ht; cases ht
  obtain ⟨r, h1, h2⟩ := nth_call_lines wS st0 [scanA] scanB rfl hl
  refine ⟨r, h1, h2.trans ?_⟩
  decide +kernel

/-- **Witness: `verbose: false` in `.codelimit.yml` overrides `-v`**, and **`report` / `findings` contribute
lines**: `scan /a -v` runs with `Configuration.verbose = False`; `report /a` followed by `findings /a` leave
`vendor` twice in `Configuration.exclude` -/
theorem config_overrides_and_report_contributes :
    (match (run wS st0 [scanA]).2 with | [.scan c] => some c.verbose | _ => none) = some false ∧
    (run wS st0 [.report [w "a"] .text none, .findings [w "a"] false .markdown]).1.proc.exclude = [w "vendor", w "vendor"] := by
  rw [run_eq_K, run_eq_K]; constructor <;> decide +kernel

/-- **Witness: an EMPTY `.codelimit.yml` makes every entry function raise** (`"exclude" in None`:
`TypeError`), and `scan --exclude x` has by then stored `x` in the process-level list: the next call
applies it -/
theorem empty_config_raises :
    (run wS st0 [.scan [w "e"] (some [w "main.c"]) false none [] [], .check [w "e"] [.relDir []] none false false,
      .report [w "e"] .text none, .findings [w "e"] false .text, scanB]).2.map Reply.lines =
      [none, none, none, none, some (Gi.builtinNames ++ [w "main.c", w "skip.c"])] ∧
    (match (run wS st0 [.scan [w "e"] none false none [] []]).2 with | [.loadRaised] => true | _ => false) = true := by
  rw [run_eq_K, run_eq_K]; constructor <;> decide +kernel

/-- `/b/.codelimit_cache/codelimit.json` written by version 0.0.1 -/
def foreignCache : List Str → Option Str := fun d =>
  if d = [w "b"] then some (w "{\"version\": \"0.0.1\", \"uuid\": \"u\", \"root\": \"/b\", \"codebase\": {\"files\": {}}}")
  else none

/-- **Witness: `scan`, then `report` and `findings` in the same interpreter** - and without the scan:
after `scan /b` both display the two files of the report (exit status 0; `Overview` / the table
header); `report /b` alone prints "No cached report found, run scan first" (exit status 1); a cache file
written by version `0.0.1` gives "Report version mismatch, run scan first" (exit status 1). -/
theorem scan_report_findings_witness :
    (run wS st0 [scanB, .report [w "b"] .text none, .findings [w "b"] true .markdown]).2.map Reply.displayed =
      [none, some (some [w "main.c", w "util.py"], some 0, .overviewText),
       some (some [w "main.c", w "util.py"], some 0, .findingsTable false)] ∧
    (run wS st0 [.report [w "b"] .markdown none]).2.map Reply.displayed = [some (none, some 1, .noReportMsg)] ∧
    (run wS { st0 with cache := foreignCache } [.findings [w "b"] false .text]).2.map Reply.displayed =
      [some (none, some 1, .mismatchMsg)] := by
  rw [run_eq_K, run_eq_K, run_eq_K]; refine ⟨?_, ?_, ?_⟩ <;> decide +kernel

/-- **Witness: the repository is sticky too.**  `scan /a` in a GitHub checkout (`configure_github_repository`
finds `own/nam`, branch `main`), then `scan /b` outside any checkout in the same interpreter: the second
report carries the first directory's repository. -/
theorem repository_is_sticky :
    (match (run wS st0 [.scan [w "a"] none false (some ⟨w "own", w "nam", some (w "main"), none⟩) (w "u1") (w "t1"), scanB]).2 with
      | [_, .scan c] => (c.repository.map (·.name), (match c.result with
          | some (.ok (d, _)) => d.repository.map (·.name) | _ => none))
      | _ => (none, none)) = (some (w "nam"), some (w "nam")) := by
  rw [run_eq_K]; decide +kernel

/-- `check` in the same interpreter after `scan /a --exclude util.py`: run in `/b` it skips `util.py`
(first call's option) and `skip.c` (`/b/.gitignore`); in a fresh interpreter it checks `util.py` -/
theorem check_after_scan_witness :
    (match (run wS st0 [scanA, .check [w "b"] [.relDir []] none true false]).2 with
      | [_, .check c] => (match c.result with | some (.ok co) => some (co.files.map (·.1.comps)) | _ => none)
      | _ => none) = some [[w "b", w "main.c"]] ∧
    (match (run wS st0 [.check [w "b"] [.relDir []] none true false]).2 with
      | [.check c] => (match c.result with | some (.ok co) => some (co.files.map (·.1.comps), co.out.printed, co.out.exitCode) | _ => none)
      | _ => none) = some ([[w "b", w "main.c"], [w "b", w "util.py"]], false, 0) := by
  rw [run_eq_K, run_eq_K]; constructor <;> decide +kernel

/-! ### the theorems applied to the example -/

theorem wB_loadOk (st : State) (h : st.fs = wFs) : LoadOk wS st.fs [w "b"] := by
  intro text ht
  have : fileAt wFs [w "b"] configName = none := by decide +kernel
  rw [h, this] at ht; cases ht

theorem wA_loadOk : LoadOk wS wFs [w "a"] := by
  intro text ht
  have : fileAt wFs [w "a"] configName = some (w "A") := by decide +kernel
  rw [this] at ht
  cases ht
  decide

theorem wE_not_loadOk : ¬ LoadOk wS wFs [w "e"] := by
  intro h
  exact h [] (by decide +kernel) (by decide)

theorem wB_treeOk : Pipeline.TreeOk wB where
  wf := by decide +kernel
  names := by
    intro p c hf hv
    have h : ∀ x ∈ cands [] wB, ∀ y ∈ x.1, Json.GoodStr y := by decide +kernel
    exact h (p, c) (mem_cands.2 ⟨p, rfl, hf, hv⟩)

/-- `scan_completes`, `scan_then_report_shows`, `scan_lines_refine_spec`, `entryScan_refines_scanCmd`
on `scan /b` in the fresh interpreter: all hypotheses hold (`EnvOk` is `Pipe.Ex.exE_ok`), so the scan
returns a report `d` of the tool's version, and `report` / `findings` of `/b` in any later state with that cache
file display exactly `d` -/
example : ∃ c d text, (entryScan wS st0 [w "b"] none false none (w "u2") (w "t2")).2 = some c ∧
    c.result = some (.ok (d, text)) ∧ d.version = some wS.env.version ∧
    c.lines = C12cwd.specLinesAt (readers wS) wFs [] [w "b"] ∧
    (∀ st2 : State, st2.cache [w "b"] = some text → st2.fs = wFs → ∀ fmt full,
      (entryReport wS st2 [w "b"] fmt none).2 = some ⟨.shown d.untyped none, reportHeadline fmt (.shown d.untyped none)⟩ ∧
      (entryFindings wS st2 [w "b"] full fmt).2 = some ⟨.shown d.untyped none, findingsHeadline fmt (.shown d.untyped none)⟩) := by
  have hl := wB_loadOk st0 rfl
  have hn : getNode st0.fs [w "b"] = some (.dir (w "b") wB) := by
    simp [st0, wFs, getNode, getList, Node.name, w, Gi.str]
  obtain ⟨c, d, text, hc, hres⟩ := scan_completes wS hl none false none (w "u2") (w "t2")
    (pats := [.name (w "skip.c")]) (by decide +kernel) hn wB_treeOk.wf
  obtain ⟨_, _, hver, _, hshow⟩ := scan_then_report_shows wS hl Pipe.Ex.exE_ok hn wB_treeOk .missing none false none
    (by decide) (by decide) (by decide) (by intro r h; cases h) hc hres
  obtain ⟨c', hc', _, hfresh⟩ := scan_lines_refine_spec wS hl none false none (w "u2") (w "t2")
  rw [hc] at hc'
  cases hc'
  exact ⟨c, d, text, hc, hres, hver, hfresh rfl, fun st2 h2 hfs fmt full => hshow st2 h2 (wB_loadOk st2 hfs) fmt full⟩

/-- `entry_raises_iff` on `/e` (empty configuration file) and `/a`; `config_verbose_beats_option` on `/a`
(`verbose: false`); `scan_result_depends_on_line_set`: `util.py` accumulated by an earlier call or given
as this call's option - same result -/
example :
    (entryScan wS st0 [w "e"] none false none [] []).2 = none ∧
    (∃ cs cc, (entryScan wS st0 [w "a"] none true none [] []).2 = some cs ∧
      (entryCheck wS st0 [w "a"] [] none false true).2 = some cc ∧ cs.verbose = false) ∧
    (entryScan wS { st0 with proc := ⟨[w "util.py", w "util.py"], false, none⟩ } [w "b"] none false none [] []).2.map (·.result) =
      (entryScan wS st0 [w "b"] (some [w "util.py"]) true none [] []).2.map (·.result) := by
  refine ⟨((entry_raises_iff wS st0 [w "e"] [] none false false false none [] [] .text none).1).2 wE_not_loadOk, ?_, ?_⟩
  · obtain ⟨cs, cc, h1, h2, _, h4, _⟩ := config_verbose_beats_option wS (st := st0) wA_loadOk [] none false true none [] []
    exact ⟨cs, cc, h1, h2, h4 false (by decide +kernel)⟩
  · exact scan_result_depends_on_line_set wS rfl rfl rfl (wB_loadOk _ rfl) none (some [w "util.py"]) false true none [] []
      (fun x => by simp [Proc.fresh, st0])

/-- `written_report_displayed` / `foreign_version_refused_by_entry` with the sample reports of `Props/Gaps.lean` /
`Props/C08.lean` (version 0.18.1 resp. another) as cache file of `/b`, for a tool of version 0.18.1 -/
example (p : Bool) :
    let S1 : Sys := { wS with env := { wS.env with version := cp! "0.18.1" } }
    (entryReport S1 { st0 with cache := fun _ => some (Json.write p Gaps.sampleCur) } [w "b"] .markdown none).2 =
      some ⟨.shown Gaps.sampleCur.untyped none, .overviewMarkdown⟩ := by
  intro S1
  have hl : LoadOk S1 wFs [w "b"] := wB_loadOk st0 rfl
  exact ((written_report_displayed S1 (st := { st0 with cache := fun _ => some (Json.write p Gaps.sampleCur) }) hl
    Gaps.sampleCur_good Gaps.sampleCur_distinct (by decide +kernel) rfl .markdown false).1 rfl).1

/-- `check_lines_in_force`, `entryCheck_refines_checkCmd`, `check_is_pipeline_check`, `check_quiet_passthrough` on
`check . --quiet` run in `/b` after an earlier call left `util.py` in the process: the hypotheses hold,
`check` completes (`C12cwd.check_total_pipeline_any_cwd`), nothing is printed iff no function is listed -/
example : ∃ c co, (entryCheck wS { st0 with proc := ⟨[w "util.py"], false, none⟩ } [w "b"] [.relDir []] none true false).2 = some c ∧
    c.lines = C12cwd.specLinesAt (readers wS) wFs [w "util.py"] [w "b"] ∧
    c.result = some (.ok co) ∧ c.quiet = true ∧
    (co.out.printed = false ↔ co.out.listed.flatten = []) ∧ (co.out.exitCode = 0 ∨ co.out.exitCode = 1) := by
  let st : State := { st0 with proc := ⟨[w "util.py"], false, none⟩ }
  have hl : LoadOk wS st.fs [w "b"] := wB_loadOk st rfl
  obtain ⟨c, hc, hres, hq, _⟩ := check_is_pipeline_check wS hl [.relDir []] none true false
    (pats := [.name (w "util.py"), .name (w "skip.c")]) (by decide +kernel)
  obtain ⟨c', hc', hlines, _⟩ := entryCheck_refines_checkCmd wS hl [.relDir []] none true false
  rw [hc] at hc'; cases hc'
  obtain ⟨fl, hfl, _⟩ := C12cwd.check_total_pipeline_any_cwd [] wFs.children [w "b"] wS.env
    [.name (w "util.py"), .name (w "skip.c")] [.relDir []] true
  have hok : c.result = some (.ok ⟨fl, CL.checkCommand true (fl.map fun x => x.2.map fun m => (m.len : Int))⟩) := by
    rw [hres]
    show some (Pipeline.check wS.env _ (.dir [] wFs.children) [w "b"] [.relDir []] true) = _
    simp only [Pipeline.check, hfl]
  obtain ⟨_, _, h3, _, h5⟩ := check_quiet_passthrough wS [.relDir []] none true false hc hok
  exact ⟨c, _, hc, hlines, hok, hq, by simpa using h3, h5⟩

/-- `entryScan_refines_scanCmd` on `scan /b` in the fresh interpreter (hypotheses: `EnvOk`, no cache file, the
entries of `/b` well-formed): the report's files are those of the specified `scanCmd` -/
example : ∃ c, (entryScan wS st0 [w "b"] none false none [] []).2 = some c ∧
    (∀ d text, c.result = some (.ok (d, text)) →
      ∃ o sfiles, C12cwd.scanCmd (Pipeline.oracles wS.env []) (readers wS) wFs [] [w "b"] = some o ∧
        o.result = .ok sfiles ∧ d.files = sfiles.map (fun kv => Pipeline.fileOfSel kv.2)) := by
  have hn : getNode st0.fs [w "b"] = some (.dir (w "b") wB) := by
    simp [st0, wFs, getNode, getList, Node.name, w, Gi.str]
  obtain ⟨c, hc, _, _, h4⟩ := entryScan_refines_scanCmd wS (wB_loadOk st0 rfl) Pipe.Ex.exE_ok .missing
    (fun n ch h => by rw [hn] at h; cases h; exact wB_treeOk.wf) none false none [] []
  refine ⟨c, hc, fun d text hr => ?_⟩
  obtain ⟨o, sfiles, h1, h2, h3, _⟩ := h4 d text hr
  exact ⟨o, sfiles, h1, h2, h3⟩

/-- `same_lines_same_result`: `gen.py`, `*.js` given in another order and twice -/
example : ∃ ps', Gi.parseAll [w "*.js", w "gen.py", w "*.js"] = some ps' ∧
    Gi.excludedWith [.name (w "gen.py"), .ext (w ".js")] = Gi.excludedWith ps' := by
  obtain ⟨ps', h1, h2, _⟩ := same_lines_same_result wS.env (l := [w "gen.py", w "*.js"]) (l' := [w "*.js", w "gen.py", w "*.js"])
    (by intro x; simp only [List.mem_cons, List.not_mem_nil, or_false]; tauto) (ps := [.name (w "gen.py"), .ext (w ".js")])
    (by decide +kernel)
  exact ⟨ps', h1, h2⟩

/-- `foreign_version_refused_by_entry`, `display_agrees_with_C09`, `missing_report_refused`, `diff_needs_both`:
the sample report of `Props/C08.lean` (another version than 0.18.1) as cache file of `/b` is refused -/
example (p : Bool) :
    let S1 : Sys := { wS with env := { wS.env with version := cp! "0.18.1" } }
    (entryReport S1 { st0 with cache := fun _ => some (Json.write p C08.sample) } [w "b"] .text none).2 =
      some ⟨.mismatch, .mismatchMsg⟩ ∧
    (entryReport S1 st0 [w "b"] .text none).2 = some ⟨.noReport, .noReportMsg⟩ := by
  intro S1
  have hl : LoadOk S1 wFs [w "b"] := wB_loadOk st0 rfl
  exact ⟨((foreign_version_refused_by_entry S1 (st := { st0 with cache := fun _ => some (Json.write p C08.sample) }) hl
    C08.sample_good C08.sample_distinct (by decide +kernel) rfl .text).1).2 (by decide),
    (missing_report_refused S1 (st := st0) hl rfl .text none false).1⟩

example : reportCommand (cp! "0.18.1") (some (Json.write true Gaps.sampleCur)) (some (some (Json.write false Gaps.sampleCur))) =
    .shown Gaps.sampleCur.untyped (some Gaps.sampleCur.untyped) := by
  have h : ∀ p, reportCommand (cp! "0.18.1") (some (Json.write p Gaps.sampleCur)) none = .shown Gaps.sampleCur.untyped none := by
    intro p
    have := (Gaps.read_report_written (cp! "0.18.1") Json.buildOkModel Gaps.sampleCur Gaps.sampleCur_good p).2 rfl
      Gaps.sampleCur_distinct (by decide +kernel)
    simp only [reportCommand, readReport, this]
  exact (diff_needs_both _ _ _ _ _).2 ⟨h true, h false⟩

/-- `display_agrees_with_C09`: the sample report of version 0.18.1 as cache file of `/b`; its abstraction is a
document of the tool's version (`Gaps.abstract_written_model`), the abstract `Cache.readReport` shows its rows, and
so does the entry function -/
example :
    let S1 : Sys := { wS with env := { wS.env with version := cp! "0.18.1" } }
    ∃ r, (entryReport S1 { st0 with cache := fun _ => some (Json.write true Gaps.sampleCur) } [w "b"] .text none).2 =
      some ⟨.shown r none, .overviewText⟩ ∧ r.rows? = some Gaps.sampleCur.rows := by
  intro S1
  have hl : LoadOk S1 wFs [w "b"] := wB_loadOk st0 rfl
  have habs := Gaps.abstract_written_model Gaps.sampleCur Gaps.sampleCur_good Gaps.sampleCur_distinct (by decide +kernel) true
  have h := (display_agrees_with_C09 S1 (st := { st0 with cache := fun _ => some (Json.write true Gaps.sampleCur) }) hl .text).2
    _ _ habs
  refine h.2 ?_
  show Cache.readReport (Json.readParams (cp! "0.18.1")) (Json.abstractCache Json.buildOkModel (some (Json.write true Gaps.sampleCur))) = _
  rw [habs]
  exact ((C09.foreign_version_refused (Json.readParams (cp! "0.18.1")) _ _).2).2 rfl

end Witness

end CL.Entry
