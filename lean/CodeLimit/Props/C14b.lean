import CodeLimit.Lemmas.BalancedExit
import CodeLimit.Gen.Languages
/-!
# C14 (last clause) - parenthesis-balancing patterns only end before the end of input when
nesting has returned to zero

Property theorems only, for the *generated* header patterns `CL.Gen.*` (nothing is copied by
hand: the decidable checker `balancedExitOk` of `Lemmas/BalancedExit.lean` is evaluated by the
kernel in `exit_ok`).

Vocabulary (all in `Lemmas/BalancedExit.lean`):

* `balPair D = some (l, r)`: `Balanced l r` (`b` below) is the parenthesis-balancing predicate
  of the compiled pattern `D`;
* `nestDelta l r t` = `+1` if `l` accepts `t`, `-1` if `r` but not `l` accepts `t`, else `0`;
  `nest l r w` = sum of `nestDelta` over `w` = (#tokens with `l`) - (#tokens with `¬ l ∧ r`)
  (`nest_eq_count`);
* `bConsumed D b cfg w`: the tokens of `w` consumed by `b`-labelled transitions in the run of
  `D` over `w` from `cfg` (`takesB`; `consumed_by_b_transition` shows that this is exactly "the
  step follows the `b`-labelled transition"). The nesting profile of a match `m` is
  `nest l r (bConsumed D b (start, []) m.toks)`. By `consumed_suffix` these tokens are a
  non-empty *suffix* of `m.toks` - from the first token consumed by a `b` transition on, every
  token is consumed by a `b` transition - so "counted over the `b` transitions" and "counted
  over the suffix starting at the first `b` transition" are the same thing.

All theorems share the hypotheses: `L` a shipped language, `hp` one of its header patterns,
`D` its DFA, `b = Balanced l r` its balancing predicate, `ms` the result of `find_all` on an
arbitrary token list `toks`, `m ∈ ms`.
-/
namespace CL.C14b

/-- the checker holds for every header pattern of every supported language (kernel
evaluation) -/
theorem exit_ok : ∀ L ∈ Gen.all.map (·.2), L.pats.all patExitOk = true := by decide +kernel

theorem exitOK_of {L : Language} (hL : L ∈ Gen.all.map (·.2)) {hp : HeaderPat}
    (hhp : hp ∈ L.pats) {D : Dfa Pred} (hD : compileTok hp.expr = .ok D) {l r : Pred}
    (hb : balPair D = some (l, r)) : ExitOK D l r := by
  obtain ⟨l', r', hb', ok⟩ := patExitOk_spec (List.all_eq_true.1 (exit_ok L hL) hp hhp) hD
  rw [hb] at hb'
  cases hb'
  exact ok

/-- every shipped header pattern has a parenthesis-balancing predicate -/
theorem has_balanced (L : Language) (hL : L ∈ Gen.all.map (·.2)) (hp : HeaderPat)
    (hhp : hp ∈ L.pats) (D : Dfa Pred) (hD : compileTok hp.expr = .ok D) :
    ∃ l r, balPair D = some (l, r) := by
  obtain ⟨l, r, hb, _⟩ := patExitOk_spec (List.all_eq_true.1 (exit_ok L hL) hp hhp) hD
  exact ⟨l, r, hb⟩

/-! ## (a) the tokens consumed by the balancing predicate -/

/-- `takesB` (used by `bConsumed`) holds for a step of a reachable configuration exactly when
the step follows the transition labelled `b` -/
theorem consumed_by_b_transition (L : Language) (hL : L ∈ Gen.all.map (·.2)) (hp : HeaderPat)
    (hhp : hp ∈ L.pats) (D : Dfa Pred) (hD : compileTok hp.expr = .ok D) (l r : Pred)
    (hb : balPair D = some (l, r)) (cfg cfg' : DState × Depths) (x : Tok) (hr : Reach D cfg)
    (hstep : (dfaMachine D tokAcceptor).step cfg x = .ok (some cfg')) :
    takesB D (.balanced l r) cfg x = true ↔ (.balanced l r, cfg'.1) ∈ D.row cfg.1 :=
  takesB_iff (exitOK_of hL hhp hD hb) hr hstep

/-- the tokens of a match consumed by `b` transitions are a non-empty suffix of the matched
tokens; no token before that suffix is consumed by a `b` transition -/
theorem consumed_suffix (L : Language) (hL : L ∈ Gen.all.map (·.2)) (hp : HeaderPat)
    (hhp : hp ∈ L.pats) (D : Dfa Pred) (hD : compileTok hp.expr = .ok D) (l r : Pred)
    (hb : balPair D = some (l, r)) (toks : List Tok) (ms : List (Match Tok))
    (hms : findAll (dfaMachine D tokAcceptor) toks = .ok ms) (m : Match Tok) (hm : m ∈ ms) :
    bConsumed D (.balanced l r) (.start, []) m.toks ≠ [] ∧
    ∃ pre, m.toks = pre ++ bConsumed D (.balanced l r) (.start, []) m.toks ∧
      bConsumed D (.balanced l r) (.start, []) pre = [] := by
  obtain ⟨q, pre, _, _, h3, h4, h5, _⟩ := match_exit (exitOK_of hL hhp hD hb) hms hm
  exact ⟨h5, pre, h3, h4⟩

/-! ## (c) the depth tracks the profile -/

/-- the accepting run over the matched tokens ends in a configuration `(q, ds)` in which the
nesting depth stored for `b` equals the nesting profile of the match -/
theorem depth_tracks_nest (L : Language) (hL : L ∈ Gen.all.map (·.2)) (hp : HeaderPat)
    (hhp : hp ∈ L.pats) (D : Dfa Pred) (hD : compileTok hp.expr = .ok D) (l r : Pred)
    (hb : balPair D = some (l, r)) (toks : List Tok) (ms : List (Match Tok))
    (hms : findAll (dfaMachine D tokAcceptor) toks = .ok ms) (m : Match Tok) (hm : m ∈ ms) :
    ∃ q, runM (dfaMachine D tokAcceptor) (.start, []) m.toks = some q ∧ D.isAcc q.1 = true ∧
      getDepth q.2 (.balanced l r) =
        nest l r (bConsumed D (.balanced l r) (.start, []) m.toks) := by
  obtain ⟨q, pre, h1, h2, _, _, _, h6, _⟩ := match_exit (exitOK_of hL hhp hD hb) hms hm
  refine ⟨q, h1, h2, ?_⟩
  rw [h6.depth]; omega

/-! ## (b) the nesting profile -/

/-- a match that ends before the end of the input ends with the nesting back at zero -/
theorem early_end_nest_zero (L : Language) (hL : L ∈ Gen.all.map (·.2)) (hp : HeaderPat)
    (hhp : hp ∈ L.pats) (D : Dfa Pred) (hD : compileTok hp.expr = .ok D) (l r : Pred)
    (hb : balPair D = some (l, r)) (toks : List Tok) (ms : List (Match Tok))
    (hms : findAll (dfaMachine D tokAcceptor) toks = .ok ms) (m : Match Tok) (hm : m ∈ ms)
    (hlt : m.e < toks.length) :
    nest l r (bConsumed D (.balanced l r) (.start, []) m.toks) = 0 := by
  obtain ⟨q, pre, _, _, _, _, _, h6, h7⟩ := match_exit (exitOK_of hL hhp hD hb) hms hm
  have := h7 hlt
  rw [h6.depth] at this; omega

/-- the nesting never becomes negative: every prefix of the consumed tokens has `nest ≥ 0` -/
theorem nest_prefix_nonneg (L : Language) (hL : L ∈ Gen.all.map (·.2)) (hp : HeaderPat)
    (hhp : hp ∈ L.pats) (D : Dfa Pred) (hD : compileTok hp.expr = .ok D) (l r : Pred)
    (hb : balPair D = some (l, r)) (toks : List Tok) (ms : List (Match Tok))
    (hms : findAll (dfaMachine D tokAcceptor) toks = .ok ms) (m : Match Tok) (hm : m ∈ ms) :
    ∀ p, p <+: bConsumed D (.balanced l r) (.start, []) m.toks → 0 ≤ nest l r p := by
  obtain ⟨q, pre, _, _, _, _, _, h6, _⟩ := match_exit (exitOK_of hL hhp hD hb) hms hm
  intro p hp'
  have := h6.nonneg p hp'
  omega

/-- groups: whenever the nesting is at zero (at the start, and after each closed group) the next
consumed token is an opener. Hence the consumed tokens are a sequence of groups, each starting
with an opener and staying at `nest > 0` until its closer; only the last group may be left
open, and then (by `early_end_nest_zero`) the match extends to the end of the input -/
theorem opener_at_zero (L : Language) (hL : L ∈ Gen.all.map (·.2)) (hp : HeaderPat)
    (hhp : hp ∈ L.pats) (D : Dfa Pred) (hD : compileTok hp.expr = .ok D) (l r : Pred)
    (hb : balPair D = some (l, r)) (toks : List Tok) (ms : List (Match Tok))
    (hms : findAll (dfaMachine D tokAcceptor) toks = .ok ms) (m : Match Tok) (hm : m ∈ ms) :
    ∀ p y rest, bConsumed D (.balanced l r) (.start, []) m.toks = p ++ y :: rest →
      nest l r p = 0 → l.eval y = true := by
  obtain ⟨q, pre, _, _, _, _, _, h6, _⟩ := match_exit (exitOK_of hL hhp hD hb) hms hm
  intro p y rest hw hz
  exact h6.opener p y rest hw (by omega)

/-- while an attempt is alive the stored nesting depth is never negative (a closing token at
depth 0 is rejected by `b`, and no other transition of such a row accepts it) -/
theorem depth_nonneg (L : Language) (hL : L ∈ Gen.all.map (·.2)) (hp : HeaderPat)
    (hhp : hp ∈ L.pats) (D : Dfa Pred) (hD : compileTok hp.expr = .ok D) (l r : Pred)
    (hb : balPair D = some (l, r)) (cfg : DState × Depths) (hr : Reach D cfg) :
    0 ≤ getDepth cfg.2 (.balanced l r) :=
  reach_depth_nonneg (exitOK_of hL hhp hD hb) hr

/-! ## non-vacuity -/

/-- the tokens of `f ( ( ) ) x` -/
def closedToks : List Tok :=
  [⟨2, 0, [102], 1, 0⟩, ⟨3, 2, [40], 1, 1⟩, ⟨3, 2, [40], 1, 2⟩, ⟨3, 2, [41], 1, 3⟩,
   ⟨3, 2, [41], 1, 4⟩, ⟨2, 0, [120], 1, 6⟩]

/-- the tokens of `f ( (` -/
def openToks : List Tok := [⟨2, 0, [102], 1, 0⟩, ⟨3, 2, [40], 1, 1⟩, ⟨3, 2, [40], 1, 2⟩]

/-- C pattern on `f ( ( ) ) x`: the match (0, 5) ends before the end of the input, with
nesting profile 0 -/
example : ∃ hp ∈ Gen.c.pats, ∃ D l r ms, compileTok hp.expr = .ok D ∧ balPair D = some (l, r) ∧
    findAll (dfaMachine D tokAcceptor) closedToks = .ok ms ∧
    ∃ m ∈ ms, m.s = 0 ∧ m.e = 5 ∧ m.e < closedToks.length ∧
      nest l r (bConsumed D (.balanced l r) (.start, []) m.toks) = 0 := by
  have h : Gen.c.pats.any (fun hp => exitWitness hp.expr closedToks 0 5 0) = true := by
    decide +kernel
  obtain ⟨hp, hhp, hw⟩ := List.any_eq_true.1 h
  obtain ⟨D, l, r, ms, h1, h2, h3, m, hm, h4, h5, h6⟩ := exitWitness_spec hw
  exact ⟨hp, hhp, D, l, r, ms, h1, h2, h3, m, hm, h4, h5, by rw [h5]; decide, h6⟩

/-- C pattern on `f ( (` (the input ends inside the group): the match (0, 3) reaches the end of
the input, with nesting profile 2 - the hypothesis `m.e < toks.length` of
`early_end_nest_zero` cannot be dropped -/
example : ∃ hp ∈ Gen.c.pats, ∃ D l r ms, compileTok hp.expr = .ok D ∧ balPair D = some (l, r) ∧
    findAll (dfaMachine D tokAcceptor) openToks = .ok ms ∧
    ∃ m ∈ ms, m.s = 0 ∧ m.e = 3 ∧ m.e = openToks.length ∧
      nest l r (bConsumed D (.balanced l r) (.start, []) m.toks) = 2 := by
  have h : Gen.c.pats.any (fun hp => exitWitness hp.expr openToks 0 3 2) = true := by
    decide +kernel
  obtain ⟨hp, hhp, hw⟩ := List.any_eq_true.1 h
  obtain ⟨D, l, r, ms, h1, h2, h3, m, hm, h4, h5, h6⟩ := exitWitness_spec hw
  exact ⟨hp, hhp, D, l, r, ms, h1, h2, h3, m, hm, h4, h5, by rw [h5]; decide, h6⟩

/-! ## negative control -/

/-- `[Name(), Balanced("(", ")"), Name()]`: after the balancing predicate the pattern goes on
with a different predicate -/
def badRx : Rx Pred :=
  .cat (.cat (.atom .name) (.atom (.balanced (.value [40]) (.value [41])))) (.atom .name)

/-- the tokens of `f ( x y` -/
def badToks : List Tok :=
  [⟨2, 0, [102], 1, 0⟩, ⟨3, 2, [40], 1, 1⟩, ⟨2, 0, [120], 1, 2⟩, ⟨2, 0, [121], 1, 4⟩]

/-- the checker rejects such a pattern, and rightly so: on `f ( x y` it reports the match
(0, 3), which ends before the end of the input inside an open group (nesting profile 1) -/
example : patExitOk ⟨badRx, none⟩ = false ∧
    ∃ D l r ms, compileTok badRx = .ok D ∧ balPair D = some (l, r) ∧
      findAll (dfaMachine D tokAcceptor) badToks = .ok ms ∧
      ∃ m ∈ ms, m.s = 0 ∧ m.e = 3 ∧ m.e < badToks.length ∧
        nest l r (bConsumed D (.balanced l r) (.start, []) m.toks) = 1 := by
  refine ⟨by decide +kernel, ?_⟩
  have hw : exitWitness badRx badToks 0 3 1 = true := by decide +kernel
  obtain ⟨D, l, r, ms, h1, h2, h3, m, hm, h4, h5, h6⟩ := exitWitness_spec hw
  exact ⟨D, l, r, ms, h1, h2, h3, m, hm, h4, h5, by rw [h5]; decide, h6⟩

end CL.C14b
