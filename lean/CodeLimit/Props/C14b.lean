import CodeLimit.Lemmas.BalancedExitTokens
import CodeLimit.Gen.Languages
/-!
# C14 (last clause) - parenthesis-balancing patterns only end before the end of input when
nesting has returned to zero

Property theorems only, for the *generated* header patterns `CL.Gen.*` (nothing is copied by
hand: the decidable checkers `balancedExitOk` of `Lemmas/BalancedExit.lean` and `prePureOk` of
`Lemmas/BalancedExitTokens.lean` are evaluated by the kernel in `exit_ok` and `pre_ok`).

All theorems share the hypotheses: `L` a shipped language, `hp` one of its header patterns,
`D` its DFA, `Balanced l r` its balancing predicate (`balPair D = some (l, r)`; for every shipped
pattern `l = Symbol "("`, `r = Symbol ")"`, see `shipped_pair`), `ms` the result of `find_all`
on an arbitrary token list `toks`, `m ∈ ms`.

## 1. What to read: the observable theorems

They speak about the matched tokens `m.toks` only (`m.toks = toks[m.s : m.e]`, C14), with the
vocabulary of `Spec/Nest.lean`:

* `nestDelta l r t` = `+1` if `l` accepts the token `t`, `-1` if `r` but not `l` accepts `t`,
  else `0`; `nest l r w` = sum of `nestDelta` over `w` = (#tokens of `w` accepted by `l`) -
  (#tokens of `w` accepted by `r` and not by `l`) (`nest_eq_count`). A function of the token
  list alone.

* `early_end_nest_zero`: a match that ends before the end of the input has `nest l r m.toks = 0`
  (and no prefix of it has negative nesting) - the property clause;
* `nest_prefix_nonneg`: for every match, also one that reaches the end of the input,
  `nest l r m.toks ≥ 0` and no prefix has negative nesting (the match may be left open, it is
  never "over-closed");
* `first_opener`: every match contains an opener; before the first one there is neither an
  opener nor a closer (the name / keyword part of the header);
* `opener_at_zero`: whenever the nesting of a prefix is zero the next token is an opener,
  unless no opener or closer has occurred yet. With `first_opener`: from the first opener on the
  match is a sequence of parenthesis groups, and only the last one may be left open - then, by
  `early_end_nest_zero`, the match extends to the end of the input;
* `depth_tracks_nest`: the depth counter of `Balanced` after the accepting run over `m.toks`
  equals `nest l r m.toks` (this links the observable quantity to the mechanism).

## 2. Internals (proof steps, kept for reference)

`bConsumed D b cfg w` (`Lemmas/BalancedExit.lean`) are the tokens of `w` consumed by
`b`-labelled transitions in the run of `D` over `w` from `cfg` (`takesB`). The theorems
`*_consumed` state the profile facts for `bConsumed D b (start, []) m.toks`; they mention the
automaton and are NOT needed to read section 1. `consumed_from_first_opener` identifies that
list: it is the suffix of `m.toks` that starts at the first opener.
-/
namespace CL.C14b

/-! ## the checkers hold for the shipped patterns (kernel evaluation) -/

/-- the checker of `Lemmas/BalancedExit.lean` holds for every header pattern of every supported
language -/
theorem exit_ok : ∀ L ∈ Gen.all.map (·.2), L.pats.all patExitOk = true := by decide +kernel

/-- the additional check of `Lemmas/BalancedExitTokens.lean` (no label of the name / keyword
part of a header pattern accepts a token that the opener or the closer accepts) holds for every
header pattern of every supported language -/
theorem pre_ok : ∀ L ∈ Gen.all.map (·.2), L.pats.all patPreOk = true := by decide +kernel

theorem exitOK_of {L : Language} (hL : L ∈ Gen.all.map (·.2)) {hp : HeaderPat}
    (hhp : hp ∈ L.pats) {D : Dfa Pred} (hD : compileTok hp.expr = .ok D) {l r : Pred}
    (hb : balPair D = some (l, r)) : ExitOK D l r := by
  obtain ⟨l', r', hb', ok⟩ := patExitOk_spec (List.all_eq_true.1 (exit_ok L hL) hp hhp) hD
  rw [hb] at hb'
  cases hb'
  exact ok

theorem prePure_of {L : Language} (hL : L ∈ Gen.all.map (·.2)) {hp : HeaderPat}
    (hhp : hp ∈ L.pats) {D : Dfa Pred} (hD : compileTok hp.expr = .ok D) {l r : Pred}
    (hb : balPair D = some (l, r)) : PrePure D l r :=
  patPreOk_spec (List.all_eq_true.1 (pre_ok L hL) hp hhp) hD hb

/-- every shipped header pattern has a parenthesis-balancing predicate -/
theorem has_balanced (L : Language) (hL : L ∈ Gen.all.map (·.2)) (hp : HeaderPat)
    (hhp : hp ∈ L.pats) (D : Dfa Pred) (hD : compileTok hp.expr = .ok D) :
    ∃ l r, balPair D = some (l, r) := by
  obtain ⟨l, r, hb, _⟩ := patExitOk_spec (List.all_eq_true.1 (exit_ok L hL) hp hhp) hD
  exact ⟨l, r, hb⟩

/-- does the compiled pattern balance `Symbol "("` against `Symbol ")"`? -/
def pairIsParens (hp : HeaderPat) : Bool :=
  match compileTok hp.expr with
  | .ok D => balPair D == some (.symbol [40], .symbol [41])
  | .error _ => false

/-- for every shipped header pattern the opener is `Symbol "("` and the closer `Symbol ")"`:
`nest l r w` = (#punctuation tokens `(` of `w`) - (#punctuation tokens `)` of `w`) -/
theorem shipped_pair (L : Language) (hL : L ∈ Gen.all.map (·.2)) (hp : HeaderPat)
    (hhp : hp ∈ L.pats) (D : Dfa Pred) (hD : compileTok hp.expr = .ok D) (l r : Pred)
    (hb : balPair D = some (l, r)) : l = .symbol [40] ∧ r = .symbol [41] := by
  have h : ∀ L ∈ Gen.all.map (·.2), L.pats.all pairIsParens = true := by decide +kernel
  have h1 := List.all_eq_true.1 (h L hL) hp hhp
  unfold pairIsParens at h1
  rw [hD] at h1
  simp only [hb] at h1
  have h2 : some (l, r) = some (Pred.symbol [40], Pred.symbol [41]) := by simpa using h1
  cases h2
  exact ⟨rfl, rfl⟩

/-! ## 1. the observable theorems: nesting profile of the matched tokens -/

/-- THE PROPERTY CLAUSE. A match that ends before the end of the input ends with the nesting
back at zero: among its tokens there are as many openers as closers, and no prefix of it has
more closers than openers -/
theorem early_end_nest_zero (L : Language) (hL : L ∈ Gen.all.map (·.2)) (hp : HeaderPat)
    (hhp : hp ∈ L.pats) (D : Dfa Pred) (hD : compileTok hp.expr = .ok D) (l r : Pred)
    (hb : balPair D = some (l, r)) (toks : List Tok) (ms : List (Match Tok))
    (hms : findAll (dfaMachine D tokAcceptor) toks = .ok ms) (m : Match Tok) (hm : m ∈ ms)
    (hlt : m.e < toks.length) :
    nest l r m.toks = 0 ∧ ∀ p, p <+: m.toks → 0 ≤ nest l r p := by
  obtain ⟨q, _, _, _, _, _, _, _, _, _, h7, h8⟩ :=
    match_exit_tokens (exitOK_of hL hhp hD hb) (prePure_of hL hhp hD hb) hms hm
  have := h8 hlt
  exact ⟨by rw [← h7.depth]; exact this, h7.nonneg⟩

/-- every match - also one that reaches the end of the input, where the last group may be left
open - has non-negative nesting, and so has every prefix of it: a match is never over-closed -/
theorem nest_prefix_nonneg (L : Language) (hL : L ∈ Gen.all.map (·.2)) (hp : HeaderPat)
    (hhp : hp ∈ L.pats) (D : Dfa Pred) (hD : compileTok hp.expr = .ok D) (l r : Pred)
    (hb : balPair D = some (l, r)) (toks : List Tok) (ms : List (Match Tok))
    (hms : findAll (dfaMachine D tokAcceptor) toks = .ok ms) (m : Match Tok) (hm : m ∈ ms) :
    0 ≤ nest l r m.toks ∧ ∀ p, p <+: m.toks → 0 ≤ nest l r p := by
  obtain ⟨q, _, _, _, _, _, _, _, _, _, h7, _⟩ :=
    match_exit_tokens (exitOK_of hL hhp hD hb) (prePure_of hL hhp hD hb) hms hm
  exact ⟨h7.nonneg _ (List.prefix_refl _), h7.nonneg⟩

/-- every match contains an opener, and before its first opener there is neither an opener nor
a closer -/
theorem first_opener (L : Language) (hL : L ∈ Gen.all.map (·.2)) (hp : HeaderPat)
    (hhp : hp ∈ L.pats) (D : Dfa Pred) (hD : compileTok hp.expr = .ok D) (l r : Pred)
    (hb : balPair D = some (l, r)) (toks : List Tok) (ms : List (Match Tok))
    (hms : findAll (dfaMachine D tokAcceptor) toks = .ok ms) (m : Match Tok) (hm : m ∈ ms) :
    ∃ pre y suf, m.toks = pre ++ y :: suf ∧
      (∀ x ∈ pre, l.eval x = false ∧ r.eval x = false) ∧ l.eval y = true := by
  obtain ⟨q, pre, y, suf, _, _, h3, h4, h5, _⟩ :=
    match_exit_tokens (exitOK_of hL hhp hD hb) (prePure_of hL hhp hD hb) hms hm
  exact ⟨pre, y, suf, h3, h4, h5⟩

/-- groups: whenever the nesting is at zero - after each closed group - the next matched token
is an opener; the only exception is the part of the match before the first opener, where no
opener and no closer occurs. Hence from the first opener on (`first_opener`) the matched
tokens are a sequence of groups, each starting with an opener and staying at `nest > 0` until
its closer; only the last group may be left open, and then (by `early_end_nest_zero`) the match
extends to the end of the input -/
theorem opener_at_zero (L : Language) (hL : L ∈ Gen.all.map (·.2)) (hp : HeaderPat)
    (hhp : hp ∈ L.pats) (D : Dfa Pred) (hD : compileTok hp.expr = .ok D) (l r : Pred)
    (hb : balPair D = some (l, r)) (toks : List Tok) (ms : List (Match Tok))
    (hms : findAll (dfaMachine D tokAcceptor) toks = .ok ms) (m : Match Tok) (hm : m ∈ ms) :
    ∀ p y rest, m.toks = p ++ y :: rest → nest l r p = 0 →
      l.eval y = true ∨ ∀ x ∈ p ++ [y], l.eval x = false ∧ r.eval x = false := by
  obtain ⟨q, _, _, _, _, _, _, _, _, _, h7, _⟩ :=
    match_exit_tokens (exitOK_of hL hhp hD hb) (prePure_of hL hhp hD hb) hms hm
  exact h7.opener

/-- link to the mechanism: the accepting run over the matched tokens ends in a configuration
`(q, ds)` in which the nesting depth stored for `Balanced l r` equals the nesting profile of the
matched tokens -/
theorem depth_tracks_nest (L : Language) (hL : L ∈ Gen.all.map (·.2)) (hp : HeaderPat)
    (hhp : hp ∈ L.pats) (D : Dfa Pred) (hD : compileTok hp.expr = .ok D) (l r : Pred)
    (hb : balPair D = some (l, r)) (toks : List Tok) (ms : List (Match Tok))
    (hms : findAll (dfaMachine D tokAcceptor) toks = .ok ms) (m : Match Tok) (hm : m ∈ ms) :
    ∃ q, runM (dfaMachine D tokAcceptor) (.start, []) m.toks = some q ∧ D.isAcc q.1 = true ∧
      getDepth q.2 (.balanced l r) = nest l r m.toks := by
  obtain ⟨q, _, _, _, h1, h2, _, _, _, _, h7, _⟩ :=
    match_exit_tokens (exitOK_of hL hhp hD hb) (prePure_of hL hhp hD hb) hms hm
  exact ⟨q, h1, h2, h7.depth⟩

/-! ## 2. internals: the tokens consumed by the balancing predicate

Everything below mentions `bConsumed` / `takesB` / `Reach` (vocabulary of
`Lemmas/BalancedExit.lean`, defined by re-running the automaton). These are the proof steps
behind section 1, kept because they describe the mechanism; the property is stated above. -/

/-- (internals) `takesB` (used by `bConsumed`) holds for a step of a reachable configuration
exactly when the step follows the transition labelled `b` -/
theorem consumed_by_b_transition (L : Language) (hL : L ∈ Gen.all.map (·.2)) (hp : HeaderPat)
    (hhp : hp ∈ L.pats) (D : Dfa Pred) (hD : compileTok hp.expr = .ok D) (l r : Pred)
    (hb : balPair D = some (l, r)) (cfg cfg' : DState × Depths) (x : Tok) (hr : Reach D cfg)
    (hstep : (dfaMachine D tokAcceptor).step cfg x = .ok (some cfg')) :
    takesB D (.balanced l r) cfg x = true ↔ (.balanced l r, cfg'.1) ∈ D.row cfg.1 :=
  takesB_iff (exitOK_of hL hhp hD hb) hr hstep

/-- (internals, bridge to section 1) the tokens of a match consumed by `b` transitions are the
suffix of the matched tokens that starts at the first opener -/
theorem consumed_from_first_opener (L : Language) (hL : L ∈ Gen.all.map (·.2)) (hp : HeaderPat)
    (hhp : hp ∈ L.pats) (D : Dfa Pred) (hD : compileTok hp.expr = .ok D) (l r : Pred)
    (hb : balPair D = some (l, r)) (toks : List Tok) (ms : List (Match Tok))
    (hms : findAll (dfaMachine D tokAcceptor) toks = .ok ms) (m : Match Tok) (hm : m ∈ ms) :
    ∃ pre y suf, m.toks = pre ++ y :: suf ∧
      (∀ x ∈ pre, l.eval x = false ∧ r.eval x = false) ∧ l.eval y = true ∧
      bConsumed D (.balanced l r) (.start, []) m.toks = y :: suf := by
  obtain ⟨q, pre, y, suf, _, _, h3, h4, h5, h6, _⟩ :=
    match_exit_tokens (exitOK_of hL hhp hD hb) (prePure_of hL hhp hD hb) hms hm
  exact ⟨pre, y, suf, h3, h4, h5, h6⟩

/-- (internals) the nesting profile of the matched tokens is the nesting profile of the tokens
consumed by `b` transitions -/
theorem nest_eq_nest_consumed (L : Language) (hL : L ∈ Gen.all.map (·.2)) (hp : HeaderPat)
    (hhp : hp ∈ L.pats) (D : Dfa Pred) (hD : compileTok hp.expr = .ok D) (l r : Pred)
    (hb : balPair D = some (l, r)) (toks : List Tok) (ms : List (Match Tok))
    (hms : findAll (dfaMachine D tokAcceptor) toks = .ok ms) (m : Match Tok) (hm : m ∈ ms) :
    nest l r m.toks = nest l r (bConsumed D (.balanced l r) (.start, []) m.toks) := by
  obtain ⟨q, pre, y, suf, _, _, h3, h4, _, h6, _⟩ :=
    match_exit_tokens (exitOK_of hL hhp hD hb) (prePure_of hL hhp hD hb) hms hm
  rw [h6, h3, nest_append, nest_neutral h4]; omega

/-- (internals) the tokens of a match consumed by `b` transitions are a non-empty suffix of the
matched tokens; no token before that suffix is consumed by a `b` transition -/
theorem consumed_suffix (L : Language) (hL : L ∈ Gen.all.map (·.2)) (hp : HeaderPat)
    (hhp : hp ∈ L.pats) (D : Dfa Pred) (hD : compileTok hp.expr = .ok D) (l r : Pred)
    (hb : balPair D = some (l, r)) (toks : List Tok) (ms : List (Match Tok))
    (hms : findAll (dfaMachine D tokAcceptor) toks = .ok ms) (m : Match Tok) (hm : m ∈ ms) :
    bConsumed D (.balanced l r) (.start, []) m.toks ≠ [] ∧
    ∃ pre, m.toks = pre ++ bConsumed D (.balanced l r) (.start, []) m.toks ∧
      bConsumed D (.balanced l r) (.start, []) pre = [] := by
  obtain ⟨q, pre, _, _, h3, h4, h5, _⟩ := match_exit (exitOK_of hL hhp hD hb) hms hm
  exact ⟨h5, pre, h3, h4⟩

/-- (internals; `depth_tracks_nest` for the consumed tokens) -/
theorem depth_tracks_nest_consumed (L : Language) (hL : L ∈ Gen.all.map (·.2)) (hp : HeaderPat)
    (hhp : hp ∈ L.pats) (D : Dfa Pred) (hD : compileTok hp.expr = .ok D) (l r : Pred)
    (hb : balPair D = some (l, r)) (toks : List Tok) (ms : List (Match Tok))
    (hms : findAll (dfaMachine D tokAcceptor) toks = .ok ms) (m : Match Tok) (hm : m ∈ ms) :
    ∃ q, runM (dfaMachine D tokAcceptor) (.start, []) m.toks = some q ∧ D.isAcc q.1 = true ∧
      getDepth q.2 (.balanced l r) =
        nest l r (bConsumed D (.balanced l r) (.start, []) m.toks) := by
  obtain ⟨q, pre, h1, h2, _, _, _, h6, _⟩ := match_exit (exitOK_of hL hhp hD hb) hms hm
  refine ⟨q, h1, h2, ?_⟩
  rw [h6.depth]; omega

/-- (internals; `early_end_nest_zero` for the consumed tokens) -/
theorem early_end_nest_zero_consumed (L : Language) (hL : L ∈ Gen.all.map (·.2)) (hp : HeaderPat)
    (hhp : hp ∈ L.pats) (D : Dfa Pred) (hD : compileTok hp.expr = .ok D) (l r : Pred)
    (hb : balPair D = some (l, r)) (toks : List Tok) (ms : List (Match Tok))
    (hms : findAll (dfaMachine D tokAcceptor) toks = .ok ms) (m : Match Tok) (hm : m ∈ ms)
    (hlt : m.e < toks.length) :
    nest l r (bConsumed D (.balanced l r) (.start, []) m.toks) = 0 := by
  obtain ⟨q, pre, _, _, _, _, _, h6, h7⟩ := match_exit (exitOK_of hL hhp hD hb) hms hm
  have := h7 hlt
  rw [h6.depth] at this; omega

/-- (internals; `nest_prefix_nonneg` for the consumed tokens) -/
theorem nest_prefix_nonneg_consumed (L : Language) (hL : L ∈ Gen.all.map (·.2)) (hp : HeaderPat)
    (hhp : hp ∈ L.pats) (D : Dfa Pred) (hD : compileTok hp.expr = .ok D) (l r : Pred)
    (hb : balPair D = some (l, r)) (toks : List Tok) (ms : List (Match Tok))
    (hms : findAll (dfaMachine D tokAcceptor) toks = .ok ms) (m : Match Tok) (hm : m ∈ ms) :
    ∀ p, p <+: bConsumed D (.balanced l r) (.start, []) m.toks → 0 ≤ nest l r p := by
  obtain ⟨q, pre, _, _, _, _, _, h6, _⟩ := match_exit (exitOK_of hL hhp hD hb) hms hm
  intro p hp'
  have := h6.nonneg p hp'
  omega

/-- (internals; `opener_at_zero` for the consumed tokens, where there is no exception) -/
theorem opener_at_zero_consumed (L : Language) (hL : L ∈ Gen.all.map (·.2)) (hp : HeaderPat)
    (hhp : hp ∈ L.pats) (D : Dfa Pred) (hD : compileTok hp.expr = .ok D) (l r : Pred)
    (hb : balPair D = some (l, r)) (toks : List Tok) (ms : List (Match Tok))
    (hms : findAll (dfaMachine D tokAcceptor) toks = .ok ms) (m : Match Tok) (hm : m ∈ ms) :
    ∀ p y rest, bConsumed D (.balanced l r) (.start, []) m.toks = p ++ y :: rest →
      nest l r p = 0 → l.eval y = true := by
  obtain ⟨q, pre, _, _, _, _, _, h6, _⟩ := match_exit (exitOK_of hL hhp hD hb) hms hm
  intro p y rest hw hz
  exact h6.opener p y rest hw (by omega)

/-- (internals) while an attempt is alive the stored nesting depth is never negative (a closing
token at depth 0 is rejected by `b`, and no other transition of such a row accepts it) -/
theorem depth_nonneg (L : Language) (hL : L ∈ Gen.all.map (·.2)) (hp : HeaderPat)
    (hhp : hp ∈ L.pats) (D : Dfa Pred) (hD : compileTok hp.expr = .ok D) (l r : Pred)
    (hb : balPair D = some (l, r)) (cfg : DState × Depths) (hr : Reach D cfg) :
    0 ≤ getDepth cfg.2 (.balanced l r) :=
  reach_depth_nonneg (exitOK_of hL hhp hD hb) hr

/-! ## non-vacuity

Each example exhibits the observable quantity `nest l r m.toks` and, for comparison, the
internal one (`nest` of the `b`-consumed tokens); `tokWitness … s e n k` is evaluated by the
kernel. -/

/-- the tokens of `f ( ( ) ) x` -/
def closedToks : List Tok :=
  [⟨2, 0, [102], 1, 0⟩, ⟨3, 2, [40], 1, 1⟩, ⟨3, 2, [40], 1, 2⟩, ⟨3, 2, [41], 1, 3⟩,
   ⟨3, 2, [41], 1, 4⟩, ⟨2, 0, [120], 1, 6⟩]

/-- the tokens of `f ( (` -/
def openToks : List Tok := [⟨2, 0, [102], 1, 0⟩, ⟨3, 2, [40], 1, 1⟩, ⟨3, 2, [40], 1, 2⟩]

/-- the tokens of `const f = ( ( ) ) x` (keyword, name, operator, four punctuation tokens,
name) -/
def arrowToks : List Tok :=
  [⟨1, 3, [99, 111, 110, 115, 116], 1, 0⟩, ⟨2, 0, [102], 1, 6⟩, ⟨4, 1, [61], 1, 8⟩,
   ⟨3, 2, [40], 1, 10⟩, ⟨3, 2, [40], 1, 11⟩, ⟨3, 2, [41], 1, 12⟩, ⟨3, 2, [41], 1, 13⟩,
   ⟨2, 0, [120], 1, 15⟩]

/-- C pattern on `f ( ( ) ) x`: the match (0, 5) ends before the end of the input, and the
nesting profile of its tokens `f ( ( ) )` is 0 -/
example : ∃ hp ∈ Gen.c.pats, ∃ D l r ms, compileTok hp.expr = .ok D ∧ balPair D = some (l, r) ∧
    findAll (dfaMachine D tokAcceptor) closedToks = .ok ms ∧
    ∃ m ∈ ms, m.s = 0 ∧ m.e = 5 ∧ m.e < closedToks.length ∧ nest l r m.toks = 0 ∧
      nest l r (bConsumed D (.balanced l r) (.start, []) m.toks) = 0 := by
  have h : Gen.c.pats.any (fun hp => tokWitness hp.expr closedToks 0 5 0 0) = true := by
    decide +kernel
  obtain ⟨hp, hhp, hw⟩ := List.any_eq_true.1 h
  obtain ⟨D, l, r, ms, h1, h2, h3, m, hm, h4, h5, h6, h7⟩ := tokWitness_spec hw
  exact ⟨hp, hhp, D, l, r, ms, h1, h2, h3, m, hm, h4, h5, by rw [h5]; decide, h6, h7⟩

/-- C pattern on `f ( (` (the input ends inside the group): the match (0, 3) reaches the end of
the input, and the nesting profile of its tokens `f ( (` is 2 - the hypothesis
`m.e < toks.length` of `early_end_nest_zero` cannot be dropped -/
example : ∃ hp ∈ Gen.c.pats, ∃ D l r ms, compileTok hp.expr = .ok D ∧ balPair D = some (l, r) ∧
    findAll (dfaMachine D tokAcceptor) openToks = .ok ms ∧
    ∃ m ∈ ms, m.s = 0 ∧ m.e = 3 ∧ m.e = openToks.length ∧ nest l r m.toks = 2 ∧
      nest l r (bConsumed D (.balanced l r) (.start, []) m.toks) = 2 := by
  have h : Gen.c.pats.any (fun hp => tokWitness hp.expr openToks 0 3 2 2) = true := by
    decide +kernel
  obtain ⟨hp, hhp, hw⟩ := List.any_eq_true.1 h
  obtain ⟨D, l, r, ms, h1, h2, h3, m, hm, h4, h5, h6, h7⟩ := tokWitness_spec hw
  exact ⟨hp, hhp, D, l, r, ms, h1, h2, h3, m, hm, h4, h5, by rw [h5]; decide, h6, h7⟩

/-- JavaScript arrow-function pattern (the second header pattern of `Gen.javascript`:
`const? name = async? Balanced+`) on `const f = ( ( ) ) x`: the match (0, 7) ends before the end
of the input, and the nesting profile of its tokens `const f = ( ( ) )` is 0; the three tokens
before the first opener are neither openers nor closers -/
example : ∃ hp, Gen.javascript.pats[1]? = some hp ∧ ∃ D l r ms, compileTok hp.expr = .ok D ∧
    balPair D = some (l, r) ∧ findAll (dfaMachine D tokAcceptor) arrowToks = .ok ms ∧
    ∃ m ∈ ms, m.s = 0 ∧ m.e = 7 ∧ m.e < arrowToks.length ∧ nest l r m.toks = 0 ∧
      nest l r (bConsumed D (.balanced l r) (.start, []) m.toks) = 0 := by
  have h : (Gen.javascript.pats[1]?).any (fun hp => tokWitness hp.expr arrowToks 0 7 0 0)
      = true := by decide +kernel
  obtain ⟨hp, hhp, hw⟩ := (Option.any_eq_true _ _).1 h
  obtain ⟨D, l, r, ms, h1, h2, h3, m, hm, h4, h5, h6, h7⟩ := tokWitness_spec hw
  exact ⟨hp, hhp, D, l, r, ms, h1, h2, h3, m, hm, h4, h5, by rw [h5]; decide, h6, h7⟩

/-! ## negative controls -/

/-- `[Name(), Balanced("(", ")"), Name()]`: after the balancing predicate the pattern goes on
with a different predicate -/
def badRx : Rx Pred :=
  .cat (.cat (.atom .name) (.atom (.balanced (.value [40]) (.value [41])))) (.atom .name)

/-- the tokens of `f ( x y` -/
def badToks : List Tok :=
  [⟨2, 0, [102], 1, 0⟩, ⟨3, 2, [40], 1, 1⟩, ⟨2, 0, [120], 1, 2⟩, ⟨2, 0, [121], 1, 4⟩]

/-- the checker rejects such a pattern, and rightly so: on `f ( x y` it reports the match
(0, 3), which ends before the end of the input inside an open group: the nesting profile of its
tokens `f ( x` is 1 -/
example : patExitOk ⟨badRx, none⟩ = false ∧
    ∃ D l r ms, compileTok badRx = .ok D ∧ balPair D = some (l, r) ∧
      findAll (dfaMachine D tokAcceptor) badToks = .ok ms ∧
      ∃ m ∈ ms, m.s = 0 ∧ m.e = 3 ∧ m.e < badToks.length ∧ nest l r m.toks = 1 ∧
        nest l r (bConsumed D (.balanced l r) (.start, []) m.toks) = 1 := by
  refine ⟨by decide +kernel, ?_⟩
  have hw : tokWitness badRx badToks 0 3 1 1 = true := by decide +kernel
  obtain ⟨D, l, r, ms, h1, h2, h3, m, hm, h4, h5, h6, h7⟩ := tokWitness_spec hw
  exact ⟨D, l, r, ms, h1, h2, h3, m, hm, h4, h5, by rw [h5]; decide, h6, h7⟩

/-- `[TokenValue("("), OneOrMore(Balanced(Symbol("("), Symbol(")")))]`: the part of the pattern
before the balancing predicate accepts an opener -/
def preRx : Rx Pred :=
  .cat (.atom (.value [40])) (.plus (.atom (.balanced (.symbol [40]) (.symbol [41]))))

/-- the tokens of `( ( ) x` -/
def preToks : List Tok :=
  [⟨3, 2, [40], 1, 0⟩, ⟨3, 2, [40], 1, 1⟩, ⟨3, 2, [41], 1, 2⟩, ⟨2, 0, [120], 1, 4⟩]

/-- the additional check `pre_ok` is needed for the observable statement: `preRx` passes the
first checker (so the `*_consumed` theorems hold for it) but not the second one, and on
`( ( ) x` it reports the match (0, 3), which ends before the end of the input although the
nesting profile of its tokens `( ( )` is 1; the `b`-consumed tokens `( )` have profile 0 -/
example : patExitOk ⟨preRx, none⟩ = true ∧ patPreOk ⟨preRx, none⟩ = false ∧
    ∃ D l r ms, compileTok preRx = .ok D ∧ balPair D = some (l, r) ∧
      findAll (dfaMachine D tokAcceptor) preToks = .ok ms ∧
      ∃ m ∈ ms, m.s = 0 ∧ m.e = 3 ∧ m.e < preToks.length ∧ nest l r m.toks = 1 ∧
        nest l r (bConsumed D (.balanced l r) (.start, []) m.toks) = 0 := by
  refine ⟨by decide +kernel, by decide +kernel, ?_⟩
  have hw : tokWitness preRx preToks 0 3 1 0 = true := by decide +kernel
  obtain ⟨D, l, r, ms, h1, h2, h3, m, hm, h4, h5, h6, h7⟩ := tokWitness_spec hw
  exact ⟨D, l, r, ms, h1, h2, h3, m, hm, h4, h5, by rw [h5]; decide, h6, h7⟩

end CL.C14b
