import CodeLimit.Lemmas.Headers
import CodeLimit.Gen.Languages
/-!
# C15 - the shipped header / follow-up patterns are unambiguous

"For each supported language's header pattern and follow-up pattern, in every reachable matcher
state, with parenthesis nesting at any depth, and for every possible token, at most one
transition applies. Consequently no source text in any supported language can trigger the
matcher's ambiguity error."

Property theorems only. The patterns are the *generated* `CL.Gen.*`; nothing about them is
copied by hand: the decidable bundle `langOk` (`Lemmas/Headers.lean`: both expressions compile,
`unambiguous` holds for both DFAs, the header DFA does not accept the empty sequence and has a
name token on every accepting path) is evaluated by the kernel in `all_ok`, and the theorems
follow from the soundness of the checkers (`Lemmas/Unambiguous.lean`).

Scope.  All theorems are about ONE construction of the tables: `compileTok` = Thompson
construction with state ids from 1 and the subset construction iterating sets in list order
(`Model/Scopes.lean`).  That other id bases and other set-iteration orders give bisimilar tables
(hence the same absence of ambiguity and the same headers) is `C06.find_all_indep` /
`C06.get_headers_indep`, not repeated here.

Vocabulary: a matcher state of an attempt is a configuration `(DFA state, nesting depths)`;
`Reach D cfg` = `cfg` is the initial configuration `(start, [])` or is obtained from a reachable
configuration by a successful `Pattern.consume` of some token. "The transition labelled `p`
applies to `tok` in `cfg`" = `(acceptTok p cfg.2 tok).1 = true`, the verdict of `p.accept(tok)`
on the attempt's own copy of the predicate.
-/
namespace CL.C15

/-- the checker bundle holds for every supported language (kernel evaluation) -/
theorem all_ok : ∀ L ∈ Gen.all.map (·.2), langOk L = true := by decide +kernel

/-- the seven supported languages are the ones quantified over -/
example : Gen.all.map (·.1) = ["C", "C++", "C#", "Java", "JavaScript", "Python", "TypeScript"] :=
  rfl

theorem pat_ok {L : Language} (hL : L ∈ Gen.all.map (·.2)) {hp : HeaderPat} (hhp : hp ∈ L.pats) :
    patOk hp = true :=
  List.all_eq_true.1 (all_ok L hL) hp hhp

/-! ## 1. compilation succeeds -/

/-- every header pattern of every supported language compiles to a DFA (the subset
construction does not run out of fuel) -/
theorem header_compiles (L : Language) (hL : L ∈ Gen.all.map (·.2)) (hp : HeaderPat)
    (hhp : hp ∈ L.pats) : ∃ D, compileTok hp.expr = .ok D := by
  obtain ⟨D, hD, _⟩ := patOk_expr (pat_ok hL hhp)
  exact ⟨D, hD⟩

/-- every follow-up pattern of every supported language compiles to a DFA -/
theorem follow_compiles (L : Language) (hL : L ∈ Gen.all.map (·.2)) (hp : HeaderPat)
    (hhp : hp ∈ L.pats) (f : Rx Pred) (hf : hp.follow = some f) : ∃ F, compileTok f = .ok F := by
  obtain ⟨F, hF, _⟩ := patOk_follow (pat_ok hL hhp) hf
  exact ⟨F, hF⟩

/-! ## 2. at most one transition applies -/

/-- header patterns: in every reachable matcher configuration (any DFA state, any nesting
depths) and for every token, at most one transition of the current state applies.

Reading note: the count is taken with every label judged against the depths `cfg.2` the
configuration is ENTERED with, whereas `Pattern.consume` evaluates the transitions one after the
other and each evaluation of a `Balanced` mutates that predicate's own depth.  The two agree
because the labels of a row are pairwise distinct predicates and a predicate's verdict depends on
its own depth only; the statement that follows the code literally (mutation included) is
`consume_never_raises`. -/
theorem no_ambiguity (L : Language) (hL : L ∈ Gen.all.map (·.2)) (hp : HeaderPat)
    (hhp : hp ∈ L.pats) :
    ∀ D, compileTok hp.expr = .ok D → ∀ cfg, Reach D cfg → ∀ tok : Tok,
      ((D.row cfg.1).filter (fun pt => (acceptTok pt.1 cfg.2 tok).1)).length ≤ 1 := by
  intro D hD
  obtain ⟨D', hD', hU, _⟩ := patOk_expr (pat_ok hL hhp)
  rw [hD] at hD'; cases hD'
  exact unambiguous_atMostOne D hU

/-- follow-up patterns: the same -/
theorem no_ambiguity_follow (L : Language) (hL : L ∈ Gen.all.map (·.2)) (hp : HeaderPat)
    (hhp : hp ∈ L.pats) (f : Rx Pred) (hf : hp.follow = some f) :
    ∀ F, compileTok f = .ok F → ∀ cfg, Reach F cfg → ∀ tok : Tok,
      ((F.row cfg.1).filter (fun pt => (acceptTok pt.1 cfg.2 tok).1)).length ≤ 1 := by
  intro F hF
  obtain ⟨F', hF', hU⟩ := patOk_follow (pat_ok hL hhp) hf
  rw [hF] at hF'; cases hF'
  exact unambiguous_atMostOne F hU

/-! ## 3. `Pattern.consume` never raises "Multiple transitions found!" -/

/-- header patterns: `consume` (which evaluates every transition in turn, mutating the
predicate copies as it goes) raises no error in any reachable configuration, for any token -/
theorem consume_never_raises (L : Language) (hL : L ∈ Gen.all.map (·.2)) (hp : HeaderPat)
    (hhp : hp ∈ L.pats) :
    ∀ D, compileTok hp.expr = .ok D → ∀ cfg, Reach D cfg → ∀ (tok : Tok) (e : Err),
      (dfaMachine D tokAcceptor).step cfg tok ≠ .error e := by
  intro D hD
  obtain ⟨D', hD', hU, _⟩ := patOk_expr (pat_ok hL hhp)
  rw [hD] at hD'; cases hD'
  exact unambiguous_sound D hU

/-- follow-up patterns: the same -/
theorem consume_never_raises_follow (L : Language) (hL : L ∈ Gen.all.map (·.2)) (hp : HeaderPat)
    (hhp : hp ∈ L.pats) (f : Rx Pred) (hf : hp.follow = some f) :
    ∀ F, compileTok f = .ok F → ∀ cfg, Reach F cfg → ∀ (tok : Tok) (e : Err),
      (dfaMachine F tokAcceptor).step cfg tok ≠ .error e := by
  intro F hF
  obtain ⟨F', hF', hU⟩ := patOk_follow (pat_ok hL hhp) hf
  rw [hF] at hF'; cases hF'
  exact unambiguous_sound F hU

/-- `find_all` with a header pattern returns on every token sequence -/
theorem findAll_total (L : Language) (hL : L ∈ Gen.all.map (·.2)) (hp : HeaderPat)
    (hhp : hp ∈ L.pats) (toks : List Tok) :
    ∀ D, compileTok hp.expr = .ok D → ∃ ms, findAll (dfaMachine D tokAcceptor) toks = .ok ms := by
  intro D hD
  obtain ⟨D', hD', hU, _⟩ := patOk_expr (pat_ok hL hhp)
  rw [hD] at hD'; cases hD'
  exact findAll_unambiguous D hU toks

/-- `starts_with` with a follow-up pattern returns on every token sequence -/
theorem startsWith_total (L : Language) (hL : L ∈ Gen.all.map (·.2)) (hp : HeaderPat)
    (hhp : hp ∈ L.pats) (f : Rx Pred) (hf : hp.follow = some f) (toks : List Tok) :
    ∀ F, compileTok f = .ok F →
      ∃ r, startsWithM (dfaMachine F tokAcceptor) (dfaMachine F tokAcceptor).init toks 0 = .ok r := by
  intro F hF
  obtain ⟨F', hF', hU⟩ := patOk_follow (pat_ok hL hhp) hf
  rw [hF] at hF'; cases hF'
  exact startsWithM_unambiguous F hU toks 0

/-! ## 4. no source text makes header extraction raise -/

/-- `Language.extract_headers` returns on every token sequence: no ambiguity error, no
`StopIteration` from looking for the name token, no exhausted fuel -/
theorem extractHeaders_total (L : Language) (hL : L ∈ Gen.all.map (·.2)) (toks : List Tok) :
    ∃ hs, extractHeaders L toks = .ok hs := by
  obtain ⟨hs, h, _⟩ := extractHeaders_ok (all_ok L hL) toks
  exact ⟨hs, h⟩

/-- in particular on the code tokens of any source text `code` with any lexer output `raw` -/
theorem extractHeaders_total_source (L : Language) (hL : L ∈ Gen.all.map (·.2)) (code : Str)
    (raw : List RawTok) : ∃ hs, extractHeaders L (filterTokens false (lex code raw false)) = .ok hs :=
  extractHeaders_total L hL _

/-- every extracted header is a greedy match of one of the language's header patterns, and its
name is the first name token of the matched tokens -/
theorem extractHeaders_greedy (L : Language) (hL : L ∈ Gen.all.map (·.2)) (toks : List Tok)
    (hs : List Header) (h : extractHeaders L toks = .ok hs) :
    ∀ hd ∈ hs, ∃ hp ∈ L.pats, ∃ D, compileTok hp.expr = .ok D ∧
      GreedyAt (dfaMachine D tokAcceptor) toks hd.rng.s hd.rng.e ∧
      firstName (slice toks hd.rng.s hd.rng.e) = .ok hd.name := by
  obtain ⟨hs', h', hall⟩ := extractHeaders_ok (all_ok L hL) toks
  rw [h] at h'; cases h'
  exact hall

/-- every extracted header has a non-empty token range inside the input and a name token that
lies inside that range -/
theorem extractHeaders_wf (L : Language) (hL : L ∈ Gen.all.map (·.2)) (toks : List Tok)
    (hs : List Header) (h : extractHeaders L toks = .ok hs) :
    ∀ hd ∈ hs, hd.rng.s < hd.rng.e ∧ hd.rng.e ≤ toks.length ∧ hd.name.isName = true ∧
      ∃ i, hd.rng.s ≤ i ∧ i < hd.rng.e ∧ toks[i]? = some hd.name := by
  intro hd hhd
  obtain ⟨hp, _, hh⟩ := extractHeaders_greedy L hL toks hs h hd hhd
  exact HeaderOf.wf (hp := hp) hh

/-! ## 5. negative control: the checker rejects a really ambiguous pattern -/

/-- the JavaScript arrow-function header as it was before the repair:
`[Optional(Keyword("const")), Name(), Operator("="), Optional(Keyword("async")),
OneOrMore(Balanced("(", ")")), Symbol("=>")]` -/
def oldArrow : Rx Pred :=
  .cat (.cat (.cat (.cat (.cat (.opt (.atom (.keyword [99, 111, 110, 115, 116]))) (.atom .name))
    (.atom (.operator [61]))) (.opt (.atom (.keyword [97, 115, 121, 110, 99]))))
    (.plus (.atom (.balanced (.value [40]) (.value [41]))))) (.atom (.symbol [61, 62]))

/-- the tokens of `f = ( =>` -/
def arrowToks : List Tok :=
  [⟨2, 0, [102], 1, 0⟩, ⟨4, 1, [61], 1, 2⟩, ⟨3, 2, [40], 1, 4⟩, ⟨3, 2, [61, 62], 1, 6⟩]

/-- the pre-repair pattern is rejected by `unambiguous`, and rightly so: on `f = ( =>` the
token `=>` arrives at nesting depth 1, where both `Balanced("(", ")")` and `Symbol("=>")`
accept it, and `find_all` raises "Multiple transitions found!" -/
example : ∃ D, compileTok oldArrow = .ok D ∧ unambiguous D = false ∧
    findAll (dfaMachine D tokAcceptor) arrowToks = .error .multipleTransitions :=
  ambiguityWitness_spec (by decide +kernel)

/-! ## 6. non-vacuity -/

/-- the tokens of `f ( (` -/
def nestToks : List Tok := [⟨2, 0, [102], 1, 0⟩, ⟨3, 2, [40], 1, 1⟩, ⟨3, 2, [40], 1, 2⟩]

/-- the quantification over reachable configurations is not limited to depth 0: for the C
header pattern there is a reachable configuration at nesting depth 2 -/
example : ∃ hp ∈ Gen.c.pats, ∃ D cfg, compileTok hp.expr = .ok D ∧ Reach D cfg ∧
    getDepth cfg.2 (.balanced (.symbol [40]) (.symbol [41])) = 2 := by
  have h : Gen.c.pats.any (fun hp =>
      depthWitness hp.expr nestToks (.balanced (.symbol [40]) (.symbol [41])) 2) = true := by
    decide +kernel
  obtain ⟨hp, hhp, hw⟩ := List.any_eq_true.1 h
  exact ⟨hp, hhp, depthWitness_spec hw⟩

/-- the bound is attained in a state with a real choice: after `f =` the second JavaScript
header pattern is in a state with two transitions (`async`, `Balanced("(", ")")`), of which
exactly one applies to `(` -/
example : ∃ hp ∈ Gen.javascript.pats, ∃ D cfg, compileTok hp.expr = .ok D ∧ Reach D cfg ∧
    2 ≤ (D.row cfg.1).length ∧
    ((D.row cfg.1).filter (fun pt => (acceptTok pt.1 cfg.2 ⟨3, 2, [40], 1, 4⟩).1)).length = 1 := by
  have h : Gen.javascript.pats.any (fun hp =>
      choiceWitness hp.expr [⟨2, 0, [102], 1, 0⟩, ⟨4, 1, [61], 1, 2⟩] ⟨3, 2, [40], 1, 4⟩) = true := by
    decide +kernel
  obtain ⟨hp, hhp, hw⟩ := List.any_eq_true.1 h
  exact ⟨hp, hhp, choiceWitness_spec hw⟩

/-- the hypotheses `hL`, `hhp`, `hf` of the theorems are satisfiable -/
example : ∃ L ∈ Gen.all.map (·.2), ∃ hp ∈ L.pats, ∃ f, hp.follow = some f :=
  ⟨Gen.java, by simp [Gen.all], _, List.mem_cons_self .., _, rfl⟩

/-- header extraction on the C tokens of `f ( ) {`: one header, `f`, tokens `[0, 3)` -/
example : extractHeaders Gen.c
    [⟨2, 0, [102], 1, 0⟩, ⟨3, 2, [40], 1, 1⟩, ⟨3, 2, [41], 1, 2⟩, ⟨3, 2, [123], 1, 4⟩] =
    .ok [⟨⟨2, 0, [102], 1, 0⟩, ⟨0, 3⟩⟩] := by rfl

end CL.C15
