import CodeLimit.Props.C01full
import CodeLimit.Lemmas.ProgTreeMarksScan
import CodeLimit.Lemmas.ProgTreeMarksToggle
import CodeLimit.Lemmas.ProgTreeMarksShift
import CodeLimit.Lemmas.ProgTreeMarksSharp
import CodeLimit.Lemmas.ProgTreeMarksNames
/-!
# C01 + C04 + C17 on program trees: forests WITH comments and suppression markers

`Props/C01tree.lean` / `Props/C01full.lean` prove `scan_file = tree report` for forests of CODE tokens.
Here the forest may contain comment and whitespace tokens anywhere (between items of any level,
inside headers and their brace groups, inside gaps, trailing on any line), and any of the comments
may be suppression markers (`nocl`).  Vocabulary (`Spec/ProgTreeMarks.lean`):

* `Prog.stripComments` - the forest without the tokens that `filter_tokens` drops;
* `markedLines` - the lines of the marker comments; `Prog.dissolve lines` - every function node
  named on one of the lines becomes header items + gap tokens + a brace group (its tokens stay, it is
  no function any more); `Prog.effective` = strip, then dissolve the marked functions;
* `markedReport p` / `markedReportFlat p` - the tree report of the effective located forest;
* `Discovers L q` - the discovery hypothesis (header extraction finds the function nodes of `q`).

Results, for EVERY forest (any number, order, nesting of items; any subset of functions marked):

* M0 `strip_tokens`, `strip_name`, `dissolve_tokens`, `dissolve_functions`, `dissolve_wellformed`,
  `marked_line_iff` - the vocabulary means what it says;
* M1 `scan_of_marked_tree_partial`, `scan_of_rendered_marked_tree_partial` - under the discovery
  hypothesis and the structural conditions on the COMMENT-FREE forest, `scan_file` returns
  `markedReport` (nested languages) / `markedReportFlat` (C);
* M1' `scan_of_marked_tree_sharp`, `scan_of_rendered_marked_tree_sharp` - `noAdj` is needed for the
  functions that stay only: a brace group may directly follow a SUPPRESSED function
  (`Ex.adjacent_after_marked`); M3 and M4 are stated with this weaker condition
  (`p.effective.noAdj`, implied by `p.stripComments.noAdj`: `effective_noAdj_of_strip`);
* M2 `scan_of_rendered_marked_canon_tree` (`…_java_…`, `…_js_…`, `…_ts_…`) - unconditional for the
  canonical fragments;
* M3 (C17) `reported_functions`, `function_omitted_iff` - ON THE OUTPUT of `scan_file`: exactly the
  functions named on unmarked lines are reported (for C: the visible ones, `expectedNames`);
  `toggle_marker`, `toggle_independent`, `toggle_marker_canon` - adding / removing the marker of
  independent functions removes / restores exactly their entries (exact condition: not nested, for
  languages with nested functions; not enclosing, for C); `toggle_marker_moved` - the same for a
  marker ANYWHERE on the line (in front of the name it shifts columns: entries correspond up to
  columns); the general case is M1 itself,
  illustrated by `Ex.nested_marker_changes_parent`, `Ex.enclosing_marker_reveals_nested`;
* M4 (C04) `comments_in_place_invisible` - comments that do not move the code change nothing;
  `comments_blank_lines_invisible`, `comments_blank_lines_invisible_canon` - inserting or
  deleting comments (not markers on a name line) and blank lines anywhere leaves names, order and
  lengths unchanged and maps the reported lines by the line shift;
* M5 `Fragment`, `…_fragment`, `…_canon_java/_js/_ts` - M3 and M4 for EVERY canonical fragment,
  without hypothesis about the matcher (C, C++, C#, Java, JavaScript, TypeScript; with assigned arrow
  functions and at TEXT level in `Props/C01marktext.lean`);
* non-vacuity: `Ex.marksTree` (comments in all places, two marked functions) and four variants; all
  hypotheses by `decide`, conclusions compared with the kernel evaluation of `scanFile`.

**Naming.**  `_partial` marks M1: it is CONDITIONAL on `Discovers L …` (header extraction finds the
function nodes of the comment-free forest - a statement about an intermediate result of the
analysis, `Spec/ProgTreeMarks.lean`).  So are the corollaries `toggle_marker`, `toggle_independent`,
`comments_in_place_invisible`, `comments_blank_lines_invisible`, `reported_functions`.  The
hypothesis is discharged in M2 and M5 for every canonical fragment (`Fragment`): `…_canon`,
`…_canon_java`, `…_canon_js`, `…_canon_ts`, `…_fragment`, and `…_canon_js_arrow`, `…_canon_ts_arrow`
in `Props/C01marktext.lean`.

**The restriction `noAdj`.**  M1 needs `noAdj` of the comment-free forest (no brace group directly
after a function), as `C01tree.scan_of_tree_partial` does (Appendix A of the design: part of
"canonical"); without it the statement is false (`scan_of_marked_tree_full_false`, the witness of
`C01tree`).  Dissolving a marked function creates a brace group directly after header or gap
TOKENS, never directly after a function, so `noAdj` and the layout clause `no_adjacent` survive
(`dissolve_wellformed`).  For C (no nested functions) the formula `markedReportFlat` is right, too:
marking an enclosing function reveals the functions nested in it
(`C17.reported_flat_full_fails`), and that is exactly what dissolving the enclosing node does.
-/
namespace CL.C01marks
open CL.C01syn CL.C01tree CL.C01full CL.Marks

/-! ## M0: the vocabulary -/

/-- **The token sequence of the comment-free forest is `filter_tokens` of the token sequence**
(for a comment-free forest whose braces are brace symbols). -/
theorem strip_tokens {p : Prog Tok} (hw : p.stripComments.wfCore = true) :
    p.stripComments.flat = filterTokens false p.flat :=
  flat_strip_of_wfCore p hw

/-- **Stripping keeps the name of a function**: the re-counted name index of a header points to the
same token, if that token is a code token. -/
theorem strip_name {hdr : Prog Tok} {k : Nat} (hw : hdr.stripComments.wfCore = true)
    (hk : k < hdr.size) (hc : (hdr.flat.getD k default).isCode = true) :
    hdr.stripComments.flat.getD ((hdr.flat.take k).filter Tok.isCode).length default
      = hdr.flat.getD k default := by
  rw [flat_strip_of_wfCore hdr hw, filterTokens_eq_filter_isCode]
  exact getD_filter_take Tok.isCode default hdr.flat k (by rw [Prog.size_eq]; exact hk) hc

/-- **Dissolving functions does not change the token sequence.** -/
theorem dissolve_tokens (lines : List Nat) (p : Prog Tok) : (p.dissolve lines).flat = p.flat :=
  flat_dissolve lines p

/-- **The function nodes of the dissolved forest** are the function nodes of the forest whose name
token stands on none of the lines, with unchanged header and body ranges, in the same order. -/
theorem dissolve_functions (lines : List Nat) {p : Prog Tok} (hw : p.wfCore = true) :
    (p.dissolve lines).fns = p.fns.filter (fun f => !lines.contains f.hdr.name.line) :=
  fnsOf_dissolve lines p 0 hw

/-- **Dissolving keeps the forest well-formed**: structural well-formedness and "no brace group
directly after a function" both survive, whatever functions are dissolved. -/
theorem dissolve_wellformed (lines : List Nat) {p : Prog Tok} (hw : p.wfCore = true)
    (ha : p.noAdj = true) : (p.dissolve lines).wfCore = true ∧ (p.dissolve lines).noAdj = true :=
  (Prog.wf_iff _).mp (wf_dissolve lines p (Prog.wf_of hw ha))

/-- a line is marked iff it carries a comment token whose text is a marker (`C17.marker_recognition`) -/
theorem marked_line_iff (p : Prog Tok) (l : Nat) :
    l ∈ markedLines p ↔ ∃ t ∈ p.flat, t.isComment = true ∧ isNoclText t.val = true ∧ t.line = l := by
  rw [← List.contains_iff_mem, ← marked_iff_markedLines]
  rfl

/-- **what a marked line is, without reference to the model's text test**: line `l` is marked iff it
carries a comment token whose text is: an optional comment leader (`#`, `;`, `//` or `/*`), then -
only if there is a leader - any number of blanks, then the four letters `nocl` in any mix of upper
and lower case, then anything.  (`markedLines` / `Tok.isMarker` are defined with the model function
`isNoclText`; this is `marked_line_iff` composed with the independent characterisation
`C17.marker_recognition` = `isNoclText_iff`.) -/
theorem marked_line_iff_text (p : Prog Tok) (l : Nat) :
    l ∈ markedLines p ↔ ∃ t ∈ p.flat, t.isComment = true ∧ t.line = l ∧
      ∃ leader ws mark rest, t.val = leader ++ ws ++ mark ++ rest ∧
        leader ∈ [[], [35], [59], [47, 47], [47, 42]] ∧
        (leader = [] → ws = []) ∧ ws.all isSpaceChar = true ∧
        mark.map lowerAscii = [110, 111, 99, 108] := by
  rw [marked_line_iff]
  constructor
  · rintro ⟨t, ht, h1, h2, h3⟩
    exact ⟨t, ht, h1, h3, (isNoclText_iff t.val).1 h2⟩
  · rintro ⟨t, ht, h1, h3, h2⟩
    exact ⟨t, ht, h1, (isNoclText_iff t.val).2 h2, h3⟩

/-- the conditions on the comment-free located forest of a file do not depend on the locations:
they are conditions on the comment-free forest of tokens without locations -/
theorem conditions_location_independent (p : Prog PTok) :
    p.located.stripComments.wfCore = p.bare.stripComments.wfCore ∧
    p.located.stripComments.noAdj = p.bare.stripComments.noAdj ∧
    p.located.stripComments.Canon = p.bare.stripComments.Canon ∧
    p.located.stripComments.CanonJava = p.bare.stripComments.CanonJava ∧
    p.located.stripComments.CanonJs = p.bare.stripComments.CanonJs ∧
    p.located.stripComments.CanonTs = p.bare.stripComments.CanonTs :=
  ⟨wfCore_strip_locate p _, noAdj_strip_locate p _, canon_strip_locate p _,
   canonJava_strip_locate p _, canonJs_strip_locate p _, canonTs_strip_locate p _⟩

/-- **The report with comments and markers extends the report without**: for a forest of CODE tokens
(no comment, no whitespace token; structurally well-formed) `markedReport` / `markedReportFlat` are
`treeReport` / `treeReportFlat` of the located forest, so M1 / M2 specialise to the theorems of
`Props/C01tree.lean` / `Props/C01full.lean`. -/
theorem markedReport_of_allCode {p : Prog PTok} (hw : p.bare.wfCore = true)
    (hc : p.bare.allCode = true) :
    markedReport p = treeReport p.located ∧ markedReportFlat p = treeReportFlat p.located := by
  have hw' : p.located.wfCore = true := by rw [Prog.located, wfCore_locate]; exact hw
  have hc' : p.located.allCode = true := by rw [Prog.located, allCode_locate]; exact hc
  unfold markedReport markedReportFlat
  rw [effective_of_allCode hw' hc']
  exact ⟨rfl, rfl⟩

/-! ## M1: `scan_file` on forests with comments and markers -/

/-- **M1 (`_partial`: conditional on `Discovers`; needs `noAdj`).**  Let `p` be a forest of located tokens, comments, whitespace and
marker comments anywhere, token locations strictly increasing.  Let its comment-free forest be
structurally well-formed (`wfCore`) with no function directly followed by a brace group (`noAdj`),
and let the header extraction of a brace-block language `L` find the headers of the function nodes
of the comment-free forest (`Discovers`).  Then `scan_file` on the token sequence of `p` succeeds
and returns exactly the tree report of the effective forest (comments dropped, the functions named
on a marked line dissolved): every remaining function node with the number of distinct lines of
its own code tokens if `L` reports nested functions; the outermost remaining function nodes with
the lines of all their code tokens otherwise.  So the tokens of a suppressed function count for the
nearest remaining enclosing function, and the functions nested in it are re-parented to that
function (or become outermost).

Full statement (FALSE, `scan_of_marked_tree_full_false`): the same without `noAdj`. -/
theorem scan_of_marked_tree_partial {L : Language} {p : Prog Tok} (hpy : L.python = false)
    (hw : p.stripComments.wfCore = true) (ha : p.stripComments.noAdj = true)
    (hpos : PosSorted p.flat) (hd : Discovers L p.stripComments) :
    scanFile L p.flat
      = .ok (if L.nested = true then treeReport p.effective else treeReportFlat p.effective) := by
  obtain ⟨hs, hh, hperm⟩ := hd
  exact scan_marked_prog hpy hw ha hpos hh hperm

/-- **M1 for rendered forests (`_partial`: conditional on `Discovers`; needs `noAdj`).**  Let `p` be ANY forest of tokens without
locations (line breaks and blank columns arbitrary; comments anywhere).  If its comment-free forest
is structurally well-formed and has no function directly followed by a brace group (two decidable
conditions that do not mention locations) and header extraction finds the function nodes of the
comment-free located forest, then `scan_file` on the rendering returns `markedReport p`
(`markedReportFlat p` for a language without nested functions). -/
theorem scan_of_rendered_marked_tree_partial {L : Language} {p : Prog PTok}
    (hpy : L.python = false) (hw : p.bare.stripComments.wfCore = true)
    (ha : p.bare.stripComments.noAdj = true) (hd : Discovers L p.located.stripComments) :
    scanFile L (render p)
      = .ok (if L.nested = true then markedReport p else markedReportFlat p) :=
  scan_of_marked_tree_partial hpy ((wfCore_strip_locate p _).trans hw)
    ((noAdj_strip_locate p _).trans ha) (render_pos_sorted p) hd

/-- **Witness: M1 without `noAdj` is false** - the witness of `C01tree.scan_of_tree_full_false`
(`f ( ) { a ; } { b ; }`, no comments at all): Java finds the header, and `scan_file` merges the
following block into `f`. -/
theorem scan_of_marked_tree_full_false :
    ¬ ∀ (L : Language) (p : Prog Tok), L.python = false → p.stripComments.wfCore = true →
      PosSorted p.flat → Discovers L p.stripComments →
      scanFile L p.flat
        = .ok (if L.nested = true then treeReport p.effective else treeReportFlat p.effective) := by
  intro h
  have hflat : adjTree.flat = C01Adj.code := by decide +kernel
  have hs : adjTree.stripComments.flat = C01Adj.code := by decide +kernel
  have h1 := h Gen.java adjTree (by decide) (by decide +kernel) (hflat ▸ C01Adj.posSorted)
    ⟨_, hs ▸ C01Adj.headers, by decide +kernel⟩
  rw [hflat, C01Adj.scanJava] at h1
  revert h1
  decide +kernel

/-- **M1, sharper: `noAdj` is needed for the REPORTED functions only.**  As
`scan_of_marked_tree_partial`, but "no function directly followed by a brace group" is required of
the effective forest only: a brace group may directly follow a SUPPRESSED function.  (`scan_file`
merges that group into the scope of the suppressed function, `C01.adjacent_block_is_merged`; the
scope is dropped afterwards and nothing else needs the group.)  The hypothesis of
`scan_of_marked_tree_partial` implies this one (`dissolve_wellformed`). -/
theorem scan_of_marked_tree_sharp {L : Language} {p : Prog Tok} (hpy : L.python = false)
    (hw : p.stripComments.wfCore = true) (ha : p.effective.noAdj = true)
    (hpos : PosSorted p.flat) (hd : Discovers L p.stripComments) :
    scanFile L p.flat
      = .ok (if L.nested = true then treeReport p.effective else treeReportFlat p.effective) := by
  obtain ⟨hs, hh, hperm⟩ := hd
  exact scan_marked_prog_sharp hpy hw ha hpos hh hperm

/-- the sharper M1 for rendered forests (the condition on the effective forest depends on the
locations, because the marked lines do) -/
theorem scan_of_rendered_marked_tree_sharp {L : Language} {p : Prog PTok}
    (hpy : L.python = false) (hw : p.bare.stripComments.wfCore = true)
    (ha : p.located.effective.noAdj = true) (hd : Discovers L p.located.stripComments) :
    scanFile L (render p)
      = .ok (if L.nested = true then markedReport p else markedReportFlat p) :=
  scan_of_marked_tree_sharp hpy ((wfCore_strip_locate p _).trans hw) ha (render_pos_sorted p) hd

/-- the hypothesis of `scan_of_marked_tree_partial` implies the one of `scan_of_marked_tree_sharp` -/
theorem effective_noAdj_of_strip {p : Prog Tok} (hw : p.stripComments.wfCore = true)
    (ha : p.stripComments.noAdj = true) : p.effective.noAdj = true :=
  (dissolve_wellformed _ hw ha).2

/-! ## M2: the canonical fragments - no hypothesis about the matcher -/

theorem discovers_of_canon {L : Language} (hL : L ∈ cFamily) {q : Prog Tok}
    (hc : q.Canon = true) (hw : q.wfCore = true) (ha : q.noAdj = true) : Discovers L q :=
  ⟨_, discovery_of_canon hL hc hw ha, List.Perm.refl _⟩

theorem discovers_of_canon_java {q : Prog Tok}
    (hc : q.CanonJava = true) (hw : q.wfCore = true) (ha : q.noAdj = true) :
    Discovers Gen.java q :=
  ⟨_, discovery_of_canon_java hc hw ha, List.Perm.refl _⟩

theorem discovers_of_canon_js {q : Prog Tok}
    (hc : q.CanonJs = true) (hw : q.wfCore = true) (ha : q.noAdj = true) :
    Discovers Gen.javascript q :=
  ⟨_, discovery_of_canon_js hc hw ha, List.Perm.refl _⟩

theorem discovers_of_canon_ts {q : Prog Tok}
    (hc : q.CanonTs = true) (hw : q.wfCore = true) (ha : q.noAdj = true) :
    Discovers Gen.typescript q :=
  ⟨_, discovery_of_canon_ts hc hw ha, List.Perm.refl _⟩

/-- **M2.  C, C++, C#: rendered forests with comments and markers, unconditionally.**  Let `p` be
ANY forest of tokens without locations whose comment-free forest lies in the canonical fragment
`Canon` of the C family, is structurally well-formed and has no function directly followed by a
brace group - three decidable, location-independent conditions on `p.bare.stripComments`.  Comments
may stand anywhere, and any of them may be markers.  Then `scan_file` on the rendering returns
`markedReport p` (C++, C#) / `markedReportFlat p` (C). -/
theorem scan_of_rendered_marked_canon_tree {L : Language} (hL : L ∈ cFamily) {p : Prog PTok}
    (hc : p.bare.stripComments.Canon = true) (hw : p.bare.stripComments.wfCore = true)
    (ha : p.bare.stripComments.noAdj = true) :
    scanFile L (render p)
      = .ok (if L.nested = true then markedReport p else markedReportFlat p) :=
  scan_of_rendered_marked_tree_partial (cFamily_brace L hL) hw ha
    (discovers_of_canon hL ((canon_strip_locate p _).trans hc)
      ((wfCore_strip_locate p _).trans hw) ((noAdj_strip_locate p _).trans ha))

/-- **M2 for Java** (`CanonJava`: `throws` clauses, anonymous classes, …) -/
theorem scan_java_of_rendered_marked_canon_tree {p : Prog PTok}
    (hc : p.bare.stripComments.CanonJava = true) (hw : p.bare.stripComments.wfCore = true)
    (ha : p.bare.stripComments.noAdj = true) :
    scanFile Gen.java (render p) = .ok (markedReport p) :=
  scan_of_rendered_marked_tree_partial (L := Gen.java) rfl hw ha
    (discovers_of_canon_java ((canonJava_strip_locate p _).trans hc)
      ((wfCore_strip_locate p _).trans hw) ((noAdj_strip_locate p _).trans ha))

/-- **M2 for JavaScript** (`CanonJs`: `function` / method pattern, no assigned arrow functions) -/
theorem scan_js_of_rendered_marked_canon_tree {p : Prog PTok}
    (hc : p.bare.stripComments.CanonJs = true) (hw : p.bare.stripComments.wfCore = true)
    (ha : p.bare.stripComments.noAdj = true) :
    scanFile Gen.javascript (render p) = .ok (markedReport p) :=
  scan_of_rendered_marked_tree_partial (L := Gen.javascript) rfl hw ha
    (discovers_of_canon_js ((canonJs_strip_locate p _).trans hc)
      ((wfCore_strip_locate p _).trans hw) ((noAdj_strip_locate p _).trans ha))

/-- **M2 for TypeScript** (`CanonTs`) -/
theorem scan_ts_of_rendered_marked_canon_tree {p : Prog PTok}
    (hc : p.bare.stripComments.CanonTs = true) (hw : p.bare.stripComments.wfCore = true)
    (ha : p.bare.stripComments.noAdj = true) :
    scanFile Gen.typescript (render p) = .ok (markedReport p) :=
  scan_of_rendered_marked_tree_partial (L := Gen.typescript) rfl hw ha
    (discovers_of_canon_ts ((canonTs_strip_locate p _).trans hc)
      ((wfCore_strip_locate p _).trans hw) ((noAdj_strip_locate p _).trans ha))

/-! ## M3: C17 in the words of the property -/

/-- the report of `L` with names, without them -/
theorem langReportNamed_snd (L : Language) (q : Prog Tok) :
    (langReportNamed L q).map (·.2)
      = if L.nested = true then treeReport q else treeReportFlat q := by
  unfold langReportNamed
  split
  · exact treeReportNamed_snd q
  · exact treeReportFlatNamed_snd q

/-- a fact about the SPECIFICATION vocabulary only (no `scan_file`): the function nodes of the
effective forest are, in source order, exactly the function nodes of the comment-free forest whose
NAME token stands on a line without marker comment (`marked_line_iff`); and the names paired with
the entries of `treeReportNamed` are the name tokens of those nodes.  (This is what dissolving
does; the statement about the OUTPUT is `reported_functions`.) -/
theorem effective_function_names {p : Prog Tok} (hw : p.stripComments.wfCore = true) :
    (treeReportNamed p.effective).map (·.1)
      = p.stripComments.nameToks.filter (fun t => !(markedLines p).contains t.line) ∧
    (treeReportNamed p.effective).map (·.2) = treeReport p.effective :=
  ⟨by rw [treeReportNamed_fst]; exact nameToks_dissolve _ _ hw, treeReportNamed_snd _⟩

/-- the names paired with the report of `L` are the expected names: for a language with nested
reporting the unmarked function nodes, otherwise the visible ones (specification level) -/
theorem langReportNamed_fst (L : Language) {p : Prog Tok} (hw : p.stripComments.wfCore = true) :
    (langReportNamed L p.effective).map (·.1) = expectedNames L p := by
  unfold langReportNamed expectedNames
  split
  · rw [treeReportNamed_fst]; exact nameToks_dissolve _ _ hw
  · rw [treeReportFlatNamed_fst]; exact outerNameToks_dissolve _ _ hw

/-- every entry carries the text of the name token it is paired with -/
theorem langReportNamed_name (L : Language) (q : Prog Tok) :
    ∀ x ∈ langReportNamed L q, x.2.name = x.1.val := by
  unfold langReportNamed
  split
  · exact treeReportNamed_name q
  · exact treeReportFlatNamed_name q

/-- **C17, "omitted exactly when", on the OUTPUT of `scan_file`.**  Let `p` be a located forest
with comments and markers whose comment-free forest is structurally well-formed, with no brace
group directly after a function that stays, token locations increasing, and let header
extraction of the brace-block language `L` find the function nodes of the comment-free forest
(`Discovers`; discharged for the canonical fragments: `reported_functions_canon`,
`reported_functions_fragment`).  Then `scan_file` succeeds, and its result is a list of entries
that correspond one to one, in order, to the EXPECTED function nodes (`expectedNames`):

* if `L` reports nested functions: exactly the function nodes of the comment-free forest whose
  name token stands on a line WITHOUT a marker comment - a function is omitted exactly when a
  marker comment sits on the line of its name (`function_omitted_iff`);
* if it does not (C): of these, the ones not inside another unmarked function node; a marked
  enclosing function does not hide the functions nested in it;

and every entry carries the text of the name token of its function node (span and length: M1). -/
theorem reported_functions {L : Language} {p : Prog Tok} (hpy : L.python = false)
    (hw : p.stripComments.wfCore = true) (ha : p.effective.noAdj = true)
    (hpos : PosSorted p.flat) (hd : Discovers L p.stripComments) :
    scanFile L p.flat = .ok ((langReportNamed L p.effective).map (·.2)) ∧
    (langReportNamed L p.effective).map (·.1) = expectedNames L p ∧
    ∀ x ∈ langReportNamed L p.effective, x.2.name = x.1.val :=
  ⟨by rw [scan_of_marked_tree_sharp hpy hw ha hpos hd, langReportNamed_snd],
   langReportNamed_fst L hw, langReportNamed_name L _⟩

/-- **"omitted exactly when", per function** (languages with nested reporting): a function node of
the comment-free forest has an entry in the report iff no comment token that is a suppression
marker stands on the line of its name token. -/
theorem function_omitted_iff {L : Language} {p : Prog Tok} (hn : L.nested = true)
    (hw : p.stripComments.wfCore = true) :
    ∀ t ∈ p.stripComments.nameToks,
      (t ∈ (langReportNamed L p.effective).map (·.1) ↔
        ¬ ∃ c ∈ p.flat, c.isComment = true ∧ isNoclText c.val = true ∧ c.line = t.line) := by
  intro t ht
  rw [langReportNamed_fst L hw, expectedNames, if_pos hn, List.mem_filter, ← marked_line_iff]
  simp [ht]

/-- **C17, toggling a marker: the exact condition per kind of language** (conditional on
`Discovers`; without it: `toggle_marker_fragment`, `toggle_marker_canon…`).  `p` and `p'` are two
located forests with the same comment-free forest (`p'` = `p` with a marker comment added on line
`l`, e.g. as a trailing comment: the code tokens stay where they are); the marked lines of `p'` are
those of `p` and `l`.  Condition `toggleOK`, among the functions reported for `p`:

* `L` reports nested functions: no function named on line `l` is inside another function node
  (it MAY enclose functions: they keep their entries);
* `L` does not: every outermost function node named on line `l` contains no function node
  (it MAY be nested: then it was not reported and nothing changes).

Then the report for `p'` is the report for `p` without the entries of the functions named on line
`l`: every other function keeps its name, span and length and its place in the report.  Read from
right to left: removing the marker restores exactly those entries. -/
theorem toggle_marker {L : Language} {p p' : Prog Tok} {l : Nat} (hpy : L.python = false)
    (hw : p.stripComments.wfCore = true) (ha : p.effective.noAdj = true)
    (hpos : PosSorted p.flat) (hpos' : PosSorted p'.flat) (hd : Discovers L p.stripComments)
    (hcode : p'.stripComments = p.stripComments)
    (hmark : ∀ x, x ∈ markedLines p' ↔ x ∈ markedLines p ∨ x = l)
    (hind : toggleOK L l p.effective = true) :
    scanFile L p.flat = .ok ((langReportNamed L p.effective).map (·.2)) ∧
    scanFile L p'.flat = .ok
      (((langReportNamed L p.effective).filter (fun x => decide (x.1.line ≠ l))).map (·.2)) := by
  have hwe : p.effective.wfCore = true := wfCore_dissolve _ _ hw
  have he : p'.effective = p.effective.dissolve [l] := by
    unfold Prog.effective
    rw [hcode, dissolve_dissolve _ _ _ hw]
    apply dissolve_congr
    intro x
    rw [Bool.eq_iff_iff]
    simp only [List.contains_iff_mem, List.mem_append, List.mem_singleton]
    rw [hmark x]
    exact or_comm
  have ha' : p'.effective.noAdj = true := by
    rw [he]
    exact ((Prog.wf_iff _).mp (wf_dissolve [l] _ (Prog.wf_of hwe ha))).2
  have h1 := scan_of_marked_tree_sharp hpy hw ha hpos hd
  have h2 := scan_of_marked_tree_sharp (p := p') hpy (by rw [hcode]; exact hw) ha' hpos'
    (by rw [hcode]; exact hd)
  refine ⟨by rw [h1, langReportNamed_snd], ?_⟩
  rw [h2, he]
  unfold toggleOK at hind
  unfold langReportNamed
  split
  · rename_i hn
    rw [if_pos hn] at hind
    rw [← toggle_named l _ hwe hind, treeReportNamed_snd]
  · rename_i hn
    rw [if_neg hn] at hind
    rw [← toggle_flat_named l _ hwe hind, treeReportFlatNamed_snd]

/-- **C17 toggle, the marker anywhere on the line** (also IN FRONT of the name, where it shifts
the columns of the code behind it; `toggle_marker` demands identical locations and so covers a
trailing marker only).  `p'` has the same comment-free forest as `p` up to COLUMNS (same shape,
kinds, texts and lines: `movedTo id`) and one more marked line `l`; the functions named on line `l`
satisfy `toggleOK`.  Then `scan_file` succeeds on both, and the report for `p'` corresponds entry by
entry to the report for `p` without the entries of the functions named on line `l`: same names,
same lengths, same start and end lines (the columns are those of the moved tokens).  Conditional
on `Discovers` for both forests. -/
theorem toggle_marker_moved {L : Language} {p p' : Prog Tok} {l : Nat} (hpy : L.python = false)
    (hw : p.stripComments.wfCore = true) (ha : p.effective.noAdj = true)
    (hpos : PosSorted p.flat) (hpos' : PosSorted p'.flat) (hd : Discovers L p.stripComments)
    (hd' : Discovers L p'.stripComments)
    (hmove : p.stripComments.movedTo id p'.stripComments = true)
    (hmark : ∀ x, x ∈ markedLines p' ↔ x ∈ markedLines p ∨ x = l)
    (hind : toggleOK L l p.effective = true) :
    scanFile L p.flat = .ok ((langReportNamed L p.effective).map (·.2)) ∧
    ∃ r', scanFile L p'.flat = .ok r' ∧
      Forall2 (Measurement.movedBy id)
        (((langReportNamed L p.effective).filter (fun x => decide (x.1.line ≠ l))).map (·.2)) r' := by
  have hwe : p.effective.wfCore = true := wfCore_dissolve _ _ hw
  have hsim := sim_of_movedTo hmove
  have hw' : p'.stripComments.wfCore = true := (wfCore_sim hsim).symm.trans hw
  -- the effective forest of `p'` is the one of `p` with line `l` dissolved, up to columns
  have he : (p.effective.dissolve [l]).movedTo id p'.effective = true := by
    unfold Prog.effective
    rw [dissolve_dissolve _ _ _ hw]
    apply movedTo_dissolve hmove hw
    intro t _
    rw [Bool.eq_iff_iff]
    simp only [id, List.contains_iff_mem, List.mem_append, List.mem_singleton]
    rw [hmark t.line]
    exact or_comm
  have hwd : (p.effective.dissolve [l]).wfCore = true := wfCore_dissolve _ _ hwe
  have had : (p.effective.dissolve [l]).noAdj = true :=
    ((Prog.wf_iff _).mp (wf_dissolve [l] _ (Prog.wf_of hwe ha))).2
  have ha' : p'.effective.noAdj = true := (noAdj_sim (sim_of_movedTo he)).symm.trans had
  have h1 := scan_of_marked_tree_sharp hpy hw ha hpos hd
  have h2 := scan_of_marked_tree_sharp hpy hw' ha' hpos' hd'
  refine ⟨by rw [h1, langReportNamed_snd], _, h2, ?_⟩
  have hφ : MonoOn id ((p.effective.dissolve [l]).flat.map (·.line)) := fun a _ b _ h => h
  have hS : ∀ t ∈ (p.effective.dissolve [l]).flat,
      t.line ∈ (p.effective.dissolve [l]).flat.map (·.line) := fun t ht => List.mem_map_of_mem ht
  unfold toggleOK at hind
  unfold langReportNamed
  split
  · rename_i hn
    rw [if_pos hn] at hind
    rw [← toggle_named l _ hwe hind, treeReportNamed_snd]
    exact treeReport_movedTo hφ he hwd hS
  · rename_i hn
    rw [if_neg hn] at hind
    rw [← toggle_flat_named l _ hwe hind, treeReportFlatNamed_snd]
    exact treeReportFlat_movedTo hφ he hwd hS

/-- independent functions satisfy the condition of `toggle_marker` for every language -/
theorem toggleOK_of_independent (L : Language) {l : Nat} {q : Prog Tok}
    (h : q.indepOn l = true) : toggleOK L l q = true := by
  unfold toggleOK
  split
  · exact notNestedOn_of_indepOn l q h
  · exact outerLeafOn_of_indepOn l q h

/-- **C17, "adding or removing the marker on a function that neither encloses nor is nested in
another function changes nothing else".**  `toggle_marker` for independent functions (`indepOn`:
every function named on line `l` contains no reported function and no reported function contains
it), for every brace-block language. -/
theorem toggle_independent {L : Language} {p p' : Prog Tok} {l : Nat} (hpy : L.python = false)
    (hw : p.stripComments.wfCore = true) (ha : p.effective.noAdj = true)
    (hpos : PosSorted p.flat) (hpos' : PosSorted p'.flat) (hd : Discovers L p.stripComments)
    (hcode : p'.stripComments = p.stripComments)
    (hmark : ∀ x, x ∈ markedLines p' ↔ x ∈ markedLines p ∨ x = l)
    (hind : p.effective.indepOn l = true) :
    scanFile L p.flat = .ok ((langReportNamed L p.effective).map (·.2)) ∧
    scanFile L p'.flat = .ok
      (((langReportNamed L p.effective).filter (fun x => decide (x.1.line ≠ l))).map (·.2)) :=
  toggle_marker hpy hw ha hpos hpos' hd hcode hmark (toggleOK_of_independent L hind)

/-- **C17 toggle for rendered canonical forests of the C family** (no hypothesis about the matcher;
conditions on `p.bare.stripComments`) -/
theorem toggle_marker_canon {L : Language} (hL : L ∈ cFamily) {p p' : Prog PTok} {l : Nat}
    (hc : p.bare.stripComments.Canon = true) (hw : p.bare.stripComments.wfCore = true)
    (ha : p.bare.stripComments.noAdj = true)
    (hcode : p'.located.stripComments = p.located.stripComments)
    (hmark : ∀ x, x ∈ markedLines p'.located ↔ x ∈ markedLines p.located ∨ x = l)
    (hind : toggleOK L l p.located.effective = true) :
    scanFile L (render p) = .ok ((langReportNamed L p.located.effective).map (·.2)) ∧
    scanFile L (render p') = .ok (((langReportNamed L p.located.effective).filter
      (fun x => decide (x.1.line ≠ l))).map (·.2)) := by
  have hw' := (wfCore_strip_locate p (1, 0)).trans hw
  have ha' := (noAdj_strip_locate p (1, 0)).trans ha
  exact toggle_marker (cFamily_brace L hL) hw' (effective_noAdj_of_strip hw' ha')
    (render_pos_sorted p) (render_pos_sorted p')
    (discovers_of_canon hL ((canon_strip_locate p _).trans hc) hw' ha') hcode hmark hind

/-! ## M4: C04 in the words of the property -/

/-- **C04, comments that do not move the code**: trailing comments, comments in front of a line
break, whitespace tokens, ….  If two located forests have the same comment-free forest (every code
token at the same location) and the name line of every function is marked in both or in neither,
the analyses agree (markers on other lines, and any other comment, are irrelevant). -/
theorem comments_in_place_invisible {L : Language} {p p' : Prog Tok} (hpy : L.python = false)
    (hw : p.stripComments.wfCore = true) (ha : p.effective.noAdj = true)
    (hpos : PosSorted p.flat) (hpos' : PosSorted p'.flat) (hd : Discovers L p.stripComments)
    (hcode : p'.stripComments = p.stripComments)
    (hmark : ∀ t ∈ p.stripComments.nameToks,
      (markedLines p').contains t.line = (markedLines p).contains t.line) :
    scanFile L p'.flat = scanFile L p.flat := by
  have he : p'.effective = p.effective := by
    unfold Prog.effective
    rw [hcode]
    exact dissolve_congr_names _ hmark
  have h1 := scan_of_marked_tree_sharp hpy hw ha hpos hd
  have h2 := scan_of_marked_tree_sharp (p := p') hpy (by rw [hcode]; exact hw)
    (by rw [he]; exact ha) hpos' (by rw [hcode]; exact hd)
  rw [h1, h2, he]

/-- **C04 on trees** (conditional on `Discovers` for both files; without it:
`comments_blank_lines_invisible_fragment`, `…_canon…`).  `p` and `p'` are two located forests whose comment-free forests have the
same shape, kinds and texts, the token on line `l` of `p` standing on line `φ l` of `p'`
(`movedTo`; columns arbitrary), where `φ` is strictly increasing on the lines of `p` that carry
code: this is what inserting / deleting comment leaves, trailing comments, whitespace tokens and
blank lines (`nl`) anywhere does, `φ l - l` being the number of lines inserted above line `l`.  The
name line of a function is marked in `p'` iff it is in `p` (no marker inserted on / deleted from a
name line; markers on other lines are irrelevant).  Then both analyses succeed and the reports
correspond entry by entry: same functions in the same order, same names, same lengths, start and end
lines mapped by `φ`.  In particular comment-only and blank lines are never counted. -/
theorem comments_blank_lines_invisible {L : Language} {p p' : Prog Tok} {φ : Nat → Nat}
    (hpy : L.python = false) (hw : p.stripComments.wfCore = true)
    (ha : p.effective.noAdj = true) (hpos : PosSorted p.flat) (hpos' : PosSorted p'.flat)
    (hd : Discovers L p.stripComments) (hd' : Discovers L p'.stripComments)
    (hmove : p.stripComments.movedTo φ p'.stripComments = true)
    (hφ : MonoOn φ (p.stripComments.flat.map (·.line)))
    (hmark : ∀ t ∈ p.stripComments.nameToks,
      (markedLines p').contains (φ t.line) = (markedLines p).contains t.line) :
    ∃ r r', scanFile L p.flat = .ok r ∧ scanFile L p'.flat = .ok r' ∧
      Forall2 (Measurement.movedBy φ) r r' := by
  have hsim := sim_of_movedTo hmove
  have hw' : p'.stripComments.wfCore = true := (wfCore_sim hsim).symm.trans hw
  have hme : p.effective.movedTo φ p'.effective = true := movedTo_dissolve hmove hw hmark
  have ha' : p'.effective.noAdj = true := (noAdj_sim (sim_of_movedTo hme)).symm.trans ha
  have h1 := scan_of_marked_tree_sharp hpy hw ha hpos hd
  have h2 := scan_of_marked_tree_sharp hpy hw' ha' hpos' hd'
  have hwe : p.effective.wfCore = true := wfCore_dissolve _ _ hw
  have hS : ∀ t ∈ p.effective.flat, t.line ∈ p.stripComments.flat.map (·.line) := by
    intro t ht
    rw [flat_effective] at ht
    exact List.mem_map_of_mem ht
  refine ⟨_, _, h1, h2, ?_⟩
  split
  · exact treeReport_movedTo hφ hme hwe hS
  · exact treeReportFlat_movedTo hφ hme hwe hS

/-- **C04 for rendered canonical forests of the C family** (no hypothesis about the matcher): the
conditions are stated for `p` only; they carry over to `p'`. -/
theorem comments_blank_lines_invisible_canon {L : Language} (hL : L ∈ cFamily) {p p' : Prog PTok}
    {φ : Nat → Nat} (hc : p.bare.stripComments.Canon = true)
    (hw : p.bare.stripComments.wfCore = true) (ha : p.bare.stripComments.noAdj = true)
    (hmove : p.located.stripComments.movedTo φ p'.located.stripComments = true)
    (hφ : MonoOn φ (p.located.stripComments.flat.map (·.line)))
    (hmark : ∀ t ∈ p.located.stripComments.nameToks,
      (markedLines p'.located).contains (φ t.line) = (markedLines p.located).contains t.line) :
    scanFile L (render p) = .ok (if L.nested = true then markedReport p else markedReportFlat p) ∧
    scanFile L (render p')
      = .ok (if L.nested = true then markedReport p' else markedReportFlat p') ∧
    Forall2 (Measurement.movedBy φ)
      (if L.nested = true then markedReport p else markedReportFlat p)
      (if L.nested = true then markedReport p' else markedReportFlat p') := by
  have hw1 := (wfCore_strip_locate p (1, 0)).trans hw
  have ha1 := (noAdj_strip_locate p (1, 0)).trans ha
  have hc1 := (canon_strip_locate p (1, 0)).trans hc
  have hsim := sim_of_movedTo hmove
  have hw2 : p'.located.stripComments.wfCore = true := (wfCore_sim hsim).symm.trans hw1
  have ha2 : p'.located.stripComments.noAdj = true := (noAdj_sim hsim).symm.trans ha1
  have hc2 : p'.located.stripComments.Canon = true := (canon_sim hsim).symm.trans hc1
  have hd1 := discovers_of_canon hL hc1 hw1 ha1
  have hd2 := discovers_of_canon hL hc2 hw2 ha2
  have h1 := scan_of_marked_tree_partial (cFamily_brace L hL) hw1 ha1 (render_pos_sorted p) hd1
  have h2 := scan_of_marked_tree_partial (cFamily_brace L hL) hw2 ha2 (render_pos_sorted p') hd2
  obtain ⟨r, r', e1, e2, hrel⟩ := comments_blank_lines_invisible (cFamily_brace L hL) hw1
    (effective_noAdj_of_strip hw1 ha1) (render_pos_sorted p) (render_pos_sorted p') hd1 hd2 hmove hφ hmark
  refine ⟨h1, h2, ?_⟩
  have e1' := e1.symm.trans h1
  have e2' := e2.symm.trans h2
  cases e1'
  cases e2'
  exact hrel

/-! ## M5: the corollaries of M3 / M4 for EVERY canonical fragment - no hypothesis about the matcher

`toggle_marker`, `comments_in_place_invisible`, `comments_blank_lines_invisible` and
`reported_functions` assume `Discovers L …` (header extraction finds the function nodes).  A
`Fragment L` packages what discharges it: a decidable, location-independent predicate on
comment-free forests on which discovery is PROVED.  The instances are the canonical fragments:
`fragC` (C, C++, C#: `Canon`), `fragJava` (`CanonJava`), `fragJs` (`CanonJs`), `fragTs` (`CanonTs`)
here, `C01marktext.fragJsArrow` / `fragTsArrow` (`CanonJsArrow` / `CanonTsArrow`) in
`Props/C01marktext.lean`.  The generic theorems `…_fragment` are followed by their instances in the
words of the single languages. -/

/-- **a canonical fragment of the brace-block language `L`**: a predicate `holds` on comment-free
forests that does not depend on token locations (`sim`) and on which - together with `wfCore`
and `noAdj` - header extraction of `L` finds exactly the function nodes (`discovers`, a THEOREM for
every instance, not an assumption) -/
structure Fragment (L : Language) where
  /-- the decidable predicate on comment-free forests -/
  holds : Prog Tok → Bool
  /-- `L` is a brace-block language -/
  brace : L.python = false
  /-- the predicate looks at kinds and texts of tokens only, not at their locations -/
  sim : ∀ {p q : Prog Tok}, Prog.Sim p q → holds p = holds q
  /-- discovery is proved on the fragment -/
  discovers : ∀ {q : Prog Tok}, holds q = true → q.wfCore = true → q.noAdj = true → Discovers L q

/-- C, C++, C#: `Prog.Canon` -/
def fragC {L : Language} (hL : L ∈ cFamily) : Fragment L :=
  ⟨Prog.Canon, cFamily_brace L hL, canon_sim, discovers_of_canon hL⟩

/-- Java: `Prog.CanonJava` -/
def fragJava : Fragment Gen.java := ⟨Prog.CanonJava, rfl, canonJava_sim, discovers_of_canon_java⟩

/-- JavaScript without assigned arrow functions: `Prog.CanonJs` -/
def fragJs : Fragment Gen.javascript := ⟨Prog.CanonJs, rfl, canonJs_sim, discovers_of_canon_js⟩

/-- TypeScript without assigned arrow functions: `Prog.CanonTs` -/
def fragTs : Fragment Gen.typescript := ⟨Prog.CanonTs, rfl, canonTs_sim, discovers_of_canon_ts⟩

theorem fragC_holds {L : Language} (hL : L ∈ cFamily) : (fragC hL).holds = Prog.Canon := rfl
theorem fragJava_holds : fragJava.holds = Prog.CanonJava := rfl
theorem fragJs_holds : fragJs.holds = Prog.CanonJs := rfl
theorem fragTs_holds : fragTs.holds = Prog.CanonTs := rfl

/-- the fragment condition on the comment-free located forest is the condition on the comment-free
forest of tokens without locations -/
theorem Fragment.strip_locate {L : Language} (F : Fragment L) (p : Prog PTok) (s : Nat × Nat) :
    F.holds (locate s p).stripComments = F.holds p.bare.stripComments :=
  F.sim (sim_strip_locate p s)

/-- discovery on the comment-free located forest of a rendered forest of the fragment -/
theorem Fragment.discovers_rendered {L : Language} (F : Fragment L) {p : Prog PTok}
    (hc : F.holds p.bare.stripComments = true) (hw : p.bare.stripComments.wfCore = true)
    (ha : p.bare.stripComments.noAdj = true) : Discovers L p.located.stripComments :=
  F.discovers ((F.strip_locate p _).trans hc) ((wfCore_strip_locate p _).trans hw)
    ((noAdj_strip_locate p _).trans ha)

/-- **M2 for every fragment.**  For ANY forest `p` of tokens without locations, comments and markers
anywhere, whose comment-free forest lies in the fragment, is structurally well-formed and has no
function directly followed by a brace group: `scan_file` on the rendering returns `markedReport p`
(`markedReportFlat p` for a language without nested reporting). -/
theorem scan_of_rendered_marked_fragment {L : Language} (F : Fragment L) {p : Prog PTok}
    (hc : F.holds p.bare.stripComments = true) (hw : p.bare.stripComments.wfCore = true)
    (ha : p.bare.stripComments.noAdj = true) :
    scanFile L (render p)
      = .ok (if L.nested = true then markedReport p else markedReportFlat p) :=
  scan_of_rendered_marked_tree_partial F.brace hw ha (F.discovers_rendered hc hw ha)

/-- **C17 "omitted exactly when" for every fragment, on the output** (`reported_functions` without
the discovery hypothesis): `scan_file` on the rendering succeeds; its entries correspond one to
one, in order, to the expected function nodes (`expectedNames`: named on a line without marker; for
C additionally not inside another unmarked function node) and carry their names. -/
theorem reported_functions_fragment {L : Language} (F : Fragment L) {p : Prog PTok}
    (hc : F.holds p.bare.stripComments = true) (hw : p.bare.stripComments.wfCore = true)
    (ha : p.bare.stripComments.noAdj = true) :
    scanFile L (render p) = .ok ((langReportNamed L p.located.effective).map (·.2)) ∧
    (langReportNamed L p.located.effective).map (·.1) = expectedNames L p.located ∧
    ∀ x ∈ langReportNamed L p.located.effective, x.2.name = x.1.val := by
  have hw' := (wfCore_strip_locate p (1, 0)).trans hw
  have ha' := (noAdj_strip_locate p (1, 0)).trans ha
  exact reported_functions F.brace hw' (effective_noAdj_of_strip hw' ha') (render_pos_sorted p)
    (F.discovers_rendered hc hw ha)

/-- **C17 toggle for every fragment** (`toggle_marker` without the discovery hypothesis; conditions
on `p.bare.stripComments`).  `p'` has the same comment-free located forest as `p` and one more
marked line `l` (a marker comment added where it does not move the code, e.g. trailing); the
functions named on line `l` satisfy `toggleOK` (not nested, for languages with nested reporting;
outermost ones contain no function, for C).  Then the report for `p'` is the report for `p` without
the entries of the functions named on line `l`; everything else is unchanged. -/
theorem toggle_marker_fragment {L : Language} (F : Fragment L) {p p' : Prog PTok} {l : Nat}
    (hc : F.holds p.bare.stripComments = true) (hw : p.bare.stripComments.wfCore = true)
    (ha : p.bare.stripComments.noAdj = true)
    (hcode : p'.located.stripComments = p.located.stripComments)
    (hmark : ∀ x, x ∈ markedLines p'.located ↔ x ∈ markedLines p.located ∨ x = l)
    (hind : toggleOK L l p.located.effective = true) :
    scanFile L (render p) = .ok ((langReportNamed L p.located.effective).map (·.2)) ∧
    scanFile L (render p') = .ok (((langReportNamed L p.located.effective).filter
      (fun x => decide (x.1.line ≠ l))).map (·.2)) := by
  have hw' := (wfCore_strip_locate p (1, 0)).trans hw
  have ha' := (noAdj_strip_locate p (1, 0)).trans ha
  exact toggle_marker F.brace hw' (effective_noAdj_of_strip hw' ha')
    (render_pos_sorted p) (render_pos_sorted p') (F.discovers_rendered hc hw ha) hcode hmark hind

/-- **C17 toggle for every fragment, the marker anywhere on the line** (`toggle_marker_moved` without
the discovery hypotheses): `p'` has the same comment-free forest as `p` up to columns and one more
marked line `l`. -/
theorem toggle_marker_moved_fragment {L : Language} (F : Fragment L) {p p' : Prog PTok} {l : Nat}
    (hc : F.holds p.bare.stripComments = true) (hw : p.bare.stripComments.wfCore = true)
    (ha : p.bare.stripComments.noAdj = true)
    (hmove : p.located.stripComments.movedTo id p'.located.stripComments = true)
    (hmark : ∀ x, x ∈ markedLines p'.located ↔ x ∈ markedLines p.located ∨ x = l)
    (hind : toggleOK L l p.located.effective = true) :
    scanFile L (render p) = .ok ((langReportNamed L p.located.effective).map (·.2)) ∧
    ∃ r', scanFile L (render p') = .ok r' ∧
      Forall2 (Measurement.movedBy id)
        (((langReportNamed L p.located.effective).filter
          (fun x => decide (x.1.line ≠ l))).map (·.2)) r' := by
  have hw1 := (wfCore_strip_locate p (1, 0)).trans hw
  have ha1 := (noAdj_strip_locate p (1, 0)).trans ha
  have hc1 := (F.strip_locate p (1, 0)).trans hc
  have hsim := sim_of_movedTo hmove
  have hw2 : p'.located.stripComments.wfCore = true := (wfCore_sim hsim).symm.trans hw1
  have ha2 : p'.located.stripComments.noAdj = true := (noAdj_sim hsim).symm.trans ha1
  have hc2 : F.holds p'.located.stripComments = true := (F.sim hsim).symm.trans hc1
  exact toggle_marker_moved F.brace hw1 (effective_noAdj_of_strip hw1 ha1) (render_pos_sorted p)
    (render_pos_sorted p') (F.discovers hc1 hw1 ha1) (F.discovers hc2 hw2 ha2) hmove hmark hind

/-- **C04 for every fragment, comments that do not move the code** -/
theorem comments_in_place_invisible_fragment {L : Language} (F : Fragment L) {p p' : Prog PTok}
    (hc : F.holds p.bare.stripComments = true) (hw : p.bare.stripComments.wfCore = true)
    (ha : p.bare.stripComments.noAdj = true)
    (hcode : p'.located.stripComments = p.located.stripComments)
    (hmark : ∀ t ∈ p.located.stripComments.nameToks,
      (markedLines p'.located).contains t.line = (markedLines p.located).contains t.line) :
    scanFile L (render p') = scanFile L (render p) := by
  have hw' := (wfCore_strip_locate p (1, 0)).trans hw
  have ha' := (noAdj_strip_locate p (1, 0)).trans ha
  exact comments_in_place_invisible F.brace hw' (effective_noAdj_of_strip hw' ha')
    (render_pos_sorted p) (render_pos_sorted p') (F.discovers_rendered hc hw ha) hcode hmark

/-- **C04 for every fragment** (`comments_blank_lines_invisible` without the discovery hypotheses):
the conditions are stated for `p` only; they carry over to `p'` (same shape, kinds and texts).
Inserting or deleting comments (not markers on a name line), whitespace tokens and blank lines
anywhere leaves the reported functions, their names, order and lengths unchanged and maps the
reported lines by the line shift `φ`. -/
theorem comments_blank_lines_invisible_fragment {L : Language} (F : Fragment L) {p p' : Prog PTok}
    {φ : Nat → Nat} (hc : F.holds p.bare.stripComments = true)
    (hw : p.bare.stripComments.wfCore = true) (ha : p.bare.stripComments.noAdj = true)
    (hmove : p.located.stripComments.movedTo φ p'.located.stripComments = true)
    (hφ : MonoOn φ (p.located.stripComments.flat.map (·.line)))
    (hmark : ∀ t ∈ p.located.stripComments.nameToks,
      (markedLines p'.located).contains (φ t.line) = (markedLines p.located).contains t.line) :
    scanFile L (render p) = .ok (if L.nested = true then markedReport p else markedReportFlat p) ∧
    scanFile L (render p')
      = .ok (if L.nested = true then markedReport p' else markedReportFlat p') ∧
    Forall2 (Measurement.movedBy φ)
      (if L.nested = true then markedReport p else markedReportFlat p)
      (if L.nested = true then markedReport p' else markedReportFlat p') := by
  have hw1 := (wfCore_strip_locate p (1, 0)).trans hw
  have ha1 := (noAdj_strip_locate p (1, 0)).trans ha
  have hc1 := (F.strip_locate p (1, 0)).trans hc
  have hsim := sim_of_movedTo hmove
  have hw2 : p'.located.stripComments.wfCore = true := (wfCore_sim hsim).symm.trans hw1
  have ha2 : p'.located.stripComments.noAdj = true := (noAdj_sim hsim).symm.trans ha1
  have hc2 : F.holds p'.located.stripComments = true := (F.sim hsim).symm.trans hc1
  have hd1 := F.discovers hc1 hw1 ha1
  have hd2 := F.discovers hc2 hw2 ha2
  have h1 := scan_of_marked_tree_partial F.brace hw1 ha1 (render_pos_sorted p) hd1
  have h2 := scan_of_marked_tree_partial F.brace hw2 ha2 (render_pos_sorted p') hd2
  obtain ⟨r, r', e1, e2, hrel⟩ := comments_blank_lines_invisible F.brace hw1
    (effective_noAdj_of_strip hw1 ha1) (render_pos_sorted p) (render_pos_sorted p') hd1 hd2 hmove hφ hmark
  refine ⟨h1, h2, ?_⟩
  have e1' := e1.symm.trans h1
  have e2' := e2.symm.trans h2
  cases e1'
  cases e2'
  exact hrel

/-! ### the instances, language by language -/

/-- C17 "omitted exactly when" on the output, C / C++ / C# -/
theorem reported_functions_canon {L : Language} (hL : L ∈ cFamily) {p : Prog PTok}
    (hc : p.bare.stripComments.Canon = true) (hw : p.bare.stripComments.wfCore = true)
    (ha : p.bare.stripComments.noAdj = true) :
    scanFile L (render p) = .ok ((langReportNamed L p.located.effective).map (·.2)) ∧
    (langReportNamed L p.located.effective).map (·.1) = expectedNames L p.located ∧
    ∀ x ∈ langReportNamed L p.located.effective, x.2.name = x.1.val :=
  reported_functions_fragment (fragC hL) hc hw ha

/-- C17 "omitted exactly when" on the output, Java: exactly the function nodes named on a line
without marker comment are reported -/
theorem reported_functions_canon_java {p : Prog PTok}
    (hc : p.bare.stripComments.CanonJava = true) (hw : p.bare.stripComments.wfCore = true)
    (ha : p.bare.stripComments.noAdj = true) :
    scanFile Gen.java (render p) = .ok ((treeReportNamed p.located.effective).map (·.2)) ∧
    (treeReportNamed p.located.effective).map (·.1)
      = p.located.stripComments.nameToks.filter
          (fun t => !(markedLines p.located).contains t.line) ∧
    ∀ x ∈ treeReportNamed p.located.effective, x.2.name = x.1.val :=
  reported_functions_fragment fragJava hc hw ha

/-- ... JavaScript (no assigned arrow functions) -/
theorem reported_functions_canon_js {p : Prog PTok}
    (hc : p.bare.stripComments.CanonJs = true) (hw : p.bare.stripComments.wfCore = true)
    (ha : p.bare.stripComments.noAdj = true) :
    scanFile Gen.javascript (render p) = .ok ((treeReportNamed p.located.effective).map (·.2)) ∧
    (treeReportNamed p.located.effective).map (·.1)
      = p.located.stripComments.nameToks.filter
          (fun t => !(markedLines p.located).contains t.line) ∧
    ∀ x ∈ treeReportNamed p.located.effective, x.2.name = x.1.val :=
  reported_functions_fragment fragJs hc hw ha

/-- ... TypeScript (no assigned arrow functions) -/
theorem reported_functions_canon_ts {p : Prog PTok}
    (hc : p.bare.stripComments.CanonTs = true) (hw : p.bare.stripComments.wfCore = true)
    (ha : p.bare.stripComments.noAdj = true) :
    scanFile Gen.typescript (render p) = .ok ((treeReportNamed p.located.effective).map (·.2)) ∧
    (treeReportNamed p.located.effective).map (·.1)
      = p.located.stripComments.nameToks.filter
          (fun t => !(markedLines p.located).contains t.line) ∧
    ∀ x ∈ treeReportNamed p.located.effective, x.2.name = x.1.val :=
  reported_functions_fragment fragTs hc hw ha

/-- **C17 toggle, Java** (no hypothesis about the matcher) -/
theorem toggle_marker_canon_java {p p' : Prog PTok} {l : Nat}
    (hc : p.bare.stripComments.CanonJava = true) (hw : p.bare.stripComments.wfCore = true)
    (ha : p.bare.stripComments.noAdj = true)
    (hcode : p'.located.stripComments = p.located.stripComments)
    (hmark : ∀ x, x ∈ markedLines p'.located ↔ x ∈ markedLines p.located ∨ x = l)
    (hind : p.located.effective.notNestedOn l = true) :
    scanFile Gen.java (render p) = .ok ((treeReportNamed p.located.effective).map (·.2)) ∧
    scanFile Gen.java (render p') = .ok (((treeReportNamed p.located.effective).filter
      (fun x => decide (x.1.line ≠ l))).map (·.2)) :=
  toggle_marker_fragment fragJava hc hw ha hcode hmark hind

/-- **C17 toggle, JavaScript** (no assigned arrow functions) -/
theorem toggle_marker_canon_js {p p' : Prog PTok} {l : Nat}
    (hc : p.bare.stripComments.CanonJs = true) (hw : p.bare.stripComments.wfCore = true)
    (ha : p.bare.stripComments.noAdj = true)
    (hcode : p'.located.stripComments = p.located.stripComments)
    (hmark : ∀ x, x ∈ markedLines p'.located ↔ x ∈ markedLines p.located ∨ x = l)
    (hind : p.located.effective.notNestedOn l = true) :
    scanFile Gen.javascript (render p) = .ok ((treeReportNamed p.located.effective).map (·.2)) ∧
    scanFile Gen.javascript (render p') = .ok (((treeReportNamed p.located.effective).filter
      (fun x => decide (x.1.line ≠ l))).map (·.2)) :=
  toggle_marker_fragment fragJs hc hw ha hcode hmark hind

/-- **C17 toggle, TypeScript** (no assigned arrow functions) -/
theorem toggle_marker_canon_ts {p p' : Prog PTok} {l : Nat}
    (hc : p.bare.stripComments.CanonTs = true) (hw : p.bare.stripComments.wfCore = true)
    (ha : p.bare.stripComments.noAdj = true)
    (hcode : p'.located.stripComments = p.located.stripComments)
    (hmark : ∀ x, x ∈ markedLines p'.located ↔ x ∈ markedLines p.located ∨ x = l)
    (hind : p.located.effective.notNestedOn l = true) :
    scanFile Gen.typescript (render p) = .ok ((treeReportNamed p.located.effective).map (·.2)) ∧
    scanFile Gen.typescript (render p') = .ok (((treeReportNamed p.located.effective).filter
      (fun x => decide (x.1.line ≠ l))).map (·.2)) :=
  toggle_marker_fragment fragTs hc hw ha hcode hmark hind

/-- **C04, Java** (no hypothesis about the matcher) -/
theorem comments_blank_lines_invisible_canon_java {p p' : Prog PTok} {φ : Nat → Nat}
    (hc : p.bare.stripComments.CanonJava = true)
    (hw : p.bare.stripComments.wfCore = true) (ha : p.bare.stripComments.noAdj = true)
    (hmove : p.located.stripComments.movedTo φ p'.located.stripComments = true)
    (hφ : MonoOn φ (p.located.stripComments.flat.map (·.line)))
    (hmark : ∀ t ∈ p.located.stripComments.nameToks,
      (markedLines p'.located).contains (φ t.line) = (markedLines p.located).contains t.line) :
    scanFile Gen.java (render p) = .ok (markedReport p) ∧
    scanFile Gen.java (render p') = .ok (markedReport p') ∧
    Forall2 (Measurement.movedBy φ) (markedReport p) (markedReport p') :=
  comments_blank_lines_invisible_fragment fragJava hc hw ha hmove hφ hmark

/-- **C04, JavaScript** (no assigned arrow functions) -/
theorem comments_blank_lines_invisible_canon_js {p p' : Prog PTok} {φ : Nat → Nat}
    (hc : p.bare.stripComments.CanonJs = true)
    (hw : p.bare.stripComments.wfCore = true) (ha : p.bare.stripComments.noAdj = true)
    (hmove : p.located.stripComments.movedTo φ p'.located.stripComments = true)
    (hφ : MonoOn φ (p.located.stripComments.flat.map (·.line)))
    (hmark : ∀ t ∈ p.located.stripComments.nameToks,
      (markedLines p'.located).contains (φ t.line) = (markedLines p.located).contains t.line) :
    scanFile Gen.javascript (render p) = .ok (markedReport p) ∧
    scanFile Gen.javascript (render p') = .ok (markedReport p') ∧
    Forall2 (Measurement.movedBy φ) (markedReport p) (markedReport p') :=
  comments_blank_lines_invisible_fragment fragJs hc hw ha hmove hφ hmark

/-- **C04, TypeScript** (no assigned arrow functions) -/
theorem comments_blank_lines_invisible_canon_ts {p p' : Prog PTok} {φ : Nat → Nat}
    (hc : p.bare.stripComments.CanonTs = true)
    (hw : p.bare.stripComments.wfCore = true) (ha : p.bare.stripComments.noAdj = true)
    (hmove : p.located.stripComments.movedTo φ p'.located.stripComments = true)
    (hφ : MonoOn φ (p.located.stripComments.flat.map (·.line)))
    (hmark : ∀ t ∈ p.located.stripComments.nameToks,
      (markedLines p'.located).contains (φ t.line) = (markedLines p.located).contains t.line) :
    scanFile Gen.typescript (render p) = .ok (markedReport p) ∧
    scanFile Gen.typescript (render p') = .ok (markedReport p') ∧
    Forall2 (Measurement.movedBy φ) (markedReport p) (markedReport p') :=
  comments_blank_lines_invisible_fragment fragTs hc hw ha hmove hφ hmark

/-- what `Forall2 (Measurement.movedBy φ)` says, position by position -/
theorem moved_reports_iff {φ : Nat → Nat} {r r' : List Measurement} :
    Forall2 (Measurement.movedBy φ) r r' ↔ r.length = r'.length ∧
      ∀ (i : Nat) (h : i < r.length) (h' : i < r'.length), r'[i].name = r[i].name ∧
        r'[i].len = r[i].len ∧ r'[i].sl = φ r[i].sl ∧ r'[i].el = φ r[i].el :=
  forall2_iff_getElem

/-! ## non-vacuity -/

namespace Ex
open CL.C01tree.Ex

/-- the file

```
 1  // top comment                              comment before everything
 2  f ( /* in header */ ) /* in gap */ {        comment inside a header, comment in the gap
 3    g ( ) {          // nocl: skip            MARKED, nested in the unmarked `f`
 4      a ;
 5      // only                                 comment-only line inside a body
 6    }
 7    n ( ) { z ; }                             unmarked, nested in `f`
 8    b ;   /* trailing */                      whitespace token and trailing comment
 9  }
10
11  o ( ) {           // NoCl                   MARKED, top level, contains the unmarked `k`
12    k ( ) {
13      c ;
14    }
15    d ;
16  }
17  /* nocl: alone */                           a marker on a line without a name: no effect
18  int v [ ] = { 1 , /* two */ 2 } ;           comment inside a brace group
19  h ( ) { e ; }
```

as a forest of tokens without locations -/
def marksTree : Prog PTok :=
  .toks [pt 5 [47, 47, 32, 116, 111, 112, 32, 99, 111, 109, 109, 101, 110, 116] 0 0] <|
  .fn (.toks [pt 2 [102] 1 0, pt 3 [40] 0 1,
             pt 5 [47, 42, 32, 105, 110, 32, 104, 101, 97, 100, 101, 114, 32, 42, 47] 0 1,
             pt 3 [41] 0 1] <|
      .nil) 0 [pt 5 [47, 42, 32, 105, 110, 32, 103, 97, 112, 32, 42, 47] 0 1]
      (pt 3 [123] 0 1) (pt 3 [125] 1 0)
      (.fn (.toks [pt 2 [103] 1 2, pt 3 [40] 0 1, pt 3 [41] 0 1] <|
          .nil) 0 []
          (pt 3 [123] 0 1) (pt 3 [125] 1 2)
          (.toks [pt 5 [47, 47, 32, 110, 111, 99, 108, 58, 32, 115, 107, 105, 112] 0 10,
                 pt 2 [97] 1 4, pt 3 [59] 0 1, pt 5 [47, 47, 32, 111, 110, 108, 121] 1 4] <|
          .nil) <|
      .fn (.toks [pt 2 [110] 1 2, pt 3 [40] 0 1, pt 3 [41] 0 1] <|
          .nil) 0 []
          (pt 3 [123] 0 1) (pt 3 [125] 0 1)
          (.toks [pt 2 [122] 0 1, pt 3 [59] 0 1] <|
          .nil) <|
      .toks [pt 2 [98] 1 2, pt 3 [59] 0 1, pt 6 [32] 0 0,
             pt 5 [47, 42, 32, 116, 114, 97, 105, 108, 105, 110, 103, 32, 42, 47] 0 3] <|
      .nil) <|
  .fn (.toks [pt 2 [111] 2 0, pt 3 [40] 0 1, pt 3 [41] 0 1] <|
      .nil) 0 []
      (pt 3 [123] 0 1) (pt 3 [125] 1 0)
      (.toks [pt 5 [47, 47, 32, 78, 111, 67, 108] 0 11] <|
      .fn (.toks [pt 2 [107] 1 2, pt 3 [40] 0 1, pt 3 [41] 0 1] <|
          .nil) 0 []
          (pt 3 [123] 0 1) (pt 3 [125] 1 2)
          (.toks [pt 2 [99] 1 4, pt 3 [59] 0 1] <|
          .nil) <|
      .toks [pt 2 [100] 1 2, pt 3 [59] 0 1] <|
      .nil) <|
  .toks [pt 5 [47, 42, 32, 110, 111, 99, 108, 58, 32, 97, 108, 111, 110, 101, 32, 42, 47] 1 0,
         pt 1 [105, 110, 116] 1 0, pt 2 [118] 0 1, pt 3 [91] 0 1, pt 3 [93] 0 1, pt 4 [61] 0 1] <|
  .group (pt 3 [123] 0 1) (pt 3 [125] 0 1)
      (.toks [pt 0 [49] 0 1, pt 3 [44] 0 1, pt 5 [47, 42, 32, 116, 119, 111, 32, 42, 47] 0 1,
             pt 0 [50] 0 1] <|
      .nil) <|
  .toks [pt 3 [59] 0 1] <|
  .fn (.toks [pt 2 [104] 1 0, pt 3 [40] 0 1, pt 3 [41] 0 1] <|
      .nil) 0 []
      (pt 3 [123] 0 1) (pt 3 [125] 0 1)
      (.toks [pt 2 [101] 0 1, pt 3 [59] 0 1] <|
      .nil) <|
  .nil

/-- the conditions of M2 hold for the comment-free forest; the forest itself is not comment-free -/
theorem marks_conditions : marksTree.bare.stripComments.Canon = true ∧
    marksTree.bare.stripComments.wfCore = true ∧ marksTree.bare.stripComments.noAdj = true ∧
    marksTree.bare.allCode = false := by decide +kernel

/-- the marked lines: 3 (`g`), 11 (`o`) and 17 (no name there) -/
theorem marks_lines : markedLines marksTree.located = [3, 11, 17] := by decide +kernel

/-- the name tokens of the six function nodes stand on lines 2, 3, 7, 11, 12, 19 -/
example : marksTree.located.stripComments.nameToks.map (fun t => (t.val, t.line))
    = [([102], 2), ([103], 3), ([110], 7), ([111], 11), ([107], 12), ([104], 19)] := by
  decide +kernel

/-- M2 applies to C++ ... -/
theorem marks_scan_cpp : scanFile Gen.cpp (render marksTree) = .ok (markedReport marksTree) :=
  scan_of_rendered_marked_canon_tree (L := Gen.cpp) (by simp [cFamily]) marks_conditions.1
    marks_conditions.2.1 marks_conditions.2.2.1

/-- ... and to C -/
theorem marks_scan_c : scanFile Gen.c (render marksTree) = .ok (markedReportFlat marksTree) :=
  scan_of_rendered_marked_canon_tree (L := Gen.c) (by simp [cFamily]) marks_conditions.1
    marks_conditions.2.1 marks_conditions.2.2.1

/-- the expected report, C++: `f` has the 6 own lines 2, 3, 4, 6, 8, 9 (the code lines of the
suppressed `g` count for `f`; line 5 is a comment, line 7 belongs to `n`); `k` is reported although
its enclosing function `o` is suppressed -/
theorem marks_report : markedReport marksTree
    = [⟨[102], 2, 1, 9, 2, 6⟩, ⟨[110], 7, 3, 7, 16, 1⟩, ⟨[107], 12, 3, 14, 4, 3⟩,
       ⟨[104], 19, 1, 19, 14, 1⟩] := by decide +kernel

/-- the expected report, C: `f` with all its 7 code lines (`n` is hidden in it); `k` is an outermost
function now -/
theorem marks_reportFlat : markedReportFlat marksTree
    = [⟨[102], 2, 1, 9, 2, 7⟩, ⟨[107], 12, 3, 14, 4, 3⟩, ⟨[104], 19, 1, 19, 14, 1⟩] := by
  decide +kernel

/-- the conclusions agree with the independent kernel evaluation of the model of `scan_file` on the
65 tokens of the rendering -/
theorem marks_scan_cpp_eval : scanFile Gen.cpp (render marksTree)
    = .ok [⟨[102], 2, 1, 9, 2, 6⟩, ⟨[110], 7, 3, 7, 16, 1⟩, ⟨[107], 12, 3, 14, 4, 3⟩,
       ⟨[104], 19, 1, 19, 14, 1⟩] :=
  scanFile_eval (by decide +kernel)

theorem marks_scan_c_eval : scanFile Gen.c (render marksTree)
    = .ok [⟨[102], 2, 1, 9, 2, 7⟩, ⟨[107], 12, 3, 14, 4, 3⟩, ⟨[104], 19, 1, 19, 14, 1⟩] :=
  scanFile_eval (by decide +kernel)

example : (Except.ok (markedReport marksTree) : Except Err _)
    = .ok [⟨[102], 2, 1, 9, 2, 6⟩, ⟨[110], 7, 3, 7, 16, 1⟩, ⟨[107], 12, 3, 14, 4, 3⟩,
       ⟨[104], 19, 1, 19, 14, 1⟩] := by
  rw [← marks_scan_cpp, marks_scan_cpp_eval]

example : (Except.ok (markedReportFlat marksTree) : Except Err _)
    = .ok [⟨[102], 2, 1, 9, 2, 7⟩, ⟨[107], 12, 3, 14, 4, 3⟩, ⟨[104], 19, 1, 19, 14, 1⟩] := by
  rw [← marks_scan_c, marks_scan_c_eval]

/-! ### C04: the same code with other comments and blank lines

```
 1  // top comment
 2  // second                                   a new comment-only line
 3  f ( ) /* in gap */ {                        the comment in the header is gone
 4    g ( ) { /* NOCL */                        another marker text, same name line
 5
 6                                              two blank lines; the comment-only line is gone
 7      a ;
 8    }
 9    n ( ) { z ; }
10
11    b ;   /* trailing */
12  }
13  o ( ) {           // NoCl                   the blank line before `o` is gone
 …
19  /* nocl: alone */
20  int v [ ] = { 1 , 2 } ;
21  h ( ) { e ; }
```
-/
def movedTree : Prog PTok :=
  .toks [pt 5 [47, 47, 32, 116, 111, 112, 32, 99, 111, 109, 109, 101, 110, 116] 0 0,
         pt 5 [47, 47, 32, 115, 101, 99, 111, 110, 100] 1 0] <|
  .fn (.toks [pt 2 [102] 1 0, pt 3 [40] 0 1, pt 3 [41] 0 1] <|
      .nil) 0 [pt 5 [47, 42, 32, 105, 110, 32, 103, 97, 112, 32, 42, 47] 0 1]
      (pt 3 [123] 0 1) (pt 3 [125] 1 0)
      (.fn (.toks [pt 2 [103] 1 2, pt 3 [40] 0 1, pt 3 [41] 0 1] <|
          .nil) 0 []
          (pt 3 [123] 0 1) (pt 3 [125] 1 2)
          (.toks [pt 5 [47, 42, 32, 78, 79, 67, 76, 32, 42, 47] 0 1, pt 2 [97] 3 4, pt 3 [59] 0 1] <|
          .nil) <|
      .fn (.toks [pt 2 [110] 1 2, pt 3 [40] 0 1, pt 3 [41] 0 1] <|
          .nil) 0 []
          (pt 3 [123] 0 1) (pt 3 [125] 0 1)
          (.toks [pt 2 [122] 0 1, pt 3 [59] 0 1] <|
          .nil) <|
      .toks [pt 2 [98] 2 2, pt 3 [59] 0 1, pt 6 [32] 0 0,
             pt 5 [47, 42, 32, 116, 114, 97, 105, 108, 105, 110, 103, 32, 42, 47] 0 3] <|
      .nil) <|
  .fn (.toks [pt 2 [111] 1 0, pt 3 [40] 0 1, pt 3 [41] 0 1] <|
      .nil) 0 []
      (pt 3 [123] 0 1) (pt 3 [125] 1 0)
      (.toks [pt 5 [47, 47, 32, 78, 111, 67, 108] 0 11] <|
      .fn (.toks [pt 2 [107] 1 2, pt 3 [40] 0 1, pt 3 [41] 0 1] <|
          .nil) 0 []
          (pt 3 [123] 0 1) (pt 3 [125] 1 2)
          (.toks [pt 2 [99] 1 4, pt 3 [59] 0 1] <|
          .nil) <|
      .toks [pt 2 [100] 1 2, pt 3 [59] 0 1] <|
      .nil) <|
  .toks [pt 5 [47, 42, 32, 110, 111, 99, 108, 58, 32, 97, 108, 111, 110, 101, 32, 42, 47] 1 0,
         pt 1 [105, 110, 116] 1 0, pt 2 [118] 0 1, pt 3 [91] 0 1, pt 3 [93] 0 1, pt 4 [61] 0 1] <|
  .group (pt 3 [123] 0 1) (pt 3 [125] 0 1)
      (.toks [pt 0 [49] 0 1, pt 3 [44] 0 1, pt 0 [50] 0 1] <|
      .nil) <|
  .toks [pt 3 [59] 0 1] <|
  .fn (.toks [pt 2 [104] 1 0, pt 3 [40] 0 1, pt 3 [41] 0 1] <|
      .nil) 0 []
      (pt 3 [123] 0 1) (pt 3 [125] 0 1)
      (.toks [pt 2 [101] 0 1, pt 3 [59] 0 1] <|
      .nil) <|
  .nil

/-- old line -> new line on the lines that carry code (2 -> 3, 3 -> 4, 4 -> 7, 6 -> 8, 7 -> 9,
8 -> 11, 9 -> 12, 11 -> 13, …, 19 -> 21); not monotone at the old comment-only line 5 -/
def shift (l : Nat) : Nat :=
  if l ≤ 3 then l + 1 else if l = 4 then 7 else if l ≤ 7 then l + 2 else if l ≤ 9 then l + 3
  else l + 2

/-- the hypotheses of `comments_blank_lines_invisible_canon` -/
theorem moved_hyps :
    marksTree.located.stripComments.movedTo shift movedTree.located.stripComments = true ∧
    MonoOn shift (marksTree.located.stripComments.flat.map (·.line)) ∧
    (∀ t ∈ marksTree.located.stripComments.nameToks,
      (markedLines movedTree.located).contains (shift t.line)
        = (markedLines marksTree.located).contains t.line) ∧
    markedLines movedTree.located = [4, 13, 19] := by decide +kernel

/-- `shift` is not strictly increasing on all lines (a comment-only line disappeared) -/
example : shift 4 = shift 5 := by decide

/-- M4 applies (C++): both reports, and their correspondence -/
theorem moved_scan :
    scanFile Gen.cpp (render movedTree) = .ok (markedReport movedTree) ∧
    Forall2 (Measurement.movedBy shift) (markedReport marksTree) (markedReport movedTree) := by
  have := comments_blank_lines_invisible_canon (L := Gen.cpp) (by simp [cFamily])
    marks_conditions.1 marks_conditions.2.1 marks_conditions.2.2.1 moved_hyps.1 moved_hyps.2.1
    moved_hyps.2.2.1
  exact ⟨this.2.1, this.2.2⟩

/-- the report of the moved file, evaluated: same names and lengths, lines shifted -/
theorem moved_scan_eval : scanFile Gen.cpp (render movedTree)
    = .ok [⟨[102], 3, 1, 12, 2, 6⟩, ⟨[110], 9, 3, 9, 16, 1⟩, ⟨[107], 14, 3, 16, 4, 3⟩,
       ⟨[104], 21, 1, 21, 14, 1⟩] :=
  scanFile_eval (by decide +kernel)

/-! ### C17: a marker on the independent function `h` (a trailing comment `// nocl` on line 19) -/
def toggledTree : Prog PTok :=
  .toks [pt 5 [47, 47, 32, 116, 111, 112, 32, 99, 111, 109, 109, 101, 110, 116] 0 0] <|
  .fn (.toks [pt 2 [102] 1 0, pt 3 [40] 0 1,
             pt 5 [47, 42, 32, 105, 110, 32, 104, 101, 97, 100, 101, 114, 32, 42, 47] 0 1,
             pt 3 [41] 0 1] <|
      .nil) 0 [pt 5 [47, 42, 32, 105, 110, 32, 103, 97, 112, 32, 42, 47] 0 1]
      (pt 3 [123] 0 1) (pt 3 [125] 1 0)
      (.fn (.toks [pt 2 [103] 1 2, pt 3 [40] 0 1, pt 3 [41] 0 1] <|
          .nil) 0 []
          (pt 3 [123] 0 1) (pt 3 [125] 1 2)
          (.toks [pt 5 [47, 47, 32, 110, 111, 99, 108, 58, 32, 115, 107, 105, 112] 0 10,
                 pt 2 [97] 1 4, pt 3 [59] 0 1, pt 5 [47, 47, 32, 111, 110, 108, 121] 1 4] <|
          .nil) <|
      .fn (.toks [pt 2 [110] 1 2, pt 3 [40] 0 1, pt 3 [41] 0 1] <|
          .nil) 0 []
          (pt 3 [123] 0 1) (pt 3 [125] 0 1)
          (.toks [pt 2 [122] 0 1, pt 3 [59] 0 1] <|
          .nil) <|
      .toks [pt 2 [98] 1 2, pt 3 [59] 0 1, pt 6 [32] 0 0,
             pt 5 [47, 42, 32, 116, 114, 97, 105, 108, 105, 110, 103, 32, 42, 47] 0 3] <|
      .nil) <|
  .fn (.toks [pt 2 [111] 2 0, pt 3 [40] 0 1, pt 3 [41] 0 1] <|
      .nil) 0 []
      (pt 3 [123] 0 1) (pt 3 [125] 1 0)
      (.toks [pt 5 [47, 47, 32, 78, 111, 67, 108] 0 11] <|
      .fn (.toks [pt 2 [107] 1 2, pt 3 [40] 0 1, pt 3 [41] 0 1] <|
          .nil) 0 []
          (pt 3 [123] 0 1) (pt 3 [125] 1 2)
          (.toks [pt 2 [99] 1 4, pt 3 [59] 0 1] <|
          .nil) <|
      .toks [pt 2 [100] 1 2, pt 3 [59] 0 1] <|
      .nil) <|
  .toks [pt 5 [47, 42, 32, 110, 111, 99, 108, 58, 32, 97, 108, 111, 110, 101, 32, 42, 47] 1 0,
         pt 1 [105, 110, 116] 1 0, pt 2 [118] 0 1, pt 3 [91] 0 1, pt 3 [93] 0 1, pt 4 [61] 0 1] <|
  .group (pt 3 [123] 0 1) (pt 3 [125] 0 1)
      (.toks [pt 0 [49] 0 1, pt 3 [44] 0 1, pt 5 [47, 42, 32, 116, 119, 111, 32, 42, 47] 0 1,
             pt 0 [50] 0 1] <|
      .nil) <|
  .toks [pt 3 [59] 0 1] <|
  .fn (.toks [pt 2 [104] 1 0, pt 3 [40] 0 1, pt 3 [41] 0 1] <|
      .nil) 0 []
      (pt 3 [123] 0 1) (pt 3 [125] 0 1)
      (.toks [pt 2 [101] 0 1, pt 3 [59] 0 1] <|
      .nil) <|
  .toks [pt 5 [47, 47, 32, 110, 111, 99, 108] 0 2] <|
  .nil

/-- the hypotheses of `toggle_marker_canon` for line 19: same comment-free located forest,
one more marked line, `h` is independent; `g` (line 3), `o` (line 11) are not -/
theorem toggled_hyps :
    toggledTree.located.stripComments.sameUpTo (fun a b => a == b)
      marksTree.located.stripComments = true ∧
    markedLines toggledTree.located = [3, 11, 17, 19] ∧
    marksTree.located.effective.indepOn 19 = true := by decide +kernel

/-- marking `h`: exactly its entry disappears (C++ and C) -/
theorem toggled_scan :
    scanFile Gen.cpp (render toggledTree)
      = .ok [⟨[102], 2, 1, 9, 2, 6⟩, ⟨[110], 7, 3, 7, 16, 1⟩, ⟨[107], 12, 3, 14, 4, 3⟩] ∧
    scanFile Gen.c (render toggledTree)
      = .ok [⟨[102], 2, 1, 9, 2, 7⟩, ⟨[107], 12, 3, 14, 4, 3⟩] := by
  have hcode : toggledTree.located.stripComments = marksTree.located.stripComments :=
    eq_of_sameUpTo_beq toggled_hyps.1
  have hmark : ∀ x, x ∈ markedLines toggledTree.located ↔
      x ∈ markedLines marksTree.located ∨ x = 19 := by
    intro x
    rw [toggled_hyps.2.1, marks_lines]
    simp only [List.mem_cons, List.not_mem_nil, or_false]
    omega
  have h1 := (toggle_marker_canon (L := Gen.cpp) (by simp [cFamily]) marks_conditions.1
    marks_conditions.2.1 marks_conditions.2.2.1 hcode hmark
    (toggleOK_of_independent _ toggled_hyps.2.2)).2
  have h2 := (toggle_marker_canon (L := Gen.c) (by simp [cFamily]) marks_conditions.1
    marks_conditions.2.1 marks_conditions.2.2.1 hcode hmark
    (toggleOK_of_independent _ toggled_hyps.2.2)).2
  refine ⟨h1.trans ?_, h2.trans ?_⟩ <;> decide +kernel

/-! ### the general case: the marker of a NESTED function, of an ENCLOSING function

`gUnmarked` = `marksTree` with an ordinary comment on line 3 (`g` is reported); `oUnmarked` =
`marksTree` with an ordinary comment on line 11 (`o` is reported).  Same code tokens at the same
locations. -/
def gUnmarked : Prog PTok :=
  .toks [pt 5 [47, 47, 32, 116, 111, 112, 32, 99, 111, 109, 109, 101, 110, 116] 0 0] <|
  .fn (.toks [pt 2 [102] 1 0, pt 3 [40] 0 1,
             pt 5 [47, 42, 32, 105, 110, 32, 104, 101, 97, 100, 101, 114, 32, 42, 47] 0 1,
             pt 3 [41] 0 1] <|
      .nil) 0 [pt 5 [47, 42, 32, 105, 110, 32, 103, 97, 112, 32, 42, 47] 0 1]
      (pt 3 [123] 0 1) (pt 3 [125] 1 0)
      (.fn (.toks [pt 2 [103] 1 2, pt 3 [40] 0 1, pt 3 [41] 0 1] <|
          .nil) 0 []
          (pt 3 [123] 0 1) (pt 3 [125] 1 2)
          (.toks [pt 5 [47, 47, 32, 115, 107, 105, 112, 32, 110, 111, 99, 108] 0 10,
                 pt 2 [97] 1 4, pt 3 [59] 0 1, pt 5 [47, 47, 32, 111, 110, 108, 121] 1 4] <|
          .nil) <|
      .fn (.toks [pt 2 [110] 1 2, pt 3 [40] 0 1, pt 3 [41] 0 1] <|
          .nil) 0 []
          (pt 3 [123] 0 1) (pt 3 [125] 0 1)
          (.toks [pt 2 [122] 0 1, pt 3 [59] 0 1] <|
          .nil) <|
      .toks [pt 2 [98] 1 2, pt 3 [59] 0 1, pt 6 [32] 0 0,
             pt 5 [47, 42, 32, 116, 114, 97, 105, 108, 105, 110, 103, 32, 42, 47] 0 3] <|
      .nil) <|
  .fn (.toks [pt 2 [111] 2 0, pt 3 [40] 0 1, pt 3 [41] 0 1] <|
      .nil) 0 []
      (pt 3 [123] 0 1) (pt 3 [125] 1 0)
      (.toks [pt 5 [47, 47, 32, 78, 111, 67, 108] 0 11] <|
      .fn (.toks [pt 2 [107] 1 2, pt 3 [40] 0 1, pt 3 [41] 0 1] <|
          .nil) 0 []
          (pt 3 [123] 0 1) (pt 3 [125] 1 2)
          (.toks [pt 2 [99] 1 4, pt 3 [59] 0 1] <|
          .nil) <|
      .toks [pt 2 [100] 1 2, pt 3 [59] 0 1] <|
      .nil) <|
  .toks [pt 5 [47, 42, 32, 110, 111, 99, 108, 58, 32, 97, 108, 111, 110, 101, 32, 42, 47] 1 0,
         pt 1 [105, 110, 116] 1 0, pt 2 [118] 0 1, pt 3 [91] 0 1, pt 3 [93] 0 1, pt 4 [61] 0 1] <|
  .group (pt 3 [123] 0 1) (pt 3 [125] 0 1)
      (.toks [pt 0 [49] 0 1, pt 3 [44] 0 1, pt 5 [47, 42, 32, 116, 119, 111, 32, 42, 47] 0 1,
             pt 0 [50] 0 1] <|
      .nil) <|
  .toks [pt 3 [59] 0 1] <|
  .fn (.toks [pt 2 [104] 1 0, pt 3 [40] 0 1, pt 3 [41] 0 1] <|
      .nil) 0 []
      (pt 3 [123] 0 1) (pt 3 [125] 0 1)
      (.toks [pt 2 [101] 0 1, pt 3 [59] 0 1] <|
      .nil) <|
  .nil

def oUnmarked : Prog PTok :=
  .toks [pt 5 [47, 47, 32, 116, 111, 112, 32, 99, 111, 109, 109, 101, 110, 116] 0 0] <|
  .fn (.toks [pt 2 [102] 1 0, pt 3 [40] 0 1,
             pt 5 [47, 42, 32, 105, 110, 32, 104, 101, 97, 100, 101, 114, 32, 42, 47] 0 1,
             pt 3 [41] 0 1] <|
      .nil) 0 [pt 5 [47, 42, 32, 105, 110, 32, 103, 97, 112, 32, 42, 47] 0 1]
      (pt 3 [123] 0 1) (pt 3 [125] 1 0)
      (.fn (.toks [pt 2 [103] 1 2, pt 3 [40] 0 1, pt 3 [41] 0 1] <|
          .nil) 0 []
          (pt 3 [123] 0 1) (pt 3 [125] 1 2)
          (.toks [pt 5 [47, 47, 32, 110, 111, 99, 108, 58, 32, 115, 107, 105, 112] 0 10,
                 pt 2 [97] 1 4, pt 3 [59] 0 1, pt 5 [47, 47, 32, 111, 110, 108, 121] 1 4] <|
          .nil) <|
      .fn (.toks [pt 2 [110] 1 2, pt 3 [40] 0 1, pt 3 [41] 0 1] <|
          .nil) 0 []
          (pt 3 [123] 0 1) (pt 3 [125] 0 1)
          (.toks [pt 2 [122] 0 1, pt 3 [59] 0 1] <|
          .nil) <|
      .toks [pt 2 [98] 1 2, pt 3 [59] 0 1, pt 6 [32] 0 0,
             pt 5 [47, 42, 32, 116, 114, 97, 105, 108, 105, 110, 103, 32, 42, 47] 0 3] <|
      .nil) <|
  .fn (.toks [pt 2 [111] 2 0, pt 3 [40] 0 1, pt 3 [41] 0 1] <|
      .nil) 0 []
      (pt 3 [123] 0 1) (pt 3 [125] 1 0)
      (.toks [pt 5 [47, 47, 32, 120] 0 11] <|
      .fn (.toks [pt 2 [107] 1 2, pt 3 [40] 0 1, pt 3 [41] 0 1] <|
          .nil) 0 []
          (pt 3 [123] 0 1) (pt 3 [125] 1 2)
          (.toks [pt 2 [99] 1 4, pt 3 [59] 0 1] <|
          .nil) <|
      .toks [pt 2 [100] 1 2, pt 3 [59] 0 1] <|
      .nil) <|
  .toks [pt 5 [47, 42, 32, 110, 111, 99, 108, 58, 32, 97, 108, 111, 110, 101, 32, 42, 47] 1 0,
         pt 1 [105, 110, 116] 1 0, pt 2 [118] 0 1, pt 3 [91] 0 1, pt 3 [93] 0 1, pt 4 [61] 0 1] <|
  .group (pt 3 [123] 0 1) (pt 3 [125] 0 1)
      (.toks [pt 0 [49] 0 1, pt 3 [44] 0 1, pt 5 [47, 42, 32, 116, 119, 111, 32, 42, 47] 0 1,
             pt 0 [50] 0 1] <|
      .nil) <|
  .toks [pt 3 [59] 0 1] <|
  .fn (.toks [pt 2 [104] 1 0, pt 3 [40] 0 1, pt 3 [41] 0 1] <|
      .nil) 0 []
      (pt 3 [123] 0 1) (pt 3 [125] 0 1)
      (.toks [pt 2 [101] 0 1, pt 3 [59] 0 1] <|
      .nil) <|
  .nil

theorem variants_hyps :
    gUnmarked.located.stripComments.sameUpTo (fun a b => a == b)
      marksTree.located.stripComments = true ∧
    oUnmarked.located.stripComments.sameUpTo (fun a b => a == b)
      marksTree.located.stripComments = true ∧
    markedLines gUnmarked.located = [11, 17] ∧ markedLines oUnmarked.located = [3, 17] ∧
    gUnmarked.bare.stripComments.Canon = true ∧ gUnmarked.bare.stripComments.wfCore = true ∧
    gUnmarked.bare.stripComments.noAdj = true ∧
    oUnmarked.bare.stripComments.Canon = true ∧ oUnmarked.bare.stripComments.wfCore = true ∧
    oUnmarked.bare.stripComments.noAdj = true := by decide +kernel

/-- **Marking a NESTED function, C++**: `g` (line 3) is nested in `f`, so the condition of
`toggle_marker` fails for C++; the entry of `g` disappears AND the entry of `f` changes: its length
grows from 3 to 6 by the own lines of `g` (lines 3, 4, 6), as `markedReport` says.  For C the
condition holds (`g` is not outermost) and the report does not change at all. -/
theorem nested_marker_changes_parent :
    toggleOK Gen.cpp 3 gUnmarked.located.effective = false ∧
    toggleOK Gen.c 3 gUnmarked.located.effective = true ∧
    scanFile Gen.cpp (render gUnmarked)
      = .ok [⟨[102], 2, 1, 9, 2, 3⟩, ⟨[103], 3, 3, 6, 4, 3⟩, ⟨[110], 7, 3, 7, 16, 1⟩,
             ⟨[107], 12, 3, 14, 4, 3⟩, ⟨[104], 19, 1, 19, 14, 1⟩] ∧
    scanFile Gen.cpp (render marksTree)
      = .ok [⟨[102], 2, 1, 9, 2, 6⟩, ⟨[110], 7, 3, 7, 16, 1⟩, ⟨[107], 12, 3, 14, 4, 3⟩,
             ⟨[104], 19, 1, 19, 14, 1⟩] ∧
    scanFile Gen.c (render gUnmarked) = scanFile Gen.c (render marksTree) := by
  have h1 := scan_of_rendered_marked_canon_tree (L := Gen.cpp) (p := gUnmarked) (by simp [cFamily])
    variants_hyps.2.2.2.2.1 variants_hyps.2.2.2.2.2.1 variants_hyps.2.2.2.2.2.2.1
  have h2 := scan_of_rendered_marked_canon_tree (L := Gen.c) (p := gUnmarked) (by simp [cFamily])
    variants_hyps.2.2.2.2.1 variants_hyps.2.2.2.2.2.1 variants_hyps.2.2.2.2.2.2.1
  refine ⟨by decide +kernel, by decide +kernel, h1.trans ?_, marks_scan_cpp.trans ?_,
    h2.trans (marks_scan_c.trans ?_).symm⟩ <;> decide +kernel

/-- the C half of the previous example through `toggle_marker_canon`: the report for the file with
the marker is the report for the file without it minus the entries named on line 3 - there are none -/
example : scanFile Gen.c (render marksTree)
    = .ok (((langReportNamed Gen.c gUnmarked.located.effective).filter
        (fun x => decide (x.1.line ≠ 3))).map (·.2)) := by
  have hcode : marksTree.located.stripComments = gUnmarked.located.stripComments :=
    (eq_of_sameUpTo_beq variants_hyps.1).symm
  have hmark : ∀ x, x ∈ markedLines marksTree.located ↔
      x ∈ markedLines gUnmarked.located ∨ x = 3 := by
    intro x
    rw [marks_lines, variants_hyps.2.2.1]
    simp only [List.mem_cons, List.not_mem_nil, or_false]
    omega
  exact (toggle_marker_canon (L := Gen.c) (by simp [cFamily]) variants_hyps.2.2.2.2.1
    variants_hyps.2.2.2.2.2.1 variants_hyps.2.2.2.2.2.2.1 hcode hmark (by decide +kernel)).2

/-- **Marking an ENCLOSING function**: `o` (line 11) encloses `k`.  C++: the condition of
`toggle_marker` holds (`o` is not nested), exactly the entry of `o` disappears, `k` keeps its entry.
C: the condition fails, the entry of `o` disappears and the hidden `k` APPEARS
(`C17.reported_flat_full_fails`) - as `markedReportFlat` says. -/
theorem enclosing_marker_reveals_nested :
    toggleOK Gen.cpp 11 oUnmarked.located.effective = true ∧
    toggleOK Gen.c 11 oUnmarked.located.effective = false ∧
    scanFile Gen.cpp (render oUnmarked)
      = .ok [⟨[102], 2, 1, 9, 2, 6⟩, ⟨[110], 7, 3, 7, 16, 1⟩, ⟨[111], 11, 1, 16, 2, 3⟩,
             ⟨[107], 12, 3, 14, 4, 3⟩, ⟨[104], 19, 1, 19, 14, 1⟩] ∧
    scanFile Gen.c (render oUnmarked)
      = .ok [⟨[102], 2, 1, 9, 2, 7⟩, ⟨[111], 11, 1, 16, 2, 6⟩, ⟨[104], 19, 1, 19, 14, 1⟩] ∧
    scanFile Gen.c (render marksTree)
      = .ok [⟨[102], 2, 1, 9, 2, 7⟩, ⟨[107], 12, 3, 14, 4, 3⟩, ⟨[104], 19, 1, 19, 14, 1⟩] := by
  have h1 := scan_of_rendered_marked_canon_tree (L := Gen.cpp) (p := oUnmarked) (by simp [cFamily])
    variants_hyps.2.2.2.2.2.2.2.1 variants_hyps.2.2.2.2.2.2.2.2.1 variants_hyps.2.2.2.2.2.2.2.2.2
  have h2 := scan_of_rendered_marked_canon_tree (L := Gen.c) (p := oUnmarked) (by simp [cFamily])
    variants_hyps.2.2.2.2.2.2.2.1 variants_hyps.2.2.2.2.2.2.2.2.1 variants_hyps.2.2.2.2.2.2.2.2.2
  refine ⟨by decide +kernel, by decide +kernel, h1.trans ?_, h2.trans ?_, marks_scan_c.trans ?_⟩
    <;> decide +kernel

/-- the evaluated model agrees on the variants, too -/
example : scanFile Gen.cpp (render gUnmarked)
    = .ok [⟨[102], 2, 1, 9, 2, 3⟩, ⟨[103], 3, 3, 6, 4, 3⟩, ⟨[110], 7, 3, 7, 16, 1⟩,
           ⟨[107], 12, 3, 14, 4, 3⟩, ⟨[104], 19, 1, 19, 14, 1⟩] :=
  scanFile_eval (by decide +kernel)

example : scanFile Gen.c (render oUnmarked)
    = .ok [⟨[102], 2, 1, 9, 2, 7⟩, ⟨[111], 11, 1, 16, 2, 6⟩, ⟨[104], 19, 1, 19, 14, 1⟩] :=
  scanFile_eval (by decide +kernel)

example : scanFile Gen.cpp (render toggledTree)
    = .ok [⟨[102], 2, 1, 9, 2, 6⟩, ⟨[110], 7, 3, 7, 16, 1⟩, ⟨[107], 12, 3, 14, 4, 3⟩] :=
  scanFile_eval (by decide +kernel)

/-! ### JavaScript / TypeScript and Java

```
1  class A {
2    m ( ) /* c1 */ { x ; }   // nocl          a marked method; comment in the gap
3  }
4  function /* c2 */ f ( a ) {                 comment IN FRONT of the name: name index 2 -> 1
5    function g ( ) { z ; }   /* NOCL */       a marked nested function
6    y ;
7  }
```
-/
def jsMarks : Prog PTok :=
  .toks [pt 1 [99, 108, 97, 115, 115] 0 0, pt 2 [65] 0 5] <|
  .group (pt 3 [123] 0 1) (pt 3 [125] 1 0)
      (.fn (.toks [pt 2 [109] 1 2, pt 3 [40] 0 1, pt 3 [41] 0 1] <|
          .nil) 0 [pt 5 [47, 42, 32, 99, 49, 32, 42, 47] 0 1]
          (pt 3 [123] 0 1) (pt 3 [125] 0 1)
          (.toks [pt 2 [120] 0 1, pt 3 [59] 0 1] <|
          .nil) <|
      .toks [pt 5 [47, 47, 32, 110, 111, 99, 108] 0 3] <|
      .nil) <|
  .fn (.toks [pt 1 [102, 117, 110, 99, 116, 105, 111, 110] 1 0,
             pt 5 [47, 42, 32, 99, 50, 32, 42, 47] 0 1, pt 2 [102] 0 1, pt 3 [40] 0 1,
             pt 2 [97] 0 1, pt 3 [41] 0 1] <|
      .nil) 2 []
      (pt 3 [123] 0 1) (pt 3 [125] 1 0)
      (.fn (.toks [pt 1 [102, 117, 110, 99, 116, 105, 111, 110] 1 2, pt 2 [103] 0 1, pt 3 [40] 0 1,
                 pt 3 [41] 0 1] <|
          .nil) 1 []
          (pt 3 [123] 0 1) (pt 3 [125] 0 1)
          (.toks [pt 2 [122] 0 1, pt 3 [59] 0 1] <|
          .nil) <|
      .toks [pt 5 [47, 42, 32, 78, 79, 67, 76, 32, 42, 47] 0 3, pt 2 [121] 1 2, pt 3 [59] 0 1] <|
      .nil) <|
  .nil

theorem js_conditions : jsMarks.bare.stripComments.CanonJs = true ∧
    jsMarks.bare.stripComments.CanonTs = true ∧
    jsMarks.bare.stripComments.wfCore = true ∧ jsMarks.bare.stripComments.noAdj = true := by
  decide +kernel

/-- the name index of `f` is 2 in the forest (`function`, the comment, `f`) and 1 in the
comment-free forest; both point to the same token -/
example : jsMarks.located.stripComments.nameToks.map (fun t => (t.val, t.line))
    = [([109], 2), ([102], 4), ([103], 5)] := by decide +kernel

/-- M2 for JavaScript and TypeScript: only `f` is reported, with all 4 lines -/
theorem js_scan : scanFile Gen.javascript (render jsMarks) = .ok [⟨[102], 4, 1, 7, 2, 4⟩] ∧
    scanFile Gen.typescript (render jsMarks) = .ok [⟨[102], 4, 1, 7, 2, 4⟩] := by
  refine ⟨(scan_js_of_rendered_marked_canon_tree js_conditions.1 js_conditions.2.2.1
    js_conditions.2.2.2).trans ?_, (scan_ts_of_rendered_marked_canon_tree js_conditions.2.1
    js_conditions.2.2.1 js_conditions.2.2.2).trans ?_⟩ <;> decide +kernel

example : scanFile Gen.javascript (render jsMarks) = .ok [⟨[102], 4, 1, 7, 2, 4⟩] :=
  scanFile_eval (by decide +kernel)

/-!
```
1  class A {
2    m ( ) throws /* c */ E {                  comment inside the `throws` clause (the gap)
3      x ;
4    }
5    k ( ) { u ; }   // nocl                   a marked method
6  }
```
-/
def javaMarks : Prog PTok :=
  .toks [pt 1 [99, 108, 97, 115, 115] 0 0, pt 2 [65] 0 5] <|
  .group (pt 3 [123] 0 1) (pt 3 [125] 1 0)
      (.fn (.toks [pt 2 [109] 1 2, pt 3 [40] 0 1, pt 3 [41] 0 1] <|
          .nil) 0 [pt 1 [116, 104, 114, 111, 119, 115] 0 1, pt 5 [47, 42, 32, 99, 32, 42, 47] 0 1, pt 2 [69] 0 1]
          (pt 3 [123] 0 1) (pt 3 [125] 1 2)
          (.toks [pt 2 [120] 1 4, pt 3 [59] 0 1] <|
          .nil) <|
      .fn (.toks [pt 2 [107] 1 2, pt 3 [40] 0 1, pt 3 [41] 0 1] <|
          .nil) 0 []
          (pt 3 [123] 0 1) (pt 3 [125] 0 1)
          (.toks [pt 2 [117] 0 1, pt 3 [59] 0 1] <|
          .nil) <|
      .toks [pt 5 [47, 47, 32, 110, 111, 99, 108] 0 3] <|
      .nil) <|
  .nil

theorem java_conditions : javaMarks.bare.stripComments.CanonJava = true ∧
    javaMarks.bare.stripComments.wfCore = true ∧ javaMarks.bare.stripComments.noAdj = true := by
  decide +kernel

/-- M2 for Java -/
theorem java_scan : scanFile Gen.java (render javaMarks) = .ok [⟨[109], 2, 3, 4, 4, 3⟩] :=
  (scan_java_of_rendered_marked_canon_tree java_conditions.1 java_conditions.2.1
    java_conditions.2.2).trans (by decide +kernel)

example : scanFile Gen.java (render javaMarks) = .ok [⟨[109], 2, 3, 4, 4, 3⟩] :=
  scanFile_eval (by decide +kernel)

/-! ### M5 on the examples: output-level C17, toggle and C04 for Java without matcher hypothesis -/

/-- `reported_functions_canon` on `marksTree`: C++ reports the function nodes named on the unmarked
lines 2, 7, 12, 19 (`g` on line 3 and `o` on line 11 are omitted); C reports `f`, `k`, `h`: `n` is
hidden inside the unmarked `f`, `k` is revealed because the enclosing `o` is marked -/
theorem marks_reported_names :
    (expectedNames Gen.cpp marksTree.located).map (fun t => (t.val, t.line))
      = [([102], 2), ([110], 7), ([107], 12), ([104], 19)] ∧
    (expectedNames Gen.c marksTree.located).map (fun t => (t.val, t.line))
      = [([102], 2), ([107], 12), ([104], 19)] := by decide +kernel

example : scanFile Gen.cpp (render marksTree)
      = .ok ((langReportNamed Gen.cpp marksTree.located.effective).map (·.2)) ∧
    (langReportNamed Gen.cpp marksTree.located.effective).map (·.1)
      = expectedNames Gen.cpp marksTree.located ∧
    ∀ x ∈ langReportNamed Gen.cpp marksTree.located.effective, x.2.name = x.1.val :=
  reported_functions_canon (L := Gen.cpp) (by simp [cFamily]) marks_conditions.1
    marks_conditions.2.1 marks_conditions.2.2.1

/-- `javaMarks` with an ordinary comment instead of the marker on line 5 -/
def javaUnmarked : Prog PTok :=
  .toks [pt 1 [99, 108, 97, 115, 115] 0 0, pt 2 [65] 0 5] <|
  .group (pt 3 [123] 0 1) (pt 3 [125] 1 0)
      (.fn (.toks [pt 2 [109] 1 2, pt 3 [40] 0 1, pt 3 [41] 0 1] <|
          .nil) 0 [pt 1 [116, 104, 114, 111, 119, 115] 0 1, pt 5 [47, 42, 32, 99, 32, 42, 47] 0 1, pt 2 [69] 0 1]
          (pt 3 [123] 0 1) (pt 3 [125] 1 2)
          (.toks [pt 2 [120] 1 4, pt 3 [59] 0 1] <|
          .nil) <|
      .fn (.toks [pt 2 [107] 1 2, pt 3 [40] 0 1, pt 3 [41] 0 1] <|
          .nil) 0 []
          (pt 3 [123] 0 1) (pt 3 [125] 0 1)
          (.toks [pt 2 [117] 0 1, pt 3 [59] 0 1] <|
          .nil) <|
      .toks [pt 5 [47, 47, 32, 120, 120, 120, 120] 0 3] <|
      .nil) <|
  .nil

/-- the hypotheses of `toggle_marker_canon_java` for line 5 -/
theorem javaUnmarked_hyps :
    javaUnmarked.bare.stripComments.CanonJava = true ∧
    javaUnmarked.bare.stripComments.wfCore = true ∧ javaUnmarked.bare.stripComments.noAdj = true ∧
    javaMarks.located.stripComments.sameUpTo (fun a b => a == b)
      javaUnmarked.located.stripComments = true ∧
    markedLines javaUnmarked.located = [] ∧ markedLines javaMarks.located = [5] ∧
    javaUnmarked.located.effective.notNestedOn 5 = true := by decide +kernel

/-- **the Java toggle theorem applies**: without the marker `m` and `k` are reported, with it
exactly the entry of `k` disappears - and the kernel evaluation of the model agrees -/
theorem java_toggle :
    scanFile Gen.java (render javaUnmarked)
      = .ok [⟨[109], 2, 3, 4, 4, 3⟩, ⟨[107], 5, 3, 5, 16, 1⟩] ∧
    scanFile Gen.java (render javaMarks) = .ok [⟨[109], 2, 3, 4, 4, 3⟩] := by
  have h := toggle_marker_canon_java (p := javaUnmarked) (p' := javaMarks) (l := 5)
    javaUnmarked_hyps.1 javaUnmarked_hyps.2.1 javaUnmarked_hyps.2.2.1
    (eq_of_sameUpTo_beq javaUnmarked_hyps.2.2.2.1)
    (by
      intro x
      rw [javaUnmarked_hyps.2.2.2.2.2.1, javaUnmarked_hyps.2.2.2.2.1]
      simp)
    javaUnmarked_hyps.2.2.2.2.2.2
  refine ⟨h.1.trans ?_, h.2.trans ?_⟩ <;> decide +kernel

example : scanFile Gen.java (render javaUnmarked)
    = .ok [⟨[109], 2, 3, 4, 4, 3⟩, ⟨[107], 5, 3, 5, 16, 1⟩] := scanFile_eval (by decide +kernel)

/-- `javaMarks` with a blank line inserted above `m` and the comment in the `throws` clause removed -/
def javaMoved : Prog PTok :=
  .toks [pt 1 [99, 108, 97, 115, 115] 0 0, pt 2 [65] 0 5] <|
  .group (pt 3 [123] 0 1) (pt 3 [125] 1 0)
      (.fn (.toks [pt 2 [109] 2 2, pt 3 [40] 0 1, pt 3 [41] 0 1] <|
          .nil) 0 [pt 1 [116, 104, 114, 111, 119, 115] 0 1, pt 2 [69] 0 1]
          (pt 3 [123] 0 1) (pt 3 [125] 1 2)
          (.toks [pt 2 [120] 1 4, pt 3 [59] 0 1] <|
          .nil) <|
      .fn (.toks [pt 2 [107] 1 2, pt 3 [40] 0 1, pt 3 [41] 0 1] <|
          .nil) 0 []
          (pt 3 [123] 0 1) (pt 3 [125] 0 1)
          (.toks [pt 2 [117] 0 1, pt 3 [59] 0 1] <|
          .nil) <|
      .toks [pt 5 [47, 47, 32, 110, 111, 99, 108] 0 3] <|
      .nil) <|
  .nil

/-- the line shift: one line inserted above line 2 -/
def javaShift (l : Nat) : Nat := if l ≤ 1 then l else l + 1

/-- **the Java C04 theorem applies**: same names and lengths, lines shifted by one -/
theorem java_moved :
    scanFile Gen.java (render javaMoved) = .ok (markedReport javaMoved) ∧
    Forall2 (Measurement.movedBy javaShift) (markedReport javaMarks) (markedReport javaMoved) ∧
    markedReport javaMoved = [⟨[109], 3, 3, 5, 4, 3⟩] := by
  have h := comments_blank_lines_invisible_canon_java (p := javaMarks) (p' := javaMoved)
    (φ := javaShift) java_conditions.1 java_conditions.2.1 java_conditions.2.2
    (by decide +kernel) (by decide +kernel) (by decide +kernel)
  exact ⟨h.2.1, h.2.2, by decide +kernel⟩

example : scanFile Gen.java (render javaMoved) = .ok [⟨[109], 3, 3, 5, 4, 3⟩] :=
  scanFile_eval (by decide +kernel)

/-! ### a marker IN FRONT of the name (it shifts the columns of the code behind it)

```
1  x ;                                     |  1  x ;
2  f ( ) { a ; }                           |  2  /* nocl */ f ( ) { a ; }
3  g ( ) { b ; }                           |  3  g ( ) { b ; }
```
-/
def frontPlain : Prog PTok :=
  .toks [pt 2 [120] 0 0, pt 3 [59] 0 1] <|
  .fn (.toks [pt 2 [102] 1 0, pt 3 [40] 0 1, pt 3 [41] 0 1] .nil) 0 []
      (pt 3 [123] 0 1) (pt 3 [125] 0 1) (.toks [pt 2 [97] 0 1, pt 3 [59] 0 1] .nil) <|
  .fn (.toks [pt 2 [103] 1 0, pt 3 [40] 0 1, pt 3 [41] 0 1] .nil) 0 []
      (pt 3 [123] 0 1) (pt 3 [125] 0 1) (.toks [pt 2 [98] 0 1, pt 3 [59] 0 1] .nil) <|
  .nil

def frontMarked : Prog PTok :=
  .toks [pt 2 [120] 0 0, pt 3 [59] 0 1, pt 5 [47, 42, 32, 110, 111, 99, 108, 32, 42, 47] 1 0] <|
  .fn (.toks [pt 2 [102] 0 10, pt 3 [40] 0 1, pt 3 [41] 0 1] .nil) 0 []
      (pt 3 [123] 0 1) (pt 3 [125] 0 1) (.toks [pt 2 [97] 0 1, pt 3 [59] 0 1] .nil) <|
  .fn (.toks [pt 2 [103] 1 0, pt 3 [40] 0 1, pt 3 [41] 0 1] .nil) 0 []
      (pt 3 [123] 0 1) (pt 3 [125] 0 1) (.toks [pt 2 [98] 0 1, pt 3 [59] 0 1] .nil) <|
  .nil

/-- **`toggle_marker_moved_fragment` applies** (C++): the code tokens of line 2 stand in other columns
in the marked file (`toggle_marker` does not apply: the comment-free located forests differ); the
entry of `f` disappears, `g` keeps name, length and lines -/
theorem front_marker :
    frontMarked.located.stripComments.flat ≠ frontPlain.located.stripComments.flat ∧
    scanFile Gen.cpp (render frontPlain)
      = .ok [⟨[102], 2, 1, 2, 14, 1⟩, ⟨[103], 3, 1, 3, 14, 1⟩] ∧
    ∃ r', scanFile Gen.cpp (render frontMarked) = .ok r' ∧
      Forall2 (Measurement.movedBy id) [⟨[103], 3, 1, 3, 14, 1⟩] r' := by
  obtain ⟨h1, r', h2, h3⟩ := toggle_marker_moved_fragment (fragC (L := Gen.cpp) (by simp [cFamily]))
    (p := frontPlain) (p' := frontMarked) (l := 2) (by decide +kernel) (by decide +kernel)
    (by decide +kernel) (by decide +kernel)
    (by
      intro x
      have a : markedLines frontMarked.located = [2] := by decide +kernel
      have b : markedLines frontPlain.located = [] := by decide +kernel
      rw [a, b]; simp)
    (by decide +kernel)
  refine ⟨by decide +kernel, h1.trans (by decide +kernel), r', h2, ?_⟩
  have hf : ((langReportNamed Gen.cpp frontPlain.located.effective).filter
      (fun x => decide (x.1.line ≠ 2))).map (·.2) = [⟨[103], 3, 1, 3, 14, 1⟩] := by decide +kernel
  rw [hf] at h3
  exact h3

/-- the kernel evaluation of the model agrees -/
example : scanFile Gen.cpp (render frontMarked) = .ok [⟨[103], 3, 1, 3, 14, 1⟩] :=
  scanFile_eval (by decide +kernel)

/-! ### a brace group directly after a SUPPRESSED function

```
1  o ( ) {
2    f ( ) { a ; } { b ; }   // nocl           `f` is marked; a block directly follows its body
3    c ;
4  }
```
-/
def adjMarked : Prog PTok :=
  .fn (.toks [pt 2 [111] 0 0, pt 3 [40] 0 1, pt 3 [41] 0 1] .nil) 0 []
      (pt 3 [123] 0 1) (pt 3 [125] 1 0)
      (.fn (.toks [pt 2 [102] 1 2, pt 3 [40] 0 1, pt 3 [41] 0 1] .nil) 0 []
          (pt 3 [123] 0 1) (pt 3 [125] 0 1)
          (.toks [pt 2 [97] 0 1, pt 3 [59] 0 1] .nil) <|
      .group (pt 3 [123] 0 1) (pt 3 [125] 0 1)
          (.toks [pt 2 [98] 0 1, pt 3 [59] 0 1] .nil) <|
      .toks [pt 5 [47, 47, 32, 110, 111, 99, 108] 0 3, pt 2 [99] 1 2, pt 3 [59] 0 1] <|
      .nil) <|
  .nil

/-- **The sharper M1 applies where M1 does not**: the comment-free forest violates `noAdj` (the
block after `f`), the effective forest does not (`f` is dissolved); C++ finds both headers; the
report is `o` with all its 4 lines - and the kernel evaluation of the model agrees. -/
theorem adjacent_after_marked :
    adjMarked.bare.stripComments.noAdj = false ∧
    scanFile Gen.cpp (render adjMarked) = .ok (markedReport adjMarked) ∧
    markedReport adjMarked = [⟨[111], 1, 1, 4, 2, 4⟩] := by
  refine ⟨by decide +kernel, ?_, by decide +kernel⟩
  exact scan_of_rendered_marked_tree_sharp (L := Gen.cpp) (by decide) (by decide +kernel)
    (by decide +kernel)
    ⟨_, (by decide +kernel : extractHeaders Gen.cpp adjMarked.located.stripComments.flat
        = .ok (adjMarked.located.stripComments.fns.map (·.hdr))), List.Perm.refl _⟩

example : scanFile Gen.cpp (render adjMarked) = .ok [⟨[111], 1, 1, 4, 2, 4⟩] :=
  scanFile_eval (by decide +kernel)

/-- without the marker the same file is outside the fragment: `f` is reported with the following
block merged into it (ending at column 24 instead of 16), and line 2 is no own line of `o` any more -/
example : scanFile Gen.cpp adjMarked.located.stripComments.flat
    = .ok [⟨[111], 1, 1, 4, 2, 3⟩, ⟨[102], 2, 3, 2, 24, 1⟩] ∧
    treeReport adjMarked.located.stripComments
      = [⟨[111], 1, 1, 4, 2, 4⟩, ⟨[102], 2, 3, 2, 16, 1⟩] :=
  ⟨scanFile_eval (by decide +kernel), by decide +kernel⟩

/-- the same file with another marker text, a comment after `c ;` and a comment on a line of its
own at the end -/
def adjMarked' : Prog PTok :=
  .fn (.toks [pt 2 [111] 0 0, pt 3 [40] 0 1, pt 3 [41] 0 1] .nil) 0 []
      (pt 3 [123] 0 1) (pt 3 [125] 1 0)
      (.fn (.toks [pt 2 [102] 1 2, pt 3 [40] 0 1, pt 3 [41] 0 1] .nil) 0 []
          (pt 3 [123] 0 1) (pt 3 [125] 0 1)
          (.toks [pt 2 [97] 0 1, pt 3 [59] 0 1] .nil) <|
      .group (pt 3 [123] 0 1) (pt 3 [125] 0 1)
          (.toks [pt 2 [98] 0 1, pt 3 [59] 0 1] .nil) <|
      .toks [pt 5 [47, 42, 78, 79, 67, 76, 32, 42, 47] 0 1, pt 2 [99] 1 2, pt 3 [59] 0 1,
             pt 5 [47, 47, 32, 99] 0 2] <|
      .nil) <|
  .toks [pt 5 [47, 47, 32, 110, 111, 99, 108] 1 0] <|
  .nil

/-- `comments_in_place_invisible` applies: same code tokens at the same locations, `o` unmarked
and `f` marked in both files (the new marker on line 5 names nothing) -/
example : scanFile Gen.cpp (render adjMarked') = scanFile Gen.cpp (render adjMarked) :=
  comments_in_place_invisible (L := Gen.cpp) (p := adjMarked.located) (p' := adjMarked'.located)
    (by decide) (by decide +kernel) (by decide +kernel) (render_pos_sorted _) (render_pos_sorted _)
    ⟨_, (by decide +kernel : extractHeaders Gen.cpp adjMarked.located.stripComments.flat
        = .ok (adjMarked.located.stripComments.fns.map (·.hdr))), List.Perm.refl _⟩
    (eq_of_sameUpTo_beq (by decide +kernel)) (by decide +kernel)

example : markedLines adjMarked'.located = [2, 5] ∧ markedLines adjMarked.located = [2] := by
  decide +kernel

end Ex
end CL.C01marks
