import CodeLimit.Props.C01
import CodeLimit.Lemmas.ProgTreeReport
import CodeLimit.Lemmas.ProgTreeBare
import CodeLimit.Lemmas.ProgTreeNodes
/-!
# C01, stage G: from a program TREE to the report (brace languages, token level)

Stage A (`Props/C01.lean`) starts from token-index data (`Layout`).  Here the starting point is a
*tree* of a canonical program, as a grammar (or the generator of the differential tests)
produces it (`CodeLimit/Spec/ProgTree.lean`):

* `Prog α` - a forest of items: a token (`leaf`), a brace group `{ items }` (`group`: class body,
  control block, initialiser, brace group in a parameter list) or a function
  `header gap { body }` (`fn`); any number and order of items at every level, any nesting depth;
* `Prog.flat` - its token sequence; `fnsOf` / `blocksOf` - its functions and ALL its brace blocks
  as token-index ranges (preorder = source order);
* `Prog.wfCore` - structural well-formedness (decidable): leaves are not `{` / `}`, the braces of
  groups and bodies are; a header contains no function, starts with a token, its `nameIdx`-th
  token is a Name; the gap has no braces.  `Prog.noAdj` - the canonical-fragment restriction: the
  item after a function is not a brace group;
* `PTok`, `render` - tokens without locations (`nl` line breaks before the token, `col` blank
  columns) and the renderer;
* `treeReport` / `treeReportFlat` / `parentsOf` / `topFnsOf` - the expected report and the
  nesting, read off the tree without token indices.

Results, by induction over the tree (no bound on size, order or depth):

* G1 `blocks_of_tree` - `get_blocks` finds exactly the blocks of the tree;
* G2 `layoutCore_of_tree` - the token sequence with `fnsOf`, `blocksOf` satisfies every layout
  clause that is a fact about well-formed files (`LayoutCore`); `layout_of_tree`,
  `layout_of_rendered_tree` - with `noAdj` it is a canonical `Layout`; `render_pos_sorted` -
  rendered locations strictly increase;
* G3 `parent_of_tree`, `topLevel_of_tree`, `own_lines_of_tree`, `expected_of_tree`,
  `expectedFlat_of_tree` - the
  index-level specification of stage A (`parent`, `ownLines`, `expected`) is the tree-level one
  (innermost enclosing function node; own tokens = header, gap, braces, body tokens outside
  nested function nodes);
* G4 `scan_of_tree_partial`, `scan_of_rendered_tree_partial` - if header discovery finds the
  headers of the function nodes, `scan_file` returns exactly the tree report.

Which hypotheses are needed where: G1, `layoutCore_of_tree` and G3 hold for EVERY structurally
well-formed forest (`wfCore`; `adjTree_G123` instantiates them on a forest that violates
`noAdj`).  `layout_of_tree` and G4 need the canonical-fragment restriction `noAdj` in addition
(Appendix A of the design: "a body's `}` is not immediately followed by `{`").  Without it G4 is
false (`scan_of_tree_full_false`): the tree of `f ( ) { a ; } { b ; }` satisfies `wfCore`, Java
finds its header, and `scan_file` reports `f` with the following block merged into it
(`C01.adjacent_block_is_merged`).

**Naming.**  `_partial` marks the theorems of this file that are CONDITIONAL on an intermediate
result of the analysis: G4 assumes `extractHeaders … = .ok hs` with `hs` a permutation of the
headers of the function nodes (header discovery; C13-C15 / `Props/C01disc.lean`).  That hypothesis
is discharged - replaced by decidable conditions on the tree - in `Props/C01full.lean` (C, C++, C#,
Java, JavaScript, TypeScript), `Props/C01arrow.lean` (assigned arrow functions) and
`Props/C01marks.lean` (comments and markers); the examples at the end of this file discharge it by
kernel evaluation for C++, JavaScript and Java.  The restrictions that Appendix A of the design
declares part of "canonical" (`noAdj`, the clauses of `Canon`) do not earn the suffix; each of them
has a kernel-checked witness that it cannot be dropped.
-/
namespace CL.C01tree

/-! ## G1, G2: blocks and layout

G1 - G3 need the STRUCTURAL conditions `wfCore` only: they hold for every structurally well-formed
forest, also when a brace group directly follows a function (`adjTree` below is an instance).  The
canonical-fragment restriction `noAdj` enters in exactly two places: the layout clause
`Layout.no_adjacent` (`layout_of_tree`) and G4. -/

/-- **G1.  `get_blocks` finds exactly the blocks of the tree.**  For every structurally
well-formed forest whose token locations strictly increase, `get_blocks` on its token sequence
returns the token ranges of all its groups, function bodies and groups inside headers, in source
order.  (No `noAdj`.) -/
theorem blocks_of_tree {p : Prog Tok} (hw : p.wfCore = true) (hpos : PosSorted p.flat) :
    getBlocks p.flat = .ok p.blocks :=
  getBlocks_prog_core hw hpos

/-- **G2, the part that holds for every well-formed file.**  The token sequence of a structurally
well-formed forest, with the functions and blocks of the tree, satisfies every clause of
`FnLayout` and `LayoutCore` - all layout clauses except `no_adjacent`.  (No `noAdj`.) -/
theorem layoutCore_of_tree {p : Prog Tok} (hw : p.wfCore = true) (hpos : PosSorted p.flat) :
    LayoutCore p.flat p.fns p.blocks :=
  layoutCore_prog hw hpos

/-- **G2.  The token sequence of a well-formed forest of the canonical fragment is a canonical
layout**: `layoutCore_of_tree` plus the clause `no_adjacent`, which is what `noAdj` says on the
tree. -/
theorem layout_of_tree {p : Prog Tok} (hw : p.wfCore = true) (ha : p.noAdj = true)
    (hpos : PosSorted p.flat) : Layout p.flat p.fns p.blocks :=
  layout_prog (Prog.wf_of hw ha) hpos

/-- the function clauses alone need no hypothesis on locations (and no `noAdj`) -/
theorem fnLayout_of_tree {p : Prog Tok} (hw : p.wfCore = true) :
    FnLayout p.fns p.blocks :=
  (tinv_of_wfCore p 0 hw).fnLayout

/-- the clause `noAdj hdr` inside `Prog.noAdj` is vacuous for well-formed forests: a header contains
no function node, and a forest without function nodes satisfies `noAdj` -/
theorem noAdj_of_noFn {α : Type} : ∀ (p : Prog α), p.noFn = true → p.noAdj = true
  | .nil, _ => rfl
  | .leaf _ rest, h => noAdj_of_noFn rest h
  | .group _ _ items rest, h => by
    simp only [Prog.noFn, Bool.and_eq_true] at h
    simp only [Prog.noAdj, Bool.and_eq_true]
    exact ⟨noAdj_of_noFn items h.1, noAdj_of_noFn rest h.2⟩
  | .fn .., h => by cases h

/-- **The renderer assigns strictly increasing locations**, whatever the line breaks and blank
columns of the tokens are. -/
theorem render_pos_sorted (p : Prog PTok) : PosSorted (render p) := posSorted_render p

/-- the rendering lays out the token sequence of the forest: same tokens (kind, type, text), in
the same order -/
theorem render_tokens (p : Prog PTok) :
    (render p).map (fun t => (t.kind, t.ty, t.val)) = p.flat.map (fun t => (t.kind, t.ty, t.val)) := by
  rw [render_eq]; exact place_map _ _

/-! ## G3: the specification of stage A, read off the tree -/

theorem map_some_injective {α : Type} {a b : List α} (h : a.map some = b.map some) : a = b := by
  simpa using congrArg (List.filterMap id) h

/-- **Nesting.**  The `parent` of the layout specification (the last function of the file that
starts before `g` and ends no earlier) is, for every function node, its innermost enclosing
function node: `parentsOf` lists, in preorder, `none` for the function nodes outside every
function body and the enclosing node's record for the others.  (No `noAdj`.) -/
theorem parent_of_tree {p : Prog Tok} (hw : p.wfCore = true)
    (hpos : PosSorted p.flat) : p.fns.map (parent p.fns) = parentsOf p 0 none :=
  parents_prog_core hw (layoutCore_of_tree hw hpos).nested

/-- the functions without parent are the function nodes not inside another function node -/
theorem topLevel_of_tree {p : Prog Tok} (hw : p.wfCore = true)
    (hpos : PosSorted p.flat) : topLevel p.fns = topFnsOf p 0 :=
  topLevel_prog_core hw (layoutCore_of_tree hw hpos).nested

/-- **The expected report, languages with nested functions.**  The expected measurements of the
layout specification are those of the tree: for every function node, in preorder, the text of
its name token, the location of its first header token, the location just past its closing
brace, and the number of distinct lines of its OWN tokens (`ownToks`: header, gap, braces and the
body tokens that are not inside a nested function node).  In particular
`countDistinct (ownLines …)` = the number of distinct lines of the own tokens.  (No `noAdj`: the
two SPECIFICATIONS agree on every structurally well-formed forest; what needs `noAdj` is that
`scan_file` computes them, G4.) -/
theorem expected_of_tree {p : Prog Tok} (hw : p.wfCore = true)
    (hpos : PosSorted p.flat) :
    p.fns.map (expected p.flat p.fns) = (treeReport p).map some :=
  expected_prog_core hw (layoutCore_of_tree hw hpos).nested

/-- **Own lines.**  For every function node, in preorder: the number of distinct lines of
the layout specification (`ownLines`: tokens from the first header token to the closing brace
whose index lies in no function nested in it) is the number of distinct lines of its own tokens
in the tree (the `len` of `treeReport`: `countDistinct ((ownToks …).map (·.line))`). -/
theorem own_lines_of_tree {p : Prog Tok} (hw : p.wfCore = true)
    (hpos : PosSorted p.flat) :
    p.fns.map (fun f => countDistinct (ownLines p.flat p.fns f)) = (treeReport p).map (·.len) := by
  have h := expected_of_tree hw hpos
  have hL := layoutCore_of_tree hw hpos
  have h2 : p.fns.map (fun f => some (countDistinct (ownLines p.flat p.fns f)))
      = (p.fns.map (expected p.flat p.fns)).map (Option.map (·.len)) := by
    rw [List.map_map]
    apply List.map_congr_left
    intro f hf
    obtain ⟨a, b, _, _, he⟩ := C01.expected_spec hL hf
    simp [he]
  rw [h, List.map_map] at h2
  have h3 : (p.fns.map (fun f => countDistinct (ownLines p.flat p.fns f))).map some
      = ((treeReport p).map (·.len)).map some := by
    rw [List.map_map, List.map_map]; exact h2
  exact map_some_injective h3

/-- **The expected report, languages without nested functions**: the function nodes that are
not inside another function node, each with the number of distinct lines of ALL its tokens. -/
theorem expectedFlat_of_tree {p : Prog Tok} (hw : p.wfCore = true)
    (hpos : PosSorted p.flat) :
    (topLevel p.fns).map (expectedFlat p.flat) = (treeReportFlat p).map some :=
  expectedFlat_prog_core hw (layoutCore_of_tree hw hpos).nested

/-! ## G4: the whole of `scan_file` -/

/-- **G4 (`_partial`: conditional on header discovery, hypotheses `hh` / `hperm`).**  Let `p` be a forest of located tokens: structurally
well-formed (`wfCore`), no function directly followed by a brace group (`noAdj`), token
locations strictly increasing; let `all` be a token list whose code tokens are the token
sequence of `p` (comments and whitespace may be interspersed).  If the header extraction of a
brace-block language `L` finds the headers of the function nodes of `p` (in any order) and no
function is marked with a suppression comment, then `scan_file` succeeds and returns exactly the
tree report: `treeReport p` if `L` reports nested functions, `treeReportFlat p` otherwise.

`hh` and `hperm` speak about an intermediate result of the analysis, not about the input; they are
discharged for the canonical fragments in `Props/C01full.lean`, `Props/C01arrow.lean`.  The
canonical-fragment restriction `noAdj` cannot be dropped: the same statement without it is FALSE
(`scan_of_tree_full_false`). -/
theorem scan_of_tree_partial {L : Language} {all : List Tok} {p : Prog Tok}
    (hpy : L.python = false) (hw : p.wfCore = true) (ha : p.noAdj = true)
    (hpos : PosSorted p.flat) (hcode : filterTokens false all = p.flat)
    {hs : List Header} (hh : extractHeaders L p.flat = .ok hs)
    (hperm : hs.Perm (p.fns.map (·.hdr)))
    (hm : ∀ f ∈ p.fns, ¬ Marked all f.hdr.name.line) :
    scanFile L all = .ok (if L.nested = true then treeReport p else treeReportFlat p) := by
  have hL := layout_of_tree hw ha hpos
  have hb := blocks_of_tree hw hpos
  by_cases hn : L.nested = true
  · obtain ⟨ms, h1, h2⟩ := C01.scan_of_layout_partial hcode hpy hn hh hperm hb hL hm
    rw [expected_of_tree hw hpos] at h2
    rw [if_pos hn, h1, map_some_injective h2]
  · obtain ⟨ms, h1, h2⟩ := C01.scan_of_layout_flat_partial hcode hpy (by simpa using hn) hh hperm
      hb hL hm
    rw [expectedFlat_of_tree hw hpos] at h2
    rw [if_neg hn, h1, map_some_injective h2]

/-- **G4 for rendered forests (`_partial`: conditional on header discovery).**  Let `p` be ANY forest of tokens
without locations (line breaks `nl` and blank columns `col` arbitrary) that is structurally
well-formed, has no function directly followed by a brace group, and consists of code tokens;
these three decidable conditions do not mention locations (`Prog.bare` views the tokens at a
dummy location).  If the header extraction of a brace-block language finds the headers of its
function nodes in the rendering, then `scan_file` on the rendering returns exactly the tree
report of the located forest. -/
theorem scan_of_rendered_tree_partial {L : Language} {p : Prog PTok}
    (hpy : L.python = false) (hw : p.bare.wfCore = true) (ha : p.noAdj = true)
    (hc : p.bare.allCode = true)
    {hs : List Header} (hh : extractHeaders L (render p) = .ok hs)
    (hperm : hs.Perm (p.located.fns.map (·.hdr))) :
    scanFile L (render p)
      = .ok (if L.nested = true then treeReport p.located else treeReportFlat p.located) := by
  have hw' : p.located.wfCore = true := by rw [Prog.located, wfCore_locate]; exact hw
  have ha' : p.located.noAdj = true := by rw [Prog.located, noAdj_locate]; exact ha
  have hc' : p.located.allCode = true := by rw [Prog.located, allCode_locate]; exact hc
  exact scan_of_tree_partial hpy hw' ha' (render_pos_sorted p) (filterTokens_of_allCode hc') hh
    hperm (fun _ _ => not_marked_of_allCode hc' _)

/-- **G2 for rendered forests**: the rendering of every well-formed forest of tokens without
locations is a canonical layout, and `get_blocks` finds exactly the blocks of the tree. -/
theorem layout_of_rendered_tree {p : Prog PTok} (hw : p.bare.wfCore = true)
    (ha : p.noAdj = true) :
    Layout (render p) p.located.fns p.located.blocks ∧
      getBlocks (render p) = .ok p.located.blocks := by
  have hw' : p.located.wfCore = true := by rw [Prog.located, wfCore_locate]; exact hw
  have ha' : p.located.noAdj = true := by rw [Prog.located, noAdj_locate]; exact ha
  exact ⟨layout_of_tree hw' ha' (render_pos_sorted p), blocks_of_tree hw' (render_pos_sorted p)⟩

/-! ## forests as lists of rose-tree nodes -/

/-- **Forests are lists of nodes.**  `Prog` encodes a forest by "first item, remaining
siblings"; the rose-tree presentation `List (Node α)` (a token, a group with its list of items,
a function with its lists of header and body items) is the same thing: the two translations are
mutually inverse.  Every theorem of this file about all `p : Prog α` is therefore a theorem about
all lists of nodes. -/
theorem forests_are_node_lists {α : Type} :
    (∀ p : Prog α, Prog.ofNodes p.toNodes = p) ∧
    (∀ ns : List (Node α), (Prog.ofNodes ns).toNodes = ns) :=
  ⟨Prog.ofNodes_toNodes, Prog.toNodes_ofNodes⟩

/-- G4 for a list of rose-tree nodes of tokens without locations -/
theorem scan_of_rendered_nodes_partial {L : Language} (ns : List (Node PTok))
    (hpy : L.python = false) (hw : (Prog.ofNodes ns).bare.wfCore = true)
    (ha : (Prog.ofNodes ns).noAdj = true) (hc : (Prog.ofNodes ns).bare.allCode = true)
    {hs : List Header} (hh : extractHeaders L (render (Prog.ofNodes ns)) = .ok hs)
    (hperm : hs.Perm ((Prog.ofNodes ns).located.fns.map (·.hdr))) :
    scanFile L (render (Prog.ofNodes ns))
      = .ok (if L.nested = true then treeReport (Prog.ofNodes ns).located
             else treeReportFlat (Prog.ofNodes ns).located) :=
  scan_of_rendered_tree_partial hpy hw ha hc hh hperm

/-! ## the deviation: `noAdj` is needed -/

/-- the tree of `f ( ) { a ; } { b ; }` (a Java method directly followed by an instance
initialiser): the tokens of `C01Adj.code` -/
def adjTree : Prog Tok :=
  .fn (.toks [C17Ex.mk 2 [102] 1 1, C17Ex.mk 3 [40] 1 3, C17Ex.mk 3 [41] 1 5] .nil) 0 []
      (C17Ex.mk 3 [123] 1 7) (C17Ex.mk 3 [125] 3 1)
      (.toks [C17Ex.mk 2 [97] 2 3, C17Ex.mk 3 [59] 2 5] .nil) <|
  .group (C17Ex.mk 3 [123] 3 3) (C17Ex.mk 3 [125] 5 1)
      (.toks [C17Ex.mk 2 [98] 4 3, C17Ex.mk 3 [59] 4 5] .nil) <|
  .nil

/-- **Witness: the full statement of G4 (without `noAdj`) is false.**  `adjTree` is structurally
well-formed, its locations increase, Java finds exactly its header and nothing is marked; yet
`scan_file` reports `f` as lines 1-5 with length 5, while the tree report says lines 1-3 with
length 3. -/
theorem scan_of_tree_full_false :
    ¬ ∀ (L : Language) (all : List Tok) (p : Prog Tok), L.python = false → p.wfCore = true →
      PosSorted p.flat → filterTokens false all = p.flat →
      ∀ hs : List Header, extractHeaders L p.flat = .ok hs → hs.Perm (p.fns.map (·.hdr)) →
      (∀ f ∈ p.fns, ¬ Marked all f.hdr.name.line) →
      scanFile L all = .ok (if L.nested = true then treeReport p else treeReportFlat p) := by
  intro h
  have hflat : adjTree.flat = C01Adj.code := by decide +kernel
  have h1 := h Gen.java C01Adj.code adjTree (by decide) (by decide +kernel)
    (hflat ▸ C01Adj.posSorted) (hflat ▸ C01Adj.code_all) _ (hflat ▸ C01Adj.headers)
    (by decide +kernel) (by decide +kernel)
  rw [C01Adj.scanJava] at h1
  revert h1
  decide +kernel

/-- the witness violates exactly the canonical-fragment restriction -/
example : adjTree.wfCore = true ∧ adjTree.noAdj = false := by decide +kernel

/-- **G1 - G3 do not need `noAdj`**: on the witness `adjTree` (structurally well-formed, a brace
group directly after the function) `get_blocks` finds the two blocks of the tree, all clauses of
`LayoutCore` hold, and the index-level specification (`parent`, `expected`, `expectedFlat`) is the
tree-level one - by the theorems, and again by kernel evaluation.  Only `no_adjacent` fails. -/
theorem adjTree_G123 :
    PosSorted adjTree.flat ∧
    getBlocks adjTree.flat = .ok adjTree.blocks ∧ adjTree.blocks = [⟨3, 7⟩, ⟨7, 11⟩] ∧
    LayoutCore adjTree.flat adjTree.fns adjTree.blocks ∧
    ¬ Layout adjTree.flat adjTree.fns adjTree.blocks ∧
    adjTree.fns.map (parent adjTree.fns) = parentsOf adjTree 0 none ∧
    adjTree.fns.map (expected adjTree.flat adjTree.fns) = (treeReport adjTree).map some ∧
    (topLevel adjTree.fns).map (expectedFlat adjTree.flat) = (treeReportFlat adjTree).map some ∧
    treeReport adjTree = [⟨[102], 1, 1, 3, 2, 3⟩] := by
  have hw : adjTree.wfCore = true := by decide +kernel
  have hflat : adjTree.flat = C01Adj.code := by decide +kernel
  have hpos : PosSorted adjTree.flat := hflat ▸ C01Adj.posSorted
  exact ⟨hpos, blocks_of_tree hw hpos, by decide +kernel, layoutCore_of_tree hw hpos,
    by decide +kernel, parent_of_tree hw hpos, expected_of_tree hw hpos,
    expectedFlat_of_tree hw hpos, by decide +kernel⟩

example : adjTree.fns.map (expected adjTree.flat adjTree.fns) = [some ⟨[102], 1, 1, 3, 2, 3⟩] := by
  decide +kernel

/-! ## non-vacuity: concrete forests, discovery hypothesis discharged by kernel evaluation -/

namespace Ex

/-- a token without location whose type id is its kind (as `C17Ex.mk`) -/
def pt (k : Nat) (v : Str) (nl col : Nat) : PTok := ⟨k, k, v, nl, col⟩

/-- the file of `LayoutExamples.lean` (`C01Ex`) as a tree -/
def cppTree : Prog PTok :=
  .toks [pt 1 [105, 110, 116] 0 0, pt 2 [97] 0 3, pt 3 [91] 0 1, pt 3 [93] 0 1, pt 4 [61] 0 1] <|
  .group (pt 3 [123] 0 1) (pt 3 [125] 0 1)
      (.toks [pt 0 [49] 0 1, pt 3 [44] 0 1, pt 0 [50] 0 1] <|
      .nil) <|
  .toks [pt 3 [59] 0 1, pt 1 [99, 108, 97, 115, 115] 1 0, pt 2 [65] 0 5] <|
  .group (pt 3 [123] 0 1) (pt 3 [125] 1 0)
      (.fn (.toks [pt 2 [109, 49] 1 2, pt 3 [40] 0 2, pt 3 [41] 0 1] <|
          .nil) 0 [] (pt 3 [123] 0 1) (pt 3 [125] 0 1)
          (.toks [pt 2 [120] 0 1, pt 3 [59] 0 1] <|
          .nil) <|
      .fn (.toks [pt 2 [109, 50] 1 2, pt 3 [40] 0 2, pt 1 [105, 110, 116] 0 1, pt 2 [118] 0 3, pt 4 [61] 0 1] <|
          .group (pt 3 [123] 0 1) (pt 3 [125] 0 1)
              (.toks [pt 0 [49] 0 1] <|
              .nil) <|
          .toks [pt 3 [41] 0 1] <|
          .nil) 0 [] (pt 3 [123] 0 1) (pt 3 [125] 0 1)
          (.toks [pt 2 [121] 0 1, pt 3 [59] 0 1] <|
          .nil) <|
      .nil) <|
  .toks [pt 3 [59] 0 1] <|
  .fn (.toks [pt 2 [102] 1 0, pt 3 [40] 0 1, pt 3 [41] 0 1] <|
      .nil) 0 [] (pt 3 [123] 0 1) (pt 3 [125] 1 0)
      (.fn (.toks [pt 2 [103] 1 2, pt 3 [40] 0 1, pt 3 [41] 0 1] <|
          .nil) 0 [] (pt 3 [123] 0 1) (pt 3 [125] 1 2)
          (.fn (.toks [pt 2 [104] 1 4, pt 3 [40] 0 1, pt 3 [41] 0 1] <|
              .nil) 0 [] (pt 3 [123] 0 1) (pt 3 [125] 0 1)
              (.toks [pt 2 [122] 0 1, pt 3 [59] 0 1] <|
              .nil) <|
          .toks [pt 2 [113] 1 4, pt 3 [59] 0 1] <|
          .nil) <|
      .toks [pt 1 [105, 102] 1 2, pt 3 [40] 0 2, pt 2 [120] 0 1, pt 3 [41] 0 1] <|
      .group (pt 3 [123] 0 1) (pt 3 [125] 0 1)
          (.toks [pt 2 [119] 0 1, pt 3 [59] 0 1] <|
          .nil) <|
      .fn (.toks [pt 2 [107] 1 2, pt 3 [40] 0 1, pt 3 [41] 0 1] <|
          .nil) 0 [] (pt 3 [123] 0 1) (pt 3 [125] 0 1)
          (.toks [pt 2 [117] 0 1, pt 3 [59] 0 1] <|
          .nil) <|
      .toks [pt 2 [114] 0 1, pt 3 [59] 0 1] <|
      .nil) <|
  .nil

/-- a JavaScript file as a tree -/
def jsTree : Prog PTok :=
  .toks [pt 1 [99, 108, 97, 115, 115] 0 0, pt 2 [65] 0 5] <|
  .group (pt 3 [123] 0 1) (pt 3 [125] 1 0)
      (.fn (.toks [pt 2 [109, 49] 1 2, pt 3 [40] 0 2, pt 3 [41] 0 1] <|
          .nil) 0 [] (pt 3 [123] 0 1) (pt 3 [125] 0 1)
          (.toks [pt 2 [120] 0 1, pt 3 [59] 0 1] <|
          .nil) <|
      .fn (.toks [pt 2 [109, 50] 1 2, pt 3 [40] 0 2, pt 2 [118] 0 1, pt 4 [61] 0 1] <|
          .group (pt 3 [123] 0 1) (pt 3 [125] 0 1)
              (.toks [pt 0 [49] 0 1] <|
              .nil) <|
          .toks [pt 3 [41] 0 1] <|
          .nil) 0 [] (pt 3 [123] 0 1) (pt 3 [125] 0 1)
          (.toks [pt 2 [121] 0 1, pt 3 [59] 0 1] <|
          .nil) <|
      .nil) <|
  .fn (.toks [pt 1 [99, 111, 110, 115, 116] 1 0, pt 2 [97] 0 5, pt 4 [61] 0 1, pt 3 [40] 0 1, pt 2 [120] 0 1, pt 3 [41] 0 1] <|
      .nil) 1 [pt 3 [61, 62] 0 1] (pt 3 [123] 0 2) (pt 3 [125] 1 0)
      (.fn (.toks [pt 1 [102, 117, 110, 99, 116, 105, 111, 110] 1 2, pt 2 [103] 0 8, pt 3 [40] 0 1, pt 3 [41] 0 1] <|
          .nil) 1 [] (pt 3 [123] 0 1) (pt 3 [125] 1 2)
          (.fn (.toks [pt 1 [102, 117, 110, 99, 116, 105, 111, 110] 1 4, pt 2 [104] 0 8, pt 3 [40] 0 1, pt 3 [41] 0 1] <|
              .nil) 1 [] (pt 3 [123] 0 1) (pt 3 [125] 0 1)
              (.toks [pt 2 [122] 0 1, pt 3 [59] 0 1] <|
              .nil) <|
          .toks [pt 2 [113] 1 4, pt 3 [59] 0 1] <|
          .nil) <|
      .toks [pt 1 [105, 102] 1 2, pt 3 [40] 0 2, pt 2 [120] 0 1, pt 3 [41] 0 1] <|
      .group (pt 3 [123] 0 1) (pt 3 [125] 0 1)
          (.toks [pt 2 [119] 0 1, pt 3 [59] 0 1] <|
          .nil) <|
      .fn (.toks [pt 1 [102, 117, 110, 99, 116, 105, 111, 110] 1 2, pt 2 [107] 0 8, pt 3 [40] 0 1, pt 3 [41] 0 1] <|
          .nil) 1 [] (pt 3 [123] 0 1) (pt 3 [125] 0 1)
          (.toks [pt 2 [117] 0 1, pt 3 [59] 0 1] <|
          .nil) <|
      .toks [pt 2 [114] 0 1, pt 3 [59] 0 1] <|
      .nil) <|
  .nil

/-- a Java method with a `throws` clause between header and body -/
def javaTree : Prog PTok :=
  .toks [pt 1 [99, 108, 97, 115, 115] 0 0, pt 2 [65] 0 5] <|
  .group (pt 3 [123] 0 1) (pt 3 [125] 1 0)
      (.fn (.toks [pt 2 [109] 1 2, pt 3 [40] 0 1, pt 1 [105, 110, 116] 0 1, pt 2 [118] 0 3, pt 3 [41] 0 1] <|
          .nil) 0 [pt 1 [116, 104, 114, 111, 119, 115] 0 1, pt 2 [69] 0 6, pt 3 [44] 0 1, pt 2 [70] 0 1] (pt 3 [123] 0 1) (pt 3 [125] 1 2)
          (.toks [pt 1 [105, 102] 1 4, pt 3 [40] 0 2, pt 2 [118] 0 1, pt 3 [41] 0 1] <|
          .group (pt 3 [123] 0 1) (pt 3 [125] 0 1)
              (.toks [pt 2 [119] 0 1, pt 3 [59] 0 1] <|
              .nil) <|
          .toks [pt 2 [120] 1 4, pt 3 [59] 0 1] <|
          .nil) <|
      .nil) <|
  .nil


/-! ### C++ / C: the file of `Lemmas/LayoutExamples.lean`

```
 1  int a [ ] = { 1 , 2 } ;              initialiser at top level
 2  class A {                            a class group around two methods
 3    m1 ( ) { x ; }
 4    m2 ( int v = { 1 } ) { y ; }       brace group inside a header
 5  } ;
 6  f ( ) {
 7    g ( ) {                            nested, not the last statement
 8      h ( ) { z ; }                    nesting depth 3
 9      q ;                              belongs to `g` again
10    }
11    if ( x ) { w ; }                   control group inside a body
12    k ( ) { u ; } r ;                  `r ;` belongs to `f`
13  }
```
-/

/-- the renderer reproduces the hand-written token list of stage A, locations included -/
theorem cpp_render : render cppTree = C01Ex.code := by decide +kernel

theorem cpp_wf : cppTree.bare.wfCore = true ∧ cppTree.noAdj = true ∧
    cppTree.bare.allCode = true := by decide +kernel

/-- functions and blocks of the tree are the hand-written ones of stage A -/
theorem cpp_fns : cppTree.located.fns = C01Ex.fns := by decide +kernel
theorem cpp_blocks : cppTree.located.blocks = C01Ex.blocks := by decide +kernel

/-- the discovery hypothesis holds for C++ (and C): kernel evaluation of `extractHeaders` -/
theorem cpp_headers : extractHeaders Gen.cpp (render cppTree)
    = .ok (cppTree.located.fns.map (·.hdr)) := by
  rw [cpp_render, cpp_fns]; exact C01Ex.headersCpp

theorem c_headers : extractHeaders Gen.c (render cppTree)
    = .ok (cppTree.located.fns.map (·.hdr)) := by
  rw [cpp_render, cpp_fns]; exact C01Ex.headersC

/-- the tree report: `f` has 4 own lines (6, 11, 12, 13), `g` 3 (7, 9, 10) -/
theorem cpp_treeReport : treeReport cppTree.located
    = [⟨[109, 49], 3, 3, 3, 17, 1⟩, ⟨[109, 50], 4, 3, 4, 31, 1⟩, ⟨[102], 6, 1, 13, 2, 4⟩,
       ⟨[103], 7, 3, 10, 4, 3⟩, ⟨[104], 8, 5, 8, 18, 1⟩, ⟨[107], 12, 3, 12, 16, 1⟩] := by
  decide +kernel

theorem cpp_treeReportFlat : treeReportFlat cppTree.located
    = [⟨[109, 49], 3, 3, 3, 17, 1⟩, ⟨[109, 50], 4, 3, 4, 31, 1⟩, ⟨[102], 6, 1, 13, 2, 8⟩] := by
  decide +kernel

/-- G4 applies to C++ ... -/
theorem cpp_scan : scanFile Gen.cpp (render cppTree) = .ok (treeReport cppTree.located) :=
  scan_of_rendered_tree_partial (L := Gen.cpp) (by decide) cpp_wf.1 cpp_wf.2.1 cpp_wf.2.2
    cpp_headers (List.Perm.refl _)

/-- ... and to C (no nested functions) ... -/
theorem c_scan : scanFile Gen.c (render cppTree) = .ok (treeReportFlat cppTree.located) :=
  scan_of_rendered_tree_partial (L := Gen.c) (by decide) cpp_wf.1 cpp_wf.2.1 cpp_wf.2.2
    c_headers (List.Perm.refl _)

/-- ... and to the file with a trailing comment (`C01Ex.all`), where its conclusion agrees with
the independent stage-by-stage evaluation `C01.scan_example_cpp` -/
example : scanFile Gen.cpp C01Ex.all = .ok (treeReport cppTree.located) :=
  scan_of_tree_partial (L := Gen.cpp) (p := cppTree.located) (by decide) (by decide +kernel)
    (by decide +kernel) (render_pos_sorted cppTree) (C01Ex.code_all.trans cpp_render.symm) cpp_headers
    (List.Perm.refl _) (cpp_fns ▸ C01Ex.unmarked)

example : scanFile Gen.cpp C01Ex.all = .ok (treeReport cppTree.located) := by
  rw [cpp_treeReport]; exact C01.scan_example_cpp

/-- nesting read off the tree: `g` and `k` are inside `f`, `h` is inside `g` -/
example : parentsOf cppTree.located 0 none
    = [none, none, none, some C01Ex.fF, some C01Ex.fG, some C01Ex.fF] := by decide +kernel

/-! ### JavaScript: an arrow function with the gap token `=>`, headers found out of order

```
 1  class A {                            a class group around two methods
 2    m1 ( ) { x ; }
 3    m2 ( v = { 1 } ) { y ; }           brace group inside a header
 4  }
 5  const a = ( x ) => {                 header `const a = ( x )`, gap `=>`
 6    function g ( ) {
 7      function h ( ) { z ; }           nesting depth 3
 8      q ;
 9    }
10    if ( x ) { w ; }                   control group inside a body
11    function k ( ) { u ; } r ;
12  }
```
-/

theorem js_wf : jsTree.bare.wfCore = true ∧ jsTree.noAdj = true ∧
    jsTree.bare.allCode = true := by decide +kernel

/-- the headers as JavaScript extracts them: first pattern (`m1`, `m2`, `g`, `h`, `k`), then the
arrow-function pattern (`a`) -/
def jsFound : List Header :=
  match jsTree.located.fns.map (·.hdr) with
  | [m1, m2, a, g, h, k] => [m1, m2, g, h, k, a]
  | l => l

/-- the discovery hypothesis holds for JavaScript: kernel evaluation of `extractHeaders` -/
theorem js_headers : extractHeaders Gen.javascript (render jsTree) = .ok jsFound := by
  decide +kernel

theorem js_perm : jsFound.Perm (jsTree.located.fns.map (·.hdr)) := by decide +kernel

/-- G4 applies: `scan_file` returns the tree report -/
theorem js_scan : scanFile Gen.javascript (render jsTree) = .ok (treeReport jsTree.located) :=
  scan_of_rendered_tree_partial (L := Gen.javascript) (by decide) js_wf.1 js_wf.2.1 js_wf.2.2
    js_headers js_perm

/-- the tree report: `a` has 4 own lines (5, 10, 11, 12), `g` 3 (6, 8, 9) -/
theorem js_treeReport : treeReport jsTree.located
    = [⟨[109, 49], 2, 3, 2, 17, 1⟩, ⟨[109, 50], 3, 3, 3, 27, 1⟩, ⟨[97], 5, 1, 12, 2, 4⟩,
       ⟨[103], 6, 3, 9, 4, 3⟩, ⟨[104], 7, 5, 7, 27, 1⟩, ⟨[107], 11, 3, 11, 25, 1⟩] := by
  decide +kernel

/-- the gap token `=>` lies between the header and the body of `a` -/
example : (jsTree.located.fns.map (fun f => (f.hdr.rng.s, f.hdr.rng.e, f.body.s, f.body.e)))
    = [(3, 6, 6, 10), (10, 18, 18, 22), (23, 29, 30, 66), (31, 35, 35, 47), (36, 40, 40, 44),
       (55, 59, 59, 63)] := by decide +kernel

/-! ### Java: a `throws` clause between header and body

```
1  class A {
2    m ( int v ) throws E , F {
3      if ( v ) { w ; }
4      x ;
5    }
6  }
```
-/

theorem java_wf : javaTree.bare.wfCore = true ∧ javaTree.noAdj = true ∧
    javaTree.bare.allCode = true := by decide +kernel

theorem java_headers : extractHeaders Gen.java (render javaTree)
    = .ok (javaTree.located.fns.map (·.hdr)) := by decide +kernel

theorem java_scan : scanFile Gen.java (render javaTree) = .ok (treeReport javaTree.located) :=
  scan_of_rendered_tree_partial (L := Gen.java) (by decide) java_wf.1 java_wf.2.1 java_wf.2.2
    java_headers (List.Perm.refl _)

theorem java_treeReport : treeReport javaTree.located = [⟨[109], 2, 3, 5, 4, 4⟩] := by
  decide +kernel

end Ex
end CL.C01tree
