import CodeLimit.Lemmas.SynHeaderDisc
import CodeLimit.Lemmas.SynHeaderArrow
import CodeLimit.Lemmas.SynHeaderMeasure
/-!
# C01, discovery direction, SYNTACTICALLY: which function headers `extract_headers` reports for
C, C++, C#, Java and for the function / method pattern of JavaScript and TypeScript

`Props/C01disc.lean` characterises the reported headers in terms of the matching engine
(`GreedyAt` of a compiled DFA with a `Balanced` predicate).  Here the same is stated with notions
a reader can check on a source file (`Spec/SynHeader.lean`, plain recursion on token lists):

* `groupEnd toks i`   - index just past the `)` matching the `(` at `i` (depth counting on the
  PUNCTUATION tokens `(` / `)`: token type in `Punctuation` and text equal, as `Balanced` does
  with `Symbol` since the repair of defect F25; a string-literal token with the text `(` is an
  ordinary token);
* `groupsEnd toks i`  - index just past the maximal run of consecutive groups starting at `i`; a
  last group that is never closed extends to the end of the input
  (`groupsEnd_closed` / `groupsEnd_unclosed` / `groupsEnd_not_open` below);
* `SynHeader toks p f` - `toks[p]` is a name token, `toks[p + 1]` is a punctuation token `(`,
  `f = groupsEnd toks (p + 1)`.

Results, for every token list:

1. `greedy_iff_synHeader`: the greedy matches of the shipped C-family header pattern are exactly
   the `SynHeader`s.
2. `c_header_sound`: every header reported for C / C++ / C# is a `SynHeader` followed by the symbol
   `{`, named by its first token.
3. `c_header_complete`: a `SynHeader` followed by the symbol `{`, with no `Name (` strictly inside
   its parameter list (KF1), is reported, exactly once.  The isolation condition `hbefore` of
   `C01disc.canonical_header_found` is automatic (`hbefore_automatic`).  Before the repair of F25
   (`Balanced` compared token TEXTS) both needed the extra hypothesis "the name token does not have
   the text `)`"; with `Symbol` predicates a name token can never close a group, so the hypothesis
   is gone (`completeness_without_name_text_holds`, `name_token_close_is_ordinary`: the former
   counterexample is now reported).
4. `kf1_syntactic`: known finding KF1 restated syntactically.
5. Java (`java_header_sound` / `java_header_complete`) and the function / method pattern of
   JavaScript and TypeScript (`js_…`, `ts_…`).
6. The ARROW pattern of JavaScript and TypeScript, `[const] Name = [async] ( … )+` with follow-up
   `=>` `{`: `arrow_matches_iff` (greedy matches = `ArrowHeader`), soundness as the second disjunct
   of `js_header_sound` / `ts_header_sound` (every reported header is a function / method header OR
   an arrow header followed by `=>` `{`, named by its Name token - nothing else), completeness
   `js_arrow_header_complete` / `ts_arrow_header_complete` (an arrow header followed by `=>` `{`
   with no `Name = [async] (` strictly inside its parameter list is reported, exactly once, from the
   keyword `const` on), and `arrow_kf1_syntactic` (the restriction is needed).
7. `measurement_is_synHeader` (`…_java`, `…_js`, `…_ts`): "reports nothing that is not a function
   definition" on the OUTPUT of `_analyze_file`, in syntactic terms.
-/
namespace CL.C01syn
open CL.Syn CL.Compose CL.Ex

/-! ## 0. the shipped patterns -/

/-- the three languages that use the plain C-family definition -/
def cFamily : List Language := [Gen.c, Gen.cpp, Gen.csharp]

/-- C, C++ and C# (as generated from `/repo/codelimit/languages/*.py`) have exactly one header
pattern: `[Name(), OneOrMore(Balanced("(", ")"))]` with follow-up `Symbol("{")`, and no
previous-keyword filter.  (Checked by evaluation: a change of the shipped patterns breaks this
proof.) -/
theorem cFamily_pattern : ∀ L ∈ cFamily, L.pats = [⟨cExpr, some braceRx⟩] ∧ L.prevKw = none := by
  intro L hL
  simp only [cFamily, List.mem_cons, List.not_mem_nil, or_false] at hL
  rcases hL with rfl | rfl | rfl <;> exact ⟨rfl, rfl⟩

theorem cFamily_shipped : ∀ L ∈ cFamily, L ∈ Gen.all.map (·.2) := by
  intro L hL
  simp only [cFamily, List.mem_cons, List.not_mem_nil, or_false] at hL
  rcases hL with rfl | rfl | rfl <;> simp [Gen.all]

/-- Java: the same header pattern, follow-up `{` or `throws ... {`, and the `record` / `new`
filter -/
theorem java_pattern :
    Gen.java.pats = [⟨cExpr, some (tailRx (.keyword [116, 104, 114, 111, 119, 115]))⟩] ∧
      Gen.java.prevKw = some javaPrev := ⟨rfl, rfl⟩

/-- JavaScript: first pattern `[Optional(Keyword("function")), Name(), OneOrMore(Balanced)]` with
follow-up `Symbol("{")`, then the arrow-function pattern; no previous-keyword filter -/
theorem js_pattern : ∃ arrow, Gen.javascript.pats = [⟨fExpr, some braceRx⟩, arrow] ∧
    Gen.javascript.prevKw = none := ⟨_, rfl, rfl⟩

/-- TypeScript: the same first pattern with follow-up `{` or `: ... {` -/
theorem ts_pattern : ∃ arrow,
    Gen.typescript.pats = [⟨fExpr, some (tailRx (.operator [58]))⟩, arrow] ∧
      Gen.typescript.prevKw = none := ⟨_, rfl, rfl⟩

/-! ## 1. the syntactic vocabulary -/

/-- `groupsEnd` iterates `groupEnd`: after a complete group the run goes on from its end -/
theorem groupsEnd_closed (toks : List Tok) (i j : Nat) (h : groupEnd toks i = some j) :
    groupsEnd toks i = groupsEnd toks j ∧ i + 2 ≤ j ∧ j ≤ toks.length :=
  Syn.groupsEnd_closed h

/-- a group that is never closed extends to the end of the input -/
theorem groupsEnd_unclosed (toks : List Tok) (i : Nat) (ho : OpenAt toks i)
    (h : groupEnd toks i = none) : groupsEnd toks i = toks.length :=
  Syn.groupsEnd_unclosed ho h

/-- the run stops at the first token after a complete group that is not a punctuation token `(` -/
theorem groupsEnd_not_open (toks : List Tok) (i : Nat) (h : ¬ OpenAt toks i) :
    groupsEnd toks i = i :=
  Syn.groupsEnd_not_open h

/-- a syntactic header has at least two tokens, lies inside the input, and its finish is
determined by its start -/
theorem synHeader_basic (toks : List Tok) (p f f' : Nat) (h : SynHeader toks p f) :
    p + 2 ≤ f ∧ f ≤ toks.length ∧ (SynHeader toks p f' → f' = f) :=
  ⟨h.len.1, h.len.2, fun h' => h'.finish_unique h⟩

/-! ## 2. greedy matches of the C-family pattern = syntactic headers -/

/-- For every pattern of C / C++ / C# / Java and every token list: greedy matching of the compiled
header pattern from `p` succeeds with finish `f` exactly when `[p, f)` is a syntactic header.
In particular at the end of the input: a header whose last group is not closed matches up to the
end of the input. -/
theorem greedy_iff_synHeader (L : Language) (hL : L ∈ cFamily ∨ L = Gen.java) (hp : HeaderPat)
    (hhp : hp ∈ L.pats) (D : Dfa Pred) (hD : compileTok hp.expr = .ok D) (toks : List Tok)
    (p f : Nat) : GreedyAt (dfaMachine D tokAcceptor) toks p f ↔ SynHeader toks p f := by
  have he : hp.expr = cExpr := by
    rcases hL with hL | rfl
    · rw [(cFamily_pattern L hL).1, List.mem_singleton] at hhp; rw [hhp]
    · rw [java_pattern.1, List.mem_singleton] at hhp; rw [hhp]
  rw [he] at hD
  exact greedyAt_iff_synHeader hD toks p f

/-- the same for the function / method pattern of JavaScript and TypeScript: the greedy matches
are exactly `[function] Name ( ... )` -/
theorem greedy_iff_funHeader (D : Dfa Pred) (hD : compileTok fExpr = .ok D) (toks : List Tok)
    (p f : Nat) : GreedyAt (dfaMachine D tokAcceptor) toks p f ↔ FunHeader toks p f :=
  greedyAt_iff_funHeader hD toks p f

/-! ## 3. C, C++, C#: soundness and completeness -/

/-- Soundness.  Every header that `extract_headers` reports for C / C++ / C# is a syntactic header
`Name ( ... ) ... ( ... )`, directly followed by the symbol `{`, and its name is its first
token. -/
theorem c_header_sound (L : Language) (hL : L ∈ cFamily) (toks : List Tok) (hs : List Header)
    (h : extractHeaders L toks = .ok hs) :
    ∀ hd ∈ hs, SynHeader toks hd.rng.s hd.rng.e ∧ SymbolAt toks hd.rng.e [123] ∧
      toks[hd.rng.s]? = some hd.name := by
  intro hd hhd
  obtain ⟨h1, h2, _, h4⟩ := sound_cExpr (cFamily_shipped L hL) (cFamily_pattern L hL).1 h hd hhd
  exact ⟨h1, (followsAt_brace toks _).1 h2, h4⟩

/-- Completeness on the canonical fragment.  A syntactic header `[p, f)` that is directly followed
by the symbol `{`, has no call-shaped group `Name (` strictly inside its parameter list (known
finding KF1), is reported by `extract_headers` for C / C++ / C#, with its first token as name,
and it is the only reported header that starts at `p`.  (`(` / `)` are punctuation tokens
throughout: `OpenAt`, `groupsEnd`.  No hypothesis on the text of the name token is needed: a name
token is not a punctuation token, see `completeness_without_name_text_holds`.) -/
theorem c_header_complete (L : Language) (hL : L ∈ cFamily) (toks : List Tok) (hs : List Header)
    (h : extractHeaders L toks = .ok hs) (p f : Nat)
    (hsyn : SynHeader toks p f) (hbrace : SymbolAt toks f [123])
    (hnocall : ∀ q, p < q → q + 2 < f → ¬ (NameAt toks q ∧ OpenAt toks (q + 1))) :
    ∃ hd ∈ hs, hd.rng = ⟨p, f⟩ ∧ toks[p]? = some hd.name ∧
      ∀ hd' ∈ hs, hd'.rng.s = p → hd' = hd :=
  complete_cExpr (cFamily_shipped L hL) (cFamily_pattern L hL).1 h hsyn
    ((followsAt_brace toks f).2 hbrace) hbrace.lt
    (prevOk_none (cFamily_pattern L hL).2 toks p) hnocall

/-- `extract_headers` returns on every token list (so `h` above is always available) -/
theorem c_headers_total (L : Language) (hL : L ∈ cFamily) (toks : List Tok) :
    ∃ hs, extractHeaders L toks = .ok hs :=
  C15.extractHeaders_total L (cFamily_shipped L hL) toks

/-! ## 4. the isolation condition `hbefore` is automatic -/

/-- The condition `hbefore` of `C01disc.canonical_header_found` holds for every syntactic header
`[p, f)` that is followed by a token (`f < toks.length`): an attempt from `q < p` that is still
running at `p` reads the name token `toks[p]` as an ordinary token (a name token is not the
punctuation token `)`), so from `p + 1` on it is at least one level deeper than the header at `p`
and cannot finish inside `(p, f]`. -/
theorem hbefore_automatic (L : Language) (hL : L ∈ cFamily ∨ L = Gen.java) (hp : HeaderPat)
    (hhp : hp ∈ L.pats) (D : Dfa Pred) (hD : compileTok hp.expr = .ok D) (toks : List Tok)
    (p f : Nat) (hsyn : SynHeader toks p f) (hlt : f < toks.length) :
    ∀ q f', q < p → GreedyAt (dfaMachine D tokAcceptor) toks q f' → ¬ (p < f' ∧ f' ≤ f) := by
  intro q f' hq hg
  exact hsyn.no_earlier_finish_inside hlt hq
    ((greedy_iff_synHeader L hL hp hhp D hD toks q f').1 hg)

/-- The condition `hafter` of `C01disc.canonical_header_found` follows from "no `Name (` strictly
inside the parameter list": every greedy match starts with a name token directly followed by a
punctuation token `(` and has at least two tokens, so a match from `q > p` that finishes before `f` puts such a pair at
`q` with `q + 2 < f`. -/
theorem hafter_of_no_call (L : Language) (hL : L ∈ cFamily ∨ L = Gen.java) (hp : HeaderPat)
    (hhp : hp ∈ L.pats) (D : Dfa Pred) (hD : compileTok hp.expr = .ok D) (toks : List Tok)
    (p f : Nat)
    (hnocall : ∀ q, p < q → q + 2 < f → ¬ (NameAt toks q ∧ OpenAt toks (q + 1))) :
    ∀ q f', p < q → GreedyAt (dfaMachine D tokAcceptor) toks q f' → ¬ f' < f := by
  intro q f' hq hg hlt
  have hs' := (greedy_iff_synHeader L hL hp hhp D hD toks q f').1 hg
  have := hs'.len
  exact hnocall q hq (by omega) ⟨hs'.1, hs'.2.1⟩

/-- the tokens `g ( ) ( x ) { }` in which the THIRD token `)` is a NAME token -/
def nameCloseToks : List Tok :=
  [nmT [103] 1 1, puT [40] 1 2, nmT [41] 1 3, puT [40] 1 4, nmT [120] 1 5, puT [41] 1 6,
   puT [123] 1 8, puT [125] 1 9]

/-- the completeness clause WITHOUT any hypothesis on the text of the name token -/
def CompletenessWithoutNameText : Prop :=
  ∀ (toks : List Tok) (hs : List Header) (p f : Nat), extractHeaders Gen.c toks = .ok hs →
    SynHeader toks p f → SymbolAt toks f [123] →
    (∀ q, p < q → q + 2 < f → ¬ (NameAt toks q ∧ OpenAt toks (q + 1))) →
    ∃ hd ∈ hs, hd.rng = ⟨p, f⟩

/-- The completeness clause holds without any hypothesis on the text of the name token.  (Before
the repair of defect F25 - `Balanced` compared token TEXTS - it was FALSE: `nameCloseToks` was the
counterexample, a NAME token with the text `)` closed a group of an earlier attempt.  With
`Symbol("(")` / `Symbol(")")` only punctuation tokens open and close groups.) -/
theorem completeness_without_name_text_holds : CompletenessWithoutNameText := by
  intro toks hs p f hex hsyn hbrace hnocall
  obtain ⟨hd, hhd, hr, _⟩ :=
    c_header_complete Gen.c (by simp [cFamily]) toks hs hex p f hsyn hbrace hnocall
  exact ⟨hd, hhd, hr⟩

/-- The former counterexample, now a regression check.  In `g ( ) ( x ) { }` with the first `)`
being a NAME token, that token is an ordinary token inside the group opened at index 1: the
attempt from `g` stays at depth 1 after the last `)` and runs to the end of the input (`[0, 8)`,
no `{` follows), while `[2, 6)` = `) ( x )` is a syntactic header followed by `{` with nothing
call-shaped inside - and it IS reported (before the repair only `[0, 6)` was reported).  (No
Pygments lexer emits a name token with the text `)`; the check concerns the matcher on arbitrary
token lists.) -/
theorem name_token_close_is_ordinary :
    SynHeader nameCloseToks 0 8 ∧ ¬ SynHeader nameCloseToks 0 6 ∧ SynHeader nameCloseToks 2 6 ∧
    SymbolAt nameCloseToks 6 [123] ∧
    (∀ q, 2 < q → q + 2 < 6 → ¬ (NameAt nameCloseToks q ∧ OpenAt nameCloseToks (q + 1))) ∧
    extractHeaders Gen.c nameCloseToks = .ok [⟨nmT [41] 1 3, ⟨2, 6⟩⟩] := by
  refine ⟨by decide, by decide, by decide, by decide, ?_, okEq_sound (by decide +kernel)⟩
  intro q h1 h2
  have : q = 3 := by omega
  subst this
  decide

/-! ## 5. KF1, syntactically -/

/-- Known finding KF1 on the shipped C pattern, restated syntactically: in `f ( g ( x ) ) { }` the
range `[0, 7)` = `f ( g ( x ) )` is a syntactic header followed by the symbol `{`, its name token
is an identifier - and it is NOT reported (`extract_headers` returns nothing), because the
parameter list contains the call-shaped group `g (` at position 2 (`0 < 2`, `2 + 2 < 7`), so the
hypothesis `hnocall` of `c_header_complete` fails, as it must. -/
theorem kf1_syntactic :
    SynHeader C01disc.kf1Toks 0 7 ∧ SymbolAt C01disc.kf1Toks 7 [123] ∧
    (∀ t, C01disc.kf1Toks[0]? = some t → isClose t = false) ∧
    (NameAt C01disc.kf1Toks 2 ∧ OpenAt C01disc.kf1Toks 3) ∧
    SynHeader C01disc.kf1Toks 2 6 ∧ ¬ SymbolAt C01disc.kf1Toks 6 [123] ∧
    extractHeaders Gen.c C01disc.kf1Toks = .ok [] := by
  refine ⟨by decide, by decide, ?_, by decide, by decide, by decide,
    okEq_sound (by decide +kernel)⟩
  intro t ht
  cases ht
  decide

/-! ## 6. Java -/

/-- Soundness for Java: every reported header is a syntactic header, followed by `{` or by
`throws ... {` (no `;` or `{` in between), not preceded by the keyword `record` or `new`, and named
by its first token. -/
theorem java_header_sound (toks : List Tok) (hs : List Header)
    (h : extractHeaders Gen.java toks = .ok hs) :
    ∀ hd ∈ hs, SynHeader toks hd.rng.s hd.rng.e ∧ JavaFollow toks hd.rng.e ∧
      JavaPrevOk toks hd.rng.s ∧ toks[hd.rng.s]? = some hd.name := by
  intro hd hhd
  obtain ⟨h1, h2, h3, h4⟩ :=
    sound_cExpr (L := Gen.java) (by simp [Gen.all]) java_pattern.1 h hd hhd
  exact ⟨h1, (followsAt_java toks _).1 h2, (prevOk_java java_pattern.2 toks _).1 h3, h4⟩

/-- Completeness for Java on the canonical fragment: a syntactic header followed by `{` or
`throws ... {`, not preceded by `record` / `new`, with no `Name (` strictly inside its parameter
list, is reported, exactly once. -/
theorem java_header_complete (toks : List Tok) (hs : List Header)
    (h : extractHeaders Gen.java toks = .ok hs) (p f : Nat)
    (hsyn : SynHeader toks p f) (hfollow : JavaFollow toks f) (hprev : JavaPrevOk toks p)
    (hnocall : ∀ q, p < q → q + 2 < f → ¬ (NameAt toks q ∧ OpenAt toks (q + 1))) :
    ∃ hd ∈ hs, hd.rng = ⟨p, f⟩ ∧ toks[p]? = some hd.name ∧
      ∀ hd' ∈ hs, hd'.rng.s = p → hd' = hd :=
  complete_cExpr (L := Gen.java) (by simp [Gen.all]) java_pattern.1 h hsyn
    ((followsAt_java toks f).2 hfollow) hfollow.lt
    ((prevOk_java java_pattern.2 toks p).2 hprev) hnocall

/-! ## 7. JavaScript and TypeScript: the function / method pattern -/

/-- the second pattern of JavaScript and TypeScript is the arrow pattern
`[Optional(Keyword("const")), Name(), Operator("="), Optional(Keyword("async")),
OneOrMore(Balanced("(", ")"))]` with follow-up `[Symbol("=>"), Symbol("{")]` (pinned by `rfl`
against the regenerated patterns) -/
theorem js_ts_arrow_pattern :
    Gen.javascript.pats = [⟨fExpr, some braceRx⟩, ⟨aExpr, some aFollow⟩] ∧
    Gen.typescript.pats = [⟨fExpr, some (tailRx (.operator [58]))⟩, ⟨aExpr, some aFollow⟩] :=
  ⟨js_pats, ts_pats⟩

/-- the greedy matches of the arrow pattern are exactly the token ranges
`[const] Name = [async] ( … )+` (`ArrowHeader`), on every token list; in terms of the index `n` of
the Name token: `ArrowHeaderAt toks n f`, the range starting at `n` or at the keyword `const`
directly in front of it -/
theorem arrow_matches_iff (D : Dfa Pred) (hD : compileTok aExpr = .ok D) (toks : List Tok)
    (p f : Nat) :
    GreedyAt (dfaMachine D tokAcceptor) toks p f ↔
      ∃ n, (n = p ∨ (n = p + 1 ∧ KeywordAt toks p [99, 111, 110, 115, 116])) ∧
        ArrowHeaderAt toks n f := by
  rw [greedyAt_iff_arrowHeader hD toks p f, arrowHeader_iff_at]

/-- Soundness for JavaScript: every reported header is

* a function / method header `[function] Name ( ... )` followed by the symbol `{`, named by its
  name token, or
* an arrow header `[const] Name = [async] ( ... )` followed by the symbols `=>` `{`, named by its
  Name token `toks[n]` (the range starts at `n`, or at the keyword `const` in front of it)

- and nothing else. -/
theorem js_header_sound (toks : List Tok) (hs : List Header)
    (h : extractHeaders Gen.javascript toks = .ok hs) :
    ∀ hd ∈ hs,
      (FunHeader toks hd.rng.s hd.rng.e ∧ SymbolAt toks hd.rng.e [123] ∧
        ((SynHeader toks hd.rng.s hd.rng.e ∧ toks[hd.rng.s]? = some hd.name) ∨
         (SynHeader toks (hd.rng.s + 1) hd.rng.e ∧ toks[hd.rng.s + 1]? = some hd.name))) ∨
      (ArrowHeader toks hd.rng.s hd.rng.e ∧ ArrowFollow toks hd.rng.e ∧
        ∃ n, (n = hd.rng.s ∨
            (n = hd.rng.s + 1 ∧ KeywordAt toks hd.rng.s [99, 111, 110, 115, 116])) ∧
          ArrowHeaderAt toks n hd.rng.e ∧ toks[n]? = some hd.name) := by
  intro hd hhd
  rcases sound_fExpr_extract (L := Gen.javascript) (by simp [Gen.all]) js_pats h hd hhd with
    ⟨h1, h2, h3⟩ | ⟨hs2, h1, h2⟩
  · exact .inl ⟨h1, (followsAt_brace toks _).1 h2, h3⟩
  · exact .inr (sound_aExpr (L := Gen.javascript) (by simp [Gen.all]) (by rw [js_pats]; simp) h1
      hd h2)

/-- Completeness for JavaScript on the canonical fragment: let `toks[n]` be a name token directly
followed by a punctuation token `(`, `f` the end of its parenthesis groups, followed by the symbol
`{`, with no `Name (` strictly inside the parameter list.  Then
`extract_headers` reports a header named `toks[n]` with range `[funStart toks n, f)` - starting
at the keyword `function` when `toks[n - 1]` is that keyword, at `n` otherwise - exactly once. -/
theorem js_header_complete (toks : List Tok) (hs : List Header)
    (h : extractHeaders Gen.javascript toks = .ok hs) (n f : Nat)
    (hsyn : SynHeader toks n f) (hbrace : SymbolAt toks f [123])
    (hnocall : ∀ q, n < q → q + 2 < f → ¬ (NameAt toks q ∧ OpenAt toks (q + 1))) :
    ∃ hd ∈ hs, hd.rng = ⟨funStart toks n, f⟩ ∧ toks[n]? = some hd.name ∧
      ∀ hd' ∈ hs, hd'.rng.s = funStart toks n → hd' = hd := by
  obtain ⟨arrow, hpats, hprev⟩ := js_pattern
  exact complete_fExpr (L := Gen.javascript) (by simp [Gen.all])
    (by rw [hpats]; exact List.mem_cons_self ..) hprev h hsyn
    ((followsAt_brace toks f).2 hbrace) hbrace.lt hnocall

/-- Soundness for TypeScript: as for JavaScript, with the follow-up `{` or `: ... {` (a return
type annotation without `;` or `{`) for function / method headers; arrow headers as in
JavaScript. -/
theorem ts_header_sound (toks : List Tok) (hs : List Header)
    (h : extractHeaders Gen.typescript toks = .ok hs) :
    ∀ hd ∈ hs,
      (FunHeader toks hd.rng.s hd.rng.e ∧ TsFollow toks hd.rng.e ∧
        ((SynHeader toks hd.rng.s hd.rng.e ∧ toks[hd.rng.s]? = some hd.name) ∨
         (SynHeader toks (hd.rng.s + 1) hd.rng.e ∧ toks[hd.rng.s + 1]? = some hd.name))) ∨
      (ArrowHeader toks hd.rng.s hd.rng.e ∧ ArrowFollow toks hd.rng.e ∧
        ∃ n, (n = hd.rng.s ∨
            (n = hd.rng.s + 1 ∧ KeywordAt toks hd.rng.s [99, 111, 110, 115, 116])) ∧
          ArrowHeaderAt toks n hd.rng.e ∧ toks[n]? = some hd.name) := by
  intro hd hhd
  rcases sound_fExpr_extract (L := Gen.typescript) (by simp [Gen.all]) ts_pats h hd hhd with
    ⟨h1, h2, h3⟩ | ⟨hs2, h1, h2⟩
  · exact .inl ⟨h1, (followsAt_ts toks _).1 h2, h3⟩
  · exact .inr (sound_aExpr (L := Gen.typescript) (by simp [Gen.all]) (by rw [ts_pats]; simp) h1
      hd h2)

/-- Completeness for TypeScript on the canonical fragment (as `js_header_complete`, with the
TypeScript follow-up). -/
theorem ts_header_complete (toks : List Tok) (hs : List Header)
    (h : extractHeaders Gen.typescript toks = .ok hs) (n f : Nat)
    (hsyn : SynHeader toks n f) (hfollow : TsFollow toks f)
    (hnocall : ∀ q, n < q → q + 2 < f → ¬ (NameAt toks q ∧ OpenAt toks (q + 1))) :
    ∃ hd ∈ hs, hd.rng = ⟨funStart toks n, f⟩ ∧ toks[n]? = some hd.name ∧
      ∀ hd' ∈ hs, hd'.rng.s = funStart toks n → hd' = hd := by
  obtain ⟨arrow, hpats, hprev⟩ := ts_pattern
  exact complete_fExpr (L := Gen.typescript) (by simp [Gen.all])
    (by rw [hpats]; exact List.mem_cons_self ..) hprev h hsyn
    ((followsAt_ts toks f).2 hfollow) hfollow.lt hnocall

/-! ## 7a. JavaScript and TypeScript: the arrow pattern -/

/-- Completeness for the arrow pattern of JavaScript on the canonical fragment: let `toks[n]` be a
Name token directly followed by `= (` or `= async (` (`ArrowHeaderAt toks n f`: `f` the end of its
parenthesis groups), followed by the symbols `=>` `{`, with no `Name = [async] (` strictly inside
the parameter list (the arrow analogue of KF1, `arrow_kf1_syntactic`).  Then `extract_headers`
reports a header named `toks[n]` with range `[constStart toks n, f)` - starting at the keyword
`const` when `toks[n - 1]` is that keyword, at `n` otherwise - exactly once. -/
theorem js_arrow_header_complete (toks : List Tok) (hs : List Header)
    (h : extractHeaders Gen.javascript toks = .ok hs) (n f : Nat)
    (hat : ArrowHeaderAt toks n f) (hfo : ArrowFollow toks f)
    (hno : ∀ j, n < j → j + 2 < f → ¬ ArrowStartAt toks j) :
    ∃ hd ∈ hs, hd.rng = ⟨constStart toks n, f⟩ ∧ toks[n]? = some hd.name ∧
      ∀ hd' ∈ hs, hd'.rng.s = constStart toks n → hd' = hd :=
  complete_aExpr (L := Gen.javascript) (by simp [Gen.all]) (by rw [js_pats]; simp) rfl h hat hfo hno

/-- Completeness for the arrow pattern of TypeScript (the arrow pattern and its follow-up are the
same as in JavaScript: an arrow function WITH a return type annotation, `( a ) : T => {`, is not
followed by `=>` and is not reported). -/
theorem ts_arrow_header_complete (toks : List Tok) (hs : List Header)
    (h : extractHeaders Gen.typescript toks = .ok hs) (n f : Nat)
    (hat : ArrowHeaderAt toks n f) (hfo : ArrowFollow toks f)
    (hno : ∀ j, n < j → j + 2 < f → ¬ ArrowStartAt toks j) :
    ∃ hd ∈ hs, hd.rng = ⟨constStart toks n, f⟩ ∧ toks[n]? = some hd.name ∧
      ∀ hd' ∈ hs, hd'.rng.s = constStart toks n → hd' = hd :=
  complete_aExpr (L := Gen.typescript) (by simp [Gen.all]) (by rw [ts_pats]; simp) rfl h hat hfo hno

/-- the JavaScript tokens of `const f = async ( a ) => { }` -/
def arrowToks : List Tok :=
  [kwT [99, 111, 110, 115, 116] 1 1, nmT [102] 1 7, opT [61] 1 9, kwT [97, 115, 121, 110, 99] 1 11,
   puT [40] 1 17, nmT [97] 1 19, puT [41] 1 21, puT [61, 62] 1 23, puT [123] 1 26, puT [125] 1 28]

/-- non-vacuity: the hypotheses of `js_arrow_header_complete` hold for the name token at index 1
(`arrowOpen` = 4: the keyword `async` stands at index 3), the reported range starts at the keyword
`const` (index 0), and the conclusion agrees with the evaluation of `extract_headers` -/
example : ArrowHeaderAt arrowToks 1 7 ∧ arrowOpen arrowToks 1 = 4 ∧ ArrowFollow arrowToks 7 ∧
    constStart arrowToks 1 = 0 ∧ ArrowHeader arrowToks 0 7 ∧
    (∀ j, 1 < j → j + 2 < 7 → ¬ ArrowStartAt arrowToks j) ∧
    extractHeaders Gen.javascript arrowToks = .ok [⟨nmT [102] 1 7, ⟨0, 7⟩⟩] ∧
    extractHeaders Gen.typescript arrowToks = .ok [⟨nmT [102] 1 7, ⟨0, 7⟩⟩] := by
  refine ⟨by decide, by decide, by decide, by decide,
    (arrowHeader_iff_at _ _ _).2 ⟨1, .inr ⟨rfl, by decide⟩, by decide⟩, ?_,
    okEq_sound (by decide +kernel), okEq_sound (by decide +kernel)⟩
  intro j h1 h2
  have : j = 2 ∨ j = 3 ∨ j = 4 := by omega
  rcases this with rfl | rfl | rfl <;> decide

/-- the JavaScript tokens of `const f = ( a = ( b ) ) => { }`: the parameter list contains the
assignment-shaped group `a = ( b )` -/
def arrowKf1Toks : List Tok :=
  [kwT [99, 111, 110, 115, 116] 1 1, nmT [102] 1 7, opT [61] 1 9, puT [40] 1 11, nmT [97] 1 13,
   opT [61] 1 15, puT [40] 1 17, nmT [98] 1 19, puT [41] 1 21, puT [41] 1 23, puT [61, 62] 1 25,
   puT [123] 1 28, puT [125] 1 30]

/-- **The restriction "no `Name = [async] (` inside the parameter list" is needed: the arrow
analogue of KF1, syntactically.**  In `const f = ( a = ( b ) ) => { }` the range `[0, 10)` is an
arrow header (name token at index 1) followed by `=>` `{` - and it is NOT reported
(`extract_headers` returns nothing): `a = ( b )` at index 4 is itself a match of the arrow pattern
(`ArrowStartAt arrowKf1Toks 4`, `1 < 4`, `4 + 2 < 10`), finishes first and discards the attempt
that started at `const`; it then fails the follow-up test.  So `hno` of
`js_arrow_header_complete` fails, as it must. -/
theorem arrow_kf1_syntactic :
    ArrowHeaderAt arrowKf1Toks 1 10 ∧ ArrowFollow arrowKf1Toks 10 ∧ constStart arrowKf1Toks 1 = 0 ∧
    ArrowStartAt arrowKf1Toks 4 ∧ ArrowHeaderAt arrowKf1Toks 4 9 ∧ ¬ ArrowFollow arrowKf1Toks 9 ∧
    extractHeaders Gen.javascript arrowKf1Toks = .ok [] := by
  refine ⟨by decide, by decide, by decide, by decide, by decide, by decide,
    okEq_sound (by decide +kernel)⟩

/-- hence the completeness clause WITHOUT the restriction is false -/
theorem arrow_complete_without_restriction_false :
    ¬ ∀ (toks : List Tok) (hs : List Header) (n f : Nat),
      extractHeaders Gen.javascript toks = .ok hs → ArrowHeaderAt toks n f → ArrowFollow toks f →
      ∃ hd ∈ hs, hd.rng = ⟨constStart toks n, f⟩ := by
  intro h
  obtain ⟨h1, h2, _, _, _, _, h7⟩ := arrow_kf1_syntactic
  obtain ⟨hd, hhd, _⟩ := h _ _ 1 10 h7 h1 h2
  cases hhd

/-! ## 7b. "reports nothing that is not a function definition": every measurement, syntactically

`C01disc.measurement_is_header` says this in terms of the matching engine (`GreedyAt` of a compiled
DFA, `FollowsAt`).  Here the same on notions a reader can check on the source file: every
measurement that `scan_file` returns belongs to a SYNTACTIC header of the code tokens - with its
follow-up tokens -, starts at its first token, carries the text of its Name token, ends just past a
code token behind the header, and has a length between 1 and the number of distinct lines in
between.  `measurements_start_distinct`: distinct measurements start at distinct tokens (no header
is reported twice).  Stated for `scan_file` on an arbitrary token list `all` (no hypothesis on the
lexer; `toks` are its code tokens), hence for `_analyze_file` on every text
(`analyze_measurement_is_synHeader`). -/

/-- **C, C++, C#: every measurement is the measurement of `Name ( … )+ {`.**  For every token list:
each measurement starts at the location of a Name token `toks[p]` that is directly followed by a
punctuation token `(`, `[p, f)` being the maximal run of parenthesis groups behind it
(`SynHeader`), with the symbol `{` at `f`; its name is the text of `toks[p]`; it ends just past the
code token `toks[e - 1]` with `f < e`; `1 ≤ len ≤` the number of distinct lines of `toks[p..e)`. -/
theorem measurement_is_synHeader (L : Language) (hL : L ∈ cFamily) (all : List Tok)
    (ms : List Measurement) (h : scanFile L all = .ok ms) (toks : List Tok)
    (htoks : toks = filterTokens false all) :
    ∀ m ∈ ms, ∃ p f e t last, SynHeader toks p f ∧ SymbolAt toks f [123] ∧
      toks[p]? = some t ∧ (m.sl, m.sc) = (t.line, t.col) ∧ m.name = t.val ∧
      f < e ∧ e ≤ toks.length ∧ toks[e - 1]? = some last ∧ (m.el, m.ec) = last.endPos ∧
      1 ≤ m.len ∧ m.len ≤ countDistinct (((toks.drop p).take (e - p)).map (·.line)) := by
  subst htoks
  intro m hm
  obtain ⟨hs, hd, e, first, last, hhs, hhd, h1, h2, h3, h4, h5, h6, h7, h8, h9⟩ :=
    measurement_from_header_full L (cFamily_shipped L hL) all (.inl (by
      simp only [cFamily, List.mem_cons, List.not_mem_nil, or_false] at hL
      rcases hL with rfl | rfl | rfl <;> rfl)) h m hm
  obtain ⟨s1, s2, s3⟩ := c_header_sound L hL _ hs hhs hd hhd
  rw [h3] at s3; cases s3
  exact ⟨hd.rng.s, hd.rng.e, e, hd.name, last, s1, s2, h3, h5, h6, h1, h2, h4, h7, h8, h9⟩

/-- **Java**: every measurement is the measurement of `Name ( … )+` followed by `{` or
`throws … {`, not preceded by the keyword `new` / `record`. -/
theorem measurement_is_synHeader_java (all : List Tok)
    (ms : List Measurement) (h : scanFile Gen.java all = .ok ms) (toks : List Tok)
    (htoks : toks = filterTokens false all) :
    ∀ m ∈ ms, ∃ p f e t last, SynHeader toks p f ∧ JavaFollow toks f ∧ JavaPrevOk toks p ∧
      toks[p]? = some t ∧ (m.sl, m.sc) = (t.line, t.col) ∧ m.name = t.val ∧
      f < e ∧ e ≤ toks.length ∧ toks[e - 1]? = some last ∧ (m.el, m.ec) = last.endPos ∧
      1 ≤ m.len ∧ m.len ≤ countDistinct (((toks.drop p).take (e - p)).map (·.line)) := by
  subst htoks
  intro m hm
  obtain ⟨hs, hd, e, first, last, hhs, hhd, h1, h2, h3, h4, h5, h6, h7, h8, h9⟩ :=
    measurement_from_header_full Gen.java (by simp [Gen.all]) all (.inl rfl) h m hm
  obtain ⟨s1, s2, s2', s3⟩ := java_header_sound _ hs hhs hd hhd
  rw [h3] at s3; cases s3
  exact ⟨hd.rng.s, hd.rng.e, e, hd.name, last, s1, s2, s2', h3, h5, h6, h1, h2, h4, h7, h8, h9⟩

/-- the shape of a JavaScript / TypeScript header `[p, f)` whose Name token is `toks[n]`: a
function / method header `[function] Name ( … )+` (then `follow` holds at `f`), or an arrow header
`[const] Name = [async] ( … )+` followed by `=>` `{` -/
def JsHeaderShape (follow : List Tok → Nat → Prop) (toks : List Tok) (p n f : Nat) : Prop :=
  (FunHeader toks p f ∧ follow toks f ∧ SynHeader toks n f ∧
    (n = p ∨ (n = p + 1 ∧ KeywordAt toks p [102, 117, 110, 99, 116, 105, 111, 110]))) ∨
  (ArrowHeader toks p f ∧ ArrowFollow toks f ∧ ArrowHeaderAt toks n f ∧
    (n = p ∨ (n = p + 1 ∧ KeywordAt toks p [99, 111, 110, 115, 116])))

/-- **JavaScript**: every measurement is the measurement of a function / method header
`[function] Name ( … )+ {` or of an arrow header `[const] Name = [async] ( … )+ => {`; it starts at
the first token of the header (`function` / `const` included) and carries the text of the Name
token `toks[n]`. -/
theorem measurement_is_synHeader_js (all : List Tok)
    (ms : List Measurement) (h : scanFile Gen.javascript all = .ok ms) (toks : List Tok)
    (htoks : toks = filterTokens false all) :
    ∀ m ∈ ms, ∃ p n f e first t last,
      JsHeaderShape (fun toks f => SymbolAt toks f [123]) toks p n f ∧
      toks[p]? = some first ∧ (m.sl, m.sc) = (first.line, first.col) ∧
      toks[n]? = some t ∧ m.name = t.val ∧
      f < e ∧ e ≤ toks.length ∧ toks[e - 1]? = some last ∧ (m.el, m.ec) = last.endPos ∧
      1 ≤ m.len ∧ m.len ≤ countDistinct (((toks.drop p).take (e - p)).map (·.line)) := by
  subst htoks
  intro m hm
  obtain ⟨hs, hd, e, first, last, hhs, hhd, h1, h2, h3, h4, h5, h6, h7, h8, h9⟩ :=
    measurement_from_header_full Gen.javascript (by simp [Gen.all]) all (.inl rfl) h m hm
  rcases js_header_sound _ hs hhs hd hhd with ⟨a1, a2, ⟨a3, a4⟩ | ⟨a3, a4⟩⟩ | ⟨a1, a2, n, a3, a4, a5⟩
  · exact ⟨hd.rng.s, hd.rng.s, hd.rng.e, e, first, hd.name, last,
      .inl ⟨a1, a2, a3, .inl rfl⟩, h3, h5, a4, h6, h1, h2, h4, h7, h8, h9⟩
  · have hk : KeywordAt (filterTokens false all) hd.rng.s [102, 117, 110, 99, 116, 105, 111, 110] := by
      rcases a1 with b | ⟨b, _⟩
      · exfalso
        -- `toks[s + 1]` would be a Name token (name of `a3`) and the `(` after the name of `b`
        obtain ⟨t1, ht1, hn1⟩ := a3.1
        obtain ⟨t2, ht2, ho2⟩ := b.2.1
        rw [ht1] at ht2; cases ht2
        simp only [Tok.isName, beq_iff_eq] at hn1
        simp [isOpen, Tok.isSymbol, hn1] at ho2
      · exact b
    exact ⟨hd.rng.s, hd.rng.s + 1, hd.rng.e, e, first, hd.name, last,
      .inl ⟨a1, a2, a3, .inr ⟨rfl, hk⟩⟩, h3, h5, a4, h6, h1, h2, h4, h7, h8, h9⟩
  · exact ⟨hd.rng.s, n, hd.rng.e, e, first, hd.name, last,
      .inr ⟨a1, a2, a4, a3⟩, h3, h5, a5, h6, h1, h2, h4, h7, h8, h9⟩

/-- **TypeScript**: as JavaScript, a function / method header being followed by `{` or by
`: … {` (`TsFollow`). -/
theorem measurement_is_synHeader_ts (all : List Tok)
    (ms : List Measurement) (h : scanFile Gen.typescript all = .ok ms) (toks : List Tok)
    (htoks : toks = filterTokens false all) :
    ∀ m ∈ ms, ∃ p n f e first t last, JsHeaderShape TsFollow toks p n f ∧
      toks[p]? = some first ∧ (m.sl, m.sc) = (first.line, first.col) ∧
      toks[n]? = some t ∧ m.name = t.val ∧
      f < e ∧ e ≤ toks.length ∧ toks[e - 1]? = some last ∧ (m.el, m.ec) = last.endPos ∧
      1 ≤ m.len ∧ m.len ≤ countDistinct (((toks.drop p).take (e - p)).map (·.line)) := by
  subst htoks
  intro m hm
  obtain ⟨hs, hd, e, first, last, hhs, hhd, h1, h2, h3, h4, h5, h6, h7, h8, h9⟩ :=
    measurement_from_header_full Gen.typescript (by simp [Gen.all]) all (.inl rfl) h m hm
  rcases ts_header_sound _ hs hhs hd hhd with ⟨a1, a2, ⟨a3, a4⟩ | ⟨a3, a4⟩⟩ | ⟨a1, a2, n, a3, a4, a5⟩
  · exact ⟨hd.rng.s, hd.rng.s, hd.rng.e, e, first, hd.name, last,
      .inl ⟨a1, a2, a3, .inl rfl⟩, h3, h5, a4, h6, h1, h2, h4, h7, h8, h9⟩
  · have hk : KeywordAt (filterTokens false all) hd.rng.s [102, 117, 110, 99, 116, 105, 111, 110] := by
      rcases a1 with b | ⟨b, _⟩
      · exfalso
        obtain ⟨t1, ht1, hn1⟩ := a3.1
        obtain ⟨t2, ht2, ho2⟩ := b.2.1
        rw [ht1] at ht2; cases ht2
        simp only [Tok.isName, beq_iff_eq] at hn1
        simp [isOpen, Tok.isSymbol, hn1] at ho2
      · exact b
    exact ⟨hd.rng.s, hd.rng.s + 1, hd.rng.e, e, first, hd.name, last,
      .inl ⟨a1, a2, a3, .inr ⟨rfl, hk⟩⟩, h3, h5, a4, h6, h1, h2, h4, h7, h8, h9⟩
  · exact ⟨hd.rng.s, n, hd.rng.e, e, first, hd.name, last,
      .inr ⟨a1, a2, a4, a3⟩, h3, h5, a5, h6, h1, h2, h4, h7, h8, h9⟩

/-- **No function is reported twice**: when the code tokens stand at strictly increasing locations
(C16), the measurements start at strictly increasing locations; in particular their start
locations are pairwise different.  (All seven languages.) -/
theorem measurements_start_distinct (L : Language) (hL : L ∈ Gen.all.map (·.2)) (all : List Tok)
    (ms : List Measurement)
    (hpos : (filterTokens false all).Pairwise
      (fun a b => a.line < b.line ∨ (a.line = b.line ∧ a.col < b.col)))
    (h : scanFile L all = .ok ms) :
    ms.Pairwise (fun a b => a.sl < b.sl ∨ (a.sl = b.sl ∧ a.sc < b.sc)) ∧
    (ms.map (fun m => (m.sl, m.sc))).Nodup := by
  obtain ⟨scs, hscs, _⟩ := scanFile_decomp h
  obtain ⟨hs, _, _, hhs, _⟩ := buildScopes_decomp hscs
  have hord : ms.Pairwise (fun a b => a.sl < b.sl ∨ (a.sl = b.sl ∧ a.sc < b.sc)) :=
    scanFile_order L hL all hpos hhs (extractHeaders_starts_nodup L hL hhs) h
  refine ⟨hord, ?_⟩
  rw [List.Nodup, List.pairwise_map]
  refine hord.imp ?_
  intro a b hab heq
  have h1 := congrArg Prod.fst heq
  have h2 := congrArg Prod.snd heq
  simp only at h1 h2
  omega

/-- the same for `_analyze_file` on every text and every lexer output (C, C++, C#) -/
theorem analyze_measurement_is_synHeader (L : Language) (hL : L ∈ cFamily) (code : Str)
    (raw : List RawTok) (ms : List Measurement) (n : Nat) (ha : analyze L code raw = .ok (ms, n))
    (toks : List Tok) (htoks : toks = filterTokens false (lex code raw false)) :
    ∀ m ∈ ms, ∃ p f e t last, SynHeader toks p f ∧ SymbolAt toks f [123] ∧
      toks[p]? = some t ∧ (m.sl, m.sc) = (t.line, t.col) ∧ m.name = t.val ∧
      f < e ∧ e ≤ toks.length ∧ toks[e - 1]? = some last ∧ (m.el, m.ec) = last.endPos ∧
      1 ≤ m.len ∧ m.len ≤ countDistinct (((toks.drop p).take (e - p)).map (·.line)) :=
  measurement_is_synHeader L hL _ ms (analyze_scan ha) toks htoks

/-! ## 8. non-vacuity -/

/-- `int f ( int a ) { }` (the tokens of `C01disc.canonToks`): `[1, 6)` = `f ( int a )` satisfies
every hypothesis of `c_header_complete`, and is what `extract_headers` returns -/
example : SynHeader C01disc.canonToks 1 6 ∧ SymbolAt C01disc.canonToks 6 [123] ∧
    (∀ q, 1 < q → q + 2 < 6 →
      ¬ (NameAt C01disc.canonToks q ∧ OpenAt C01disc.canonToks (q + 1))) ∧
    groupEnd C01disc.canonToks 2 = some 6 ∧
    extractHeaders Gen.c C01disc.canonToks = .ok [⟨nmT [102] 1 5, ⟨1, 6⟩⟩] := by
  refine ⟨by decide, by decide, ?_, by decide, okEq_sound (by decide +kernel)⟩
  · intro q h1 h2
    have : q = 2 ∨ q = 3 := by omega
    rcases this with rfl | rfl <;> decide

/-- the tokens of `f ( a ) ( b ) {`: two consecutive groups -/
def twoGroups : List Tok :=
  [nmT [102] 1 1, puT [40] 1 2, nmT [97] 1 3, puT [41] 1 4, puT [40] 1 5, nmT [98] 1 6,
   puT [41] 1 7, puT [123] 1 9]

/-- `groupsEnd` runs over both groups: `groupEnd` gives 4, then 7, then the run stops at `{` -/
example : groupEnd twoGroups 1 = some 4 ∧ groupEnd twoGroups 4 = some 7 ∧
    groupEnd twoGroups 7 = none ∧ groupsEnd twoGroups 1 = 7 ∧ SynHeader twoGroups 0 7 ∧
    ¬ SynHeader twoGroups 0 4 := by decide

/-- the tokens of `f ( (` followed by the end of the input -/
def unclosedToks : List Tok := [nmT [102] 1 1, puT [40] 1 2, puT [40] 1 3]

/-- end of input: in `f ( (` the group is never closed and the header extends
to the end of the input; in `h ( f ( x )` (`C01disc.enclToks`) both `[0, 6)` and `[2, 6)` are
syntactic headers, and `6 = toks.length`, so `hbefore_automatic` does not apply -/
example : SynHeader unclosedToks 0 3 ∧ groupEnd unclosedToks 1 = none ∧
    SynHeader C01disc.enclToks 0 6 ∧ SynHeader C01disc.enclToks 2 6 ∧
    C01disc.enclToks.length = 6 := by decide

/-- the Java tokens of `void m ( ) throws E { }` -/
def javaToks : List Tok :=
  [kwT [118, 111, 105, 100] 1 1, nmT [109] 1 6, puT [40] 1 7, puT [41] 1 8,
   kwT [116, 104, 114, 111, 119, 115] 1 10, nmT [69] 1 17, puT [123] 1 19, puT [125] 1 20]

/-- the Java tokens of `new T ( ) { }` (an anonymous class body) -/
def javaNewToks : List Tok :=
  [kwT [110, 101, 119] 1 1, nmT [84] 1 5, puT [40] 1 6, puT [41] 1 7, puT [123] 1 9,
   puT [125] 1 10]

/-- Java: `m ( )` followed by `throws E {` is reported; `T ( )` after `new` is not -/
example : SynHeader javaToks 1 4 ∧ JavaFollow javaToks 4 ∧ JavaPrevOk javaToks 1 ∧
    extractHeaders Gen.java javaToks = .ok [⟨nmT [109] 1 6, ⟨1, 4⟩⟩] ∧
    SynHeader javaNewToks 1 4 ∧ JavaFollow javaNewToks 4 ∧ ¬ JavaPrevOk javaNewToks 1 ∧
    extractHeaders Gen.java javaNewToks = .ok [] := by
  refine ⟨by decide, by decide, by decide, okEq_sound (by decide +kernel), by decide, by decide,
    by decide, okEq_sound (by decide +kernel)⟩

/-- the JavaScript / TypeScript tokens of `function f ( x ) : T { }` -/
def tsToks : List Tok :=
  [kwT [102, 117, 110, 99, 116, 105, 111, 110] 1 1, nmT [102] 1 10, puT [40] 1 11,
   nmT [120] 1 12, puT [41] 1 13, opT [58] 1 15, nmT [84] 1 17, puT [123] 1 19, puT [125] 1 20]

/-- the JavaScript tokens of `m ( x ) { }` (a method) -/
def jsMethodToks : List Tok :=
  [nmT [109] 1 1, puT [40] 1 3, nmT [120] 1 4, puT [41] 1 5, puT [123] 1 7, puT [125] 1 8]

/-- TypeScript: `function f ( x )` followed by `: T {` is reported from the keyword `function`;
JavaScript: the method `m ( x )` followed by `{` is reported from its name -/
example : SynHeader tsToks 1 5 ∧ TsFollow tsToks 5 ∧ funStart tsToks 1 = 0 ∧
    FunHeader tsToks 0 5 ∧
    extractHeaders Gen.typescript tsToks = .ok [⟨nmT [102] 1 10, ⟨0, 5⟩⟩] ∧
    SynHeader jsMethodToks 0 4 ∧ SymbolAt jsMethodToks 4 [123] ∧ funStart jsMethodToks 0 = 0 ∧
    extractHeaders Gen.javascript jsMethodToks = .ok [⟨nmT [109] 1 1, ⟨0, 4⟩⟩] := by
  refine ⟨by decide, by decide, by decide, by decide, okEq_sound (by decide +kernel), by decide,
    by decide, by decide, okEq_sound (by decide +kernel)⟩

/-- `measurement_is_synHeader` on `int f ( int a ) { }`: the one measurement (line 1, columns
5 - 16, length 1) belongs to the syntactic header `[1, 6)` = `f ( int a )` followed by `{`, and ends
just past token 7 = `}` -/
example : scanFile Gen.c C01disc.canonToks = .ok [⟨[102], 1, 5, 1, 16, 1⟩] ∧
    ∃ p f e t last, SynHeader C01disc.canonToks p f ∧ SymbolAt C01disc.canonToks f [123] ∧
      C01disc.canonToks[p]? = some t ∧ ((1 : Nat), (5 : Nat)) = (t.line, t.col) ∧ [102] = t.val ∧
      f < e ∧ e ≤ C01disc.canonToks.length ∧ C01disc.canonToks[e - 1]? = some last ∧
      ((1 : Nat), (16 : Nat)) = last.endPos ∧ 1 ≤ 1 ∧
      1 ≤ countDistinct (((C01disc.canonToks.drop p).take (e - p)).map (·.line)) := by
  have hscan : scanFile Gen.c C01disc.canonToks = .ok [⟨[102], 1, 5, 1, 16, 1⟩] :=
    scanFile_eval (by decide +kernel)
  exact ⟨hscan, measurement_is_synHeader Gen.c (by simp [cFamily]) C01disc.canonToks _ hscan
    C01disc.canonToks (by decide) _ (List.mem_singleton.2 rfl)⟩

/-- the language hypotheses are inhabited -/
example : Gen.c ∈ cFamily ∧ Gen.cpp ∈ cFamily ∧ Gen.csharp ∈ cFamily := by
  simp [cFamily]

end CL.C01syn
