import CodeLimit.Lemmas.TokenNestBisim
import CodeLimit.Lemmas.TokenNestExit
import CodeLimit.Lemmas.TokenNestShapes
import CodeLimit.Lemmas.TokenNestShared
import CodeLimit.Props.C14
/-!
# C14 for predicates that carry state INSIDE combinators (`Model/TokenNest.lean`)

`Model/Token.lean` evaluates a `Balanced` nested inside `Not` / `And` / `Or` / `Balanced` to
`false` (the pattern extractor refuses such patterns). `Model/TokenNest.lean` models the Python
objects themselves: every `Balanced` node of a predicate tree has its own `depth`, `Or` / `And`
short-circuit, a closing token at depth 0 leaves the depth at `-1`, and every attempt works on
its own deep copy of each template predicate. Property theorems only.

* (a) conservative extension: on patterns whose `Balanced` are all top-level with stateless
  operands (every shipped pattern) the object machine is bisimilar to the machine of
  `Model/Token.lean`; `find_all` returns the same - so every theorem about the old model is a
  theorem about the object model (`find_all_transfer`, `shipped_find_all_transfer`).
* (b) bounds / records / soundness / maximality / order / disjointness / partial completeness
  for ALL patterns over predicate objects.
* (c) isolation: what the deepcopy discipline guarantees (`template_unchanged`,
  `deep_is_functional`, `calls_do_not_interfere`, `copy_is_function_of_tokens`,
  `attempt_is_function_of_slice`), and what a shallow copy destroys (`shallow_*`).
* (d) the balance clause: `stuck_not_saturated` (all predicates), `early_end_no_open_group`
  (`Or`-trees), `early_end_back_to_template` (the class `rightBal`), `or_two_balanced_exit`,
  and witnesses for every way of leaving the class (`or_left_goes_negative`,
  `zero_depths_but_open_group`, `and_ends_inside_group`, `not_goes_negative`,
  `balanced_child_goes_negative`).

All concrete evaluations below were compared with the real `find_all` (and, for the shallow
ones, with the real code under the seeded change C14-7).
-/
namespace CL.C14nest

/-! ## (a) conservative extension -/

/-- on a table whose labels are all `topOk` the machine of `Model/Token.lean` and the machine
over predicate objects are bisimilar: same table state, and the attempt's copy of a predicate
`p` is the object `p` with the depth `Model/Token.lean` stores for `p` -/
theorem machines_bisimilar (D : Dfa Pred) (hok : ∀ s, ∀ pt ∈ D.row s, pt.1.topOk = true) :
    Bisim (dfaMachine D tokAcceptor) (dfaMachine (D.map Pred.emb) nestAcceptor) NestRel :=
  nest_bisim D hok

/-- compiling commutes with the passage to objects (for every expression) -/
theorem compile_commutes (r : Rx Pred) :
    compileNest (r.map Pred.emb) = (compileTok r).map (Dfa.map Pred.emb) :=
  compileNest_map_emb r

/-- TRANSFER. For an expression all of whose predicates have their `Balanced` at the top with
stateless operands, `find_all` in the object model returns exactly what `find_all` in
`Model/Token.lean` returns (the same matches or the same error), for every token list. -/
theorem find_all_transfer (r : Rx Pred) (hr : ∀ p ∈ r.atoms, p.topOk = true) (toks : List Tok) :
    findAllNest (r.map Pred.emb) toks = findAllTok r toks :=
  findAllNest_emb r hr toks

/-- `matcher.match` and `matcher.starts_with` transfer as well -/
theorem match_starts_with_transfer (D : Dfa Pred) (hok : ∀ s, ∀ pt ∈ D.row s, pt.1.topOk = true)
    (toks : List Tok) :
    matchM (dfaMachine D tokAcceptor) (.start, []) toks 0
      = matchM (dfaMachine (D.map Pred.emb) nestAcceptor) (.start, []) toks 0 ∧
    startsWithM (dfaMachine D tokAcceptor) (.start, []) toks 0
      = startsWithM (dfaMachine (D.map Pred.emb) nestAcceptor) (.start, []) toks 0 :=
  have hB := nest_bisim D hok
  ⟨matchM_bisim hB toks 0 hB.init, startsWithM_bisim hB toks 0 hB.init⟩

/-- every header pattern and every follow-up pattern of every supported language is in the
fragment (checked on the generated table) -/
theorem shipped_patterns_topOk :
    ∀ L ∈ Gen.all, ∀ hp ∈ L.2.pats,
      (∀ p ∈ hp.expr.atoms, p.topOk = true) ∧
      (∀ f, hp.follow = some f → ∀ p ∈ f.atoms, p.topOk = true) := by
  have h : ∀ L ∈ Gen.all, ∀ hp ∈ L.2.pats,
      (hp.expr.atoms.all Pred.topOk &&
        (match hp.follow with | some f => f.atoms.all Pred.topOk | none => true)) = true := by
    decide +kernel
  intro L hL hp hhp
  have := h L hL hp hhp
  simp only [Bool.and_eq_true, List.all_eq_true] at this
  refine ⟨this.1, ?_⟩
  intro f hf
  have h2 := this.2
  rw [hf] at h2
  exact List.all_eq_true.1 h2

/-- for the shipped header patterns the two models report the same matches -/
theorem shipped_find_all_transfer {L : String × Language} (hL : L ∈ Gen.all) {hp : HeaderPat}
    (hhp : hp ∈ L.2.pats) (toks : List Tok) :
    findAllNest (hp.expr.map Pred.emb) toks = findAllTok hp.expr toks :=
  find_all_transfer _ (shipped_patterns_topOk L hL hp hhp).1 toks

/-! ### non-vacuity of (a), and the restriction is needed -/

def nmT (col : Nat) : Tok := ⟨2, 0, [105], 1, col⟩          -- identifier `i`
def syT (c col : Nat) : Tok := ⟨3, 2, [c], 1, col⟩          -- punctuation
def otT (col : Nat) : Tok := ⟨6, 3, [120], 1, col⟩          -- text `x`

/-- `i ( ( ) ) x i ( )` -/
def toksA : List Tok :=
  [nmT 1, syT 40 2, syT 40 3, syT 41 4, syT 41 5, otT 6, nmT 7, syT 40 8, syT 41 9]

/-- both models on the C pattern: two matches -/
example : ∃ hp ∈ Gen.c.pats,
    findAllTok hp.expr toksA = .ok [⟨0, 5, toksA.take 5⟩, ⟨6, 9, toksA.drop 6⟩] ∧
    findAllNest (hp.expr.map Pred.emb) toksA = .ok [⟨0, 5, toksA.take 5⟩, ⟨6, 9, toksA.drop 6⟩] := by
  refine ⟨_, List.mem_cons_self .., ?_, ?_⟩ <;> decide +kernel

/-- `Or(Balanced("[", "]"), Balanced("(", ")"))` in the vocabulary of `Model/Token.lean` -/
def orOld : Pred :=
  .or (.balanced (.symbol [91]) (.symbol [93])) (.balanced (.symbol [40]) (.symbol [41]))

/-- outside the fragment the models differ: on `i ( )` the pattern
`[Name, OneOrMore(Or(Balanced("[","]"), Balanced("(",")")))]` matches in the object model (and
in the real code) but not in `Model/Token.lean` -/
theorem transfer_needs_topOk :
    orOld.topOk = false ∧
    findAllTok (.cat (.atom .name) (.plus (.atom orOld))) [nmT 1, syT 40 2, syT 41 3] = .ok [] ∧
    findAllNest ((Rx.cat (.atom .name) (.plus (.atom orOld))).map Pred.emb)
      [nmT 1, syT 40 2, syT 41 3] = .ok [⟨0, 3, [nmT 1, syT 40 2, syT 41 3]⟩] := by
  refine ⟨rfl, ?_, ?_⟩ <;> decide +kernel

/-! ## (b) `find_all` over arbitrary nested predicates

`r` is any expression over predicate objects that cannot match the empty sequence. -/

section all_patterns
variable {r : Rx PredN} {D : Dfa PredN} {toks : List Tok} {ms : List (Match Tok)}

/-- the table construction terminates for every expression -/
theorem compile_total (r : Rx PredN) : ∃ D, compileNest r = .ok D := compileNest_total r

theorem start_not_accepting (hnn : ¬ Lang r []) (hD : compileNest r = .ok D) :
    (nestM D).acc (nestM D).init = false :=
  isAcc_start_false isOrder_id (compileNest_spec hD) hnn

/-- 1. every reported match is non-empty and inside the input -/
theorem bounds (hnn : ¬ Lang r []) (h : findAllNest r toks = .ok ms) :
    ∀ m ∈ ms, m.s < m.e ∧ m.e ≤ toks.length := by
  obtain ⟨D, hD⟩ := compile_total r
  rw [findAllNest_eq hD] at h
  exact C14.bounds (start_not_accepting hnn hD) (dfaMachine_deadStuck D nestAcceptor) h

/-- 2. the recorded tokens are exactly the matched tokens -/
theorem records (hnn : ¬ Lang r []) (h : findAllNest r toks = .ok ms) :
    ∀ m ∈ ms, m.toks = slice toks m.s m.e := by
  obtain ⟨D, hD⟩ := compile_total r
  rw [findAllNest_eq hD] at h
  exact C14.records (start_not_accepting hnn hD) (dfaMachine_deadStuck D nestAcceptor) h

/-- 3 + 4. every reported match is a greedy match: an attempt that starts at `m.s` with fresh
copies of the predicates accepts `toks[m.s..m.e)` and cannot continue at `m.e` -/
theorem greedy (hnn : ¬ Lang r []) (hD : compileNest r = .ok D)
    (h : findAllNest r toks = .ok ms) : ∀ m ∈ ms, GreedyAt (nestM D) toks m.s m.e := by
  rw [findAllNest_eq hD] at h
  exact C14.greedy (start_not_accepting hnn hD) (dfaMachine_deadStuck D nestAcceptor) h

/-- 4. no longer slice from the same start can even be read by a fresh attempt -/
theorem longest_none (hnn : ¬ Lang r []) (hD : compileNest r = .ok D)
    (h : findAllNest r toks = .ok ms) :
    ∀ m ∈ ms, ∀ e', m.e < e' → e' ≤ toks.length →
      runM (nestM D) (nestM D).init (slice toks m.s e') = none := by
  rw [findAllNest_eq hD] at h
  exact C14.longest_none (start_not_accepting hnn hD) (dfaMachine_deadStuck D nestAcceptor) h

/-- 5. matches are reported in position order and do not overlap -/
theorem ordered_disjoint (hnn : ¬ Lang r []) (h : findAllNest r toks = .ok ms) :
    ms.Pairwise (fun m m' => m.e ≤ m'.s) := by
  obtain ⟨D, hD⟩ := compile_total r
  rw [findAllNest_eq hD] at h
  exact C14.ordered_disjoint (start_not_accepting hnn hD) (dfaMachine_deadStuck D nestAcceptor) h

/-- 6 (partial, as for every machine - KF1). a position with a greedy match is covered by a
reported match that finishes no later, or pre-empted by a later-starting match that finishes
strictly earlier -/
theorem completeness_partial_strong (hnn : ¬ Lang r []) (hD : compileNest r = .ok D)
    (h : findAllNest r toks = .ok ms) :
    ∀ p f, GreedyAt (nestM D) toks p f →
      (∃ m ∈ ms, m.s ≤ p ∧ p < m.e ∧ m.e ≤ f) ∨ (∃ m ∈ ms, p < m.s ∧ m.e < f) := by
  rw [findAllNest_eq hD] at h
  exact C14.completeness_partial_strong (start_not_accepting hnn hD)
    (dfaMachine_deadStuck D nestAcceptor) h

/-- 8. the only exception `find_all` can raise is `Pattern.consume`'s "Multiple transitions
found!" -/
theorem error_is_multiple_transitions {e : Err} (h : findAllNest r toks = .error e) :
    e = .multipleTransitions :=
  findAllNest_error h

/-- evaluations of different predicates of a row commute (every copy is private to its
predicate), so the result does not depend on the set-iteration order or the id counter -/
theorem find_all_nest_indep {base base' : Nat} {ord ord' : List PredN → List PredN}
    {D D' : Dfa PredN} (hord : IsOrder ord) (hord' : IsOrder ord')
    (hD : nfaToDfa (compile r base) ord = some D)
    (hD' : nfaToDfa (compile r base') ord' = some D') (toks : List Tok) :
    findAll (dfaMachine D nestAcceptor) toks = findAll (dfaMachine D' nestAcceptor) toks :=
  findAll_bisim (dfa_bisim_acc nestAcceptor_compat hord hord' hD hD') toks

end all_patterns

/-! ### non-vacuity of (b) -/

/-- `Balanced(a, b)` over symbols, fresh -/
def bal (a b : Nat) : PredN := .balanced (.symbol [a]) (.symbol [b]) 0

/-- `[Name(), OneOrMore(G)]` (= `hdrName`) -/
abbrev hdr (G : PredN) : Rx PredN := hdrName G

/-- `Or(Balanced("[", "]"), Balanced("(", ")"))` -/
def G1 : PredN := .or (bal 91 93) (bal 40 41)

theorem hdr_not_nullable (G : PredN) : ¬ Lang (hdr G) [] := hdrName_not_nullable G

/-- `i [ ( ] x i ( [ ) ] ) i` -/
def toksB : List Tok :=
  [nmT 1, syT 91 2, syT 40 3, syT 93 4, otT 5, nmT 6, syT 40 7, syT 91 8, syT 41 9, syT 93 10,
   syT 41 11, nmT 12]

theorem G1_toksB :
    findAllNest (hdr G1) toksB = .ok [⟨0, 4, toksB.take 4⟩, ⟨5, 11, (toksB.drop 5).take 6⟩] := by
  decide +kernel

/-- items 1, 2, 5 instantiated: inside `[ ]` a parenthesis is just content (`i [ ( ]` is a
complete match) and inside `( )` a `[ ]` group hides the `)` in it -/
example :
    let ms : List (Match Tok) := [⟨0, 4, toksB.take 4⟩, ⟨5, 11, (toksB.drop 5).take 6⟩]
    findAllNest (hdr G1) toksB = .ok ms ∧ 2 ≤ ms.length ∧
    (∀ m ∈ ms, m.s < m.e ∧ m.e ≤ toksB.length) ∧
    (∀ m ∈ ms, m.toks = slice toksB m.s m.e) ∧
    ms.Pairwise (fun m m' => m.e ≤ m'.s) :=
  ⟨G1_toksB, by decide, bounds (hdr_not_nullable G1) G1_toksB,
    records (hdr_not_nullable G1) G1_toksB, ordered_disjoint (hdr_not_nullable G1) G1_toksB⟩

/-- two nested predicates in one row can both accept: `consume` raises -/
example : findAllNest (.cat (.atom .name) (.plus (.alt (.atom G1) (.atom (.not .name)))))
    [nmT 1, syT 40 2] = .error .multipleTransitions := by decide +kernel

/-! ## (c) isolation: what `deepcopy` guarantees -/

/-- TEMPLATE UNCHANGED. Under the deepcopy discipline a `find_all` call leaves every template
object of the expression exactly as it found it - whatever state they were in, whatever the
tokens, however many attempts ran. -/
theorem template_unchanged (r : Rx PredN) (g g' : Shared) (toks : List Tok)
    (ms : List (Match Tok)) (h : findAllMode .deep r g toks = .ok (ms, g')) : g' = g := by
  unfold findAllMode at h
  split at h
  · cases h
  · exact findAllG_keeps (deep_keeps _) h

/-- with templates as constructed, `find_all` over the store of template objects is the
functional `findAllNest`: attempts do not communicate, neither with each other nor through the
templates -/
theorem deep_is_functional (r : Rx PredN) (toks : List Tok) :
    findAllMode .deep r [] toks = match findAllNest r toks with
      | .error e => .error e
      | .ok ms => .ok (ms, []) := by
  unfold findAllMode findAllNest
  cases compileNest r with
  | error e => rfl
  | ok D =>
    dsimp only
    rw [findAllG_like (deep_like D) toks]
    cases findAll (dfaMachine D nestAcceptor) toks <;> rfl

/-- the result of a call does not depend on what was matched before with the same expression
object -/
theorem calls_do_not_interfere (r : Rx PredN) (toks₁ toks₂ : List Tok) (ms₁ : List (Match Tok))
    (g₁ : Shared) (h : findAllMode .deep r [] toks₁ = .ok (ms₁, g₁)) :
    findAllMode .deep r g₁ toks₂ = findAllMode .deep r [] toks₂ := by
  rw [template_unchanged r [] g₁ toks₁ ms₁ h]

/-- the attempt's copy of a template after a run is the copy before the run fed with exactly
the tokens read in states that have a transition labelled with that template - a function of
the template and the tokens, nothing else -/
theorem copy_is_function_of_tokens {r : Rx PredN} {D : Dfa PredN} (hD : compileNest r = .ok D)
    (G : PredN) (w : List Tok) {cfg q : DState × Copies} (hr : runM (nestM D) cfg w = some q) :
    getCopy q.2 G = feed (getCopy cfg.2 G) (gSeen D G cfg w) :=
  run_copy (compileNest_rowsNodup hD) G w hr

/-- every reported match is what a single fresh attempt does on its own slice of the input:
the final configuration is the run from the initial configuration over `toks[m.s..m.e)`, and
its copy of every template `G` is the template fed with the tokens shown to it -/
theorem attempt_is_function_of_slice {r : Rx PredN} {D : Dfa PredN} (hnn : ¬ Lang r [])
    (hD : compileNest r = .ok D) {toks : List Tok} {ms : List (Match Tok)}
    (h : findAllNest r toks = .ok ms) :
    ∀ m ∈ ms, ∃ q, runM (nestM D) (.start, []) (slice toks m.s m.e) = some q ∧
      D.isAcc q.1 = true ∧
      ∀ G, getCopy q.2 G = feed G (gSeen D G (.start, []) (slice toks m.s m.e)) := by
  intro m hm
  obtain ⟨_, _, q, hr, hacc, _⟩ := greedy hnn hD h m hm
  exact ⟨q, hr, hacc, fun G => copy_is_function_of_tokens hD G _ hr⟩

/-! ### what a shallow copy destroys (seeded change C14-7, reproduced on the changed code) -/

/-- `i ( i i )` -/
def toksS : List Tok := [nmT 1, syT 40 2, nmT 3, nmT 4, syT 41 5]

/-- with `deepcopy`: the whole input is one match, templates untouched -/
theorem deep_on_toksS : findAllMode .deep (hdr G1) [] toksS = .ok ([⟨0, 5, toksS⟩], []) := by
  decide +kernel

/-- with `copy.copy` the two attempts (from `i` at 0 and from `i` at 2) count parentheses on
the same `Balanced("(", ")")` object: the reported match is `i i` = (2, 4), which is not a
word of the pattern, and the template is left with depth `-1` -/
theorem shallow_breaks_soundness :
    findAllMode .shallow (hdr G1) [] toksS
      = .ok ([⟨2, 4, [nmT 3, nmT 4]⟩],
             [(.name, .name),
              (G1, .or (bal 91 93) (.balanced (.symbol [40]) (.symbol [41]) (-1)))]) := by
  decide +kernel

/-- with `copy.copy` the template objects change (`template_unchanged` fails) and a later call
with the same expression object gives a different result (`calls_do_not_interfere` fails):
after `i (` the second call reports `i x` although no parenthesis was opened in it -/
theorem shallow_breaks_isolation :
    ∃ g₁ ms₁, findAllMode .shallow (hdr G1) [] [nmT 1, syT 40 2] = .ok (ms₁, g₁) ∧ g₁ ≠ [] ∧
      (findAllMode .shallow (hdr G1) g₁ [nmT 1, otT 2]).map (·.1)
        = .ok [⟨0, 2, [nmT 1, otT 2]⟩] ∧
      (findAllMode .shallow (hdr G1) [] [nmT 1, otT 2]).map (·.1) = .ok [] := by
  refine ⟨[(.name, .name), (G1, .or (bal 91 93) (.balanced (.symbol [40]) (.symbol [41]) 1))],
    [⟨0, 2, [nmT 1, syT 40 2]⟩], ?_, ?_, ?_, ?_⟩
  · decide +kernel
  · simp
  · decide +kernel
  · decide +kernel

/-- a top-level `Balanced` over stateless operands survives the shallow copy (its depth is a
field of the copied top object) - which is why the seeded change passed every shipped
pattern -/
example : findAllMode .shallow (hdr (bal 40 41)) [] toksS
    = .ok ([⟨0, 5, toksS⟩], [(.name, .name), (bal 40 41, bal 40 41)]) := by decide +kernel

/-- OBSERVATION (real code, reproduced): `deepcopy` copies whatever state the template is in.
`matcher.nfa_match` calls `accept` on the expression's own predicate objects, so after
`nfa_match(expr, "i (")` the template `Balanced("(", ")")` inside `G1` is left at depth 1; a
later `find_all` with the same expression starts every attempt at depth 1 and reports `i x )`
- which it does not with fresh templates. (`nfa_match` is only used by the tests, on stateless
atoms.) `template_unchanged` holds in both cases. -/
theorem stale_template_is_copied :
    let g : Shared := [(G1, .or (bal 91 93) (.balanced (.symbol [40]) (.symbol [41]) 1))]
    findAllMode .deep (hdr G1) g [nmT 1, otT 2, syT 41 3]
      = .ok ([⟨0, 3, [nmT 1, otT 2, syT 41 3]⟩], g) ∧
    findAllMode .deep (hdr G1) [] [nmT 1, otT 2, syT 41 3] = .ok ([], []) := by
  constructor <;> decide +kernel

/-! ## (d) the balance clause for nested predicates

`G` is the predicate of the pattern's last, repeated position (`… OneOrMore(G)`): every
accepting state has a transition labelled `G` (`AccHasG`) and a row with a `G` transition has
no other transition (`SingleRows`); both are decided on the compiled table by `shapeOk`. -/

section balance
variable {r : Rx PredN} {D : Dfa PredN} {G : PredN} {toks : List Tok} {ms : List (Match Tok)}

/-- ALL nested predicates. A match that ends before the end of the input ends with a copy of
`G` that is not saturated: no `Balanced` node whose verdict alone would make `G` accept (one
reached through `Or` on either side, through `And` only if the other operand is saturated
too) is inside an open group. -/
theorem stuck_not_saturated (hnn : ¬ Lang r []) (hD : compileNest r = .ok D)
    (hshape : shapeOk D G = true) (h : findAllNest r toks = .ok ms) :
    ∀ m ∈ ms, m.e < toks.length →
      ∃ q, runM (nestM D) (.start, []) m.toks = some q ∧ D.isAcc q.1 = true ∧
        (getCopy q.2 G).saturated = false := by
  intro m hm hlt
  rw [findAllNest_eq hD] at h
  obtain ⟨q, h1, h2, _, h4⟩ :=
    early_end_not_saturated (start_not_accepting hnn hD) (shapeOk_spec hshape).2 h hm hlt
  exact ⟨q, h1, h2, h4⟩

/-- `Or`-TREES over stateless predicates and simple `Balanced` predicates (any bracketing, any
number of `Balanced`). A match that ends before the end of the input ends with NO group open:
every depth is `≤ 0`; and the depths in guarded positions (the rightmost leaf) are exactly
`0`. Depths in unguarded positions may be negative (`or_left_goes_negative`). -/
theorem early_end_no_open_group (hnn : ¬ Lang r []) (hD : compileNest r = .ok D)
    (hshape : shapeOk D G = true) (hG : G.orTree = true) (hfresh : G.guardedNonneg = true)
    (h : findAllNest r toks = .ok ms) :
    ∀ m ∈ ms, m.e < toks.length →
      ∃ q, runM (nestM D) (.start, []) m.toks = some q ∧ D.isAcc q.1 = true ∧
        (getCopy q.2 G).shape = G.shape ∧ (∀ d ∈ (getCopy q.2 G).depths, d ≤ 0) ∧
        (getCopy q.2 G).guardedNonneg = true := by
  intro m hm hlt
  rw [findAllNest_eq hD] at h
  obtain ⟨hsr, hacc⟩ := shapeOk_spec hshape
  exact early_end_orTree (start_not_accepting hnn hD) hsr hacc hG hfresh h hm hlt

/-- THE CLASS `rightBal`: `Or(s₁, Or(s₂, … Balanced(l, r)))` with stateless `sᵢ`, `l`, `r` (in
particular a plain `Balanced(l, r)`), template fresh. A match that ends before the end of the
input ends with every depth back at exactly zero: the attempt's copy of `G` is equal to the
template again. -/
theorem early_end_back_to_template (hnn : ¬ Lang r []) (hD : compileNest r = .ok D)
    (hshape : shapeOk D G = true) (hG : G.rightBal = true) (hfresh : ∀ d ∈ G.depths, d = 0)
    (h : findAllNest r toks = .ok ms) :
    ∀ m ∈ ms, m.e < toks.length →
      ∃ q, runM (nestM D) (.start, []) m.toks = some q ∧ D.isAcc q.1 = true ∧
        getCopy q.2 G = G := by
  intro m hm hlt
  rw [findAllNest_eq hD] at h
  obtain ⟨hsr, hacc⟩ := shapeOk_spec hshape
  exact early_end_rightBal (start_not_accepting hnn hD) hsr hacc hG hfresh h hm hlt

/-- while an attempt is alive, the depths in guarded positions (top node, right operand of
`Or`, operands of `And`) are never negative -/
theorem guarded_depths_nonneg (hshape : shapeOk D G = true)
    (hfresh : G.guardedNonneg = true) {cfg : DState × Copies} (hr : ReachN D cfg) :
    (getCopy cfg.2 G).guardedNonneg = true :=
  reach_guarded (shapeOk_spec hshape).1 hfresh hr

/-- `Or(Balanced(la, ra), Balanced(lb, rb))` over stateless operands, e.g. the predicate for
"a group in brackets or a group in parentheses". A match that ends before the end of the input
ends with right depth `0` and left depth `da ≤ 0`, where `da` is the NET nesting profile
`#la - #(ra ∧ ¬la)` of all tokens consumed by `G` transitions (so `da < 0` means: more
closing than opening `a`-tokens were consumed - inside `b`-groups, where they are accepted). -/
theorem or_two_balanced_exit {la ra lb rb : PredN} (hla : la.flatN = true) (hra : ra.flatN = true)
    (hlb : lb.flatN = true) (hrb : rb.flatN = true)
    (hnn : ¬ Lang r []) (hD : compileNest r = .ok D)
    (hshape : shapeOk D (.or (.balanced la ra 0) (.balanced lb rb 0)) = true)
    (h : findAllNest r toks = .ok ms) :
    ∀ m ∈ ms, m.e < toks.length →
      ∃ q da, runM (nestM D) (.start, []) m.toks = some q ∧ D.isAcc q.1 = true ∧
        getCopy q.2 (.or (.balanced la ra 0) (.balanced lb rb 0))
          = .or (.balanced la ra da) (.balanced lb rb 0) ∧ da ≤ 0 ∧
        da = nest la.shape ra.shape
          (gSeen D (.or (.balanced la ra 0) (.balanced lb rb 0)) (.start, []) m.toks) := by
  intro m hm hlt
  have hG : (PredN.or (.balanced la ra 0) (.balanced lb rb 0)).orTree = true := by
    simp [PredN.orTree, hla, hra, hlb, hrb]
  obtain ⟨q, hr, hq, _, hle, hgn⟩ :=
    early_end_no_open_group hnn hD hshape hG (by simp [PredN.guardedNonneg]) h m hm hlt
  have hc := copy_is_function_of_tokens hD (.or (.balanced la ra 0) (.balanced lb rb 0)) _ hr
  rw [getCopy_nil] at hc
  obtain ⟨e', he'⟩ := feed_or_two hla hra hlb hrb 0 0
    (gSeen D (.or (.balanced la ra 0) (.balanced lb rb 0)) (.start, []) m.toks)
  rw [he'] at hc
  rw [hc] at hle hgn
  simp only [PredN.depths, depths_flatN hla, depths_flatN hra, depths_flatN hlb, depths_flatN hrb,
    List.append_nil, List.cons_append, List.nil_append, List.mem_cons, List.not_mem_nil,
    or_false, forall_eq_or_imp, forall_eq] at hle
  simp only [PredN.guardedNonneg, decide_eq_true_eq] at hgn
  have he0 : e' = 0 := by omega
  subst he0
  exact ⟨q, _, hr, hq, hc, hle.1, by omega⟩

end balance

/-! ### the same, with hypotheses on the source pattern only

`shapeOk` speaks about the compiled table (it is the exact form of "the pattern ends with
`OneOrMore(G)` and `G` does not compete with another predicate"; `C14b` uses the same kind of
evaluated checker). For the header shapes of the shipped languages with an ARBITRARY group
predicate `G` it is a theorem (`Lemmas/TokenNestShapes.lean`: the table depends on the
predicates only through `==`, so it is the table of the abstract expression `a b+`). -/

/-- the header shapes `Name G+`, `[Keyword] Name G+`, `Keyword Name G+` -/
inductive HeaderShape (G : PredN) : Rx PredN → Prop where
  | name : G ≠ .name → HeaderShape G (hdrName G)
  | optKw (kw : Str) : G ≠ .name → G ≠ .keyword kw → HeaderShape G (hdrOptKw kw G)
  | kw (kw : Str) : G ≠ .name → G ≠ .keyword kw → HeaderShape G (hdrKw kw G)

theorem HeaderShape.spec {G : PredN} {r : Rx PredN} (h : HeaderShape G r) :
    ¬ Lang r [] ∧ ∃ D, compileNest r = .ok D ∧ shapeOk D G = true := by
  cases h with
  | name h1 => exact ⟨hdrName_not_nullable G, _, hdrName_compile h1, hdrName_shape h1⟩
  | optKw kw h1 h2 =>
    exact ⟨hdrOptKw_not_nullable kw G, _, hdrOptKw_compile h1 h2, hdrOptKw_shape h1 h2⟩
  | kw kw h1 h2 => exact ⟨hdrKw_not_nullable kw G, _, hdrKw_compile h1 h2, hdrKw_shape h1 h2⟩

section header_shapes
variable {G : PredN} {r : Rx PredN} {toks : List Tok} {ms : List (Match Tok)}

/-- header shapes, `G` in the class `rightBal`, fresh: a header match that ends before the end
of the input ends with the copy of `G` equal to the template -/
theorem header_early_end_back_to_template (hs : HeaderShape G r) (hG : G.rightBal = true)
    (hfresh : ∀ d ∈ G.depths, d = 0) (h : findAllNest r toks = .ok ms) :
    ∀ m ∈ ms, m.e < toks.length →
      ∃ D q, compileNest r = .ok D ∧ runM (nestM D) (.start, []) m.toks = some q ∧
        D.isAcc q.1 = true ∧ getCopy q.2 G = G := by
  obtain ⟨hnn, D, hD, hshape⟩ := hs.spec
  intro m hm hlt
  obtain ⟨q, h1, h2, h3⟩ := early_end_back_to_template hnn hD hshape hG hfresh h m hm hlt
  exact ⟨D, q, hD, h1, h2, h3⟩

/-- header shapes, `G` an `Or`-tree: a header match that ends before the end of the input ends
with no group open -/
theorem header_early_end_no_open_group (hs : HeaderShape G r) (hG : G.orTree = true)
    (hfresh : G.guardedNonneg = true) (h : findAllNest r toks = .ok ms) :
    ∀ m ∈ ms, m.e < toks.length →
      ∃ D q, compileNest r = .ok D ∧ runM (nestM D) (.start, []) m.toks = some q ∧
        D.isAcc q.1 = true ∧ (∀ d ∈ (getCopy q.2 G).depths, d ≤ 0) ∧
        (getCopy q.2 G).guardedNonneg = true := by
  obtain ⟨hnn, D, hD, hshape⟩ := hs.spec
  intro m hm hlt
  obtain ⟨q, h1, h2, _, h4, h5⟩ := early_end_no_open_group hnn hD hshape hG hfresh h m hm hlt
  exact ⟨D, q, hD, h1, h2, h4, h5⟩

end header_shapes

/-! ### `[Name(), OneOrMore(G)]` in terms of the matched tokens alone

For this shape the tokens shown to `G` are the matched tokens after the identifier
(`hdrName_gSeen`), so the statements need no automaton: `feed G w` is the object `G` after
`accept` has been called with the tokens of `w` one after the other. -/

section name_groups
variable {G : PredN} {toks : List Tok} {ms : List (Match Tok)}

/-- the copy of `G` at the end of a reported match is `G` fed with the tokens after the
identifier -/
theorem name_groups_copy (hne : G ≠ .name) (h : findAllNest (hdrName G) toks = .ok ms)
    {m : Match Tok} (hm : m ∈ ms) :
    ∃ q, runM (nestM (Shapes.D2.map (Shapes.f2 G))) (.start, []) m.toks = some q ∧
      getCopy q.2 G = feed G m.toks.tail := by
  have hD := hdrName_compile hne
  obtain ⟨_, _, q, hr, hacc, _⟩ := greedy (hdrName_not_nullable G) hD h m hm
  rw [← records (hdrName_not_nullable G) h m hm] at hr
  have hr : runM (nestM (Shapes.D2.map (Shapes.f2 G))) (.start, []) m.toks = some q := hr
  have hacc : (Shapes.D2.map (Shapes.f2 G)).isAcc q.1 = true := hacc
  refine ⟨q, hr, ?_⟩
  have hc := copy_is_function_of_tokens hD G _ hr
  rw [getCopy_nil] at hc
  cases hmt : m.toks with
  | nil =>
    rw [hmt] at hr
    simp only [runM, Option.some.injEq] at hr
    subst hr
    have : (Shapes.D2.map (Shapes.f2 G)).isAcc .start = false :=
      start_not_accepting (hdrName_not_nullable G) hD
    rw [this] at hacc; cases hacc
  | cons x w =>
    rw [hmt] at hr hc
    rw [hc, hdrName_gSeen hne x w hr]
    rfl

/-- THE CLASS, in words of tokens. `G` in `rightBal`, fresh, `m` a match of `Name G+` that ends
before the end of the input: feeding a fresh `G` with the matched tokens after the identifier
brings it back to its initial state. -/
theorem name_groups_back_to_template (hne : G ≠ .name) (hG : G.rightBal = true)
    (hfresh : ∀ d ∈ G.depths, d = 0) (h : findAllNest (hdrName G) toks = .ok ms) :
    ∀ m ∈ ms, m.e < toks.length → feed G m.toks.tail = G := by
  intro m hm hlt
  obtain ⟨q, hr, hc⟩ := name_groups_copy hne h hm
  obtain ⟨q', hr', _, hq'⟩ := early_end_back_to_template (hdrName_not_nullable G)
    (hdrName_compile hne) (hdrName_shape hne) hG hfresh h m hm hlt
  rw [hr] at hr'
  cases hr'
  rw [← hc, hq']

/-- `Or`-trees, in words of tokens: no depth of `feed G (tokens after the identifier)` is
positive -/
theorem name_groups_no_open_group (hne : G ≠ .name) (hG : G.orTree = true)
    (hfresh : G.guardedNonneg = true) (h : findAllNest (hdrName G) toks = .ok ms) :
    ∀ m ∈ ms, m.e < toks.length → ∀ d ∈ (feed G m.toks.tail).depths, d ≤ 0 := by
  intro m hm hlt
  obtain ⟨q, hr, hc⟩ := name_groups_copy hne h hm
  obtain ⟨q', hr', _, _, hq', _⟩ := early_end_no_open_group (hdrName_not_nullable G)
    (hdrName_compile hne) (hdrName_shape hne) hG hfresh h m hm hlt
  rw [hr] at hr'
  cases hr'
  rw [← hc]; exact hq'

/-- `Name Or(Balanced(la, ra), Balanced(lb, rb))+`, in words of tokens: for a match that ends
before the end of the input, the `b`-depth is `0` and the `a`-depth is the net profile
`#la - #(ra ∧ ¬la)` of ALL matched tokens after the identifier, which is `≤ 0` - and can be
negative (`or_left_goes_negative`). -/
theorem name_groups_or_two {la ra lb rb : PredN} (hla : la.flatN = true) (hra : ra.flatN = true)
    (hlb : lb.flatN = true) (hrb : rb.flatN = true)
    (h : findAllNest (hdrName (.or (.balanced la ra 0) (.balanced lb rb 0))) toks = .ok ms) :
    ∀ m ∈ ms, m.e < toks.length →
      feed (.or (.balanced la ra 0) (.balanced lb rb 0)) m.toks.tail
        = .or (.balanced la ra (nest la.shape ra.shape m.toks.tail)) (.balanced lb rb 0) ∧
      nest la.shape ra.shape m.toks.tail ≤ 0 := by
  intro m hm hlt
  have hne : PredN.or (.balanced la ra 0) (.balanced lb rb 0) ≠ .name := by simp
  obtain ⟨q, hr, hc⟩ := name_groups_copy hne h hm
  obtain ⟨e', he'⟩ := feed_or_two hla hra hlb hrb 0 0 m.toks.tail
  have hG : (PredN.or (.balanced la ra 0) (.balanced lb rb 0)).orTree = true := by
    simp [PredN.orTree, hla, hra, hlb, hrb]
  obtain ⟨q', hr', _, _, hle, hgn⟩ := early_end_no_open_group (hdrName_not_nullable _)
    (hdrName_compile hne) (hdrName_shape hne) hG (by simp [PredN.guardedNonneg]) h m hm hlt
  rw [hr] at hr'
  cases hr'
  rw [hc, he'] at hle hgn
  simp only [PredN.depths, depths_flatN hla, depths_flatN hra, depths_flatN hlb, depths_flatN hrb,
    List.append_nil, List.cons_append, List.nil_append, List.mem_cons, List.not_mem_nil,
    or_false, forall_eq_or_imp, forall_eq] at hle
  simp only [PredN.guardedNonneg, decide_eq_true_eq] at hgn
  have he0 : e' = 0 := by omega
  subst he0
  refine ⟨by rw [he']; simp, by omega⟩

end name_groups

/-! ### non-vacuity of (d) and the witnesses that delimit the class -/

theorem shape_hdr_G1 : ∃ D, compileNest (hdr G1) = .ok D ∧ shapeOk D G1 = true :=
  ⟨_, rfl, by decide +kernel⟩

/-- `early_end_no_open_group` / `or_two_balanced_exit` instantiated: on `toksB` both matches end
before the end of the input; after each the copy of `G1` is back at `(0, 0)` -/
example : exitWitnessN (hdr G1) G1 toksB 0 4 G1 = true ∧
    exitWitnessN (hdr G1) G1 toksB 5 11 G1 = true := by
  constructor <;> decide +kernel

/-- `Or(TokenValue("x"), Balanced("(", ")"))`: in the class `rightBal` -/
def G2 : PredN := .or (.value [120]) (bal 40 41)

/-- `i x ( x ) x i` -/
def toksC : List Tok := [nmT 1, otT 2, syT 40 3, otT 4, syT 41 5, otT 6, nmT 7]

/-- `early_end_back_to_template` instantiated: hypotheses hold, the match (0, 6) ends early and
the copy equals the template -/
example : G2.rightBal = true ∧ (∀ d ∈ G2.depths, d = 0) ∧
    (∃ D, compileNest (hdr G2) = .ok D ∧ shapeOk D G2 = true) ∧
    exitWitnessN (hdr G2) G2 toksC 0 6 G2 = true := by
  refine ⟨rfl, by decide, ⟨_, rfl, by decide +kernel⟩, by decide +kernel⟩

/-- the same theorem for the plain header shape `Name Balanced("(", ")")+` (C14b's clause,
re-proved in the object model for this pattern shape) -/
example : (bal 40 41).rightBal = true ∧
    (∃ D, compileNest (hdr (bal 40 41)) = .ok D ∧ shapeOk D (bal 40 41) = true) ∧
    exitWitnessN (hdr (bal 40 41)) (bal 40 41) toksA 0 5 (bal 40 41) = true := by
  refine ⟨rfl, ⟨_, rfl, by decide +kernel⟩, by decide +kernel⟩

theorem G2_toksC : findAllNest (hdr G2) toksC = .ok [⟨0, 6, toksC.take 6⟩] := by decide +kernel

/-- `name_groups_back_to_template` applied: the tokens `x ( x ) x` bring `G2` back to its
initial state (the conclusion, evaluated independently, is `rfl`) -/
example : feed G2 (toksC.take 6).tail = G2 :=
  name_groups_back_to_template (G := G2) (by decide) rfl (by decide) G2_toksC
    ⟨0, 6, toksC.take 6⟩ (List.mem_cons_self ..) (by decide)

example : feed G2 (toksC.take 6).tail = G2 := by decide +kernel

/-- `name_groups_or_two` applied to both matches of `G1_toksB` -/
example :
    (feed G1 (toksB.take 4).tail
        = .or (.balanced (.symbol [91]) (.symbol [93])
            (nest (.symbol [91]) (.symbol [93]) (toksB.take 4).tail)) (bal 40 41) ∧
      nest (.symbol [91]) (.symbol [93]) (toksB.take 4).tail ≤ 0) ∧
    (feed G1 ((toksB.drop 5).take 6).tail
        = .or (.balanced (.symbol [91]) (.symbol [93])
            (nest (.symbol [91]) (.symbol [93]) ((toksB.drop 5).take 6).tail)) (bal 40 41) ∧
      nest (.symbol [91]) (.symbol [93]) ((toksB.drop 5).take 6).tail ≤ 0) :=
  ⟨name_groups_or_two (la := .symbol [91]) (ra := .symbol [93]) (lb := .symbol [40])
      (rb := .symbol [41]) rfl rfl rfl rfl G1_toksB _ (List.mem_cons_self ..) (by decide),
   name_groups_or_two (la := .symbol [91]) (ra := .symbol [93]) (lb := .symbol [40])
      (rb := .symbol [41]) rfl rfl rfl rfl G1_toksB _
      (List.mem_cons_of_mem _ (List.mem_cons_self ..)) (by decide)⟩

/-- the header shapes with the nested predicate `G1`: all three are covered by
`header_early_end_no_open_group` -/
example : HeaderShape G1 (hdrName G1) ∧ HeaderShape G1 (hdrOptKw [100, 101, 102] G1) ∧
    HeaderShape G1 (hdrKw [100, 101, 102] G1) :=
  ⟨.name (by decide), .optKw _ (by decide) (by decide), .kw _ (by decide) (by decide)⟩

/-- WITNESS 1 (the `-1` quirk; left operand of `Or` is not guarded). `G1` on `i ( ] ) x`: the
stray `]` inside the parentheses is rejected by `Balanced("[","]")` - which stays at depth
`-1` - and accepted by `Balanced("(",")")` because a group is open. The match `i ( ] )` ends
before the end of the input with the bracket depth at `-1`, not `0`. -/
theorem or_left_goes_negative :
    G1.orTree = true ∧ G1.rightBal = false ∧
    exitWitnessN (hdr G1) G1 [nmT 1, syT 40 2, syT 93 3, syT 41 4, otT 5] 0 4
      (.or (.balanced (.symbol [91]) (.symbol [93]) (-1)) (bal 40 41)) = true := by
  refine ⟨rfl, rfl, ?_⟩
  decide +kernel

/-- WITNESS 2 (the observation that started this task). `G1` on `i ( ] ) [ x`: after the stray
`]` the next `[` brings the bracket depth from `-1` "back" to `0`, so the match `i ( ] ) [`
ends before the end of the input directly after an OPENING bracket: every depth is zero, yet a
group has just been opened. "All depths zero" is not "all groups complete" once a depth has
been negative. (For a top-level `Balanced` this cannot happen: `C14b.opener_at_zero`,
`C14b.nest_prefix_nonneg`.) -/
theorem zero_depths_but_open_group :
    exitWitnessN (hdr G1) G1 [nmT 1, syT 40 2, syT 93 3, syT 41 4, syT 91 5, otT 6] 0 5 G1
      = true := by
  decide +kernel

/-- `And(Not(TokenValue("x")), Balanced("(", ")"))` -/
def G3 : PredN := .and (.not (.value [120])) (bal 40 41)

/-- WITNESS 3 (`And` is outside every class; no quirk involved). `G3` on `i ( x )`: the match
`i (` ends before the end of the input INSIDE the open group (depth 1), because the other
operand of `And` rejects `x`. `stuck_not_saturated` still holds: `G3` is never saturated. -/
theorem and_ends_inside_group :
    G3.orTree = false ∧
    exitWitnessN (hdr G3) G3 [nmT 1, syT 40 2, otT 3, syT 41 4] 0 2
      (.and (.not (.value [120])) (.balanced (.symbol [40]) (.symbol [41]) 1)) = true ∧
    (PredN.and (.not (.value [120])) (.balanced (.symbol [40]) (.symbol [41]) 1)).saturated
      = false := by
  refine ⟨rfl, ?_, rfl⟩
  decide +kernel

/-- WITNESS 4 (nothing below `Not` is guarded). `Not(Balanced("(", ")"))` on `i ) (`: the `)`
is rejected by the `Balanced` (depth `-1`), hence accepted by `Not`; the match `i )` ends at
the `(` with depth `-1`. (The Python object shows depth `0` afterwards, because the rejected
`consume` of `(` has already incremented it: the second component.) -/
theorem not_goes_negative :
    exitWitnessN (hdr (.not (bal 40 41))) (.not (bal 40 41)) [nmT 1, syT 41 2, syT 40 3] 0 2
      (.not (.balanced (.symbol [40]) (.symbol [41]) (-1))) = true ∧
    (acceptNest (.not (.balanced (.symbol [40]) (.symbol [41]) (-1))) (syT 40 3))
      = (false, .not (bal 40 41)) := by
  constructor <;> decide +kernel

/-- `Balanced(Balanced("(", ")"), "]")`: a stateful predicate as the opening operand -/
def G5 : PredN := .balanced (bal 40 41) (.symbol [93]) 0

/-- WITNESS 5 (nothing below a `Balanced` is guarded). `G5` on `i ( ) ) ] ] x`: the second `)`
is rejected by the inner `Balanced` (depth `-1`) but the outer one is at positive depth and
accepts it; the match ends before the end of the input with the outer depth `0` and the inner
depth `-1`. -/
theorem balanced_child_goes_negative :
    G5.rightBal = false ∧
    exitWitnessN (hdr G5) G5
      [nmT 1, syT 40 2, syT 41 3, syT 41 4, syT 93 5, syT 93 6, otT 7] 0 6
      (.balanced (.balanced (.symbol [40]) (.symbol [41]) (-1)) (.symbol [93]) 0) = true := by
  refine ⟨rfl, ?_⟩
  decide +kernel

/-- the witnesses are statements about reported matches (unfolding `exitWitnessN` once) -/
example : ∃ D ms, compileNest (hdr G1) = .ok D ∧
    findAllNest (hdr G1) [nmT 1, syT 40 2, syT 93 3, syT 41 4, otT 5] = .ok ms ∧
    ∃ m ∈ ms, m.s = 0 ∧ m.e = 4 ∧ ∃ q, runM (nestM D) (.start, []) m.toks = some q ∧
      getCopy q.2 G1 = .or (.balanced (.symbol [91]) (.symbol [93]) (-1)) (bal 40 41) :=
  exitWitnessN_spec or_left_goes_negative.2.2

end CL.C14nest
