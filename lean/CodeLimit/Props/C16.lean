import CodeLimit.Lemmas.Lex
/-!
# C16 - `lex` places every kept token at the line and column where its text occurs

Property theorems only (helper lemmas live in `CodeLimit/Lemmas/Lex.lean`, the vocabulary in
`CodeLimit/Spec/Lex.lean`).  A text is a list of code points (newline = `10`); the Pygments
lexer is a parameter supplying the raw tokens `(offset, kind, type, value)`.  Everything is
stated for ALL texts `code` and ALL raw token lists `raw` satisfying the lexer contract
`RawOk code raw` (the tokens tile a prefix of the text: contiguous offsets from 0, each value is
the text found at its offset), and for both values of `filter_comments`.
-/
namespace CL.C16

variable {code : Str} {raw : List RawTok}

/-! ## 1. positions -/

/-- 1. `lex` gives every raw token (before filtering) its own class, type and text together with
the 1-based line (`lineOf`: one plus the number of newlines before its offset) and the 1-based
column (`colOf`: one plus the number of characters since the last newline before its offset).
In particular a token that starts exactly on a newline character belongs to the line that this
newline ends. Covers both branches of `lex` (text without any newline; pointer loop). -/
theorem lexAll_positions (h : RawOk code raw) :
    lexAll code raw =
      raw.map (fun t => ⟨t.kind, t.ty, t.val, lineOf code t.off, colOf code t.off⟩) :=
  lexAll_positions_of_offs code raw (by simpa using RawOkFrom.offs (pre := []) h rfl)

/-- 1'. the same under the weaker hypothesis actually needed: offsets are non-decreasing and do
not exceed the length of the text -/
theorem lexAll_positions_of_sorted
    (hs : (raw.map (·.off)).Pairwise (· ≤ ·)) (hb : ∀ t ∈ raw, t.off ≤ code.length) :
    lexAll code raw = raw.map (tokAt code) := by
  apply lexAll_positions_of_offs
  have : ∀ p, (∀ t ∈ raw, p ≤ t.off) → OffsFrom code.length p raw := by
    induction raw with
    | nil => intro _ _; trivial
    | cons a as ih =>
      intro p hp
      rw [List.map_cons, List.pairwise_cons] at hs
      refine ⟨hp a (List.mem_cons_self ..), hb a (List.mem_cons_self ..), ?_⟩
      apply ih hs.2 (fun t ht => hb t (List.mem_cons_of_mem _ ht))
      intro t ht
      exact hs.1 t.off (List.mem_map.2 ⟨t, ht, rfl⟩)
  exact this 0 (fun _ _ => Nat.zero_le _)

/-- lines and columns are 1-based -/
theorem positions_one_based (h : RawOk code raw) :
    ∀ t ∈ lexAll code raw, 1 ≤ t.line ∧ 1 ≤ t.col := by
  rw [lexAll_positions h]
  intro t ht
  obtain ⟨r, _, rfl⟩ := List.mem_map.1 ht
  simp [lineOf, colOf]

/-! ## 2. the text found at the reported position is the token's text -/

/-- 2a. `location_to_index` inverts (`lineOf`, `colOf`) at every offset of the text, the end of
the text included; it does not raise -/
theorem location_roundtrip (o : Nat) (ho : o ≤ code.length) :
    locationToIndex code (lineOf code o) (colOf code o) = .ok o :=
  locationToIndex_lineOf_colOf code o ho

/-- 2b. every token produced by `lex` before filtering comes from a raw token `r`; mapping its
(line, column) back with `location_to_index` gives `r`'s offset, the token lies inside the text
and the text found there equals the token's text -/
theorem lexAll_text_at_location (h : RawOk code raw) :
    ∀ t ∈ lexAll code raw, ∃ r ∈ raw, t = tokAt code r ∧
      locationToIndex code t.line t.col = .ok r.off ∧
      r.off + t.val.length ≤ code.length ∧
      (code.drop r.off).take t.val.length = t.val := by
  rw [lexAll_positions h]
  intro t ht
  obtain ⟨r, hr, rfl⟩ := List.mem_map.1 ht
  obtain ⟨_, h2, h3⟩ := RawOkFrom.text (pre := []) h rfl r hr
  simp only [List.nil_append] at h2 h3
  exact ⟨r, hr, rfl, locationToIndex_lineOf_colOf code r.off (by omega), h2, h3⟩

/-- `lex` keeps a sub-sequence of the positioned tokens (order preserved, nothing invented) -/
theorem lex_sublist_lexAll (fc : Bool) : (lex code raw fc).Sublist (lexAll code raw) :=
  List.filter_sublist

/-- 2c. each token KEPT by lexing carries the line and column at which its text occurs in the
input: the text found at that position equals the token's text -/
theorem kept_text_at_location (h : RawOk code raw) (fc : Bool) :
    ∀ t ∈ lex code raw fc, ∃ r ∈ raw, t = tokAt code r ∧
      locationToIndex code t.line t.col = .ok r.off ∧
      r.off + t.val.length ≤ code.length ∧
      (code.drop r.off).take t.val.length = t.val :=
  fun t ht => lexAll_text_at_location h t ((lex_sublist_lexAll fc).subset ht)

/-! ## 3. strictly increasing source order, no overlap -/

/-- 3a. (line, column) is strictly increasing (lexicographically) in the offset -/
theorem position_strictMono (o o' : Nat) (h : o < o') (h' : o' ≤ code.length) :
    PosLt (lineOf code o) (colOf code o) (lineOf code o') (colOf code o') :=
  posLt_of_lt code o o' h h'

/-- `lex` = drop the unwanted raw tokens, then place the others -/
theorem lex_eq (h : RawOk code raw) (fc : Bool) :
    lex code raw fc = (raw.filter (fun r => keepTok (!fc) (tokAt code r))).map (tokAt code) := by
  have := lexAll_positions h
  unfold lex
  rw [filterTokens_eq, this]
  exact List.filter_map

/-- 3b. the kept tokens are in strictly increasing source order: any earlier kept token has a
strictly smaller (line, column) than any later one.  `hne` (every token that is not of type
`Text`/`Whitespace` has a non-empty value) is part of the lexer contract and is checked at run
time; `hne_needed` shows it cannot be dropped.  (`hne` restricts the lexer PARAMETER, like
`RawOk`, not the input text: the property quantifies over texts, so this is not a `_partial`
theorem.  That the seven Pygments lexers satisfy `RawOk` and `hne` is not proved anywhere - it is
the contract recorded in DESIGN.md 5 and checked per input by the correspondence run.) -/
theorem kept_strictly_increasing (h : RawOk code raw)
    (hne : ∀ t ∈ raw, t.kind ≠ 6 → t.val ≠ []) (fc : Bool) :
    (lex code raw fc).Pairwise Tok.Before := by
  rw [lex_eq h, List.pairwise_map]
  refine (kept_raw h hne fc).imp ?_
  intro r r' ⟨h1, h3⟩
  exact posLt_of_lt code r.off r'.off h1 h3

/-- 3c. tokens do not overlap (no extra hypothesis needed): mapping (line, column) back to
offsets with `location_to_index`, any earlier token ends at or before the start of any later
one - for all positioned tokens ... -/
theorem lexAll_no_overlap (h : RawOk code raw) :
    (lexAll code raw).Pairwise (Tok.EndsBefore code) := by
  rw [lexAll_positions h, List.pairwise_map]
  refine (raw_pairwise_bounds h).imp ?_
  intro r r' ⟨h2, h3⟩
  exact ⟨r.off, r'.off, locationToIndex_lineOf_colOf code r.off (by omega),
    locationToIndex_lineOf_colOf code r'.off h3, h2⟩

/-- ... and hence for the kept ones -/
theorem kept_no_overlap (h : RawOk code raw) (fc : Bool) :
    (lex code raw fc).Pairwise (Tok.EndsBefore code) :=
  (lexAll_no_overlap h).sublist (lex_sublist_lexAll fc)

/-- 3d. without `hne` the kept tokens are still in non-decreasing source order: a later token
never lies strictly before an earlier one -/
theorem kept_nondecreasing (h : RawOk code raw) (fc : Bool) :
    (lex code raw fc).Pairwise (fun t t' => ¬ Tok.Before t' t) := by
  refine List.Pairwise.sublist (lex_sublist_lexAll fc) ?_
  rw [lexAll_positions h, List.pairwise_map]
  refine (raw_pairwise_bounds h).imp ?_
  intro r r' ⟨h2, h3⟩ hb
  rcases Nat.lt_or_ge r.off r'.off with hlt | hge
  · have := posLt_of_lt code r.off r'.off hlt h3
    simp only [Tok.Before, PosLt] at hb this; omega
  · have : r.off = r'.off := by omega
    simp only [Tok.Before, PosLt, this] at hb; omega

/-- `hne` is needed: an empty token of a non-`Text` type is kept and shares its position with
the next token, so the kept tokens are not strictly increasing (text `"a"`, raw tokens
`(0, Other, "")`, `(0, Name, "a")`) -/
theorem hne_needed :
    let code : Str := [97]
    let raw : List RawTok := [⟨0, 0, 0, []⟩, ⟨0, 2, 1, [97]⟩]
    RawOk code raw ∧ ¬ (lex code raw true).Pairwise Tok.Before := by
  decide

/-! ## 4. filtering -/

/-- 4a. whitespace tokens are never kept -/
theorem whitespace_never_kept (fc : Bool) : ∀ t ∈ lex code raw fc, t.isWhitespace = false := by
  intro t ht
  have := (List.mem_filter.1 ht).2
  cases hw : t.isWhitespace
  · rfl
  · simp [hw] at this

/-- 4b. comment tokens are kept exactly when requested (`filter_comments = False`); every
other non-whitespace token is always kept -/
theorem comments_kept_iff (fc : Bool) :
    ∀ t ∈ lexAll code raw, t.isWhitespace = false →
      (t ∈ lex code raw fc ↔ (t.isComment = true → fc = false)) := by
  intro t ht hw
  unfold lex filterTokens
  rw [List.mem_filter]
  cases hc : t.isComment <;> cases fc <;> simp [ht, hw]

/-- 4c. exact content and order of the result: `lex` is the positioned token list with the
whitespace tokens, and the comment tokens when `filter_comments`, removed -/
theorem lex_eq_filter (fc : Bool) :
    lex code raw fc =
      (lexAll code raw).filter (fun t => !t.isWhitespace && (!t.isComment || !fc)) := by
  unfold lex filterTokens
  apply List.filter_congr
  intro t _
  cases t.isWhitespace <;> cases t.isComment <;> cases fc <;> rfl

/-! ## 5. non-vacuity: a concrete text

`"x\t=\n\n'''a\né'''\n#c"`: a tab, a token (`=`) adjacent to a newline, an empty line (whose
newline token starts exactly on a newline character), a multi-line string containing the
non-ASCII code point 233, and a final comment without trailing newline. -/

/-- the text, as code points -/
def exCode : Str := [120, 9, 61, 10, 10, 39, 39, 39, 97, 10, 233, 39, 39, 39, 10, 35, 99]

/-- its raw tokens `(offset, kind, type, value)`: Name, Text, Operator, Text, Text, String,
Text, Comment -/
def exRaw : List RawTok :=
  [⟨0, 2, 1, [120]⟩, ⟨1, 6, 0, [9]⟩, ⟨2, 4, 2, [61]⟩, ⟨3, 6, 0, [10]⟩, ⟨4, 6, 0, [10]⟩,
   ⟨5, 7, 3, [39, 39, 39, 97, 10, 233, 39, 39, 39]⟩, ⟨14, 6, 0, [10]⟩, ⟨15, 5, 4, [35, 99]⟩]

/-- the hypotheses of all theorems above hold on the example -/
example : RawOk exCode exRaw ∧ ∀ t ∈ exRaw, t.kind ≠ 6 → t.val ≠ [] := by decide

/-- positions before filtering: `=` at (1,3), the newline after it at (1,4) (it belongs to the
line it ends), the newline of the empty line at (2,1), the string at (3,1), the newline after
the string at (4,5), the comment at (5,1) -/
example : lexAll exCode exRaw =
    [⟨2, 1, [120], 1, 1⟩, ⟨6, 0, [9], 1, 2⟩, ⟨4, 2, [61], 1, 3⟩, ⟨6, 0, [10], 1, 4⟩,
     ⟨6, 0, [10], 2, 1⟩, ⟨7, 3, [39, 39, 39, 97, 10, 233, 39, 39, 39], 3, 1⟩, ⟨6, 0, [10], 4, 5⟩,
     ⟨5, 4, [35, 99], 5, 1⟩] := by decide

/-- ... and these are the positions `lineOf`/`colOf` prescribe (instance of `lexAll_positions`) -/
example : lexAll exCode exRaw = exRaw.map (tokAt exCode) := by decide

/-- kept tokens with `filter_comments = True`: whitespace and the comment are gone -/
example : lex exCode exRaw true =
    [⟨2, 1, [120], 1, 1⟩, ⟨4, 2, [61], 1, 3⟩,
     ⟨7, 3, [39, 39, 39, 97, 10, 233, 39, 39, 39], 3, 1⟩] := by decide

/-- kept tokens with `filter_comments = False`: the comment stays -/
example : lex exCode exRaw false =
    [⟨2, 1, [120], 1, 1⟩, ⟨4, 2, [61], 1, 3⟩,
     ⟨7, 3, [39, 39, 39, 97, 10, 233, 39, 39, 39], 3, 1⟩, ⟨5, 4, [35, 99], 5, 1⟩] := by decide

/-- the multi-line string is found again at its reported position (3, 1) = offset 5 -/
example : locationToIndex exCode 3 1 = .ok 5 ∧
    (exCode.drop 5).take 9 = [39, 39, 39, 97, 10, 233, 39, 39, 39] := ⟨rfl, rfl⟩

/-- `location_to_index` raises `IndexError` for a line past the end of the text (so the `.ok`
in `location_roundtrip` is not a totalised default) -/
example : locationToIndex exCode 7 1 = .error .index := rfl

/-- a text without any newline (first branch of `lex`) and without trailing newline -/
example : RawOk [97, 32, 98] [⟨0, 2, 1, [97]⟩, ⟨1, 6, 0, [32]⟩, ⟨2, 2, 1, [98]⟩] ∧
    lex [97, 32, 98] [⟨0, 2, 1, [97]⟩, ⟨1, 6, 0, [32]⟩, ⟨2, 2, 1, [98]⟩] true =
      [⟨2, 1, [97], 1, 1⟩, ⟨2, 1, [98], 1, 3⟩] := by decide

end CL.C16
