import CodeLimit.Lemmas.Render
/-!
# C18 - rendered report, diff and findings show exactly the stored numbers

Model: `Model/Render.lean` (cell strings of the text table `ScanResultTable` and of the
Markdown table, findings selection of `format_text.print_findings` /
`format_markdown.print_findings`). Vocabulary: `Spec/Render.lean` (`StableSortedDesc`, `annot`,
`figures`, `sums`, `longFunctions`). Every comparison in the model is the definition
regenerated from the Python source (`CL.Gen.Logic`); the proofs below unfold those, so a
changed comparison in the source breaks them.

All theorems hold for EVERY locale `L` (`L.n i` = `f"{i:n}"`, `L.signed i` = `f"{i:+n}"`),
every list of current totals, every optional list of previous totals (languages added /
removed / changed / equal) and every list of files with measurements.

Outside the property (Appendix A of DESIGN.md), stated as observations:
* a language that only the CURRENT report has (`overview_language_only_current`): files,
  functions and lines of code are annotated against 0, the two counters of long functions
  are NOT annotated (asymmetry in `LanguageTotalsDelta`);
* a language that only the PREVIOUS report has gets no row; it only enters the totals;
* the Markdown overview without previous report formats with `f"{x}"`, the text overview with
  `f"{x:n}"`: the two agree iff the locale does not group digits
  (`overview_formats_agree_without_previous`).
-/
namespace CL.C18

open CL CL.Render CL.Gen.Logic

/-! ## reading aids for the vocabulary -/

/-- an unchanged figure is shown alone -/
theorem annot_of_eq (L : Locale) (a : Int) : annot L a a = L.n a := by
  simp [annot]

/-- a changed figure is followed by ` (current - previous)` with an explicit sign -/
theorem annot_of_ne (L : Locale) (a b : Int) (h : a ≠ b) :
    annot L a b = L.n a ++ str " (" ++ L.signed (a - b) ++ str ")" := by
  simp [annot, h]

/-- looking a language up in a report whose languages are distinct (a dict) finds exactly the
stored entry -/
theorem languageTotal_of_mem (t : Totals) (hnd : (t.map (·.language)).Nodup) (p : LangTotals) (hp : p ∈ t) :
    languageTotal t p.language = some p := by
  unfold languageTotal
  induction t with
  | nil => cases hp
  | cons q qs ih =>
    rw [List.map_cons, List.nodup_cons] at hnd
    rcases List.mem_cons.1 hp with rfl | hq
    · simp
    · have hne : ¬ q.language = p.language := by
        intro e; exact hnd.1 (e ▸ List.mem_map.2 ⟨p, hq, rfl⟩)
      have hb : (q.language == p.language) = false := by simpa using hne
      rw [List.find?_cons, hb]
      exact ih hnd.2 hq

theorem languageTotal_some (t : Totals) (l : Str) (p : LangTotals) (h : languageTotal t l = some p) :
    p ∈ t ∧ p.language = l := by
  unfold languageTotal at h
  exact ⟨List.mem_of_find?_eq_some h, by simpa using List.find?_some h⟩

theorem languageTotal_none (t : Totals) (l : Str) : languageTotal t l = none ↔ ∀ p ∈ t, p.language ≠ l := by
  unfold languageTotal
  simp [List.find?_eq_none]

/-! ## 1. order of the languages; overview without a previous report -/

/-- The languages are listed by lines of code, largest first; languages with the same number
keep the order in which the report stores them. (It is a rearrangement of the stored
languages: none is dropped, none invented, none repeated.) Python's stable `sorted` is
core's stable merge sort with the reversed comparison. -/
theorem languages_order (cur : Totals) :
    StableSortedDesc (·.loc) (languagesTotals cur) cur ∧
    languagesTotals cur = cur.mergeSort (fun a b => decide (b.loc ≤ a.loc)) :=
  ⟨sortDesc_stableSorted _ cur, sortDesc_eq_mergeSort _ cur⟩

/-- the same, spelled out -/
theorem languages_order_spelled (cur : Totals) :
    (languagesTotals cur).Perm cur ∧
    (languagesTotals cur).Pairwise (fun a b => a.loc ≥ b.loc) ∧
    ∀ k : Int, (languagesTotals cur).filter (fun a => decide (a.loc = k)) = cur.filter (fun a => decide (a.loc = k)) :=
  let h := (languages_order cur).1
  ⟨h.perm, h.sorted, h.stable⟩

/-- Text overview without previous report: one row per language in the order above, showing
the language and its five stored figures; the footer shows the five sums over all languages
and is present iff the report has more than one language. -/
theorem overview_text_without_previous (L : Locale) (cur : Totals) :
    (overviewText L cur none).rows = (languagesTotals cur).map (fun c => c.language :: (figures c).map L.n) ∧
    (overviewText L cur none).footer = (if cur.length > 1 then some ((sums cur).map L.n) else none) := by
  constructor
  · simp [overviewText, figures]
  · simp only [overviewText, sums, totalFiles, totalFunctions, totalLoc, totalHard, totalUnm, sumOf_eq,
      List.map_cons, List.map_nil]
    by_cases h : cur.length > 1 <;> simp [h]

/-- Markdown overview without previous report: the same rows and totals row, the numbers
written with `f"{x}"` (`fmtD`). -/
theorem overview_markdown_without_previous (L : Locale) (cur : Totals) :
    (overviewMarkdown L cur none).rows = (languagesTotals cur).map (fun c => c.language :: (figures c).map fmtD) ∧
    (overviewMarkdown L cur none).footer = (if cur.length > 1 then some ((sums cur).map fmtD) else none) := by
  constructor
  · simp [overviewMarkdown, figures]
  · have hl : (languagesTotals cur).length = cur.length := (sortDesc_perm _ cur).length_eq
    simp only [overviewMarkdown, hl, sums, totalFiles, totalFunctions, totalLoc, totalHard, totalUnm, sumOf_eq,
      List.map_cons, List.map_nil]

/-- every stored language has its row, and there are no other rows (text and Markdown) -/
theorem overview_every_language_has_its_row (L : Locale) (cur : Totals) (prev : Option Totals) :
    ((overviewText L cur prev).rows.map (·.head?)) = (languagesTotals cur).map (fun c => some c.language) ∧
    ((overviewMarkdown L cur prev).rows.map (·.head?)) = (languagesTotals cur).map (fun c => some c.language) ∧
    (overviewText L cur prev).rows.length = cur.length ∧
    (overviewMarkdown L cur prev).rows.length = cur.length := by
  have hl : (languagesTotals cur).length = cur.length := (sortDesc_perm _ cur).length_eq
  refine ⟨?_, ?_, ?_, ?_⟩
  · cases prev <;> simp [overviewText, Function.comp_def]
  · cases prev <;> simp [overviewMarkdown, Function.comp_def]
  · simp [overviewText, hl]
  · simp [overviewMarkdown, hl]

/-- In a locale that does not group digits (`f"{x:n}"` = `f"{x}"`, e.g. the C locale) the two
formats show identical cells also without previous report. -/
theorem overview_formats_agree_without_previous (L : Locale) (hL : L.n = fmtD) (cur : Totals) :
    overviewMarkdown L cur none = overviewText L cur none := by
  have hl : (languagesTotals cur).length = cur.length := (sortDesc_perm _ cur).length_eq
  simp only [overviewMarkdown, overviewText, hL, hl]
  by_cases h : cur.length > 1 <;> simp [h]

theorem overview_formats_agree_without_previous_C (cur : Totals) :
    overviewMarkdown Locale.C cur none = overviewText Locale.C cur none :=
  overview_formats_agree_without_previous Locale.C rfl cur

/-! ## 2. overview with a previous report -/

/-- what the five delta methods of `LanguageTotalsDelta` print for a language that the previous
report has too -/
theorem language_delta_cells (L : Locale) (c p : LangTotals) :
    [ltdFiles L c (some p), ltdFunctions L c (some p), ltdLoc L c (some p), ltdHard L c (some p),
      ltdUnm L c (some p)] = List.zipWith (annot L) (figures c) (figures p) := by
  simp only [figures, List.zipWith_cons_cons, List.zipWith_nil_right, ltdFiles, ltdFunctions, ltdLoc, ltdHard, ltdUnm]
  rw [annotate_eq L _ c.files p.files (by unfold LanguageTotalsDelta_files_plain; simp only [decide_eq_true_eq]; omega),
    annotate_eq L _ c.functions p.functions (by unfold LanguageTotalsDelta_functions_plain; simp only [decide_eq_true_eq]; omega),
    annotate_eq L _ c.loc p.loc (by unfold LanguageTotalsDelta_loc_plain; simp only [decide_eq_true_eq]; omega),
    annotate_eq L _ c.hard p.hard (by unfold LanguageTotalsDelta_hard_to_maintain_plain; simp only [decide_eq_true_eq]; omega),
    annotate_eq L _ c.unm p.unm (by unfold LanguageTotalsDelta_unmaintainable_plain; simp only [decide_eq_true_eq]; omega)]

/-- ... and for a language that the previous report does not have (observation, outside the
property): the first three figures are compared with 0, the last two are shown bare -/
theorem language_delta_cells_new (L : Locale) (c : LangTotals) :
    [ltdFiles L c none, ltdFunctions L c none, ltdLoc L c none, ltdHard L c none, ltdUnm L c none] =
      [annot L c.files 0, annot L c.functions 0, annot L c.loc 0, L.n c.hard, L.n c.unm] := by
  simp only [ltdFiles, ltdFunctions, ltdLoc, ltdHard, ltdUnm]
  rw [annotate_eq L _ c.files 0 (by unfold LanguageTotalsDelta_files_plain; simp only [decide_eq_true_eq]; omega),
    annotate_eq L _ c.functions 0 (by unfold LanguageTotalsDelta_functions_plain; simp only [decide_eq_true_eq]; omega),
    annotate_eq L _ c.loc 0 (by unfold LanguageTotalsDelta_loc_plain; simp only [decide_eq_true_eq]; omega)]

/-- what the five methods of `ScanTotalsDelta` print -/
theorem totals_delta_cells (L : Locale) (cur prev : Totals) :
    [stdFiles L cur prev, stdFunctions L cur prev, stdLoc L cur prev, stdHard L cur prev, stdUnm L cur prev] =
      List.zipWith (annot L) (sums cur) (sums prev) := by
  simp only [sums, List.zipWith_cons_cons, List.zipWith_nil_right, stdFiles, stdFunctions, stdLoc, stdHard, stdUnm,
    totalFiles, totalFunctions, totalLoc, totalHard, totalUnm, sumOf_eq]
  rw [annotate_eq L _ _ _ (by unfold ScanTotalsDelta_total_files_plain; simp only [decide_eq_true_eq]; omega),
    annotate_eq L _ _ _ (by unfold ScanTotalsDelta_total_functions_plain; simp only [decide_eq_true_eq]; omega),
    annotate_eq L _ _ _ (by unfold ScanTotalsDelta_total_loc_plain; simp only [decide_eq_true_eq]; omega),
    annotate_eq L _ _ _ (by unfold ScanTotalsDelta_total_hard_to_maintain_plain; simp only [decide_eq_true_eq]; omega),
    annotate_eq L _ _ _ (by unfold ScanTotalsDelta_total_unmaintainable_plain; simp only [decide_eq_true_eq]; omega)]

/-- With a previous report the two formats show IDENTICAL cells: every row (also of languages
that only the current report has) and the totals. -/
theorem overview_formats_agree_with_previous (L : Locale) (cur prev : Totals) :
    overviewMarkdown L cur (some prev) = overviewText L cur (some prev) := by
  have hl : (languagesTotals cur).length = cur.length := (sortDesc_perm _ cur).length_eq
  simp only [overviewMarkdown, overviewText, hl]
  by_cases h : cur.length > 1 <;> simp [h]

/-- With a previous report, in both formats: the row at position `i` belongs to the `i`-th
language `c` in the order of `languages_order`; if the previous report has that language
(with figures `p`) each of the five figures is shown as `annot L current previous`, i.e. bare
when equal and followed by ` (current - previous)` when different. -/
theorem overview_language_in_both (L : Locale) (cur prev : Totals) (i : Nat) (c p : LangTotals)
    (hc : (languagesTotals cur)[i]? = some c) (hp : languageTotal prev c.language = some p) :
    (overviewText L cur (some prev)).rows[i]? = some (c.language :: List.zipWith (annot L) (figures c) (figures p)) ∧
    (overviewMarkdown L cur (some prev)).rows[i]? = some (c.language :: List.zipWith (annot L) (figures c) (figures p)) := by
  rw [overview_formats_agree_with_previous]
  refine ⟨?_, ?_⟩ <;>
  · simp only [overviewText, List.getElem?_map, hc, Option.map_some, hp]
    rw [← language_delta_cells]

/-- With a previous report, both formats: the totals are annotated the same way with the
totals of the two reports (sums over ALL languages of each report, so languages that were
added or removed count), and are present iff the current report has more than one language. -/
theorem overview_totals_with_previous (L : Locale) (cur prev : Totals) :
    (overviewText L cur (some prev)).footer =
      (if cur.length > 1 then some (List.zipWith (annot L) (sums cur) (sums prev)) else none) ∧
    (overviewMarkdown L cur (some prev)).footer =
      (if cur.length > 1 then some (List.zipWith (annot L) (sums cur) (sums prev)) else none) := by
  rw [overview_formats_agree_with_previous]
  refine ⟨?_, ?_⟩ <;>
  · simp only [overviewText]
    rw [totals_delta_cells]
    by_cases h : cur.length > 1 <;> simp [h]

/-- OBSERVATION (outside the property): a language that only the current report has is shown,
in both formats, with files / functions / lines of code annotated against 0 (`3 (+3)`; bare
when the figure is 0) and with the two counters of long functions NOT annotated. -/
theorem overview_language_only_current (L : Locale) (cur prev : Totals) (i : Nat) (c : LangTotals)
    (hc : (languagesTotals cur)[i]? = some c) (hp : languageTotal prev c.language = none) :
    (overviewText L cur (some prev)).rows[i]? =
      some [c.language, annot L c.files 0, annot L c.functions 0, annot L c.loc 0, L.n c.hard, L.n c.unm] ∧
    (overviewMarkdown L cur (some prev)).rows[i]? =
      some [c.language, annot L c.files 0, annot L c.functions 0, annot L c.loc 0, L.n c.hard, L.n c.unm] := by
  rw [overview_formats_agree_with_previous]
  refine ⟨?_, ?_⟩ <;>
  · simp only [overviewText, List.getElem?_map, hc, Option.map_some, hp]
    rw [← language_delta_cells_new]

/-! ## 3. findings -/

/-- The functions both listings choose from: exactly those longer than 30 lines, longest
first, equally long ones in report order (file order, then order within the file). -/
theorem units_selected (files : Files) :
    StableSortedDesc (·.m.value) (allReportUnits files findings_threshold_text) (longFunctions files) ∧
    allReportUnits files findings_threshold_markdown = allReportUnits files findings_threshold_text := by
  have ht : ∀ v : Int, units_keeps v findings_threshold_text ↔ v > 30 := by
    intro v; unfold units_keeps findings_threshold_text; omega
  have hm : ∀ v : Int, units_keeps v findings_threshold_markdown ↔ v > 30 := by
    intro v; unfold units_keeps findings_threshold_markdown; omega
  unfold allReportUnits longFunctions
  rw [flatMap_filter_eq files _ ht, flatMap_filter_eq files _ hm]
  exact ⟨sortDesc_stableSorted _ _, rfl⟩

/-- membership form: a function is among them iff the report stores it and it is longer than 30 -/
theorem mem_units_selected (files : Files) (u : RUnit) :
    u ∈ allReportUnits files findings_threshold_text ↔ u ∈ allUnits files ∧ u.m.value > 30 := by
  rw [(units_selected files).1.perm.mem_iff]
  simp [longFunctions]

/-- Text findings: with `all` the list of `units_selected`, the listing shows all of it when
full output is requested and its first ten otherwise; the "more rows" line is printed iff
not full and more than ten exist, and the number in it is `total - 10`. Each shown unit is
printed with its own file, line, column, length and name. -/
theorem findings_text (files : Files) (full : Bool) :
    (findingsText files full).shown =
      (if full then allReportUnits files findings_threshold_text
       else (allReportUnits files findings_threshold_text).take 10) ∧
    (findingsText files full).more =
      (if ¬ full ∧ (allReportUnits files findings_threshold_text).length > 10
       then some (((allReportUnits files findings_threshold_text).length : Int) - 10) else none) ∧
    (findingsText files full).rows = (findingsText files full).shown.map rowText := by
  have ht : ∀ n : Nat, findings_truncates_text full (n : Int) ↔ (full = false ∧ n > 10) := by
    intro n; unfold findings_truncates_text; cases full <;> grind
  have hk : findings_kept_text = 10 := by unfold findings_kept_text; grind
  have ho : ∀ t : Int, findings_omitted_text t = t - 10 := by intro t; unfold findings_omitted_text; grind
  simp only [findingsText, ht, hk, ho]
  cases full
  · by_cases h : (allReportUnits files findings_threshold_text).length > 10
    · simp [h]
    · have h'' : (allReportUnits files findings_threshold_text).length ≤ 10 := by omega
      simp [h, List.take_of_length_le h'']
  · simp

/-- Markdown findings, with or without repository: the same. -/
theorem findings_markdown (files : Files) (full repo : Bool) :
    (findingsMarkdown files full repo).shown =
      (if full then allReportUnits files findings_threshold_text
       else (allReportUnits files findings_threshold_text).take 10) ∧
    (findingsMarkdown files full repo).more =
      (if ¬ full ∧ (allReportUnits files findings_threshold_text).length > 10
       then some (((allReportUnits files findings_threshold_text).length : Int) - 10) else none) ∧
    (findingsMarkdown files full repo).rows =
      (findingsMarkdown files full repo).shown.map (if repo then rowMarkdownRepo else rowMarkdown) := by
  have ht : ∀ n : Nat, findings_truncates_markdown full (n : Int) ↔ (full = false ∧ n > 10) := by
    intro n; unfold findings_truncates_markdown; cases full <;> grind
  have hk : findings_kept_markdown = 10 := by unfold findings_kept_markdown; grind
  have ho : ∀ t : Int, findings_omitted_markdown t = t - 10 := by intro t; unfold findings_omitted_markdown; grind
  simp only [findingsMarkdown, ht, hk, ho, (units_selected files).2]
  cases full
  · by_cases h : (allReportUnits files findings_threshold_text).length > 10
    · cases repo <;> simp [h]
    · have h'' : (allReportUnits files findings_threshold_text).length ≤ 10 := by omega
      cases repo <;> simp [h, List.take_of_length_le h'']
  · cases repo <;> simp

/-- identical selection and identical omitted count in text and Markdown, with and without
repository -/
theorem findings_same_selection (files : Files) (full repo : Bool) :
    (findingsMarkdown files full repo).shown = (findingsText files full).shown ∧
    (findingsMarkdown files full repo).more = (findingsText files full).more := by
  rw [(findings_markdown files full repo).1, (findings_markdown files full repo).2.1,
    (findings_text files full).1, (findings_text files full).2.1]
  exact ⟨rfl, rfl⟩

/-- counting: ten rows (or all, if fewer) unless full; the number in the "more rows" line is
exactly the number of selected functions that are not shown (and positive); without that line
nothing is omitted; the line is printed iff not full and more than ten were selected. -/
theorem findings_counts (files : Files) (full : Bool) :
    ((findingsText files full).shown.length =
      if full then (allReportUnits files findings_threshold_text).length
      else min 10 (allReportUnits files findings_threshold_text).length) ∧
    (∀ k, (findingsText files full).more = some k →
      ((allReportUnits files findings_threshold_text).length : Int) = (findingsText files full).shown.length + k ∧ k > 0) ∧
    ((findingsText files full).more = none →
      (findingsText files full).shown.length = (allReportUnits files findings_threshold_text).length) ∧
    ((findingsText files full).more.isSome ↔
      (full = false ∧ (allReportUnits files findings_threshold_text).length > 10)) := by
  obtain ⟨hs, hm, _⟩ := findings_text files full
  rw [hs, hm]
  generalize allReportUnits files findings_threshold_text = all
  cases full
  · by_cases h : all.length > 10
    · simp only [Bool.false_eq_true, if_false, not_false_eq_true, true_and, h, if_true, List.length_take]
      refine ⟨?_, ?_, by simp⟩
      · intro k hk
        injection hk with hk
        omega
      · intro hk; cases hk
    · simp only [Bool.false_eq_true, if_false, not_false_eq_true, true_and, h, List.length_take]
      refine ⟨?_, ?_, by simp⟩
      · intro k hk; cases hk
      · intro _; omega
  · simp

/-! ## non-vacuity: concrete reports -/

/-- files with measurements of the given lengths (names and positions made up) -/
def mkFiles (lens : List (List Int)) : Files :=
  lens.zipIdx.map fun (ls, i) => ([102, i], ls.zipIdx.map fun (v, j) => ⟨[117, j], j + 1, 1, j + 1 + v, v⟩)

def lengthsShown (F : Findings) : List Int := F.shown.map (·.m.value)

-- 0 findings: nothing longer than 30
example : findingsText (mkFiles [[30, 15, 1], [29]]) false = ⟨[], [], none⟩ := by decide +kernel
example : findingsMarkdown (mkFiles [[30, 15, 1], [29]]) false true = ⟨[], [], none⟩ := by decide +kernel
-- 10 findings: all shown, no "more rows" line
example : lengthsShown (findingsText (mkFiles [[31, 40, 35, 30], [61, 33, 100], [32, 45, 31, 50, 10]]) false) =
      [100, 61, 50, 45, 40, 35, 33, 32, 31, 31] ∧
    (findingsText (mkFiles [[31, 40, 35, 30], [61, 33, 100], [32, 45, 31, 50, 10]]) false).more = none := by
  decide +kernel
-- 11 findings: ten shown, "1 more rows"; full: all eleven; the two of length 31 stay in report order
example : lengthsShown (findingsText (mkFiles [[31, 40, 35, 30], [61, 33, 100], [32, 45, 31, 50, 36]]) false) =
      [100, 61, 50, 45, 40, 36, 35, 33, 32, 31] ∧
    (findingsText (mkFiles [[31, 40, 35, 30], [61, 33, 100], [32, 45, 31, 50, 36]]) false).more = some 1 ∧
    lengthsShown (findingsText (mkFiles [[31, 40, 35, 30], [61, 33, 100], [32, 45, 31, 50, 36]]) true) =
      [100, 61, 50, 45, 40, 36, 35, 33, 32, 31, 31] ∧
    ((findingsMarkdown (mkFiles [[31, 40, 35, 30], [61, 33, 100], [32, 45, 31, 50, 36]]) true false).shown.drop 9).map
      (fun u => (u.file, u.m.name)) = [([102, 0], [117, 0]), ([102, 2], [117, 2])] := by
  decide +kernel
-- 25 findings: ten shown, "15 more rows", in all three Markdown/text layouts
example :
    let files := mkFiles [[31, 32, 33, 34, 35, 36, 37, 38, 39, 40, 5], [70, 69, 68, 67, 66, 65, 64, 63, 62, 61, 30],
      [45, 45, 45, 45, 45]]
    lengthsShown (findingsText files false) = [70, 69, 68, 67, 66, 65, 64, 63, 62, 61] ∧
    (findingsText files false).more = some 15 ∧
    (findingsMarkdown files false false).more = some 15 ∧
    (findingsMarkdown files false true).more = some 15 ∧
    (findingsText files true).shown.length = 25 ∧ (findingsText files true).more = none := by
  decide +kernel

/-- a two-language diff: Python changed, C is new, Java was removed -/
def exCur : Totals := [⟨str "Python", 3, 12, 400, 2, 0⟩, ⟨str "C", 1, 4, 400, 1, 1⟩]
def exPrev : Totals := [⟨str "Java", 2, 5, 90, 0, 0⟩, ⟨str "Python", 3, 10, 420, 2, 1⟩]

example : overviewText Locale.C exCur (some exPrev) =
    { rows := [[str "Python", str "3", str "12 (+2)", str "400 (-20)", str "2", str "0 (-1)"],
               [str "C", str "1 (+1)", str "4 (+4)", str "400 (+400)", str "1", str "1"]],
      footer := some [str "4 (-1)", str "16 (+1)", str "800 (+290)", str "3 (+1)", str "1"] } := by
  decide +kernel
example : overviewMarkdown Locale.C exCur (some exPrev) = overviewText Locale.C exCur (some exPrev) := by
  decide +kernel
example : overviewText Locale.C exCur none =
    { rows := [[str "Python", str "3", str "12", str "400", str "2", str "0"],
               [str "C", str "1", str "4", str "400", str "1", str "1"]],
      footer := some [str "4", str "16", str "800", str "3", str "1"] } := by
  decide +kernel
-- a single language: no totals line
example : (overviewText Locale.C [⟨str "C", 1, 4, 400, 1, 1⟩] none).footer = none ∧
    (overviewMarkdown Locale.C [⟨str "C", 1, 4, 400, 1, 1⟩] (some exPrev)).footer = none := by
  decide +kernel
-- the hypotheses of `overview_language_in_both` / `overview_language_only_current` are satisfiable
example : (languagesTotals exCur)[0]? = some ⟨str "Python", 3, 12, 400, 2, 0⟩ ∧
    languageTotal exPrev (str "Python") = some ⟨str "Python", 3, 10, 420, 2, 1⟩ ∧
    (languagesTotals exCur)[1]? = some ⟨str "C", 1, 4, 400, 1, 1⟩ ∧ languageTotal exPrev (str "C") = none := by
  decide +kernel

end CL.C18
