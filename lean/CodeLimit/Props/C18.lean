import CodeLimit.Lemmas.RenderRows
/-!
# C18 - rendered report, diff and findings show exactly the stored numbers

Model: `Model/Render.lean` (cell strings of the text table `ScanResultTable` and of the
Markdown table, findings selection of `format_text.print_findings` /
`format_markdown.print_findings`). Vocabulary: `Spec/Render.lean` (`StableSortedDesc`, `annot`,
`figures`, `sums`, `longFunctions`; for the findings rows `RowShowsText`, `RowShowsMarkdown`,
`RowShowsMarkdownRepo`, the printed lines `textLine`, `markdownLine`, `markdownRepoLine` and the
layouts that place the cells in the line). Every comparison in the model is the definition
regenerated from the Python source (`CL.Gen.Logic`); the proofs below unfold those, so a
changed comparison in the source breaks them.

All theorems hold for EVERY locale `L` (`L.n i` = `f"{i:n}"`, `L.signed i` = `f"{i:+n}"`),
every list of current totals, every optional list of previous totals (languages added /
removed / changed / equal) and every list of files with measurements.

Outside the property (Appendix A of DESIGN.md), stated as observations:
* a language that only the CURRENT report has (`overview_language_only_current`): files,
  functions and lines of code are annotated against 0, the two counters of long functions
  are NOT annotated (asymmetry in `LanguageTotalsDelta`);
* a language that only the PREVIOUS report has gets no row; it only enters the totals;
* the Markdown overview without previous report formats with `f"{x}"`, the text overview with
  `f"{x:n}"`: the two agree iff the locale does not group digits
  (`overview_formats_agree_without_previous`).

Outside the property / interpretation of "for each language AND IN TOTAL". The property text
says the overview shows the five figures "for each language and in total". Both renderers show
a totals line only when the current report has MORE THAN ONE language
(`show_footer=len(scan_totals_current.languages()) > 1` in `ScanResultTable.py`,
`if len(scan_totals_current.languages_totals()) > 1` in `format_markdown._print_totals`). The
clause is therefore read as follows, and each part is a theorem of section 2b:
* two or more languages: the totals line is there and shows the five sums
  (`overview_totals_absent_iff`, `overview_totals_present_iff`, with the contents given by
  `overview_text_without_previous`, `overview_markdown_without_previous`,
  `overview_totals_with_previous`);
* exactly one language: there is no totals line, but the totals EQUAL the figures of the only
  row (`sums [c] = figures c`), so without a previous report every total is on display in that
  row (`overview_single_language_row_is_total`). With a previous report the only row is
  annotated against the previous figures OF THAT LANGUAGE, not against the previous totals
  (`overview_single_language_with_previous`): the two coincide when the previous report has
  that language only (`overview_single_language_same_language`), otherwise the change of the
  totals is shown NOWHERE (`overview_single_language_totals_change_not_shown`, an observation
  with a kernel-checked instance: a language was removed between the two reports);
* no language: no row, no totals line, all sums are 0 (`overview_empty`).

Internals. `language_delta_cells`, `language_delta_cells_new` and `totals_delta_cells` speak of
helper cells of the model (`ltd*`, `std*` = the methods of `LanguageTotalsDelta` /
`ScanTotalsDelta`), not of rendered output; the statements about rows and totals line are
`overview_language_in_both`, `overview_language_only_current`, `overview_totals_with_previous`,
`overview_cell_annotated_iff_differs`, `overview_total_annotated_iff_differs`.

Which theorem covers which sentence of the property:
* "shows for each language ... the numbers ... stored in the report": `overview_text_without_previous`,
  `overview_markdown_without_previous`, `overview_every_language_has_its_row`;
* "and in total": see the interpretation above;
* "with languages ordered by lines of code": `overview_rows_ordered_by_loc` (rows),
  `languages_order` (the order itself);
* "each figure of a language present in both reports, and each total, is annotated with current
  minus previous exactly when the two differ": `overview_cell_annotated_iff_differs`,
  `overview_total_annotated_iff_differs` (cell level, from `overview_language_in_both`,
  `overview_totals_with_previous` and `annot_eq_plain_iff`);
* "identically in both formats": `overview_formats_agree_with_previous`;
* "the findings list shows the functions longer than 30 lines, longest first": `units_selected`,
  `mem_units_selected`; "at most ten unless full output is requested, together with the exact
  number of omitted rows": `findings_text`, `findings_markdown`, `findings_counts`,
  `findings_same_selection`; what a row shows of a function: `findings_rows_text`,
  `findings_rows_markdown`, `findings_rows_markdown_repo`, `rowShows*_eq_iff`, `findings_lines_*`.
-/
namespace CL.C18

open CL CL.Render CL.Gen.Logic

/-! ## reading aids for the vocabulary -/

/-- an unchanged figure is shown alone -/
theorem annot_of_eq (L : Locale) (a : Int) : annot L a a = L.n a := by
  simp [annot]

/-- a changed figure is followed by ` (current - previous)` with an explicit sign -/
theorem annot_of_ne (L : Locale) (a b : Int) (h : a ≠ b) :
    annot L a b = L.n a ++ str " (" ++ L.signed (a - b) ++ str ")" := by
  simp [annot, h]

/-- A figure is shown bare EXACTLY when current and previous are equal - in every locale: the
annotation ` (...)` has at least three characters, so an annotated cell is never the bare one. -/
theorem annot_eq_plain_iff (L : Locale) (a b : Int) : annot L a b = L.n a ↔ a = b := by
  constructor
  · intro h
    by_cases hne : a = b
    · exact hne
    · exfalso
      rw [annot_of_ne L a b hne] at h
      have hl := congrArg List.length h
      have h2 : (str " (").length = 2 := by decide
      have h1 : (str ")").length = 1 := by decide
      simp only [List.length_append, h2, h1] at hl
      omega
  · intro h; subst h; exact annot_of_eq L a

/-- ... and otherwise it is the bare figure followed by ` (current - previous)`; the two cases
exclude each other -/
theorem annot_cases (L : Locale) (a b : Int) :
    (a = b ∧ annot L a b = L.n a) ∨
    (a ≠ b ∧ annot L a b = L.n a ++ str " (" ++ L.signed (a - b) ++ str ")" ∧ annot L a b ≠ L.n a) := by
  by_cases h : a = b
  · exact Or.inl ⟨h, by rw [h]; exact annot_of_eq L b⟩
  · exact Or.inr ⟨h, annot_of_ne L a b h, fun e => h ((annot_eq_plain_iff L a b).1 e)⟩

/-- looking a language up in a report whose languages are distinct (a dict) finds exactly the
stored entry -/
theorem languageTotal_of_mem (t : Totals) (hnd : (t.map (·.language)).Nodup) (p : LangTotals) (hp : p ∈ t) :
    languageTotal t p.language = some p := by
  unfold languageTotal
  induction t with
  | nil => cases hp
  | cons q qs ih =>
    rw [List.map_cons, List.nodup_cons] at hnd
    rcases List.mem_cons.1 hp with rfl | hq
    · simp
    · have hne : ¬ q.language = p.language := by
        intro e; exact hnd.1 (e ▸ List.mem_map.2 ⟨p, hq, rfl⟩)
      have hb : (q.language == p.language) = false := by simpa using hne
      rw [List.find?_cons, hb]
      exact ih hnd.2 hq

theorem languageTotal_some (t : Totals) (l : Str) (p : LangTotals) (h : languageTotal t l = some p) :
    p ∈ t ∧ p.language = l := by
  unfold languageTotal at h
  exact ⟨List.mem_of_find?_eq_some h, by simpa using List.find?_some h⟩

theorem languageTotal_none (t : Totals) (l : Str) : languageTotal t l = none ↔ ∀ p ∈ t, p.language ≠ l := by
  unfold languageTotal
  simp [List.find?_eq_none]

/-! ## 1. order of the languages; overview without a previous report -/

/-- The languages are listed by lines of code, largest first; languages with the same number
keep the order in which the report stores them. (It is a rearrangement of the stored
languages: none is dropped, none invented, none repeated.) Python's stable `sorted` is
core's stable merge sort with the reversed comparison. -/
theorem languages_order (cur : Totals) :
    StableSortedDesc (·.loc) (languagesTotals cur) cur ∧
    languagesTotals cur = cur.mergeSort (fun a b => decide (b.loc ≤ a.loc)) :=
  ⟨sortDesc_stableSorted _ cur, sortDesc_eq_mergeSort _ cur⟩

/-- the same, spelled out -/
theorem languages_order_spelled (cur : Totals) :
    (languagesTotals cur).Perm cur ∧
    (languagesTotals cur).Pairwise (fun a b => a.loc ≥ b.loc) ∧
    ∀ k : Int, (languagesTotals cur).filter (fun a => decide (a.loc = k)) = cur.filter (fun a => decide (a.loc = k)) :=
  let h := (languages_order cur).1
  ⟨h.perm, h.sorted, h.stable⟩

/-- Text overview without previous report: one row per language in the order above, showing
the language and its five stored figures; the footer shows the five sums over all languages
and is present iff the report has more than one language. -/
theorem overview_text_without_previous (L : Locale) (cur : Totals) :
    (overviewText L cur none).rows = (languagesTotals cur).map (fun c => c.language :: (figures c).map L.n) ∧
    (overviewText L cur none).footer = (if cur.length > 1 then some ((sums cur).map L.n) else none) := by
  constructor
  · simp [overviewText, figures]
  · simp only [overviewText, sums, totalFiles, totalFunctions, totalLoc, totalHard, totalUnm, sumOf_eq,
      List.map_cons, List.map_nil]
    by_cases h : cur.length > 1 <;> simp [h]

/-- Markdown overview without previous report: the same rows and totals row, the numbers
written with `f"{x}"` (`fmtD`). -/
theorem overview_markdown_without_previous (L : Locale) (cur : Totals) :
    (overviewMarkdown L cur none).rows = (languagesTotals cur).map (fun c => c.language :: (figures c).map fmtD) ∧
    (overviewMarkdown L cur none).footer = (if cur.length > 1 then some ((sums cur).map fmtD) else none) := by
  constructor
  · simp [overviewMarkdown, figures]
  · have hl : (languagesTotals cur).length = cur.length := (sortDesc_perm _ cur).length_eq
    simp only [overviewMarkdown, hl, sums, totalFiles, totalFunctions, totalLoc, totalHard, totalUnm, sumOf_eq,
      List.map_cons, List.map_nil]

/-- every stored language has its row, and there are no other rows (text and Markdown) -/
theorem overview_every_language_has_its_row (L : Locale) (cur : Totals) (prev : Option Totals) :
    ((overviewText L cur prev).rows.map (·.head?)) = (languagesTotals cur).map (fun c => some c.language) ∧
    ((overviewMarkdown L cur prev).rows.map (·.head?)) = (languagesTotals cur).map (fun c => some c.language) ∧
    (overviewText L cur prev).rows.length = cur.length ∧
    (overviewMarkdown L cur prev).rows.length = cur.length := by
  have hl : (languagesTotals cur).length = cur.length := (sortDesc_perm _ cur).length_eq
  refine ⟨?_, ?_, ?_, ?_⟩
  · cases prev <;> simp [overviewText, Function.comp_def]
  · cases prev <;> simp [overviewMarkdown, Function.comp_def]
  · simp [overviewText, hl]
  · simp [overviewMarkdown, hl]

/-- In a locale that does not group digits (`f"{x:n}"` = `f"{x}"`, e.g. the C locale) the two
formats show identical cells also without previous report. -/
theorem overview_formats_agree_without_previous (L : Locale) (hL : L.n = fmtD) (cur : Totals) :
    overviewMarkdown L cur none = overviewText L cur none := by
  have hl : (languagesTotals cur).length = cur.length := (sortDesc_perm _ cur).length_eq
  simp only [overviewMarkdown, overviewText, hL, hl]
  by_cases h : cur.length > 1 <;> simp [h]

theorem overview_formats_agree_without_previous_C (cur : Totals) :
    overviewMarkdown Locale.C cur none = overviewText Locale.C cur none :=
  overview_formats_agree_without_previous Locale.C rfl cur

/-! ## 2. overview with a previous report -/

/-- INTERNALS (lemma about helper cells of the model, not about rendered output; lifted to the
rows by `overview_language_in_both`): what the five delta methods of `LanguageTotalsDelta`
print for a language that the previous report has too -/
theorem language_delta_cells (L : Locale) (c p : LangTotals) :
    [ltdFiles L c (some p), ltdFunctions L c (some p), ltdLoc L c (some p), ltdHard L c (some p),
      ltdUnm L c (some p)] = List.zipWith (annot L) (figures c) (figures p) := by
  simp only [figures, List.zipWith_cons_cons, List.zipWith_nil_right, ltdFiles, ltdFunctions, ltdLoc, ltdHard, ltdUnm]
  rw [annotate_eq L _ c.files p.files (by unfold LanguageTotalsDelta_files_plain; simp only [decide_eq_true_eq]; omega),
    annotate_eq L _ c.functions p.functions (by unfold LanguageTotalsDelta_functions_plain; simp only [decide_eq_true_eq]; omega),
    annotate_eq L _ c.loc p.loc (by unfold LanguageTotalsDelta_loc_plain; simp only [decide_eq_true_eq]; omega),
    annotate_eq L _ c.hard p.hard (by unfold LanguageTotalsDelta_hard_to_maintain_plain; simp only [decide_eq_true_eq]; omega),
    annotate_eq L _ c.unm p.unm (by unfold LanguageTotalsDelta_unmaintainable_plain; simp only [decide_eq_true_eq]; omega)]

/-- INTERNALS (lemma about helper cells; lifted to the rows by `overview_language_only_current`):
... and for a language that the previous report does not have (observation, outside the
property): the first three figures are compared with 0, the last two are shown bare -/
theorem language_delta_cells_new (L : Locale) (c : LangTotals) :
    [ltdFiles L c none, ltdFunctions L c none, ltdLoc L c none, ltdHard L c none, ltdUnm L c none] =
      [annot L c.files 0, annot L c.functions 0, annot L c.loc 0, L.n c.hard, L.n c.unm] := by
  simp only [ltdFiles, ltdFunctions, ltdLoc, ltdHard, ltdUnm]
  rw [annotate_eq L _ c.files 0 (by unfold LanguageTotalsDelta_files_plain; simp only [decide_eq_true_eq]; omega),
    annotate_eq L _ c.functions 0 (by unfold LanguageTotalsDelta_functions_plain; simp only [decide_eq_true_eq]; omega),
    annotate_eq L _ c.loc 0 (by unfold LanguageTotalsDelta_loc_plain; simp only [decide_eq_true_eq]; omega)]

/-- INTERNALS (lemma about helper cells; lifted to the totals line by
`overview_totals_with_previous`): what the five methods of `ScanTotalsDelta` print -/
theorem totals_delta_cells (L : Locale) (cur prev : Totals) :
    [stdFiles L cur prev, stdFunctions L cur prev, stdLoc L cur prev, stdHard L cur prev, stdUnm L cur prev] =
      List.zipWith (annot L) (sums cur) (sums prev) := by
  simp only [sums, List.zipWith_cons_cons, List.zipWith_nil_right, stdFiles, stdFunctions, stdLoc, stdHard, stdUnm,
    totalFiles, totalFunctions, totalLoc, totalHard, totalUnm, sumOf_eq]
  rw [annotate_eq L _ _ _ (by unfold ScanTotalsDelta_total_files_plain; simp only [decide_eq_true_eq]; omega),
    annotate_eq L _ _ _ (by unfold ScanTotalsDelta_total_functions_plain; simp only [decide_eq_true_eq]; omega),
    annotate_eq L _ _ _ (by unfold ScanTotalsDelta_total_loc_plain; simp only [decide_eq_true_eq]; omega),
    annotate_eq L _ _ _ (by unfold ScanTotalsDelta_total_hard_to_maintain_plain; simp only [decide_eq_true_eq]; omega),
    annotate_eq L _ _ _ (by unfold ScanTotalsDelta_total_unmaintainable_plain; simp only [decide_eq_true_eq]; omega)]

/-- With a previous report the two formats show IDENTICAL cells: every row (also of languages
that only the current report has) and the totals. -/
theorem overview_formats_agree_with_previous (L : Locale) (cur prev : Totals) :
    overviewMarkdown L cur (some prev) = overviewText L cur (some prev) := by
  have hl : (languagesTotals cur).length = cur.length := (sortDesc_perm _ cur).length_eq
  simp only [overviewMarkdown, overviewText, hl]
  by_cases h : cur.length > 1 <;> simp [h]

/-- With a previous report, in both formats: the row at position `i` belongs to the `i`-th
language `c` in the order of `languages_order`; if the previous report has that language
(with figures `p`) each of the five figures is shown as `annot L current previous`, i.e. bare
when equal and followed by ` (current - previous)` when different. -/
theorem overview_language_in_both (L : Locale) (cur prev : Totals) (i : Nat) (c p : LangTotals)
    (hc : (languagesTotals cur)[i]? = some c) (hp : languageTotal prev c.language = some p) :
    (overviewText L cur (some prev)).rows[i]? = some (c.language :: List.zipWith (annot L) (figures c) (figures p)) ∧
    (overviewMarkdown L cur (some prev)).rows[i]? = some (c.language :: List.zipWith (annot L) (figures c) (figures p)) := by
  rw [overview_formats_agree_with_previous]
  refine ⟨?_, ?_⟩ <;>
  · simp only [overviewText, List.getElem?_map, hc, Option.map_some, hp]
    rw [← language_delta_cells]

/-- With a previous report, both formats: the totals are annotated the same way with the
totals of the two reports (sums over ALL languages of each report, so languages that were
added or removed count), and are present iff the current report has more than one language. -/
theorem overview_totals_with_previous (L : Locale) (cur prev : Totals) :
    (overviewText L cur (some prev)).footer =
      (if cur.length > 1 then some (List.zipWith (annot L) (sums cur) (sums prev)) else none) ∧
    (overviewMarkdown L cur (some prev)).footer =
      (if cur.length > 1 then some (List.zipWith (annot L) (sums cur) (sums prev)) else none) := by
  rw [overview_formats_agree_with_previous]
  refine ⟨?_, ?_⟩ <;>
  · simp only [overviewText]
    rw [totals_delta_cells]
    by_cases h : cur.length > 1 <;> simp [h]

/-- OBSERVATION (outside the property): a language that only the current report has is shown,
in both formats, with files / functions / lines of code annotated against 0 (`3 (+3)`; bare
when the figure is 0) and with the two counters of long functions NOT annotated. -/
theorem overview_language_only_current (L : Locale) (cur prev : Totals) (i : Nat) (c : LangTotals)
    (hc : (languagesTotals cur)[i]? = some c) (hp : languageTotal prev c.language = none) :
    (overviewText L cur (some prev)).rows[i]? =
      some [c.language, annot L c.files 0, annot L c.functions 0, annot L c.loc 0, L.n c.hard, L.n c.unm] ∧
    (overviewMarkdown L cur (some prev)).rows[i]? =
      some [c.language, annot L c.files 0, annot L c.functions 0, annot L c.loc 0, L.n c.hard, L.n c.unm] := by
  rw [overview_formats_agree_with_previous]
  refine ⟨?_, ?_⟩ <;>
  · simp only [overviewText, List.getElem?_map, hc, Option.map_some, hp]
    rw [← language_delta_cells_new]

/-! ## 2a. cell level: annotated exactly when the two figures differ; order of the rows -/

/-- "Each figure of a language present in both reports is annotated with current minus previous
exactly when the two differ", at the level of the CELLS of the row (both formats): for the
`i`-th language `c` with previous figures `p`, the cell of column `j` (0 = files ... 4 =
unmaintainable; column 0 of the row is the language) holds `annot L x y` for the current figure
`x` and the previous figure `y`; it is the bare `L.n x` iff `x = y`, and for `x ≠ y` it is
`L.n x` followed by ` (x - y)` with explicit sign. -/
theorem overview_cell_annotated_iff_differs (L : Locale) (cur prev : Totals) (i : Nat) (c p : LangTotals)
    (hc : (languagesTotals cur)[i]? = some c) (hp : languageTotal prev c.language = some p)
    (j : Nat) (x y : Int) (hx : (figures c)[j]? = some x) (hy : (figures p)[j]? = some y)
    (row : List Str)
    (hrow : (overviewText L cur (some prev)).rows[i]? = some row ∨
      (overviewMarkdown L cur (some prev)).rows[i]? = some row) :
    row[j + 1]? = some (annot L x y) ∧
    (row[j + 1]? = some (L.n x) ↔ x = y) ∧
    (x ≠ y → row[j + 1]? = some (L.n x ++ str " (" ++ L.signed (x - y) ++ str ")")) := by
  obtain ⟨h1, h2⟩ := overview_language_in_both L cur prev i c p hc hp
  have hr : row = c.language :: List.zipWith (annot L) (figures c) (figures p) := by
    rcases hrow with h | h
    · rw [h1] at h; exact (Option.some.inj h).symm
    · rw [h2] at h; exact (Option.some.inj h).symm
  have hcell : row[j + 1]? = some (annot L x y) := by
    rw [hr, List.getElem?_cons_succ, List.getElem?_zipWith, hx, hy]
  refine ⟨hcell, ?_, ?_⟩
  · rw [hcell, Option.some.injEq]; exact annot_eq_plain_iff L x y
  · intro hne; rw [hcell, annot_of_ne L x y hne]

/-- "... and each total ...": the same for the cells of the totals line (column `j` of the five
totals; the totals line has no language cell), both formats. -/
theorem overview_total_annotated_iff_differs (L : Locale) (cur prev : Totals)
    (j : Nat) (x y : Int) (hx : (sums cur)[j]? = some x) (hy : (sums prev)[j]? = some y)
    (foot : List Str)
    (hfoot : (overviewText L cur (some prev)).footer = some foot ∨
      (overviewMarkdown L cur (some prev)).footer = some foot) :
    foot[j]? = some (annot L x y) ∧
    (foot[j]? = some (L.n x) ↔ x = y) ∧
    (x ≠ y → foot[j]? = some (L.n x ++ str " (" ++ L.signed (x - y) ++ str ")")) := by
  obtain ⟨h1, h2⟩ := overview_totals_with_previous L cur prev
  have hr : foot = List.zipWith (annot L) (sums cur) (sums prev) := by
    rcases hfoot with h | h
    · rw [h1] at h
      by_cases hl : cur.length > 1
      · rw [if_pos hl] at h; exact (Option.some.inj h).symm
      · rw [if_neg hl] at h; cases h
    · rw [h2] at h
      by_cases hl : cur.length > 1
      · rw [if_pos hl] at h; exact (Option.some.inj h).symm
      · rw [if_neg hl] at h; cases h
  have hcell : foot[j]? = some (annot L x y) := by
    rw [hr, List.getElem?_zipWith, hx, hy]
  refine ⟨hcell, ?_, ?_⟩
  · rw [hcell, Option.some.injEq]; exact annot_eq_plain_iff L x y
  · intro hne; rw [hcell, annot_of_ne L x y hne]

/-- "With languages ordered by lines of code", at the level of the ROWS: in both formats, with
or without previous report, the first cells of the rows are the languages of THE stable
descending sort of the stored languages by lines of code (largest first, ties in stored order;
there is exactly one such list: `stableSortedDesc_unique`). -/
theorem overview_rows_ordered_by_loc (L : Locale) (cur : Totals) (prev : Option Totals) :
    ∃ s : List LangTotals, StableSortedDesc (·.loc) s cur ∧
      (overviewText L cur prev).rows.map (·.head?) = s.map (fun c => some c.language) ∧
      (overviewMarkdown L cur prev).rows.map (·.head?) = s.map (fun c => some c.language) :=
  ⟨languagesTotals cur, (languages_order cur).1,
    (overview_every_language_has_its_row L cur prev).1, (overview_every_language_has_its_row L cur prev).2.1⟩

/-! ## 2b. "and in total": when is there a totals line (interpretation, see the header) -/

/-- In both formats, with or without a previous report: there is NO totals line iff the current
report has at most one language. -/
theorem overview_totals_absent_iff (L : Locale) (cur : Totals) (prev : Option Totals) :
    ((overviewText L cur prev).footer = none ↔ cur.length ≤ 1) ∧
    ((overviewMarkdown L cur prev).footer = none ↔ cur.length ≤ 1) := by
  have hl : (languagesTotals cur).length = cur.length := (sortDesc_perm _ cur).length_eq
  by_cases h : cur.length > 1
  · have h' : ¬ cur.length ≤ 1 := by omega
    cases prev <;> simp [overviewText, overviewMarkdown, hl, h, h']
  · have h' : cur.length ≤ 1 := by omega
    cases prev <;> simp [overviewText, overviewMarkdown, hl, h, h']

/-- ... and there is one (with five cells) iff it has two or more. -/
theorem overview_totals_present_iff (L : Locale) (cur : Totals) (prev : Option Totals) :
    ((∃ foot, (overviewText L cur prev).footer = some foot ∧ foot.length = 5) ↔ cur.length ≥ 2) ∧
    ((∃ foot, (overviewMarkdown L cur prev).footer = some foot ∧ foot.length = 5) ↔ cur.length ≥ 2) := by
  have hl : (languagesTotals cur).length = cur.length := (sortDesc_perm _ cur).length_eq
  by_cases h : cur.length > 1
  · have h' : cur.length ≥ 2 := by omega
    cases prev <;> simp [overviewText, overviewMarkdown, hl, h, h']
  · have h' : ¬ cur.length ≥ 2 := by omega
    cases prev <;> simp [overviewText, overviewMarkdown, hl, h, h']

/-- the totals of a report with one language are the figures of that language -/
theorem sums_single (c : LangTotals) : sums [c] = figures c := by
  simp [sums, figures]

/-- One language, no previous report: the overview is the single row of that language and no
totals line; the row shows the figures of the language, which ARE the totals (`sums [c] =
figures c`) - so every total is on display (text: `f"{x:n}"`, Markdown: `f"{x}"`). -/
theorem overview_single_language_row_is_total (L : Locale) (c : LangTotals) :
    sums [c] = figures c ∧
    overviewText L [c] none = { rows := [c.language :: (sums [c]).map L.n], footer := none } ∧
    overviewMarkdown L [c] none = { rows := [c.language :: (sums [c]).map fmtD], footer := none } := by
  refine ⟨sums_single c, ?_, ?_⟩
  · rw [sums_single]; simp [overviewText, languagesTotals, sortDesc, insertDesc, figures]
  · rw [sums_single]; simp [overviewMarkdown, languagesTotals, sortDesc, insertDesc, figures]

/-- One language, WITH a previous report, both formats: still one row and no totals line. The
row is annotated against the previous figures OF THAT LANGUAGE (`languageTotal prev c.language`),
not against the previous totals `sums prev`: if the previous report has the language (figures
`p`), the cells are `annot L (total) (figure of p)`; if it does not, the asymmetric display of
`overview_language_only_current`. -/
theorem overview_single_language_with_previous (L : Locale) (c : LangTotals) (prev : Totals) :
    overviewText L [c] (some prev) =
      { rows := [c.language ::
          (match languageTotal prev c.language with
           | some p => List.zipWith (annot L) (sums [c]) (figures p)
           | none => [annot L c.files 0, annot L c.functions 0, annot L c.loc 0, L.n c.hard, L.n c.unm])],
        footer := none } ∧
    overviewMarkdown L [c] (some prev) = overviewText L [c] (some prev) := by
  refine ⟨?_, overview_formats_agree_with_previous L [c] prev⟩
  rw [sums_single]
  cases hp : languageTotal prev c.language with
  | some p =>
    simp only [overviewText, languagesTotals, sortDesc, insertDesc, List.map_cons, List.map_nil, hp,
      List.length_cons, List.length_nil]
    rw [← language_delta_cells]
    simp
  | none =>
    simp only [overviewText, languagesTotals, sortDesc, insertDesc, List.map_cons, List.map_nil, hp,
      List.length_cons, List.length_nil]
    rw [← language_delta_cells_new]
    simp

/-- One language in BOTH reports, the same one: then the previous figures of the language are
the previous totals, and the row shows every total annotated against the previous total - what
the totals line would have shown. -/
theorem overview_single_language_same_language (L : Locale) (c p : LangTotals) (h : p.language = c.language) :
    overviewText L [c] (some [p]) =
      { rows := [c.language :: List.zipWith (annot L) (sums [c]) (sums [p])], footer := none } ∧
    overviewMarkdown L [c] (some [p]) = overviewText L [c] (some [p]) := by
  obtain ⟨h1, h2⟩ := overview_single_language_with_previous L c [p]
  refine ⟨?_, h2⟩
  have hp : languageTotal [p] c.language = some p := by simp [languageTotal, h]
  rw [h1, hp, sums_single p]

/-- OBSERVATION (outside the property): with one current language and a previous report that
has OTHER languages too, the change of the totals is shown nowhere. Instance: Python is kept
(functions 10 -> 12, lines 420 -> 400, unmaintainable 1 -> 0), Java (2 files, 5 functions, 90
lines) was removed. Both formats show the single row `Python | 3 | 12 (+2) | 400 (-20) | 2 | 0 (-1)`
and no totals line; the totals went `5 -> 3` files, `15 -> 12` functions, `510 -> 400` lines, and
the cells `3 (-2) | 12 (-3) | 400 (-110) | 2 | 0 (-1)` that a totals line would hold appear in no row. -/
theorem overview_single_language_totals_change_not_shown :
    ∃ (c : LangTotals) (prev : Totals),
      overviewText Locale.C [c] (some prev) =
        { rows := [[str "Python", str "3", str "12 (+2)", str "400 (-20)", str "2", str "0 (-1)"]], footer := none } ∧
      overviewMarkdown Locale.C [c] (some prev) = overviewText Locale.C [c] (some prev) ∧
      List.zipWith (annot Locale.C) (sums [c]) (sums prev) =
        [str "3 (-2)", str "12 (-3)", str "400 (-110)", str "2", str "0 (-1)"] ∧
      ∀ row ∈ (overviewText Locale.C [c] (some prev)).rows,
        row.tail ≠ List.zipWith (annot Locale.C) (sums [c]) (sums prev) :=
  ⟨⟨str "Python", 3, 12, 400, 2, 0⟩, [⟨str "Java", 2, 5, 90, 0, 0⟩, ⟨str "Python", 3, 10, 420, 2, 1⟩],
    by decide +kernel⟩

/-- No language: no row and no totals line in either format (with or without previous report),
and all five sums are 0. -/
theorem overview_empty (L : Locale) (prev : Option Totals) :
    overviewText L [] prev = { rows := [], footer := none } ∧
    overviewMarkdown L [] prev = { rows := [], footer := none } ∧
    sums [] = [0, 0, 0, 0, 0] := by
  refine ⟨?_, ?_, by simp [sums]⟩
  · cases prev <;> simp [overviewText, languagesTotals, sortDesc]
  · cases prev <;> simp [overviewMarkdown, languagesTotals, sortDesc]

/-! ## 3. findings -/

/-- The functions both listings choose from: exactly those longer than 30 lines, longest
first, equally long ones in report order (file order, then order within the file). -/
theorem units_selected (files : Files) :
    StableSortedDesc (·.m.value) (allReportUnits files findings_threshold_text) (longFunctions files) ∧
    allReportUnits files findings_threshold_markdown = allReportUnits files findings_threshold_text := by
  have ht : ∀ v : Int, units_keeps v findings_threshold_text ↔ v > 30 := by
    intro v; unfold units_keeps findings_threshold_text; omega
  have hm : ∀ v : Int, units_keeps v findings_threshold_markdown ↔ v > 30 := by
    intro v; unfold units_keeps findings_threshold_markdown; omega
  unfold allReportUnits longFunctions
  rw [flatMap_filter_eq files _ ht, flatMap_filter_eq files _ hm]
  exact ⟨sortDesc_stableSorted _ _, rfl⟩

/-- membership form: a function is among them iff the report stores it and it is longer than 30 -/
theorem mem_units_selected (files : Files) (u : RUnit) :
    u ∈ allReportUnits files findings_threshold_text ↔ u ∈ allUnits files ∧ u.m.value > 30 := by
  rw [(units_selected files).1.perm.mem_iff]
  simp [longFunctions]

/-- Text findings: with `all` the list of `units_selected`, the listing shows all of it when
full output is requested and its first ten otherwise; the "more rows" line is printed iff
not full and more than ten exist, and the number in it is `total - 10`.
The third conjunct is only a READING AID tying `rows` to `shown` through the model function
`rowText` (it holds by unfolding); WHAT a row shows of its unit is specified in
`Spec/Render.lean` (`RowShowsText`, `textLine`) and proved in `findings_rows_text`,
`rowShowsText_eq_iff`, `findings_lines_text` below. -/
theorem findings_text (files : Files) (full : Bool) :
    (findingsText files full).shown =
      (if full then allReportUnits files findings_threshold_text
       else (allReportUnits files findings_threshold_text).take 10) ∧
    (findingsText files full).more =
      (if ¬ full ∧ (allReportUnits files findings_threshold_text).length > 10
       then some (((allReportUnits files findings_threshold_text).length : Int) - 10) else none) ∧
    (findingsText files full).rows = (findingsText files full).shown.map rowText := by
  have ht : ∀ n : Nat, findings_truncates_text full (n : Int) ↔ (full = false ∧ n > 10) := by
    intro n; unfold findings_truncates_text; cases full <;> grind
  have hk : findings_kept_text = 10 := by unfold findings_kept_text; grind
  have ho : ∀ t : Int, findings_omitted_text t = t - 10 := by intro t; unfold findings_omitted_text; grind
  simp only [findingsText, ht, hk, ho]
  cases full
  · by_cases h : (allReportUnits files findings_threshold_text).length > 10
    · simp [h]
    · have h'' : (allReportUnits files findings_threshold_text).length ≤ 10 := by omega
      simp [h, List.take_of_length_le h'']
  · simp

/-- Markdown findings, with or without repository: the same selection and the same "more rows"
number. The third conjunct is again a READING AID (model functions `rowMarkdown` /
`rowMarkdownRepo`); the content of the rows is in `findings_rows_markdown`,
`findings_rows_markdown_repo`, `rowShowsMarkdown_eq_iff`, `rowShowsMarkdownRepo_eq_iff`,
`findings_lines_markdown`, `findings_lines_markdown_repo`. -/
theorem findings_markdown (files : Files) (full repo : Bool) :
    (findingsMarkdown files full repo).shown =
      (if full then allReportUnits files findings_threshold_text
       else (allReportUnits files findings_threshold_text).take 10) ∧
    (findingsMarkdown files full repo).more =
      (if ¬ full ∧ (allReportUnits files findings_threshold_text).length > 10
       then some (((allReportUnits files findings_threshold_text).length : Int) - 10) else none) ∧
    (findingsMarkdown files full repo).rows =
      (findingsMarkdown files full repo).shown.map (if repo then rowMarkdownRepo else rowMarkdown) := by
  have ht : ∀ n : Nat, findings_truncates_markdown full (n : Int) ↔ (full = false ∧ n > 10) := by
    intro n; unfold findings_truncates_markdown; cases full <;> grind
  have hk : findings_kept_markdown = 10 := by unfold findings_kept_markdown; grind
  have ho : ∀ t : Int, findings_omitted_markdown t = t - 10 := by intro t; unfold findings_omitted_markdown; grind
  simp only [findingsMarkdown, ht, hk, ho, (units_selected files).2]
  cases full
  · by_cases h : (allReportUnits files findings_threshold_text).length > 10
    · cases repo <;> simp [h]
    · have h'' : (allReportUnits files findings_threshold_text).length ≤ 10 := by omega
      cases repo <;> simp [h, List.take_of_length_le h'']
  · cases repo <;> simp

/-- identical selection and identical omitted count in text and Markdown, with and without
repository -/
theorem findings_same_selection (files : Files) (full repo : Bool) :
    (findingsMarkdown files full repo).shown = (findingsText files full).shown ∧
    (findingsMarkdown files full repo).more = (findingsText files full).more := by
  rw [(findings_markdown files full repo).1, (findings_markdown files full repo).2.1,
    (findings_text files full).1, (findings_text files full).2.1]
  exact ⟨rfl, rfl⟩

/-- counting: ten rows (or all, if fewer) unless full; the number in the "more rows" line is
exactly the number of selected functions that are not shown (and positive); without that line
nothing is omitted; the line is printed iff not full and more than ten were selected. -/
theorem findings_counts (files : Files) (full : Bool) :
    ((findingsText files full).shown.length =
      if full then (allReportUnits files findings_threshold_text).length
      else min 10 (allReportUnits files findings_threshold_text).length) ∧
    (∀ k, (findingsText files full).more = some k →
      ((allReportUnits files findings_threshold_text).length : Int) = (findingsText files full).shown.length + k ∧ k > 0) ∧
    ((findingsText files full).more = none →
      (findingsText files full).shown.length = (allReportUnits files findings_threshold_text).length) ∧
    ((findingsText files full).more.isSome ↔
      (full = false ∧ (allReportUnits files findings_threshold_text).length > 10)) := by
  obtain ⟨hs, hm, _⟩ := findings_text files full
  rw [hs, hm]
  generalize allReportUnits files findings_threshold_text = all
  cases full
  · by_cases h : all.length > 10
    · simp only [Bool.false_eq_true, if_false, not_false_eq_true, true_and, h, if_true, List.length_take]
      refine ⟨?_, ?_, by simp⟩
      · intro k hk
        injection hk with hk
        omega
      · intro hk; cases hk
    · simp only [Bool.false_eq_true, if_false, not_false_eq_true, true_and, h, List.length_take]
      refine ⟨?_, ?_, by simp⟩
      · intro k hk; cases hk
      · intro _; omega
  · simp

/-! ## 3b. what a findings row shows of its function

Specification: `Spec/Render.lean` (`RowShowsText`, `RowShowsMarkdown`, `RowShowsMarkdownRepo`:
which cell holds which stored figure; `textLine`, `markdownLine`, `markdownRepoLine`: the line
Python builds, read off the f-strings). The rows stand in the order of the shown units, one row
per unit, nothing else. -/

/-- Text listing: the rows correspond to the shown functions ONE BY ONE, IN ORDER (same number
of rows as functions), and the `i`-th row shows the `i`-th function: its file path, start
line, start column, length, the sign for that length, its name - six cells, nothing else. -/
theorem findings_rows_text (files : Files) (full : Bool) :
    List.Forall₂ RowShowsText (findingsText files full).rows (findingsText files full).shown := by
  rw [(findings_text files full).2.2]
  exact forall₂_map_left _ _ rowText_shows _

/-- Markdown listing without repository: the same, with the Markdown sign. -/
theorem findings_rows_markdown (files : Files) (full : Bool) :
    List.Forall₂ RowShowsMarkdown (findingsMarkdown files full false).rows
      (findingsMarkdown files full false).shown := by
  rw [(findings_markdown files full false).2.2]
  exact forall₂_map_left _ _ rowMarkdown_shows _

/-- Markdown listing with repository: the `i`-th row shows of the `i`-th function the sign, the
name, the file path, the start line and the END line (all three inside the link), the length
and the file path again - seven cells; the start COLUMN is not printed. -/
theorem findings_rows_markdown_repo (files : Files) (full : Bool) :
    List.Forall₂ RowShowsMarkdownRepo (findingsMarkdown files full true).rows
      (findingsMarkdown files full true).shown := by
  rw [(findings_markdown files full true).2.2]
  exact forall₂_map_left _ _ rowMarkdownRepo_shows _

/-- the three facts above say no less than the reading-aid conjuncts of `findings_text` /
`findings_markdown`: each specification has exactly one solution per function -/
theorem findings_rows_determined (files : Files) (full : Bool) (rows : List (List Str)) :
    (List.Forall₂ RowShowsText rows (findingsText files full).shown ↔ rows = (findingsText files full).rows) ∧
    (List.Forall₂ RowShowsMarkdown rows (findingsMarkdown files full false).shown ↔
      rows = (findingsMarkdown files full false).rows) ∧
    (List.Forall₂ RowShowsMarkdownRepo rows (findingsMarkdown files full true).shown ↔
      rows = (findingsMarkdown files full true).rows) := by
  refine ⟨?_, ?_, ?_⟩
  · rw [(findings_text files full).2.2]
    exact forall₂_iff_map _ rowText
      (fun b a => by rw [rowShowsText_iff]; simp only [rowText, textMark_eq_emoji]) _ _
  · rw [(findings_markdown files full false).2.2]
    exact forall₂_iff_map _ rowMarkdown
      (fun b a => by rw [rowShowsMarkdown_iff]; simp only [rowMarkdown, markdownMark_eq]) _ _
  · rw [(findings_markdown files full true).2.2]
    exact forall₂_iff_map _ rowMarkdownRepo
      (fun b a => by rw [rowShowsMarkdownRepo_iff]; simp only [rowMarkdownRepo, markdownMark_eq_repo]) _ _

/-- The text row is a faithful picture of five stored fields: two rows (of any two functions)
are equal IFF the functions agree in file, start line, start column, length and name. So two
functions that differ in one of these are printed differently (decimal numerals determine the
number: `fmtD_injective`), and nothing but these five fields influences the row. -/
theorem rowShowsText_eq_iff {r r' : List Str} {u u' : RUnit} (h : RowShowsText r u) (h' : RowShowsText r' u') :
    r = r' ↔ (u.file = u'.file ∧ u.m.line = u'.m.line ∧ u.m.col = u'.m.col ∧ u.m.value = u'.m.value ∧
      u.m.name = u'.m.name) := by
  rw [(rowShowsText_iff r u).1 h, (rowShowsText_iff r' u').1 h']
  simp only [List.cons.injEq, fmtD_inj, and_true]
  constructor
  · rintro ⟨a, b, c, d, _, e⟩; exact ⟨a, b, c, d, e⟩
  · rintro ⟨a, b, c, d, e⟩; exact ⟨a, b, c, d, by rw [d], e⟩

/-- the Markdown row without repository: the same five fields -/
theorem rowShowsMarkdown_eq_iff {r r' : List Str} {u u' : RUnit} (h : RowShowsMarkdown r u)
    (h' : RowShowsMarkdown r' u') :
    r = r' ↔ (u.file = u'.file ∧ u.m.line = u'.m.line ∧ u.m.col = u'.m.col ∧ u.m.value = u'.m.value ∧
      u.m.name = u'.m.name) := by
  rw [(rowShowsMarkdown_iff r u).1 h, (rowShowsMarkdown_iff r' u').1 h']
  simp only [List.cons.injEq, fmtD_inj, and_true]
  constructor
  · rintro ⟨a, b, c, d, _, e⟩; exact ⟨a, b, c, d, e⟩
  · rintro ⟨a, b, c, d, e⟩; exact ⟨a, b, c, d, by rw [d], e⟩

/-- the Markdown row WITH repository is a faithful picture of file, start line, END line,
length and name - the end line instead of the column -/
theorem rowShowsMarkdownRepo_eq_iff {r r' : List Str} {u u' : RUnit} (h : RowShowsMarkdownRepo r u)
    (h' : RowShowsMarkdownRepo r' u') :
    r = r' ↔ (u.file = u'.file ∧ u.m.line = u'.m.line ∧ u.m.endLine = u'.m.endLine ∧ u.m.value = u'.m.value ∧
      u.m.name = u'.m.name) := by
  rw [(rowShowsMarkdownRepo_iff r u).1 h, (rowShowsMarkdownRepo_iff r' u').1 h']
  simp only [List.cons.injEq, fmtD_inj, and_true]
  constructor
  · rintro ⟨_, e, a, b, c, d, _⟩; exact ⟨a, b, c, d, e⟩
  · rintro ⟨a, b, c, d, e⟩; exact ⟨by rw [d], e, a, b, c, d, a⟩

/-- In the listing itself (text): the rows at two positions differ as soon as the functions shown
there differ in file, start line, start column, length or name. -/
theorem findings_text_distinct_rows (files : Files) (full : Bool) (i j : Nat) (u u' : RUnit) (r r' : List Str)
    (hu : (findingsText files full).shown[i]? = some u) (hu' : (findingsText files full).shown[j]? = some u')
    (hr : (findingsText files full).rows[i]? = some r) (hr' : (findingsText files full).rows[j]? = some r')
    (hd : u.file ≠ u'.file ∨ u.m.line ≠ u'.m.line ∨ u.m.col ≠ u'.m.col ∨ u.m.value ≠ u'.m.value ∨
      u.m.name ≠ u'.m.name) : r ≠ r' := by
  rw [(findings_text files full).2.2, List.getElem?_map] at hr hr'
  rw [hu, Option.map_some, Option.some.injEq] at hr
  rw [hu', Option.map_some, Option.some.injEq] at hr'
  intro e
  have := (rowShowsText_eq_iff (hr ▸ rowText_shows u) (hr' ▸ rowText_shows u')).1 e
  rcases hd with h | h | h | h | h
  · exact h this.1
  · exact h this.2.1
  · exact h this.2.2.1
  · exact h this.2.2.2.1
  · exact h this.2.2.2.2

/-- OBSERVATION: the sixth stored field is not shown - the end line in the text listing and in
the Markdown listing without repository, the start column in the Markdown listing with
repository. Witness: two different functions with the same row. -/
theorem findings_hidden_field :
    (∃ u u' : RUnit, ∃ r, u.m.endLine ≠ u'.m.endLine ∧ RowShowsText r u ∧ RowShowsText r u') ∧
    (∃ u u' : RUnit, ∃ r, u.m.endLine ≠ u'.m.endLine ∧ RowShowsMarkdown r u ∧ RowShowsMarkdown r u') ∧
    (∃ u u' : RUnit, ∃ r, u.m.col ≠ u'.m.col ∧ RowShowsMarkdownRepo r u ∧ RowShowsMarkdownRepo r u') := by
  refine ⟨⟨⟨str "a.c", str "f", 3, 5, 70, 61⟩, ⟨str "a.c", str "f", 3, 5, 71, 61⟩, _, by decide,
      (rowShowsText_iff _ _).2 rfl, (rowShowsText_iff _ _).2 rfl⟩,
    ⟨⟨str "a.c", str "f", 3, 5, 70, 61⟩, ⟨str "a.c", str "f", 3, 5, 71, 61⟩, _, by decide,
      (rowShowsMarkdown_iff _ _).2 rfl, (rowShowsMarkdown_iff _ _).2 rfl⟩,
    ⟨⟨str "a.c", str "f", 3, 5, 70, 61⟩, ⟨str "a.c", str "f", 3, 6, 70, 61⟩, _, by decide,
      (rowShowsMarkdownRepo_iff _ _).2 rfl, (rowShowsMarkdownRepo_iff _ _).2 rfl⟩⟩

/-- Every shown function is longer than 30 lines, so the sign in its row is one of two: the
cross when longer than 60, else the warning sign (text: U+2716 / U+26A0, never the check mark
U+2713; Markdown: U+274C / U+26A0). -/
theorem findings_shown_marks (files : Files) (full repo : Bool) (u : RUnit)
    (hu : u ∈ (findingsText files full).shown ∨ u ∈ (findingsMarkdown files full repo).shown) :
    u.m.value > 30 ∧
    textMark u.m.value = (if u.m.value > 60 then str "\u2716" else str "\u26A0") ∧
    markdownMark u.m.value = (if u.m.value > 60 then str "\u274C" else str "\u26A0") := by
  have hu' : u ∈ (findingsText files full).shown := by
    rcases hu with h | h
    · exact h
    · rw [(findings_same_selection files full repo).1] at h; exact h
  have hall : u ∈ allReportUnits files findings_threshold_text := by
    rw [(findings_text files full).1] at hu'
    cases full
    · exact List.mem_of_mem_take hu'
    · exact hu'
  have hv := ((mem_units_selected files u).1 hall).2
  refine ⟨hv, ?_, rfl⟩
  unfold textMark
  by_cases h60 : u.m.value > 60
  · rw [if_pos h60, if_pos h60]
  · rw [if_neg h60, if_neg h60, if_pos hv]

/-- a row that meets the text specification, laid out, is the line `format_measurement` builds;
likewise for the two Markdown tables -/
theorem layout_of_rowShows (u : RUnit) (r : List Str) :
    (RowShowsText r u → layoutText r = some (textLine u)) ∧
    (RowShowsMarkdown r u → layoutMarkdown r = some (markdownLine u)) ∧
    (∀ owner repo branch, RowShowsMarkdownRepo r u →
      layoutMarkdownRepo owner repo branch r = some (markdownRepoLine owner repo branch u)) := by
  refine ⟨?_, ?_, ?_⟩
  · intro h; rw [(rowShowsText_iff r u).1 h]; rfl
  · intro h; rw [(rowShowsMarkdown_iff r u).1 h]; rfl
  · intro o n b h; rw [(rowShowsMarkdownRepo_iff r u).1 h]; rfl

/-- The printed LINES of the text listing: the cells of each row, laid out as
`format_measurement` does, give `path:line:column: length sign name` of the shown functions,
in order. -/
theorem findings_lines_text (files : Files) (full : Bool) :
    (findingsText files full).rows.map layoutText =
      (findingsText files full).shown.map (fun u => some (textLine u)) := by
  rw [(findings_text files full).2.2, List.map_map]
  apply List.map_congr_left
  intro u _
  exact (layout_of_rowShows u _).1 (rowText_shows u)

/-- the printed lines of the Markdown table without repository:
`| path | line | column | length | sign name |` -/
theorem findings_lines_markdown (files : Files) (full : Bool) :
    (findingsMarkdown files full false).rows.map layoutMarkdown =
      (findingsMarkdown files full false).shown.map (fun u => some (markdownLine u)) := by
  rw [(findings_markdown files full false).2.2, List.map_map]
  apply List.map_congr_left
  intro u _
  exact (layout_of_rowShows u _).2.1 (rowMarkdown_shows u)

/-- the printed lines of the Markdown table with repository (`owner`, `repo`, `branch` are the
fields of `report.repository`, the same for every row):
`| sign [name](https://github.com/owner/repo/blob/branch/path#Lline-Lendline) | length | path |` -/
theorem findings_lines_markdown_repo (files : Files) (full : Bool) (owner repo branch : Str) :
    (findingsMarkdown files full true).rows.map (layoutMarkdownRepo owner repo branch) =
      (findingsMarkdown files full true).shown.map (fun u => some (markdownRepoLine owner repo branch u)) := by
  rw [(findings_markdown files full true).2.2, List.map_map]
  apply List.map_congr_left
  intro u _
  exact (layout_of_rowShows u _).2.2 owner repo branch (rowMarkdownRepo_shows u)

/-! ## non-vacuity: concrete reports -/

/-- files with measurements of the given lengths (names and positions made up) -/
def mkFiles (lens : List (List Int)) : Files :=
  lens.zipIdx.map fun (ls, i) => ([102, i], ls.zipIdx.map fun (v, j) => ⟨[117, j], j + 1, 1, j + 1 + v, v⟩)

def lengthsShown (F : Findings) : List Int := F.shown.map (·.m.value)

-- 0 findings: nothing longer than 30
example : findingsText (mkFiles [[30, 15, 1], [29]]) false = ⟨[], [], none⟩ := by decide +kernel
example : findingsMarkdown (mkFiles [[30, 15, 1], [29]]) false true = ⟨[], [], none⟩ := by decide +kernel
-- 10 findings: all shown, no "more rows" line
example : lengthsShown (findingsText (mkFiles [[31, 40, 35, 30], [61, 33, 100], [32, 45, 31, 50, 10]]) false) =
      [100, 61, 50, 45, 40, 35, 33, 32, 31, 31] ∧
    (findingsText (mkFiles [[31, 40, 35, 30], [61, 33, 100], [32, 45, 31, 50, 10]]) false).more = none := by
  decide +kernel
-- 11 findings: ten shown, "1 more rows"; full: all eleven; the two of length 31 stay in report order
example : lengthsShown (findingsText (mkFiles [[31, 40, 35, 30], [61, 33, 100], [32, 45, 31, 50, 36]]) false) =
      [100, 61, 50, 45, 40, 36, 35, 33, 32, 31] ∧
    (findingsText (mkFiles [[31, 40, 35, 30], [61, 33, 100], [32, 45, 31, 50, 36]]) false).more = some 1 ∧
    lengthsShown (findingsText (mkFiles [[31, 40, 35, 30], [61, 33, 100], [32, 45, 31, 50, 36]]) true) =
      [100, 61, 50, 45, 40, 36, 35, 33, 32, 31, 31] ∧
    ((findingsMarkdown (mkFiles [[31, 40, 35, 30], [61, 33, 100], [32, 45, 31, 50, 36]]) true false).shown.drop 9).map
      (fun u => (u.file, u.m.name)) = [([102, 0], [117, 0]), ([102, 2], [117, 2])] := by
  decide +kernel
-- 25 findings: ten shown, "15 more rows", in all three Markdown/text layouts
example :
    let files := mkFiles [[31, 32, 33, 34, 35, 36, 37, 38, 39, 40, 5], [70, 69, 68, 67, 66, 65, 64, 63, 62, 61, 30],
      [45, 45, 45, 45, 45]]
    lengthsShown (findingsText files false) = [70, 69, 68, 67, 66, 65, 64, 63, 62, 61] ∧
    (findingsText files false).more = some 15 ∧
    (findingsMarkdown files false false).more = some 15 ∧
    (findingsMarkdown files false true).more = some 15 ∧
    (findingsText files true).shown.length = 25 ∧ (findingsText files true).more = none := by
  decide +kernel

/-- a two-language diff: Python changed, C is new, Java was removed -/
def exCur : Totals := [⟨str "Python", 3, 12, 400, 2, 0⟩, ⟨str "C", 1, 4, 400, 1, 1⟩]
def exPrev : Totals := [⟨str "Java", 2, 5, 90, 0, 0⟩, ⟨str "Python", 3, 10, 420, 2, 1⟩]

example : overviewText Locale.C exCur (some exPrev) =
    { rows := [[str "Python", str "3", str "12 (+2)", str "400 (-20)", str "2", str "0 (-1)"],
               [str "C", str "1 (+1)", str "4 (+4)", str "400 (+400)", str "1", str "1"]],
      footer := some [str "4 (-1)", str "16 (+1)", str "800 (+290)", str "3 (+1)", str "1"] } := by
  decide +kernel
example : overviewMarkdown Locale.C exCur (some exPrev) = overviewText Locale.C exCur (some exPrev) := by
  decide +kernel
example : overviewText Locale.C exCur none =
    { rows := [[str "Python", str "3", str "12", str "400", str "2", str "0"],
               [str "C", str "1", str "4", str "400", str "1", str "1"]],
      footer := some [str "4", str "16", str "800", str "3", str "1"] } := by
  decide +kernel
-- a single language: no totals line
example : (overviewText Locale.C [⟨str "C", 1, 4, 400, 1, 1⟩] none).footer = none ∧
    (overviewMarkdown Locale.C [⟨str "C", 1, 4, 400, 1, 1⟩] (some exPrev)).footer = none := by
  decide +kernel
-- the hypotheses of `overview_language_in_both` / `overview_language_only_current` are satisfiable
example : (languagesTotals exCur)[0]? = some ⟨str "Python", 3, 12, 400, 2, 0⟩ ∧
    languageTotal exPrev (str "Python") = some ⟨str "Python", 3, 10, 420, 2, 1⟩ ∧
    (languagesTotals exCur)[1]? = some ⟨str "C", 1, 4, 400, 1, 1⟩ ∧ languageTotal exPrev (str "C") = none := by
  decide +kernel

/-! ### concrete findings rows (compared with the output of the real code, see the report of
this round: `format_text.print_findings`, `format_markdown.print_findings` with and without
`GithubRepository("own", "nam", "main")` on the same four functions) -/

/-- `src/a.py`: `foo` 3:5-70, 61 lines; `tiny` (5 lines, not listed); `lib/b.c`: `bar_baz`
12:1-50, 31 lines; `neg` with made-up negative line -4, column 0, end line 0, 1234 lines -/
def exFiles : Files :=
  [(str "src/a.py", [⟨str "foo", 3, 5, 70, 61⟩, ⟨str "tiny", 80, 1, 85, 5⟩]),
   (str "lib/b.c", [⟨str "bar_baz", 12, 1, 50, 31⟩, ⟨str "neg", -4, 0, 0, 1234⟩])]

example : (findingsText exFiles false).rows =
    [[str "lib/b.c", str "-4", str "0", str "1234", str "✖", str "neg"],
     [str "src/a.py", str "3", str "5", str "61", str "✖", str "foo"],
     [str "lib/b.c", str "12", str "1", str "31", str "⚠", str "bar_baz"]] := by decide +kernel
example : (findingsText exFiles false).rows.map layoutText =
    [some (str "lib/b.c:-4:0: 1234 ✖ neg"), some (str "src/a.py:3:5: 61 ✖ foo"),
     some (str "lib/b.c:12:1: 31 ⚠ bar_baz")] := by decide +kernel
example : (findingsText exFiles false).shown.map textLine =
    [str "lib/b.c:-4:0: 1234 ✖ neg", str "src/a.py:3:5: 61 ✖ foo",
     str "lib/b.c:12:1: 31 ⚠ bar_baz"] := by decide +kernel

example : (findingsMarkdown exFiles false false).rows =
    [[str "lib/b.c", str "-4", str "0", str "1234", str "❌", str "neg"],
     [str "src/a.py", str "3", str "5", str "61", str "❌", str "foo"],
     [str "lib/b.c", str "12", str "1", str "31", str "⚠", str "bar_baz"]] := by decide +kernel
example : (findingsMarkdown exFiles false false).rows.map layoutMarkdown =
    [some (str "| lib/b.c | -4 | 0 | 1234 | ❌ neg |"), some (str "| src/a.py | 3 | 5 | 61 | ❌ foo |"),
     some (str "| lib/b.c | 12 | 1 | 31 | ⚠ bar_baz |")] := by decide +kernel
example : (findingsMarkdown exFiles false false).shown.map markdownLine =
    [str "| lib/b.c | -4 | 0 | 1234 | ❌ neg |", str "| src/a.py | 3 | 5 | 61 | ❌ foo |",
     str "| lib/b.c | 12 | 1 | 31 | ⚠ bar_baz |"] := by decide +kernel

example : (findingsMarkdown exFiles false true).rows =
    [[str "❌", str "neg", str "lib/b.c", str "-4", str "0", str "1234", str "lib/b.c"],
     [str "❌", str "foo", str "src/a.py", str "3", str "70", str "61", str "src/a.py"],
     [str "⚠", str "bar_baz", str "lib/b.c", str "12", str "50", str "31", str "lib/b.c"]] := by decide +kernel
example : (findingsMarkdown exFiles false true).rows.map (layoutMarkdownRepo (str "own") (str "nam") (str "main")) =
    [some (str "| ❌ [neg](https://github.com/own/nam/blob/main/lib/b.c#L-4-L0) | 1234 | lib/b.c |"),
     some (str "| ❌ [foo](https://github.com/own/nam/blob/main/src/a.py#L3-L70) | 61 | src/a.py |"),
     some (str "| ⚠ [bar_baz](https://github.com/own/nam/blob/main/lib/b.c#L12-L50) | 31 | lib/b.c |")] := by
  decide +kernel
example : (findingsMarkdown exFiles false true).shown.map (markdownRepoLine (str "own") (str "nam") (str "main")) =
    [str "| ❌ [neg](https://github.com/own/nam/blob/main/lib/b.c#L-4-L0) | 1234 | lib/b.c |",
     str "| ❌ [foo](https://github.com/own/nam/blob/main/src/a.py#L3-L70) | 61 | src/a.py |",
     str "| ⚠ [bar_baz](https://github.com/own/nam/blob/main/lib/b.c#L12-L50) | 31 | lib/b.c |"] := by
  decide +kernel

-- the hypotheses of `rowShowsText_eq_iff` are satisfiable, and rows of different functions differ
example : RowShowsText [str "src/a.py", str "3", str "5", str "61", str "✖", str "foo"]
    ⟨str "src/a.py", str "foo", 3, 5, 70, 61⟩ := (rowShowsText_iff _ _).2 (by decide +kernel)
example : RowShowsMarkdownRepo [str "❌", str "foo", str "src/a.py", str "3", str "70", str "61", str "src/a.py"]
    ⟨str "src/a.py", str "foo", 3, 5, 70, 61⟩ := (rowShowsMarkdownRepo_iff _ _).2 (by decide +kernel)
-- a row with a wrong figure does not meet the specification (column 6 instead of 5)
example : ¬ RowShowsText [str "src/a.py", str "3", str "6", str "61", str "✖", str "foo"]
    ⟨str "src/a.py", str "foo", 3, 5, 70, 61⟩ := fun h => absurd h.column (by decide +kernel)

/-! ### one language / no language (section 2b) -/

-- one language, no previous report: the only row holds the totals (text and Markdown)
example : overviewText Locale.C [⟨str "C", 1, 4, 400, 1, 1⟩] none =
    { rows := [[str "C", str "1", str "4", str "400", str "1", str "1"]], footer := none } ∧
    sums [⟨str "C", 1, 4, 400, 1, 1⟩] = [1, 4, 400, 1, 1] := by decide +kernel
-- one language in both reports, the same one: the row carries the annotation of the totals
example : overviewMarkdown Locale.C [⟨str "C", 1, 4, 400, 1, 1⟩] (some [⟨str "C", 2, 4, 450, 1, 0⟩]) =
    { rows := [[str "C", str "1 (-1)", str "4", str "400 (-50)", str "1", str "1 (+1)"]], footer := none } := by
  decide +kernel
-- one current language that the previous report does not have (previous: Java and Python)
example : overviewText Locale.C [⟨str "C", 1, 4, 400, 1, 1⟩] (some exPrev) =
    { rows := [[str "C", str "1 (+1)", str "4 (+4)", str "400 (+400)", str "1", str "1"]], footer := none } := by
  decide +kernel
-- no language
example : overviewText Locale.C [] (some exPrev) = { rows := [], footer := none } ∧
    overviewMarkdown Locale.C [] none = { rows := [], footer := none } := by decide +kernel
-- the hypotheses of `overview_cell_annotated_iff_differs` / `overview_total_annotated_iff_differs`
-- are satisfiable: Python, column 2 (lines of code) 400 against 420; totals column 0 (files) 4 against 5
example : (figures ⟨str "Python", 3, 12, 400, 2, 0⟩)[2]? = some 400 ∧
    (figures ⟨str "Python", 3, 10, 420, 2, 1⟩)[2]? = some 420 ∧
    (overviewText Locale.C exCur (some exPrev)).rows[0]? =
      some [str "Python", str "3", str "12 (+2)", str "400 (-20)", str "2", str "0 (-1)"] ∧
    (sums exCur)[0]? = some 4 ∧ (sums exPrev)[0]? = some 5 ∧
    (overviewMarkdown Locale.C exCur (some exPrev)).footer =
      some [str "4 (-1)", str "16 (+1)", str "800 (+290)", str "3 (+1)", str "1"] := by decide +kernel

end CL.C18
