import CodeLimit.Lemmas.LayoutScan
import CodeLimit.Lemmas.LayoutExamples
/-!
# C01, stage A: from the headers and blocks of a well-laid-out brace-block file to the report

"... the analysis reports each named function exactly once, under its own name, with a span
that starts at its header's first token and ends just past its body's last token, and reports
nothing that is not a function definition.  The reported length equals the number of distinct
physical lines on which at least one non-comment, non-whitespace token of that function begins,
not counting tokens of nested reported functions."

Which token sequences are function headers is the business of the token-regex engine (C13-C15
and a differential test).  Here: given the headers and the brace blocks of a file that is laid
out canonically (`CL.Layout`, `CodeLimit/Spec/Layout.lean`: an algorithm-independent
description), every stage of the analysis computes what the specification expects, for every
nesting depth:

* `getBlocks_laminar` - real brace blocks are non-empty, sorted and properly bracketed (three
  of the layout clauses are therefore consequences, not assumptions);
* A1 `scopes_of_layout` - every function gets exactly its own body block;
* A2 `fold_of_layout`, `flat_of_layout` - the nesting structure is the one of the specification;
* A3 `count_of_layout`, `count_of_layout_flat` - the length is the number of distinct own lines;
* A4 `scan_of_layout_partial`, `scan_of_layout_flat_partial`, `scan_of_fnLayout_partial` - the
  whole of `scan_file`;
* A5 `scan_example_cpp`, `scan_example_c`, `scan_example_js` - end-to-end examples evaluated
  stage by stage.

**Naming.**  `_partial` marks the theorems that are CONDITIONAL on intermediate results of the
analysis: A4 assumes `extractHeaders L code = .ok hs` with `hs` a permutation of the headers of
`fns` (header discovery) and `getBlocks code = .ok blocks`.  These hypotheses speak about what the
algorithm computed, not about the input; they are discharged - replaced by decidable conditions on
a program TREE - in `Props/C01tree.lean` (blocks), `Props/C01full.lean`, `Props/C01arrow.lean`,
`Props/C01marks.lean` (headers), and by syntactic conditions on the token list in
`C01full.scan_of_layout_syn` (headers, C / C++ / C#).  A1 - A3 are stage lemmas about functions of
the pipeline and carry no suffix.

**The restriction `no_adjacent`.**  A1 and A4 need the layout clause `no_adjacent` (no block starts
at the token directly after a function's closing brace), which is NOT a property of well-formed
files; Appendix A of the design makes it part of "canonical" ("a body's `}` is not immediately
followed by `{`").  Without it the statements are false: `TokenRange.overlaps` treats the
exclusive end of the body as part of it, so a block that directly follows a function body
(`void f() { ... } { ... }`, a Java instance initialiser after a method) is merged into the
function (in TypeScript the same merge happens to repair `f(): { a: T } { ... }`, where the
first block after the header is the return type); `adjacent_block_is_merged` is a concrete
witness and `scopes_of_layoutCore_false` / `scan_of_layoutCore_false` are the negations of the
statements without the clause.
-/
namespace CL.C01

/-! ## brace blocks -/

/-- **Real brace blocks are well-formed.**  Whatever the tokens are, every block found by
`get_blocks` is a non-empty token range inside the file; and when token locations strictly
increase along the file (C16), the blocks are listed strictly by their first token and any
later block is disjoint from, or nested in, an earlier one.  These are the layout clauses
`blocks_ok`, `blocks_sorted` and `laminar`. -/
theorem getBlocks_laminar {code : List Tok} {bs : List Range} (h : getBlocks code = .ok bs) :
    (∀ b ∈ bs, b.s < b.e ∧ b.e ≤ code.length) ∧
    (code.Pairwise (fun a b => a.line < b.line ∨ (a.line = b.line ∧ a.col < b.col)) →
      bs.Pairwise (fun a b => a.s < b.s) ∧ bs.Pairwise (fun a b => a.e ≤ b.s ∨ b.e ≤ a.e)) := by
  obtain ⟨h1, h2⟩ := getBlocks_spec_L h
  refine ⟨fun b hb => ?_, fun hpos => ?_⟩
  · have := h1 b hb; omega
  · obtain ⟨h3, h4⟩ := h2 hpos
    exact ⟨h3, h4.imp (fun h => by omega)⟩

/-- the sharper facts: a block has at least two tokens (its braces) and nesting is strict -/
theorem getBlocks_strict {code : List Tok} {bs : List Range} (h : getBlocks code = .ok bs) :
    (∀ b ∈ bs, b.s + 1 < b.e ∧ b.e ≤ code.length) ∧
    (code.Pairwise (fun a b => a.line < b.line ∨ (a.line = b.line ∧ a.col < b.col)) →
      bs.Pairwise (fun a b => a.s < b.s) ∧ bs.Pairwise (fun a b => a.e ≤ b.s ∨ b.e < a.e)) :=
  getBlocks_spec_L h

/-- hence, for the blocks that `get_blocks` computes on a file with strictly increasing token
locations, only the clauses about the functions (`FnLayout`) have to be checked -/
theorem layoutCore_of_getBlocks {code : List Tok} {fns : List Fn} {blocks : List Range}
    (hpos : code.Pairwise (fun a b => a.line < b.line ∨ (a.line = b.line ∧ a.col < b.col)))
    (hb : getBlocks code = .ok blocks) (hF : FnLayout fns blocks) : LayoutCore code fns blocks :=
  have h := getBlocks_laminar hb
  ⟨hF, hpos, h.1, (h.2 hpos).1, (h.2 hpos).2⟩

/-! ## A1: scopes -/

/-- **A1 (needs the clause `no_adjacent` of `Layout`).**  On a canonical layout
`_build_scopes_from_headers_and_blocks` succeeds and gives every function exactly its own body
block, in source order: a brace group inside the parameter list is never taken for the body,
blocks inside the body do not change it, and the blocks consumed by inner functions (which are
processed first) never starve an outer function.  The headers may be handed over in any order
(JavaScript and TypeScript concatenate the matches of two patterns): they are sorted by location
first.

Full statement (FALSE, see `scopes_of_layoutCore_false`): the same with `LayoutCore` instead of
`Layout`, i.e. without the clause `no_adjacent`. -/
theorem scopes_of_layout {code : List Tok} {fns : List Fn} {blocks : List Range}
    (L : Layout code fns blocks) {hs : List Header} (hperm : hs.Perm (fns.map (·.hdr))) :
    buildScopes0 code hs blocks = .ok (fns.map (fun f => ⟨f.hdr, f.body⟩)) :=
  buildScopes0_layout L hperm

/-- the negation of the full statement of A1: a well-formed file on which a function does not
get its own body -/
theorem scopes_of_layoutCore_false :
    ¬ ∀ (code : List Tok) (fns : List Fn) (blocks : List Range), LayoutCore code fns blocks →
      ∀ hs : List Header, hs.Perm (fns.map (·.hdr)) →
      buildScopes0 code hs blocks = .ok (fns.map (fun f => ⟨f.hdr, f.body⟩)) := by
  intro h
  have h1 := h _ _ _ C01Adj.layoutCore _ (List.Perm.refl _)
  rw [C01Adj.scopesEx] at h1
  revert h1
  decide +kernel

/-! ## A2: nesting -/

/-- **The parent of the specification is the innermost enclosing function**: it encloses `g`,
and every other function enclosing `g` encloses it. -/
theorem parent_is_innermost {code : List Tok} {fns : List Fn} {blocks : List Range}
    (L : LayoutCore code fns blocks) {f g : Fn} (hg : g ∈ fns) (h : parent fns g = some f) :
    f ∈ fns ∧ f.encloses g = true ∧
      ∀ f' ∈ fns, f'.encloses g = true → f' = f ∨ f'.encloses f = true := by
  have N := L.nested
  obtain ⟨h1, h2, _⟩ := parent_spec N h
  exact ⟨h1, h2, fun f' hf' he => parent_innermost N h (N.nonempty g hg) hf' he⟩

/-- **A2, languages with nested functions.**  For the scopes of a canonical layout,
`fold_scopes` + `unfold_scopes` keep all scopes in source order and pair every scope with
exactly the token ranges `[header start, body end)` of its DIRECT children per the
specification (the functions whose innermost enclosing function it is), at every nesting
depth. -/
theorem fold_of_layout {code : List Tok} {fns : List Fn} {blocks : List Range}
    (L : LayoutCore code fns blocks) :
    withChildren (fns.map Fn.toScope) (foldParents (fns.map Fn.toScope) 0 [])
      = fns.map (fun f => (f.toScope, (children fns f).map (fun g => ⟨g.hdr.rng.s, g.body.e⟩))) :=
  withChildren_layout L.nested

/-- **A2, languages without nested functions.**  `filter_scopes_nested_functions` keeps
exactly the functions that are not nested in any other function. -/
theorem flat_of_layout {code : List Tok} {fns : List Fn} {blocks : List Range}
    (L : LayoutCore code fns blocks) :
    filterNested (fns.map Fn.toScope) none = (topLevel fns).map Fn.toScope :=
  filterNested_layout L.nested

/-! ## A3: counting -/

/-- **A3.**  For a function of a canonical layout, `count_lines` with the ranges of its direct
children succeeds and returns the number of distinct lines of the tokens from the first header
token to the closing brace that lie in no function nested in it at any depth: the token right
after a nested function belongs to the parent again, and tokens of grandchildren are excluded
because they lie inside a child. -/
theorem count_of_layout {code : List Tok} {fns : List Fn} {blocks : List Range}
    (L : LayoutCore code fns blocks) {f : Fn} (hf : f ∈ fns) :
    countLines code ⟨f.hdr, f.body⟩ ((children fns f).map (fun g => ⟨g.hdr.rng.s, g.body.e⟩))
      = .ok (countDistinct (ownLines code fns f)) :=
  countLines_layout L hf

/-- **A3, without children** (what languages without nested functions compute): nothing is
subtracted, all lines of the function's tokens count. -/
theorem count_of_layout_flat {code : List Tok} {fns : List Fn} {blocks : List Range}
    (L : LayoutCore code fns blocks) {f : Fn} (hf : f ∈ fns) :
    countLines code ⟨f.hdr, f.body⟩ [] = .ok (countDistinct (allLines code f)) :=
  countLines_layout_flat L hf

/-- what `ownLines` contains, spelled out: the lines of the tokens of `f` outside every function
nested in `f` -/
theorem mem_ownLines_iff {code : List Tok} {fns : List Fn} {f : Fn} {l : Nat} :
    l ∈ ownLines code fns f ↔ ∃ j t, f.hdr.rng.s ≤ j ∧ j < f.body.e ∧ code[j]? = some t ∧
      t.line = l ∧ ∀ g ∈ fns, f.encloses g = true → ¬ (g.hdr.rng.s ≤ j ∧ j < g.body.e) :=
  mem_ownLines

/-- the expected measurement exists for every function of a layout and is what C01 says: the
function's own name, the location of its first header token, the location just past its closing
brace, the number of distinct own lines -/
theorem expected_spec {code : List Tok} {fns : List Fn} {blocks : List Range}
    (L : LayoutCore code fns blocks) {f : Fn} (hf : f ∈ fns) :
    ∃ first last, code[f.hdr.rng.s]? = some first ∧ code[f.body.e - 1]? = some last ∧
      expected code fns f = some ⟨f.hdr.name.val, first.line, first.col, (Tok.endPos_L last).1,
        (Tok.endPos_L last).2, countDistinct (ownLines code fns f)⟩ := by
  have hb := L.fn_bounds hf
  have hi1 : f.hdr.rng.s < code.length := by omega
  have hi2 : f.body.e - 1 < code.length := by omega
  refine ⟨code[f.hdr.rng.s], code[f.body.e - 1], List.getElem?_eq_getElem hi1,
    List.getElem?_eq_getElem hi2, ?_⟩
  unfold expected expectedWith
  rw [if_neg (by omega), List.getElem?_eq_getElem hi1, List.getElem?_eq_getElem hi2]

/-! ## A4: the whole of `scan_file` -/

/-- **A4, languages with nested functions (`_partial`: conditional on `hh` / `hperm` / `hb`, i.e. on
what header extraction and `get_blocks` return; needs `no_adjacent`).**  Let `code` be the
code tokens of a file.  If the header extraction of a brace-block language `L` finds the headers
of the functions `fns` (in any order), `get_blocks` finds `blocks`, these data form a canonical layout and no
function is marked with a suppression comment, then `scan_file` succeeds and reports exactly
the functions `fns`, each once, in source order, each with its expected measurement (own name,
span from the first header token to just past the closing brace, number of distinct own lines).

Full statement (FALSE, see `scan_of_layoutCore_false`): the same with `LayoutCore`. -/
theorem scan_of_layout_partial {L : Language} {all code : List Tok} {fns : List Fn}
    {blocks : List Range} (hcode : filterTokens false all = code) (hpy : L.python = false)
    (hnest : L.nested = true) {hs : List Header} (hh : extractHeaders L code = .ok hs)
    (hperm : hs.Perm (fns.map (·.hdr)))
    (hb : getBlocks code = .ok blocks) (hL : Layout code fns blocks)
    (hm : ∀ f ∈ fns, ¬ Marked all f.hdr.name.line) :
    ∃ ms, scanFile L all = .ok ms ∧ ms.map some = fns.map (expected code fns) := by
  obtain ⟨ms, h1, h2⟩ := measureAll_layout hL.toLayoutCore fns (fun _ h => h)
  refine ⟨ms, ?_, h2⟩
  unfold scanFile
  rw [buildScopes_eq, hcode, rawScopes_layout hpy hh hperm hb hL]
  simp only [Except.map, filterNocl_layout hm]
  unfold arrange
  rw [if_pos hnest, withChildren_layout hL.nested]
  exact h1

/-- **A4, languages without nested functions (`_partial`: as above).**  Under the same
hypotheses `scan_file` reports exactly the top-level functions, each once, in source order; the
length of a reported function is the number of distinct lines of ALL its tokens (the tokens of
the functions nested in it included, since those are not reported). -/
theorem scan_of_layout_flat_partial {L : Language} {all code : List Tok} {fns : List Fn}
    {blocks : List Range} (hcode : filterTokens false all = code) (hpy : L.python = false)
    (hnest : L.nested = false) {hs : List Header} (hh : extractHeaders L code = .ok hs)
    (hperm : hs.Perm (fns.map (·.hdr)))
    (hb : getBlocks code = .ok blocks) (hL : Layout code fns blocks)
    (hm : ∀ f ∈ fns, ¬ Marked all f.hdr.name.line) :
    ∃ ms, scanFile L all = .ok ms ∧ ms.map some = (topLevel fns).map (expectedFlat code) := by
  obtain ⟨ms, h1, h2⟩ := measureAll_layout_flat hL.toLayoutCore (topLevel fns)
    (fun f hf => (List.mem_filter.mp hf).1)
  refine ⟨ms, ?_, h2⟩
  unfold scanFile
  rw [buildScopes_eq, hcode, rawScopes_layout hpy hh hperm hb hL]
  simp only [Except.map, filterNocl_layout hm]
  unfold arrange
  simp only [hnest, Bool.false_eq_true, if_false]
  rw [filterNested_layout hL.nested, List.map_map]
  exact h1

/-- **A4 with the hypotheses reduced to the function clauses.**  For a lexed file (token
locations strictly increasing, C16) whose headers are those of `fns` and whose brace blocks are
`blocks`, it suffices that the functions lie canonically relative to the blocks (`FnLayout`)
and that no block directly follows a function body. -/
theorem scan_of_fnLayout_partial {L : Language} {all code : List Tok} {fns : List Fn}
    {blocks : List Range} (hcode : filterTokens false all = code) (hpy : L.python = false)
    (hpos : code.Pairwise (fun a b => a.line < b.line ∨ (a.line = b.line ∧ a.col < b.col)))
    {hs : List Header} (hh : extractHeaders L code = .ok hs) (hperm : hs.Perm (fns.map (·.hdr)))
    (hb : getBlocks code = .ok blocks)
    (hF : FnLayout fns blocks) (hadj : ∀ f ∈ fns, ∀ b ∈ blocks, b.s ≠ f.body.e)
    (hm : ∀ f ∈ fns, ¬ Marked all f.hdr.name.line) :
    (L.nested = true →
      ∃ ms, scanFile L all = .ok ms ∧ ms.map some = fns.map (expected code fns)) ∧
    (L.nested = false →
      ∃ ms, scanFile L all = .ok ms ∧ ms.map some = (topLevel fns).map (expectedFlat code)) :=
  have hL : Layout code fns blocks := ⟨layoutCore_of_getBlocks hpos hb hF, hadj⟩
  ⟨fun hn => scan_of_layout_partial hcode hpy hn hh hperm hb hL hm,
   fun hn => scan_of_layout_flat_partial hcode hpy hn hh hperm hb hL hm⟩

/-! ## the deviation -/

/-- **Witness: a block directly after a function body is merged into the function.**  The file
```
f ( ) {
  a ;
} {
  b ;
}
```
(a Java method followed by an instance initialiser) satisfies every layout clause except
`no_adjacent`; Java's header extraction finds `f`, `get_blocks` finds the two blocks, yet the
scope built for `f` spans both blocks and `scan_file` reports `f` as lines 1-5 with length 5,
where the specification expects lines 1-3 with length 3. -/
theorem adjacent_block_is_merged :
    LayoutCore C01Adj.code C01Adj.fns C01Adj.blocks ∧
    ¬ Layout C01Adj.code C01Adj.fns C01Adj.blocks ∧
    extractHeaders Gen.java C01Adj.code = .ok (C01Adj.fns.map (·.hdr)) ∧
    getBlocks C01Adj.code = .ok C01Adj.blocks ∧
    buildScopes0 C01Adj.code (C01Adj.fns.map (·.hdr)) C01Adj.blocks
      = .ok [⟨C01Adj.fF.hdr, ⟨3, 11⟩⟩] ∧
    scanFile Gen.java C01Adj.code = .ok [⟨[102], 1, 1, 5, 2, 5⟩] ∧
    C01Adj.fns.map (expected C01Adj.code C01Adj.fns) = [some ⟨[102], 1, 1, 3, 2, 3⟩] :=
  ⟨C01Adj.layoutCore, C01Adj.not_layout, C01Adj.headers, C01Adj.blocksEx, C01Adj.scopesEx,
   C01Adj.scanJava, C01Adj.expectedEx⟩

/-- the negation of the full statement of A4 -/
theorem scan_of_layoutCore_false :
    ¬ ∀ (L : Language) (all code : List Tok) (fns : List Fn) (blocks : List Range),
      filterTokens false all = code → L.python = false → L.nested = true →
      ∀ hs : List Header, extractHeaders L code = .ok hs → hs.Perm (fns.map (·.hdr)) →
      getBlocks code = .ok blocks → LayoutCore code fns blocks →
      (∀ f ∈ fns, ¬ Marked all f.hdr.name.line) →
      ∃ ms, scanFile L all = .ok ms ∧ ms.map some = fns.map (expected code fns) := by
  intro h
  obtain ⟨ms, h1, h2⟩ := h Gen.java C01Adj.code C01Adj.code C01Adj.fns C01Adj.blocks
    C01Adj.code_all (by decide) (by decide) _ C01Adj.headers (List.Perm.refl _) C01Adj.blocksEx
    C01Adj.layoutCore
    (by decide +kernel)
  rw [C01Adj.scanJava] at h1
  cases h1
  rw [C01Adj.expectedEx] at h2
  revert h2
  decide +kernel

/-! ## A5: end-to-end examples (non-vacuity)

The file of `CodeLimit/Lemmas/LayoutExamples.lean`: a top-level initialiser `{1, 2}`, a class
around two methods (one with a brace group in its parameter list), and a function `f`
containing `g` (not the last statement; `g` contains `h`: depth 3), an `if (x) { }` block and
`k` (the last function), followed by a comment. -/

/-- the example is a canonical layout -/
example : Layout C01Ex.code C01Ex.fns C01Ex.blocks := C01Ex.layout

/-- `scan_file` for C++ evaluated stage by stage (independently of the theorems above): six
functions; `f` has 4 own lines, `g` 3, the others 1 -/
theorem scan_example_cpp :
    scanFile Gen.cpp C01Ex.all
      = .ok [⟨[109, 49], 3, 3, 3, 17, 1⟩, ⟨[109, 50], 4, 3, 4, 31, 1⟩, ⟨[102], 6, 1, 13, 2, 4⟩,
             ⟨[103], 7, 3, 10, 4, 3⟩, ⟨[104], 8, 5, 8, 18, 1⟩, ⟨[107], 12, 3, 12, 16, 1⟩] :=
  C01Ex.scanCpp

/-- the same file for C (no nested functions): three functions, `f` with all its 8 lines -/
theorem scan_example_c :
    scanFile Gen.c C01Ex.all
      = .ok [⟨[109, 49], 3, 3, 3, 17, 1⟩, ⟨[109, 50], 4, 3, 4, 31, 1⟩, ⟨[102], 6, 1, 13, 2, 8⟩] :=
  C01Ex.scanC

/-- the hypotheses of A4 are satisfiable, and its conclusion agrees with the independent
evaluation -/
example : ∃ ms, scanFile Gen.cpp C01Ex.all = .ok ms ∧
    ms.map some = C01Ex.fns.map (expected C01Ex.code C01Ex.fns) :=
  scan_of_layout_partial C01Ex.code_all (by decide) (by decide) C01Ex.headersCpp
    (List.Perm.refl _) C01Ex.blocksEx C01Ex.layout C01Ex.unmarked

example : ∃ ms, scanFile Gen.c C01Ex.all = .ok ms ∧
    ms.map some = (topLevel C01Ex.fns).map (expectedFlat C01Ex.code) :=
  scan_of_layout_flat_partial C01Ex.code_all (by decide) (by decide) C01Ex.headersC
    (List.Perm.refl _) C01Ex.blocksEx C01Ex.layout C01Ex.unmarked

/-- JavaScript: `const a = (x) => { function b() {...} ... }` and `function c() {...}`; the
headers are extracted in the order `b`, `c`, `a`; evaluated stage by stage -/
theorem scan_example_js :
    scanFile Gen.javascript C01Js.code
      = .ok [⟨[97], 1, 1, 4, 2, 3⟩, ⟨[98], 2, 3, 2, 25, 1⟩, ⟨[99], 5, 1, 5, 23, 1⟩] :=
  C01Js.scanJs

/-- A4 applies to it although the extracted headers are not in source order -/
example : ∃ ms, scanFile Gen.javascript C01Js.code = .ok ms ∧
    ms.map some = C01Js.fns.map (expected C01Js.code C01Js.fns) :=
  scan_of_layout_partial C01Js.code_all (by decide) (by decide) C01Js.headers C01Js.headers_perm
    C01Js.blocksEx C01Js.layout C01Js.unmarked

example : C01Js.fns.map (expected C01Js.code C01Js.fns)
    = [some ⟨[97], 1, 1, 4, 2, 3⟩, some ⟨[98], 2, 3, 2, 25, 1⟩, some ⟨[99], 5, 1, 5, 23, 1⟩] :=
  C01Js.expectedEx

/-- the expected report of the example, computed from the layout alone -/
example : C01Ex.fns.map (expected C01Ex.code C01Ex.fns)
    = [some ⟨[109, 49], 3, 3, 3, 17, 1⟩, some ⟨[109, 50], 4, 3, 4, 31, 1⟩,
       some ⟨[102], 6, 1, 13, 2, 4⟩, some ⟨[103], 7, 3, 10, 4, 3⟩, some ⟨[104], 8, 5, 8, 18, 1⟩,
       some ⟨[107], 12, 3, 12, 16, 1⟩] := C01Ex.expectedEx

/-- nesting of the example: `g` and `k` are the children of `f`, `h` is the child of `g` -/
example : C01Ex.fns.map (parent C01Ex.fns)
    = [none, none, none, some C01Ex.fF, some C01Ex.fG, some C01Ex.fF] := C01Ex.parents

end CL.C01
