import CodeLimit.Lemmas.Compose
import CodeLimit.Props.C14
import CodeLimit.Props.C15
/-!
# C01, discovery direction - which function headers `find_all` / `get_headers` /
`extract_headers` report, for the shipped header patterns

"... reports each named function exactly once ... and reports nothing that is not a function
definition."

What the engine theorems (C14, C15) give for the shipped patterns, composed:

* `header_found_iff`: a position/extent `(p, f)` is reported by `find_all` **iff** it is a greedy
  match of the pattern and is not pre-empted by another reported match.  The right-hand side
  mentions the OUTPUT again (the reported matches that could pre-empt): the statement is an
  EQUATION that the set of reported matches satisfies, not yet a description from the input alone;
* `header_found_unique`: that equation has exactly ONE solution.  Pre-emption only comes from
  matches that finish earlier (or finish together and start earlier), so the set of reported matches
  is the unique relation `R` with `R p f ↔ greedy (p, f) ∧ no (s, e) with R s e pre-empts (p, f)`:
  an input-only definition of what `find_all` reports ("earliest finish wins");
* `canonical_header_found` / `canonical_header_found_shape`: sufficient conditions on the token
  list alone;
* `headers_found_iff`, `canonical_header_extracted`, `extracted_is_header`: the same through the
  follow-up filter, the name extraction, the concatenation over a language's patterns and Java's
  keyword filter;
* `header_reported_once`: no start is reported twice.

The FULL clause "every greedy match that passes the follow-up test is reported" is false
(known finding KF1, `C14.completeness_full_fails`); `kf1_outer_function_lost` below shows it on
the shipped C pattern: in `f ( g ( x ) ) { }` the function `f` is not reported, because the
call-shaped group `g ( x )` inside its parameter list finishes earlier and discards the attempt
that started at `f`.

`M := dfaMachine D tokAcceptor` is the machine `get_headers` runs `find_all` on, for `D` the
compiled header expression of one of the patterns of a shipped language.
-/
namespace CL.C01disc
open CL.Compose

/-- the two engine hypotheses hold for every shipped header pattern -/
theorem shipped_machine (L : Language) (hL : L ∈ Gen.all.map (·.2)) (hp : HeaderPat)
    (hhp : hp ∈ L.pats) (D : Dfa Pred) (hD : compileTok hp.expr = .ok D) :
    (dfaMachine D tokAcceptor).acc (dfaMachine D tokAcceptor).init = false ∧
      DeadStuck (dfaMachine D tokAcceptor (β := Tok)) := by
  obtain ⟨D', hD', _, hnn, _⟩ := patOk_expr (C15.pat_ok hL hhp)
  rw [hD] at hD'; cases hD'
  exact ⟨hnn, dfaMachine_deadStuck D tokAcceptor⟩

/-! ## 1. `find_all`: reported = greedy and not pre-empted -/

/-- A position/extent `(p, f)` is reported by `find_all` on a shipped header pattern exactly when
greedy matching from `p` succeeds with finish `f` and no reported match pre-empts it: none that
starts before `p`, covers `p` and finishes no later than `f`, and none that starts after `p` and
finishes strictly before `f` (the pre-emption of known finding KF1).  The reported match records
exactly the tokens `toks[p..f)`.

NOTE: the right-hand side quantifies over the reported matches `ms` themselves - this is the
equation the output satisfies, and `header_found_unique` shows that it has no other solution.
Conditions on the input alone that IMPLY "reported": `canonical_header_found` (engine terms),
`C01syn.c_header_complete` … (syntactic terms). -/
theorem header_found_iff (L : Language) (hL : L ∈ Gen.all.map (·.2)) (hp : HeaderPat)
    (hhp : hp ∈ L.pats) (D : Dfa Pred) (hD : compileTok hp.expr = .ok D) (toks : List Tok)
    (ms : List (Match Tok)) (hms : findAll (dfaMachine D tokAcceptor) toks = .ok ms) (p f : Nat) :
    (∃ m ∈ ms, m.s = p ∧ m.e = f ∧ m.toks = slice toks p f) ↔
      GreedyAt (dfaMachine D tokAcceptor) toks p f ∧
        ¬ ∃ m ∈ ms, (m.s < p ∧ p < m.e ∧ m.e ≤ f) ∨ (p < m.s ∧ m.e < f) := by
  obtain ⟨hnn, hds⟩ := shipped_machine L hL hp hhp D hD
  rw [← show Preempted ms p f = ∃ m ∈ ms, (m.s < p ∧ p < m.e ∧ m.e ≤ f) ∨ (p < m.s ∧ m.e < f)
    from rfl, ← reported_iff hnn hds hms p f]
  constructor
  · rintro ⟨m, hm, h1, h2, _⟩
    exact ⟨m, hm, h1, h2⟩
  · rintro ⟨m, hm, h1, h2⟩
    refine ⟨m, hm, h1, h2, ?_⟩
    rw [← h1, ← h2]
    exact C14.records hnn hds hms m hm

/-- the same with the simpler (stronger) non-interference condition: no reported match covers `p`
from an earlier start, and no reported match starts later and finishes strictly earlier -/
theorem header_found_iff_simple (L : Language) (hL : L ∈ Gen.all.map (·.2)) (hp : HeaderPat)
    (hhp : hp ∈ L.pats) (D : Dfa Pred) (hD : compileTok hp.expr = .ok D) (toks : List Tok)
    (ms : List (Match Tok)) (hms : findAll (dfaMachine D tokAcceptor) toks = .ok ms) (p f : Nat) :
    (∃ m ∈ ms, m.s = p ∧ m.e = f) ↔
      GreedyAt (dfaMachine D tokAcceptor) toks p f ∧
        ¬ ∃ m ∈ ms, (m.s < p ∧ p < m.e) ∨ (p < m.s ∧ m.e < f) := by
  obtain ⟨hnn, hds⟩ := shipped_machine L hL hp hhp D hD
  constructor
  · rintro ⟨m, hm, rfl, rfl⟩
    refine ⟨C14.greedy hnn hds hms m hm, ?_⟩
    rintro ⟨m', hm', hcase⟩
    have hlt' := (C14.bounds hnn hds hms m' hm').1
    have hlt := (C14.bounds hnn hds hms m hm).1
    rcases reported_disjoint (C14.ordered_disjoint hnn hds hms) m hm m' hm' with rfl | hd | hd <;>
      omega
  · rintro ⟨hg, hnp⟩
    refine (reported_iff hnn hds hms p f).2 ⟨hg, ?_⟩
    rintro ⟨m, hm, ⟨h1, h2, _⟩ | h⟩
    · exact hnp ⟨m, hm, .inl ⟨h1, h2⟩⟩
    · exact hnp ⟨m, hm, .inr h⟩

/-- **The equation of `header_found_iff` determines the reported matches.**  Let `R` be ANY relation
on positions/extents that satisfies the equation "`R p f` iff greedy matching from `p` succeeds with
finish `f` and no `(s, e)` with `R s e` pre-empts `(p, f)`" - a condition on the INPUT token list
and `R` only.  Then `R` is the set of matches that `find_all` reports.  (A pre-empting match
finishes strictly earlier, or finishes together and starts earlier, so the equation is a
well-founded recursion on `(finish, start)`.)  Hence the right-hand side of `header_found_iff` is
not circular: it DEFINES the output from the input. -/
theorem header_found_unique (L : Language) (hL : L ∈ Gen.all.map (·.2)) (hp : HeaderPat)
    (hhp : hp ∈ L.pats) (D : Dfa Pred) (hD : compileTok hp.expr = .ok D) (toks : List Tok)
    (ms : List (Match Tok)) (hms : findAll (dfaMachine D tokAcceptor) toks = .ok ms)
    (R : Nat → Nat → Prop)
    (hR : ∀ p f, R p f ↔ GreedyAt (dfaMachine D tokAcceptor) toks p f ∧
      ¬ ∃ s e, R s e ∧ ((s < p ∧ p < e ∧ e ≤ f) ∨ (p < s ∧ e < f))) :
    ∀ p f, R p f ↔ ∃ m ∈ ms, m.s = p ∧ m.e = f := by
  obtain ⟨hnn, hds⟩ := shipped_machine L hL hp hhp D hD
  have key : ∀ f p, R p f ↔ ∃ m ∈ ms, m.s = p ∧ m.e = f := by
    intro f
    induction f using Nat.strongRecOn with
    | _ f ihf =>
      intro p
      induction p using Nat.strongRecOn with
      | _ p ihp =>
        rw [hR p f, reported_iff hnn hds hms p f]
        refine and_congr Iff.rfl (not_congr ?_)
        constructor
        · rintro ⟨s, e, hr, hc⟩
          have hrep : ∃ m ∈ ms, m.s = s ∧ m.e = e := by
            rcases hc with ⟨h1, _, h3⟩ | ⟨_, h2⟩
            · rcases Nat.lt_or_eq_of_le h3 with h | h
              · exact (ihf e h s).1 hr
              · subst h; exact (ihp s h1).1 hr
            · exact (ihf e h2 s).1 hr
          obtain ⟨m, hm, rfl, rfl⟩ := hrep
          exact ⟨m, hm, hc⟩
        · rintro ⟨m, hm, hc⟩
          refine ⟨m.s, m.e, ?_, hc⟩
          rcases hc with ⟨h1, _, h3⟩ | ⟨_, h2⟩
          · rcases Nat.lt_or_eq_of_le h3 with h | h
            · exact (ihf m.e h m.s).2 ⟨m, hm, rfl, rfl⟩
            · have := (ihp m.s h1)
              rw [← h] at this
              exact this.2 ⟨m, hm, rfl, rfl⟩
          · exact (ihf m.e h2 m.s).2 ⟨m, hm, rfl, rfl⟩
  exact fun p f => key f p

/-- the hypothesis of `header_found_unique` is satisfiable: the set of reported matches itself
solves the equation (this is `header_found_iff` with the pre-empting match named by its extent) -/
theorem header_found_solves (L : Language) (hL : L ∈ Gen.all.map (·.2)) (hp : HeaderPat)
    (hhp : hp ∈ L.pats) (D : Dfa Pred) (hD : compileTok hp.expr = .ok D) (toks : List Tok)
    (ms : List (Match Tok)) (hms : findAll (dfaMachine D tokAcceptor) toks = .ok ms) (p f : Nat) :
    (∃ m ∈ ms, m.s = p ∧ m.e = f) ↔ GreedyAt (dfaMachine D tokAcceptor) toks p f ∧
      ¬ ∃ s e, (∃ m ∈ ms, m.s = s ∧ m.e = e) ∧ ((s < p ∧ p < e ∧ e ≤ f) ∨ (p < s ∧ e < f)) := by
  obtain ⟨hnn, hds⟩ := shipped_machine L hL hp hhp D hD
  rw [reported_iff hnn hds hms p f]
  refine and_congr Iff.rfl (not_congr ?_)
  constructor
  · rintro ⟨m, hm, hc⟩
    exact ⟨m.s, m.e, ⟨m, hm, rfl, rfl⟩, hc⟩
  · rintro ⟨s, e, ⟨m, hm, rfl, rfl⟩, hc⟩
    exact ⟨m, hm, hc⟩

/-- no start is reported twice (and no two reported matches overlap): the reported matches have
strictly increasing starts -/
theorem header_reported_once (L : Language) (hL : L ∈ Gen.all.map (·.2)) (hp : HeaderPat)
    (hhp : hp ∈ L.pats) (D : Dfa Pred) (hD : compileTok hp.expr = .ok D) (toks : List Tok)
    (ms : List (Match Tok)) (hms : findAll (dfaMachine D tokAcceptor) toks = .ok ms) :
    ms.Pairwise (fun m m' => m.s < m'.s ∧ m.e ≤ m'.s) := by
  obtain ⟨hnn, hds⟩ := shipped_machine L hL hp hhp D hD
  refine (C14.ordered_disjoint hnn hds hms).imp_of_mem ?_
  intro m m' hm _ h
  have := (C14.bounds hnn hds hms m hm).1
  exact ⟨by omega, h⟩

/-! ## 2. a sufficient condition on the token list alone -/

/-- A greedy match `(p, f)` of a shipped header pattern is reported by `find_all` whenever

* `hbefore`: no EARLIER position `q < p` has a greedy match finishing inside `(p, f]`, and
* `hafter`: no LATER position `q > p` has a greedy match finishing strictly before `f`.

These are exactly the attempts that could commit while the attempt from `p` is still running
(an attempt is committed when it gets stuck; a committed match `(s, e)` discards every attempt
that started before `e`; attempts that finish together are committed in order of their starts).

For a canonical function header `[keyword] Name ( params )` both hold:

* `hafter`: every greedy match begins with a name token in its first two tokens followed by an
  opening parenthesis group (`greedy_start_shape`), so it needs a `Name (`-shaped group at `q`;
  a parameter list that contains no such group (no call, no function-pointer declarator, no
  default-argument call) offers no start in `(p, f)`.  (For `function f (...)` the position of
  `f` is itself a start; its attempt shares the parenthesis group of the header and finishes
  at the same `f`, not before.)
* `hbefore`: an attempt from `q < p` that is still running at `p` has consumed its own
  opening parenthesis and not yet the matching closing one, i.e. `p` lies inside the
  parentheses of an enclosing `Name (`-shaped group (an unclosed call such as `foo ( ... f ( x ) {`).
  Such an attempt is at nesting depth `≥ 1` throughout `[p, f)` and cannot get stuck there; it
  can only finish in `(p, f]` if the input ends at `f`.  A header that is not inside the
  parentheses of an enclosing group has no such `q`.

The condition is sufficient, not necessary: a competing greedy match may itself be pre-empted
(see `header_found_iff` for the exact condition in terms of the reported matches). -/
theorem canonical_header_found (L : Language) (hL : L ∈ Gen.all.map (·.2)) (hp : HeaderPat)
    (hhp : hp ∈ L.pats) (D : Dfa Pred) (hD : compileTok hp.expr = .ok D) (toks : List Tok)
    (ms : List (Match Tok)) (hms : findAll (dfaMachine D tokAcceptor) toks = .ok ms) (p f : Nat)
    (hg : GreedyAt (dfaMachine D tokAcceptor) toks p f)
    (hbefore : ∀ q f', q < p → GreedyAt (dfaMachine D tokAcceptor) toks q f' →
      ¬ (p < f' ∧ f' ≤ f))
    (hafter : ∀ q f', p < q → GreedyAt (dfaMachine D tokAcceptor) toks q f' → ¬ f' < f) :
    ∃ m ∈ ms, m.s = p ∧ m.e = f ∧ m.toks = slice toks p f := by
  obtain ⟨hnn, hds⟩ := shipped_machine L hL hp hhp D hD
  obtain ⟨m, hm, h1, h2⟩ := reported_of_isolated hnn hds hms hg hbefore hafter
  refine ⟨m, hm, h1, h2, ?_⟩
  rw [← h1, ← h2]
  exact C14.records hnn hds hms m hm

/-- the shape check holds for every shipped header pattern: every match has at least two
tokens, the first accepted by a stateless predicate of the start state -/
theorem shipped_startShapeOK : ∀ L ∈ Gen.all.map (·.2), ∀ hp ∈ L.pats,
    (match compileTok hp.expr with | .ok D => startShapeOK D | .error _ => false) = true := by
  decide +kernel

/-- every greedy match of a shipped header pattern has at least two tokens, and its first two
tokens have the start shape of the pattern: `toks[q]` is accepted by a transition of the start
state and `toks[q + 1]` by a transition of the state reached (C, C++, C#, Java: `Name (`;
Python: `def Name`; JavaScript / TypeScript: `function Name`, `Name (`, `const Name`, `Name =`) -/
theorem greedy_has_start_shape (L : Language) (hL : L ∈ Gen.all.map (·.2)) (hp : HeaderPat)
    (hhp : hp ∈ L.pats) (D : Dfa Pred) (hD : compileTok hp.expr = .ok D) (toks : List Tok)
    (q f' : Nat) (hg : GreedyAt (dfaMachine D tokAcceptor) toks q f') :
    startShapeB D toks q = true ∧ q + 2 ≤ f' := by
  have := shipped_startShapeOK L hL hp hhp
  rw [hD] at this
  exact greedy_start_shape this hg

/-- `hafter` discharged syntactically: a greedy match `(p, f)` is reported when no earlier
position has a greedy match finishing inside `(p, f]` and NO position strictly between `p` and
`f - 1` has the start shape of the pattern (for the C-family pattern: the parameter list
contains no `Name (`). -/
theorem canonical_header_found_shape (L : Language) (hL : L ∈ Gen.all.map (·.2)) (hp : HeaderPat)
    (hhp : hp ∈ L.pats) (D : Dfa Pred) (hD : compileTok hp.expr = .ok D) (toks : List Tok)
    (ms : List (Match Tok)) (hms : findAll (dfaMachine D tokAcceptor) toks = .ok ms) (p f : Nat)
    (hg : GreedyAt (dfaMachine D tokAcceptor) toks p f)
    (hbefore : ∀ q f', q < p → GreedyAt (dfaMachine D tokAcceptor) toks q f' →
      ¬ (p < f' ∧ f' ≤ f))
    (hnoshape : ∀ q, p < q → q + 2 < f → startShapeB D toks q = false) :
    ∃ m ∈ ms, m.s = p ∧ m.e = f ∧ m.toks = slice toks p f := by
  refine canonical_header_found L hL hp hhp D hD toks ms hms p f hg hbefore ?_
  intro q f' hq hg' hlt
  obtain ⟨hshape, hlen⟩ := greedy_has_start_shape L hL hp hhp D hD toks q f' hg'
  rw [hnoshape q hq (by omega)] at hshape
  cases hshape

/-! ## 3. through `get_headers` and `extract_headers` -/

/-- `get_headers`: a header with token range `[p, f)` is returned exactly when `(p, f)` is a
greedy match that is not pre-empted (as in `header_found_iff`) and the follow-up test succeeds
at `f`; `ms` are the matches of the underlying `find_all` (determined from the input by
`header_found_unique`; the right-hand side is the same fixed-point form as there). -/
theorem getHeaders_found_iff (L : Language) (hL : L ∈ Gen.all.map (·.2)) (hp : HeaderPat)
    (hhp : hp ∈ L.pats) (toks : List Tok) (hs : List Header)
    (h : getHeaders hp toks = .ok hs) :
    ∃ D ms, compileTok hp.expr = .ok D ∧ findAll (dfaMachine D tokAcceptor) toks = .ok ms ∧
      ∀ p f, (∃ hd ∈ hs, hd.rng = ⟨p, f⟩ ∧ firstName (slice toks p f) = .ok hd.name) ↔
        GreedyAt (dfaMachine D tokAcceptor) toks p f ∧
        (¬ ∃ m ∈ ms, (m.s < p ∧ p < m.e ∧ m.e ≤ f) ∨ (p < m.s ∧ m.e < f)) ∧
        FollowsAt hp.follow toks f := by
  obtain ⟨D, ms, hD, hms, h1, h2⟩ := getHeaders_mem h
  refine ⟨D, ms, hD, hms, ?_⟩
  intro p f
  have hiff := header_found_iff L hL hp hhp D hD toks ms hms p f
  constructor
  · rintro ⟨hd, hhd, hr, _⟩
    obtain ⟨m, hm, hfo, hrng, _⟩ := h1 hd hhd
    rw [hr] at hrng
    obtain ⟨rfl, rfl⟩ := Range.mk.inj hrng
    obtain ⟨hnn, hds⟩ := shipped_machine L hL hp hhp D hD
    have := hiff.1 ⟨m, hm, rfl, rfl, C14.records hnn hds hms m hm⟩
    exact ⟨this.1, this.2, hfo⟩
  · rintro ⟨hg, hnp, hfo⟩
    obtain ⟨m, hm, rfl, rfl, htoks⟩ := hiff.2 ⟨hg, hnp⟩
    obtain ⟨hd, hhd, hrng, hname⟩ := h2 m hm hfo
    exact ⟨hd, hhd, hrng, by rw [← htoks]; exact hname⟩

/-- `Language.extract_headers`: a header with token range `[p, f)` is returned exactly when, for
one of the language's patterns, `(p, f)` is a greedy match that is not pre-empted by a reported
match of that pattern's `find_all`, the pattern's follow-up test succeeds at `f`, and (Java) the
token before `p` is not one of the excluded keywords.  (Same fixed-point form as
`header_found_iff`: `ms` is the output of `find_all`, determined from the input by
`header_found_unique`.) -/
theorem headers_found_iff (L : Language) (hL : L ∈ Gen.all.map (·.2)) (toks : List Tok)
    (hs : List Header) (h : extractHeaders L toks = .ok hs) (p f : Nat) :
    (∃ hd ∈ hs, hd.rng = ⟨p, f⟩ ∧ firstName (slice toks p f) = .ok hd.name) ↔
      ∃ hp ∈ L.pats, ∃ D ms, compileTok hp.expr = .ok D ∧
        findAll (dfaMachine D tokAcceptor) toks = .ok ms ∧
        GreedyAt (dfaMachine D tokAcceptor) toks p f ∧
        (¬ ∃ m ∈ ms, (m.s < p ∧ p < m.e ∧ m.e ≤ f) ∨ (p < m.s ∧ m.e < f)) ∧
        FollowsAt hp.follow toks f ∧ PrevOk L toks p := by
  obtain ⟨hall, hmem⟩ := extractHeaders_mem_iff h
  constructor
  · rintro ⟨hd, hhd, hr, hname⟩
    obtain ⟨⟨hp, hhp, hs', hget, hhd'⟩, hprev⟩ := (hmem hd).1 hhd
    obtain ⟨D, ms, hD, hms, hiff⟩ := getHeaders_found_iff L hL hp hhp toks hs' hget
    obtain ⟨h1, h2, h3⟩ := (hiff p f).1 ⟨hd, hhd', hr, hname⟩
    rw [hr] at hprev
    exact ⟨hp, hhp, D, ms, hD, hms, h1, h2, h3, hprev⟩
  · rintro ⟨hp, hhp, D, ms, hD, hms, h1, h2, h3, hprev⟩
    obtain ⟨hs', hget⟩ := hall hp hhp
    obtain ⟨D', ms', hD', hms', hiff⟩ := getHeaders_found_iff L hL hp hhp toks hs' hget
    rw [hD] at hD'; cases hD'
    rw [hms] at hms'; cases hms'
    obtain ⟨hd, hhd, hr, hname⟩ := (hiff p f).2 ⟨h1, h2, h3⟩
    refine ⟨hd, (hmem hd).2 ⟨⟨hp, hhp, hs', hget, hhd⟩, ?_⟩, hr, hname⟩
    rw [hr]; exact hprev

/-- "reports nothing that is not a function definition", engine part: every extracted header is a
greedy match of one of the language's header patterns, followed by the pattern's follow-up
tokens, not preceded by an excluded keyword; its name is the first name token of the match. -/
theorem extracted_is_header (L : Language) (hL : L ∈ Gen.all.map (·.2)) (toks : List Tok)
    (hs : List Header) (h : extractHeaders L toks = .ok hs) :
    ∀ hd ∈ hs, ∃ hp ∈ L.pats, ∃ D, compileTok hp.expr = .ok D ∧
      GreedyAt (dfaMachine D tokAcceptor) toks hd.rng.s hd.rng.e ∧
      FollowsAt hp.follow toks hd.rng.e ∧ PrevOk L toks hd.rng.s ∧
      firstName (slice toks hd.rng.s hd.rng.e) = .ok hd.name := by
  intro hd hhd
  obtain ⟨hp, hhp, D, hD, hg, hname⟩ := C15.extractHeaders_greedy L hL toks hs h hd hhd
  obtain ⟨hp', hhp', D', ms, hD', hms, h1, _, h3, h4⟩ :=
    (headers_found_iff L hL toks hs h hd.rng.s hd.rng.e).1 ⟨hd, hhd, rfl, hname⟩
  exact ⟨hp', hhp', D', hD', h1, h3, h4, hname⟩

/-- the extracted headers start at pairwise distinct tokens: no function is reported twice -/
theorem extracted_once (L : Language) (hL : L ∈ Gen.all.map (·.2)) (toks : List Tok)
    (hs : List Header) (h : extractHeaders L toks = .ok hs) :
    (hs.map (·.rng.s)).Nodup ∧ ∀ hd ∈ hs, ∀ hd' ∈ hs, hd.rng.s = hd'.rng.s → hd = hd' := by
  have hnd := extractHeaders_starts_nodup L hL h
  refine ⟨hnd, ?_⟩
  clear h
  induction hs with
  | nil => intro hd hhd; cases hhd
  | cons a l ih =>
    rw [List.map_cons, List.nodup_cons] at hnd
    intro hd hhd hd' hhd' heq
    rcases List.mem_cons.1 hhd with rfl | h1
    · rcases List.mem_cons.1 hhd' with rfl | h2
      · rfl
      · exact absurd (heq ▸ List.mem_map_of_mem (f := fun h : Header => h.rng.s) h2) hnd.1
    · rcases List.mem_cons.1 hhd' with rfl | h2
      · exact absurd (heq ▸ List.mem_map_of_mem (f := fun h : Header => h.rng.s) h1) hnd.1
      · exact ih hnd.2 hd h1 hd' h2 heq

/-- A canonical header is extracted, exactly once: if `(p, f)` is a greedy match of one of the
language's patterns, isolated in the sense of `canonical_header_found`, followed by the pattern's
follow-up tokens (`{` ...), and (Java) not preceded by `new` / `record`, then
`extract_headers` returns a header with token range `[p, f)` whose name is the first name token
of `toks[p..f)`, and it is the only returned header that starts at `p`. -/
theorem canonical_header_extracted (L : Language) (hL : L ∈ Gen.all.map (·.2)) (hp : HeaderPat)
    (hhp : hp ∈ L.pats) (D : Dfa Pred) (hD : compileTok hp.expr = .ok D) (toks : List Tok)
    (hs : List Header) (h : extractHeaders L toks = .ok hs) (p f : Nat)
    (hg : GreedyAt (dfaMachine D tokAcceptor) toks p f)
    (hbefore : ∀ q f', q < p → GreedyAt (dfaMachine D tokAcceptor) toks q f' →
      ¬ (p < f' ∧ f' ≤ f))
    (hafter : ∀ q f', p < q → GreedyAt (dfaMachine D tokAcceptor) toks q f' → ¬ f' < f)
    (hfollow : FollowsAt hp.follow toks f) (hprev : PrevOk L toks p) :
    ∃ hd ∈ hs, hd.rng = ⟨p, f⟩ ∧ firstName (slice toks p f) = .ok hd.name ∧
      ∀ hd' ∈ hs, hd'.rng.s = p → hd' = hd := by
  obtain ⟨ms, hms⟩ := C15.findAll_total L hL hp hhp toks D hD
  obtain ⟨hnn, hds⟩ := shipped_machine L hL hp hhp D hD
  have hnp : ¬ ∃ m ∈ ms, (m.s < p ∧ p < m.e ∧ m.e ≤ f) ∨ (p < m.s ∧ m.e < f) := by
    rintro ⟨m, hm, hcase⟩
    have hgm := C14.greedy hnn hds hms m hm
    rcases hcase with ⟨h1, h2, h3⟩ | ⟨h1, h2⟩
    · exact hbefore m.s m.e h1 hgm ⟨h2, h3⟩
    · exact hafter m.s m.e h1 hgm h2
  obtain ⟨hd, hhd, hr, hname⟩ := (headers_found_iff L hL toks hs h p f).2
    ⟨hp, hhp, D, ms, hD, hms, hg, hnp, hfollow, hprev⟩
  refine ⟨hd, hhd, hr, hname, ?_⟩
  intro hd' hhd' hs'
  exact (extracted_once L hL toks hs h).2 hd' hhd' hd hhd (by rw [hs', hr])

/-! ## 3a. every measurement is the measurement of an extracted header -/

/-- "reports nothing that is not a function definition", ENGINE form: for every text and every
lexer output (no hypothesis on it), every measurement of the file starts at the position of the
first token of a header returned by `extract_headers` on the code tokens, carries that header's
name, and that header is a greedy match of one of the language's header patterns, followed by the
pattern's follow-up tokens and not preceded by an excluded keyword.

This statement speaks about the compiled DFA (`GreedyAt`, `FollowsAt`) and says nothing about the
end or the length of the measurement.  The form a reader can check on a source file -
`Name ( … )+ {` etc., with end and length, and "no function twice" - is
`C01syn.measurement_is_synHeader` (`…_java`, `…_js`, `…_ts`), `C01pyfull.measurement_is_defHeader`,
`C01syn.measurements_start_distinct`. -/
theorem measurement_is_header (L : Language) (hL : L ∈ Gen.all.map (·.2)) (code : Str)
    (raw : List RawTok) (ms : List Measurement) (n : Nat)
    (ha : analyze L code raw = .ok (ms, n)) :
    ∀ m ∈ ms, ∃ hs hd first,
      extractHeaders L (filterTokens false (lex code raw false)) = .ok hs ∧ hd ∈ hs ∧
      (filterTokens false (lex code raw false))[hd.rng.s]? = some first ∧
      (m.sl, m.sc) = (first.line, first.col) ∧ m.name = hd.name.val ∧
      ∃ hp ∈ L.pats, ∃ D, compileTok hp.expr = .ok D ∧
        GreedyAt (dfaMachine D tokAcceptor) (filterTokens false (lex code raw false))
          hd.rng.s hd.rng.e ∧
        FollowsAt hp.follow (filterTokens false (lex code raw false)) hd.rng.e ∧
        PrevOk L (filterTokens false (lex code raw false)) hd.rng.s ∧
        firstName (slice (filterTokens false (lex code raw false)) hd.rng.s hd.rng.e) =
          .ok hd.name := by
  intro m hm
  obtain ⟨hs, hd, first, hhs, hhd, hfirst, hpos, hname⟩ :=
    measurement_from_header L hL (lex code raw false) (analyze_scan ha) m hm
  exact ⟨hs, hd, first, hhs, hhd, hfirst, hpos, hname, extracted_is_header L hL _ hs hhs hd hhd⟩

/-! ## 4. non-vacuity, and the KF1 situation on a shipped pattern -/

open CL.Ex

/-- the C tokens of `int f ( int a ) { }` -/
def canonToks : List Tok :=
  [kwT [105,110,116] 1 1, nmT [102] 1 5, puT [40] 1 6, kwT [105,110,116] 1 7, nmT [97] 1 11,
   puT [41] 1 12, puT [123] 1 14, puT [125] 1 15]

/-- the C tokens of `f ( g ( x ) ) { }`: a function whose parameter list contains a call-shaped
group -/
def kf1Toks : List Tok :=
  [nmT [102] 1 1, puT [40] 1 2, nmT [103] 1 3, puT [40] 1 4, nmT [120] 1 5, puT [41] 1 6,
   puT [41] 1 7, puT [123] 1 9, puT [125] 1 10]

/-- the C tokens of `h ( f ( x )` followed by the end of the input -/
def enclToks : List Tok :=
  [nmT [104] 1 1, puT [40] 1 2, nmT [102] 1 3, puT [40] 1 4, nmT [120] 1 5, puT [41] 1 6]

/-- A canonical header: on `int f ( int a ) { }` the hypotheses of
`canonical_header_found_shape` / `canonical_header_extracted` hold for the C pattern at
`(p, f) = (1, 6)` (`f ( int a )`), and `extract_headers` returns exactly that header, named `f`. -/
example : ∀ hp ∈ Gen.c.pats, ∀ D, compileTok hp.expr = .ok D →
    GreedyAt (dfaMachine D tokAcceptor) canonToks 1 6 ∧
    (∀ q f', q < 1 → GreedyAt (dfaMachine D tokAcceptor) canonToks q f' → ¬ (1 < f' ∧ f' ≤ 6)) ∧
    (∀ q, 1 < q → q + 2 < 6 → startShapeB D canonToks q = false) ∧
    FollowsAt hp.follow canonToks 6 ∧ PrevOk Gen.c canonToks 1 ∧
    extractHeaders Gen.c canonToks = .ok [⟨nmT [102] 1 5, ⟨1, 6⟩⟩] ∧
    ∃ hd ∈ ([⟨nmT [102] 1 5, ⟨1, 6⟩⟩] : List Header), hd.rng = ⟨1, 6⟩ ∧
      firstName (slice canonToks 1 6) = .ok hd.name := by
  have hL : Gen.c ∈ Gen.all.map (·.2) := by simp [Gen.all]
  have hchk : Gen.c.pats.all (fun hp => greedyCheck hp.expr canonToks 1 6 &&
      noShapeCheck hp.expr canonToks 1 6 && followsAtB hp.follow canonToks 6) = true := by
    decide +kernel
  have hex : extractHeaders Gen.c canonToks = .ok [⟨nmT [102] 1 5, ⟨1, 6⟩⟩] :=
    okEq_sound (by decide +kernel)
  intro hp hhp D hD
  have h := List.all_eq_true.1 hchk hp hhp
  simp only [Bool.and_eq_true] at h
  obtain ⟨⟨h1, h2⟩, h3⟩ := h
  have hg := greedyCheck_sound h1 hD
  have hns := noShapeCheck_sound h2 hD
  have hfo := (followsAtB_iff _ _ _).1 h3
  have hprev : PrevOk Gen.c canonToks 1 := by simp [PrevOk, Gen.c]
  have hbefore : ∀ q f', q < 1 → GreedyAt (dfaMachine D tokAcceptor) canonToks q f' →
      ¬ (1 < f' ∧ f' ≤ 6) := by
    intro q f' hq hg' _
    have := (greedy_has_start_shape Gen.c hL hp hhp D hD canonToks q f' hg').1
    rw [hns q (by omega) (by omega)] at this
    cases this
  refine ⟨hg, hbefore, fun q hq hlt => hns q (by omega) hlt, hfo, hprev, hex, ?_⟩
  obtain ⟨hd, hhd, hr, hname, _⟩ := canonical_header_extracted Gen.c hL hp hhp D hD canonToks _ hex
    1 6 hg hbefore (by
      intro q f' hq hg' hlt
      obtain ⟨hshape, hlen⟩ := greedy_has_start_shape Gen.c hL hp hhp D hD canonToks q f' hg'
      rw [hns q (by omega) (by omega)] at hshape
      cases hshape) hfo hprev
  exact ⟨hd, hhd, hr, hname⟩

/-- KF1 on the shipped C pattern: in `f ( g ( x ) ) { }` the header `f ( g ( x ) )` = `(0, 7)`
is a greedy match, is followed by `{`, is not inside any enclosing group - and is NOT reported:
`find_all` reports only the call-shaped group `g ( x )` = `(2, 6)` inside the parameter list
(it finishes earlier and discards the attempt from `f`), which then fails the follow-up test.
`extract_headers` returns nothing: the function `f` is lost.  Position 2 has the start shape
`Name (`, so `hafter` / `hnoshape` of the theorems above fail, as they must. -/
theorem kf1_outer_function_lost : ∀ hp ∈ Gen.c.pats, ∀ D, compileTok hp.expr = .ok D →
    GreedyAt (dfaMachine D tokAcceptor) kf1Toks 0 7 ∧ FollowsAt hp.follow kf1Toks 7 ∧
    PrevOk Gen.c kf1Toks 0 ∧
    (∃ ms, findAll (dfaMachine D tokAcceptor) kf1Toks = .ok ms ∧
      ms.map (fun m => (m.s, m.e)) = [(2, 6)] ∧
      (∃ m ∈ ms, 0 < m.s ∧ m.e < 7) ∧ ¬ ∃ m ∈ ms, m.s = 0 ∧ m.e = 7) ∧
    GreedyAt (dfaMachine D tokAcceptor) kf1Toks 2 6 ∧ startShapeB D kf1Toks 2 = true ∧
    ¬ FollowsAt hp.follow kf1Toks 6 ∧
    extractHeaders Gen.c kf1Toks = .ok [] := by
  have hchk : Gen.c.pats.all (fun hp => greedyCheck hp.expr kf1Toks 0 7 &&
      followsAtB hp.follow kf1Toks 7 && findAllCheck hp.expr kf1Toks [(2, 6)] &&
      greedyCheck hp.expr kf1Toks 2 6 && !followsAtB hp.follow kf1Toks 6 &&
      (match compileTok hp.expr with | .ok D => startShapeB D kf1Toks 2 | .error _ => false)) =
      true := by
    decide +kernel
  have hex : extractHeaders Gen.c kf1Toks = .ok [] := okEq_sound (by decide +kernel)
  intro hp hhp D hD
  have h := List.all_eq_true.1 hchk hp hhp
  simp only [Bool.and_eq_true, Bool.not_eq_true'] at h
  obtain ⟨⟨⟨⟨⟨h1, h2⟩, h3⟩, h4⟩, h5⟩, h6⟩ := h
  rw [hD] at h6
  obtain ⟨ms, hms, hext⟩ := findAllCheck_sound h3 hD
  refine ⟨greedyCheck_sound h1 hD, (followsAtB_iff _ _ _).1 h2, by simp [PrevOk, Gen.c],
    ⟨ms, hms, hext, ?_, ?_⟩, greedyCheck_sound h4 hD, h6, ?_, hex⟩
  · have hmem : (2, 6) ∈ ms.map (fun m => (m.s, m.e)) := by rw [hext]; simp
    obtain ⟨m, hm, he⟩ := List.mem_map.1 hmem
    obtain ⟨he1, he2⟩ := Prod.mk.inj he
    exact ⟨m, hm, by omega, by omega⟩
  · rintro ⟨m, hm, h1', h2'⟩
    have : (m.s, m.e) ∈ ms.map (fun m => (m.s, m.e)) := List.mem_map_of_mem hm
    rw [hext, h1', h2'] at this
    simp at this
  · intro hf
    rw [← followsAtB_iff, h5] at hf
    cases hf

/-- KF1 end to end, on a text: analysing the C text `f(g(x)){}` (tokens `f ( g ( x ) ) { }`)
reports no function at all -/
example :
    let code : Str := [102, 40, 103, 40, 120, 41, 41, 123, 125]
    let raw : List RawTok :=
      [⟨0, 2, 2, [102]⟩, ⟨1, 3, 3, [40]⟩, ⟨2, 2, 2, [103]⟩, ⟨3, 3, 3, [40]⟩, ⟨4, 2, 2, [120]⟩,
       ⟨5, 3, 3, [41]⟩, ⟨6, 3, 3, [41]⟩, ⟨7, 3, 3, [123]⟩, ⟨8, 3, 3, [125]⟩]
    RawOk code raw ∧ analyze Gen.c code raw = .ok ([], 0) :=
  ⟨by decide, analyze_eval (by decide +kernel) rfl⟩

/-- `hbefore` matters only at the end of the input: in `h ( f ( x )` (unclosed call, end of
input) both `h ( f ( x )` = `(0, 6)` and `f ( x )` = `(2, 6)` are greedy matches finishing
together; the earlier start is committed first and `f ( x )` is not reported. -/
example : ∀ hp ∈ Gen.c.pats, ∀ D, compileTok hp.expr = .ok D →
    GreedyAt (dfaMachine D tokAcceptor) enclToks 2 6 ∧
    GreedyAt (dfaMachine D tokAcceptor) enclToks 0 6 ∧
    ∃ ms, findAll (dfaMachine D tokAcceptor) enclToks = .ok ms ∧
      ms.map (fun m => (m.s, m.e)) = [(0, 6)] := by
  have hchk : Gen.c.pats.all (fun hp => greedyCheck hp.expr enclToks 2 6 &&
      greedyCheck hp.expr enclToks 0 6 && findAllCheck hp.expr enclToks [(0, 6)]) = true := by
    decide +kernel
  intro hp hhp D hD
  have h := List.all_eq_true.1 hchk hp hhp
  simp only [Bool.and_eq_true] at h
  exact ⟨greedyCheck_sound h.1.1 hD, greedyCheck_sound h.1.2 hD, findAllCheck_sound h.2 hD⟩

/-- the quantifiers over languages and patterns are inhabited, and every pattern compiles -/
example : ∃ L ∈ Gen.all.map (·.2), ∃ hp ∈ L.pats, ∃ D, compileTok hp.expr = .ok D := by
  have hL : Gen.c ∈ Gen.all.map (·.2) := by simp [Gen.all]
  obtain ⟨hp, hhp⟩ : ∃ hp, hp ∈ Gen.c.pats := ⟨_, List.mem_cons_self ..⟩
  exact ⟨Gen.c, hL, hp, hhp, C15.header_compiles Gen.c hL hp hhp⟩

end CL.C01disc
